"""C10 — rate 3/4 trellis coding is lossless for every 144-bit block (DESIGN §5 C10).

Correspondence: `Trellis34.encode` / `decode` (bits and bytes entry points, `as_bytes`), the ten stage
functions (also on inputs of the wrong length / with values outside the tables, for the error paths)
against the Lean model `Model/Trellis.lean` through `drv_c10`.

Oracle (the property on the real code, nothing from the model): length 196, round trip for bits and
bytes, agreement of the two entry points, interleave/deinterleave inverse on 98 distinct markers, and
rejection of every stream that contains a constellation point the encoder cannot emit from the state
reached at that position.  Reachability is computed here, from the tables only (`Ref`), never by
calling the stage functions of the implementation.

Histories (hardening, result aliasing / shared mutable state): every argument and every result of
the two entry points and the ten stage functions is an *object the caller keeps* (`run_history`).
All kept objects are read again after every step and at the end; returned mutable objects are edited
in place (flip / put, extend, del, clear, slice assignment, reverse) and the same and other inputs
are submitted again; argument objects are reused across calls and edited between calls; every
accepted container type of an argument (big/little/frozen bitarray, list, tuple, bytes/bytearray of
0/1, array typecodes, bytes) must give the same answer; `is`-identity between a result and any
object held so far is chased with an edit.  Every answer is compared with a table-only reference
(`Ref.apply`, no history) and, through `drv_c10`, with the Lean store model (`Model/TrellisStore.lean`).
"""
import importlib
import json
import os
import subprocess
import sys
import tempfile
import time
from array import array

from bitarray import bitarray, frozenbitarray

from common import BIN, bits_str, hex_str, impl_error

PROP = "C10"
MODULES = ["C10", "C10t"]
GEN = ["Trellis", "TranslTrellis"]
MATCHERS = {}

# captured packets of okdmr/tests/dmrlib/etsi/fec/test_trellis.py: decoded octets
CORPUS_HEX = [
    "006200014100480019804a00200054004100",
    "02f24400590020004d004100520045004b00",
    "0538000000000000000000000000f486aed8",
]
# … and the on-air stream of test_deterministics
CORPUS_STREAMS = [
    "0010010100100010001000100010001000100010101001100011001010110010001000100010001000100010001000100110100000100010"
    "001000100010001000100010011110010001010100100010001000100010001000100010110000010001",
]


def T():
    from okdmr.dmrlib.etsi.fec.trellis import Trellis34

    return Trellis34


def call(fn, *a, **kw):
    try:
        return fn(*a, **kw)
    except BaseException as e:  # noqa: every exception of the real code is an observable
        return impl_error(e)


def is_err(x) -> bool:
    return isinstance(x, str) and x.startswith("ERR ")


# ---- canonical forms -----------------------------------------------------------------------------
def cbits(x) -> str:
    if is_err(x):
        return x
    s = bits_str(x)
    return s if s else "-"


def cints(x) -> str:
    if is_err(x):
        return x
    xs = [str(int(v)) for v in x]
    return ",".join(xs) if xs else "-"


def cbytes(x) -> str:
    if is_err(x):
        return x
    return hex_str(bytes(x))


def arg_bits(s: str) -> str:
    return s if s else "-"


def arg_ints(xs) -> str:
    return ",".join(str(int(v)) for v in xs) if len(xs) else "-"


# ---- independent reference: tables only ----------------------------------------------------------
class Ref:
    """stream -> points and reachability, computed from the live tables (the same attributes the
    translator writes to Gen/Trellis.lean), without calling any Trellis34 function"""

    def __init__(self):
        t = T()
        self.M = list(t.TRELLIS34_INTERLEAVE_MATRIX)
        self.TR = list(t.TRELLIS34_ENCODER_STATE_TRANSITION)
        self.D = dict(t.TRELLIS34_DIBITS)
        self.CP = dict(t.TRELLIS34_CONSTELLATION_POINTS)
        # own inversions (not the module's reverse dicts), used only to *build* corrupted streams
        self.Dinv = {v: k for k, v in self.D.items()}
        self.CPinv = {v: k for k, v in self.CP.items()}

    def row(self, state):
        return self.TR[state * 8 : state * 8 + 8]

    def points_of_stream(self, s: str):
        """the 49 points the forward tables assign to a 196-bit stream (None if a look-up is impossible)"""
        try:
            d = [self.D[(int(s[i]), int(s[i + 1]))] for i in range(0, 196, 2)]
            dd = [None] * 98
            for i, m in enumerate(self.M):
                dd[m] = d[i]
            return [self.CP[(dd[i], dd[i + 1])] for i in range(0, 98, 2)]
        except (KeyError, IndexError, TypeError):
            return None

    def stream_of_points(self, pts):
        """some 196-bit stream whose points are `pts` (None if the tables do not allow building one)"""
        try:
            dd = []
            for p in pts:
                dd.extend(self.CPinv[p])
            d = [dd[m] for m in self.M]
            out = []
            for x in d:
                out.extend(self.Dinv[x])
            return "".join(str(b) for b in out)
        except (KeyError, IndexError):
            return None

    def first_unreachable(self, pts):
        """index of the first point no encoder path can emit at that position (None: a path exists).
        Tracks the *set* of encoder states compatible with the prefix, so it stays exact even for a
        table whose rows are not distinct."""
        states = {0}
        for i, p in enumerate(pts[:49]):
            nxt = set()
            for st in states:
                r = self.row(st)
                nxt.update(k for k in range(len(r)) if r[k] == p)
            if not nxt:
                return i
            states = nxt
        return None

    def path(self, pts):
        """the tribits along the unique path (None if not unique / not reachable)"""
        st, out = 0, []
        for p in pts[:49]:
            hits = [k for k, x in enumerate(self.row(st)) if x == p]
            if len(hits) != 1:
                return None
            st = hits[0]
            out.append(st)
        return out


def tribits_to_block(ts) -> str:
    return "".join(format(t & 7, "03b") for t in ts[:48])


def _ref_chain(self, block: str):
    """every intermediate value of encode(block) from the tables alone (keys: B O TS P DD DI S);
    None if the tables do not allow it"""
    try:
        ts = [int(block[i : i + 3], 2) for i in range(0, 144, 3)] + [0]
        st, pts = 0, []
        for x in ts:
            pts.append(self.TR[st * 8 + x])
            st = x
        dd = []
        for q in pts:
            dd.extend(self.CPinv[q])
        di = [dd[m] for m in self.M]
        out = []
        for x in di:
            out.extend(self.Dinv[x])
        return {"B": block, "O": bitarray(block).tobytes().hex(), "TS": ts, "P": pts, "DD": dd, "DI": di,
                "S": "".join(str(b) for b in out)}
    except (KeyError, IndexError, ValueError):
        return None


def _ref_apply(self, fn: str, kind: str, val):
    """history-free answer of `fn` on an argument of kind `kind` with content `val` (bits: str, numbers:
    list, octets: bytes), as a canonical object string; "ERR" = must raise; None = the reference is silent
    (left to the model and to the first answer in the same history)"""
    try:
        if fn == "encode":
            if kind == "l":
                return None  # outside the property (theorem little_endian_argument): model only
            bits = val if kind == "b" else "".join(format(x, "08b") for x in val)
            if len(bits) < 144:
                return "ERR"
            ch = self.chain(bits[:144])
            return None if ch is None else "b:" + ch["S"]
        if fn in ("decode", "decode_bytes"):
            if len(val) != 196:
                return "ERR"
            pts = self.points_of_stream(val)
            if pts is None:
                return None
            if self.first_unreachable(pts) is not None:
                return "ERR"
            path = self.path(pts)
            if path is None:
                return None
            block = tribits_to_block(path)
            return "b:" + block if fn == "decode" else "o:" + bitarray(block).tobytes().hex()
        if fn == "bits_to_dibits":
            if len(val) % 2:
                return "ERR"
            return "i:" + cints([self.D[(int(val[i]), int(val[i + 1]))] for i in range(0, len(val), 2)])
        if fn == "bits_to_tribits":
            if kind == "l":
                return None
            return "n:" + cints([int(val[i : i + 3], 2) for i in range(0, len(val), 3)] + [0])
        if fn == "dibits_to_bits":
            if any(x not in self.Dinv for x in val):
                return "ERR"
            return "b:" + ("".join(str(b) for x in val for b in self.Dinv[x]) or "-")
        if fn == "deinterleave":
            if len(val) != 98 or len(self.M) != 98:
                return None
            out = [None] * 98
            for i, m in enumerate(self.M):
                out[m] = val[i]
            return None if None in out else "i:" + cints(out)
        if fn == "interleave":
            if len(val) != 98 or len(self.M) != 98:
                return None
            return "i:" + cints([val[m] for m in self.M])
        if fn == "dibits_to_points":
            if len(val) % 2:
                return "ERR"
            if any((val[i], val[i + 1]) not in self.CP for i in range(0, len(val), 2)):
                return "ERR"
            return "n:" + cints([self.CP[(val[i], val[i + 1])] for i in range(0, len(val), 2)])
        if fn == "points_to_dibits":
            if any(q not in self.CPinv for q in val):
                return "ERR"
            return "i:" + cints([x for q in val for x in self.CPinv[q]])
        if fn == "points_to_tribits":
            if len(val) < 49:
                return "ERR"
            if self.first_unreachable(val[:49]) is not None:
                return "ERR"
            path = self.path(val[:49])
            return None if path is None else "n:" + cints(path)
        if fn == "tribits_to_points":
            if any(not 0 <= x < 8 for x in val):
                return None
            st, pts = 0, []
            for x in val:
                pts.append(self.TR[st * 8 + x])
                st = x
            return "n:" + cints(pts)
        if fn == "tribits_to_bits":
            if len(val) != 49:
                return "ERR"
            return "b:" + "".join(format(x & 7, "03b") for x in val[:48])
    except (KeyError, IndexError, ValueError, TypeError):
        return None
    return None


Ref.chain = _ref_chain
Ref.apply = _ref_apply


# ---- the property on the real code ---------------------------------------------------------------
def oracle_block(block: str, keep=None):
    """block: 144 chars of 0/1.  Returns (failures, observables) on the real code.  `keep`: a list that
    receives (block, stream object, its content, decoded object, its content) — the caller keeps what it got"""
    t = T()
    fails = []
    octets = bitarray(block).tobytes()
    enc = call(t.encode, bitarray(block))
    obs = {"encode": cbits(enc)}
    if is_err(enc):
        fails.append(("encode-raises", f"encode of a 144-bit block raised {enc}", "196 bits", enc))
        return fails, obs
    if len(enc) != 196:
        fails.append(("length", f"encode yields {len(enc)} bits", 196, len(enc)))
    dec = call(t.decode, bitarray(enc))
    obs["decode"] = cbits(dec)
    if is_err(dec) or bits_str(dec) != block:
        fails.append(("round-trip", "decode(encode(block)) is not the block", block, cbits(dec)))
    if keep is not None:
        keep.append((block, enc, bits_str(enc), dec, cbits(dec)))
    encb = call(t.encode, octets)
    obs["encode_bytes"] = cbits(encb)
    if is_err(encb) or bits_str(encb) != bits_str(enc):
        fails.append(("bytes-bits-differ", "encode(bytes) differs from encode(bits) of the same block", cbits(enc), cbits(encb)))
    decb = call(t.decode, bitarray(enc), True)
    obs["decode_bytes"] = cbytes(decb)
    if is_err(decb) or not isinstance(decb, bytes) or decb != octets:
        fails.append(("round-trip-bytes", "decode(encode(octets), as_bytes=True) is not the 18 octets", octets.hex(), cbytes(decb)))
    return fails, obs


def oracle_stream(ref: Ref, stream: str):
    """a received 196-bit stream: unreachable point => must be rejected.  Returns (failures, observable, info)"""
    t = T()
    dec = call(t.decode, bitarray(stream))
    out = cbits(dec)
    fails = []
    pts = ref.points_of_stream(stream)
    info = {"points": pts, "first_unreachable": None}
    if pts is not None:
        bad = ref.first_unreachable(pts)
        info["first_unreachable"] = bad
        if bad is not None and not is_err(dec):
            fails.append((
                "unreachable-accepted",
                f"point {pts[bad]} at position {bad} cannot be emitted from the state reached there, yet the stream was decoded",
                "rejected (exception)", out))
        if bad is None:
            path = ref.path(pts)
            if path is not None:
                # if the stream is the real encoder's output for the block along its path, the round trip demands the block back
                want = tribits_to_block(path)
                re = call(t.encode, bitarray(want))
                info["is_encoder_output"] = (not is_err(re)) and bits_str(re) == stream
                if info["is_encoder_output"] and (is_err(dec) or bits_str(dec) != want):
                    fails.append(("round-trip", "an encoder output stream is not decoded to its block", want, out))
    return fails, out, info


def oracle_interleave(markers):
    """98 distinct markers: both compositions are the identity and positions are permuted"""
    t = T()
    fails = []
    a = array("b", markers)
    i = call(t.interleave, array("b", a))
    d = call(t.deinterleave, array("b", a))
    obs = {"interleave": cints(i), "deinterleave": cints(d)}
    if is_err(i) or is_err(d):
        fails.append(("interleave-raises", "interleave/deinterleave raised on 98 dibit positions", "98 values", f"{cints(i)[:30]} / {cints(d)[:30]}"))
        return fails, obs
    if sorted(i) != sorted(a) or sorted(d) != sorted(a) or len(i) != 98 or len(d) != 98:
        fails.append(("interleave-not-permutation", "interleave/deinterleave is not a permutation of the 98 positions", cints(sorted(a)), cints(sorted(i))))
    di = call(t.deinterleave, array("b", i))
    idd = call(t.interleave, array("b", d))
    if is_err(di) or list(di) != list(a):
        fails.append(("interleave-inverse", "deinterleave(interleave(d)) != d", cints(a), cints(di)))
    if is_err(idd) or list(idd) != list(a):
        fails.append(("interleave-inverse", "interleave(deinterleave(d)) != d", cints(a), cints(idd)))
    return fails, obs


# ---- generators ----------------------------------------------------------------------------------
def rand_block(rng) -> str:
    return format(rng.getrandbits(144), "0144b")


def block_of_tribits(ts) -> str:
    assert len(ts) == 48
    return "".join(format(t, "03b") for t in ts)


def structured_blocks(rng, reps: int):
    """(tag, block) — boundaries and every local situation of the state machine"""
    out = []
    for h in CORPUS_HEX:
        out.append(("corpus", bits_str(_ba_from_bytes(bytes.fromhex(h)))))
    out.append(("all-zero", "0" * 144))
    out.append(("all-one", "1" * 144))
    for i in range(144):
        out.append(("single-bit", "0" * i + "1" + "0" * (143 - i)))
    for i in range(144):
        out.append(("single-zero", "1" * i + "0" + "1" * (143 - i)))
    # each tribit value at each position, rest zero and rest random
    for pos in range(48):
        for v in range(8):
            ts = [0] * 48
            ts[pos] = v
            out.append(("tribit-at-position", block_of_tribits(ts)))
    # every (state, tribit) transition forced: at the first step (state 0), in the middle, at the end
    for _ in range(reps):
        for s in range(8):
            for v in range(8):
                ts = [rng.randrange(8) for _ in range(48)]
                pos = rng.randrange(47)
                ts[pos], ts[pos + 1] = s, v
                out.append(("transition-forced", block_of_tribits(ts)))
                ts = [rng.randrange(8) for _ in range(48)]
                ts[46], ts[47] = s, v  # last data transition, then (v, flush 0)
                out.append(("transition-at-end", block_of_tribits(ts)))
        for v in range(8):
            ts = [rng.randrange(8) for _ in range(48)]
            ts[0] = v  # (state 0, v) at the first step
            out.append(("first-step", block_of_tribits(ts)))
        # all 64 transitions in one block: a de Bruijn-like walk
        seq = debruijn_pairs(rng)
        for k in range(0, len(seq) - 47, 16):
            out.append(("all-transitions-walk", block_of_tribits(seq[k : k + 48])))
    out += aggregate_blocks()
    return out


def aggregate_blocks():
    """whole-block aggregates at their extremes.  Every stage of the codec is a local map, so a statistic of the
    WHOLE block (how many symbols of one class, the sum of magnitudes) stays near its mean for random and for
    single-position inputs.  (1) periodic tribit fills of period 1, 2, 3: walks confined to one, two or three
    states; (2) for every class of dibit values and of constellation points, the walk through the state machine
    that maximises / minimises the number of symbols of that class (dynamic programming over the library's own
    transition and constellation tables; 49 steps with the flushing tribit)."""
    out = []
    for a in range(8):
        out.append(("periodic-1", block_of_tribits([a] * 48)))
        for b in range(8):
            if b != a:
                out.append(("periodic-2", block_of_tribits([a, b] * 24)))
            for c in range(8):
                if not (a == b == c):
                    out.append(("periodic-3", block_of_tribits([a, b, c] * 16)))
    try:
        tr = T().TRELLIS34_ENCODER_STATE_TRANSITION
        rev = T().TRELLIS34_CONSTELLATION_POINTS_REVERSE
        pts = {p: tuple(rev[p]) for p in set(tr)}
    except Exception:
        return out
    classes = []
    for name, pred in (("outer", lambda d: abs(d) == 3), ("inner", lambda d: abs(d) == 1), ("positive", lambda d: d > 0),
                       ("negative", lambda d: d < 0), ("plus3", lambda d: d == 3), ("minus3", lambda d: d == -3),
                       ("plus1", lambda d: d == 1), ("minus1", lambda d: d == -1)):
        classes.append((name, {p: sum(1 for d in ds if pred(d)) for p, ds in pts.items()}))
    for k in range(0, 16, 4):
        classes.append((f"points-{k}..{k + 3}", {p: int(k <= p < k + 4) for p in pts}))
    classes.append(("magnitude", {p: sum(abs(d) for d in ds) for p, ds in pts.items()}))
    for name, w in classes:
        for sign in (1, -1):
            # best[s] = (score, tribits) of the best walk ending in state s
            best = {0: (0, [])}
            for step in range(48):
                nxt = {}
                for st, (sc, ts) in best.items():
                    for t in range(8):
                        v = sc + sign * w[tr[st * 8 + t]]
                        if t not in nxt or v > nxt[t][0]:
                            nxt[t] = (v, ts + [t])
                best = nxt
            # the 49th symbol is the flush (tribit 0) from the final state
            fin = max(best.items(), key=lambda kv: kv[1][0] + sign * w[tr[kv[0] * 8 + 0]])
            out.append((f"aggregate-{'max' if sign > 0 else 'min'}-{name}", block_of_tribits(fin[1][1])))
    return out


def debruijn_pairs(rng):
    """a sequence over 0..7 in which every ordered pair occurs (Eulerian circuit of the complete digraph)"""
    succ = {s: list(range(8)) for s in range(8)}
    for s in succ:
        rng.shuffle(succ[s])
    stack, circuit = [0], []
    while stack:
        v = stack[-1]
        if succ[v]:
            stack.append(succ[v].pop())
        else:
            circuit.append(stack.pop())
    seq = circuit[::-1]  # 65 symbols, 64 distinct consecutive pairs
    return seq + seq[1:48]


def _ba_from_bytes(b: bytes) -> bitarray:
    x = bitarray(endian="big")
    x.frombytes(b)
    return x


# ---- histories: arguments and results as objects the caller keeps ---------------------------------
SIGNED, UNSIGNED = "bhilq", "BHILQ"
TRELLIS_MODULE = "okdmr.dmrlib.etsi.fec.trellis"
FAIL_CAP = 3

# (kind, form) of an argument object; kinds: b = big-endian bitarray or any other 0/1 sequence, l = little-endian
# bitarray, i = signed numbers (dibits), n = unsigned numbers (points / tribits), o = bytes
BITARRAY_FORMS = [("b", "ba"), ("b", "fz"), ("l", "le")]
SEQ01_FORMS = BITARRAY_FORMS + [("b", "lst"), ("b", "tup"), ("b", "b01"), ("b", "ba01")]
INT_FORMS = [("i", f) for f in ("ab", "ah", "aq", "lst", "tup")]
NAT_FORMS = [("n", f) for f in ("aB", "aH", "aQ", "lst", "tup")]
MUTABLE_FORMS = {"ba", "le", "lst", "ba01", "ab", "ah", "aq", "aB", "aH", "aQ"}
# function -> accepted argument forms ("where accepted": what the code as it exists takes without raising on valid content)
FUNCS = {
    "encode": BITARRAY_FORMS + [("o", "by")],
    "decode": SEQ01_FORMS,
    "decode_bytes": SEQ01_FORMS,
    "bits_to_dibits": SEQ01_FORMS,
    "bits_to_tribits": BITARRAY_FORMS,
    "dibits_to_bits": INT_FORMS,
    "deinterleave": INT_FORMS,
    "interleave": INT_FORMS,
    "dibits_to_points": INT_FORMS,
    "points_to_dibits": NAT_FORMS,
    "points_to_tribits": NAT_FORMS,
    "tribits_to_points": NAT_FORMS,
    "tribits_to_bits": NAT_FORMS,
}
# which value of a block's chain (Ref.chain) is a valid argument of the function
VALID_ARG = {
    "encode": "B", "decode": "S", "decode_bytes": "S", "bits_to_dibits": "S", "bits_to_tribits": "B",
    "dibits_to_bits": "DI", "deinterleave": "DI", "interleave": "DD", "dibits_to_points": "DD",
    "points_to_dibits": "P", "points_to_tribits": "P", "tribits_to_points": "TS", "tribits_to_bits": "TS",
}
CHAIN_KIND = {"B": "b", "S": "b", "O": "o", "DI": "i", "DD": "i", "P": "n", "TS": "n"}
# kind token of the right-hand side of an extend / slice assignment on an object of the given kind
RHS_KIND = {"b": "b", "l": "b", "i": "i", "n": "n", "o": None}


def fresh_module():
    """re-execute the trellis module: class-level state (tables, and whatever else a change may keep there) starts
    from scratch, as in a new process.  Every history starts like this, so a recorded history replays on its own."""
    m = sys.modules.get(TRELLIS_MODULE)
    if m is None:
        importlib.import_module(TRELLIS_MODULE)
    else:
        importlib.reload(m)


def endian_of(x) -> str:
    e = x.endian
    return e() if callable(e) else e


def enc_val(kind: str, val) -> str:
    """content -> the token used in steps / model lines"""
    if kind in ("b", "l"):
        return val if val else "-"
    if kind == "o":
        return val.hex() if val else "-"
    return ",".join(str(int(v)) for v in val) if len(val) else "-"


def dec_val(kind: str, tok: str):
    if kind in ("b", "l"):
        return "" if tok == "-" else tok
    if kind == "o":
        return b"" if tok == "-" else bytes.fromhex(tok)
    return [] if tok == "-" else [int(v) for v in tok.split(",")]


def mk_obj(kind: str, form: str, val):
    if kind in ("b", "l"):
        if form == "ba":
            return bitarray(val)
        if form == "le":
            return bitarray(val, endian="little")
        if form == "fz":
            return frozenbitarray(val)
        xs = [int(c) for c in val]
        return {"lst": list, "tup": tuple, "b01": bytes, "ba01": bytearray}[form](xs)
    if kind == "o":
        return bytes(val)
    if form in ("lst", "tup"):
        return list(val) if form == "lst" else tuple(val)
    return array(form[1], val)


def canon_obj(x, kind=None) -> str:
    """'<kind>:<content>' of an object; `kind` is what the creator knows about a list / tuple / 0-1 octets"""
    if is_err(x):
        return x
    if isinstance(x, bitarray):
        return ("l:" if endian_of(x) == "little" else "b:") + (x.to01() or "-")
    if isinstance(x, array):
        return ("i:" if x.typecode in SIGNED else "n:") + cints(x)
    if kind == "b" and isinstance(x, (list, tuple, bytes, bytearray)):
        return "b:" + ("".join(str(int(v)) for v in x) or "-")
    if kind in ("i", "n") and isinstance(x, (list, tuple)):
        return f"{kind}:" + cints(x)
    if isinstance(x, bytes):
        return "o:" + (x.hex() or "-")
    return "ERR unexpected-type-" + type(x).__name__


def form_of_result(x):
    """(kind, form, mutable) under which a returned object can be passed on"""
    if isinstance(x, frozenbitarray):
        return ("b", "fz", False) if endian_of(x) == "big" else (None, None, False)
    if isinstance(x, bitarray):
        return ("b", "ba", True) if endian_of(x) == "big" else ("l", "le", True)
    if isinstance(x, array):
        if x.typecode in SIGNED:
            return ("i", "a" + x.typecode, True)
        if x.typecode in UNSIGNED:
            return ("n", "a" + x.typecode, True)
    if isinstance(x, bytes):
        return ("o", "by", False)
    return (None, None, False)


def split_canon(c: str):
    """'<kind>:<token>' -> (kind, content)"""
    k, tok = c.split(":", 1)
    return k, dec_val(k, tok)


def edit_value(kind: str, val, ed):
    """content after an in-place edit (pure); None if the edit does not apply"""
    op = ed[0]
    seq = list(val) if kind in ("b", "l") else list(val)
    if op == "flip":
        i = ed[1]
        if kind not in ("b", "l") or not 0 <= i < len(seq):
            return None
        seq[i] = "1" if seq[i] == "0" else "0"
    elif op == "put":
        i, v = ed[1], ed[2]
        if kind not in ("i", "n") or not 0 <= i < len(seq) or (kind == "n" and v < 0):
            return None
        seq[i] = v
    elif op == "extend":
        if RHS_KIND[kind] != ed[1]:
            return None
        seq = seq + list(dec_val(kind, ed[2]))
    elif op == "del":
        lo, hi = ed[1], ed[2]
        seq = seq[:lo] + seq[max(lo, hi):]
    elif op == "clear":
        seq = []
    elif op == "assign":
        if RHS_KIND[kind] != ed[1]:
            return None
        seq = list(dec_val(kind, ed[2]))
    elif op == "reverse":
        seq = seq[::-1]
    else:
        return None
    return "".join(seq) if kind in ("b", "l") else seq


def edit_object(x, kind: str, ed):
    """the same edit on the real object, in place (bitarray / array / list / bytearray are the trusted substrate)"""
    op = ed[0]
    if op == "flip":
        x[ed[1]] = 0 if x[ed[1]] else 1
        return
    if op == "put":
        x[ed[1]] = ed[2]
        return
    if op in ("extend", "assign"):
        v = dec_val(kind, ed[2])
        if isinstance(x, bitarray):
            rhs = bitarray(v, endian=endian_of(x))
        elif isinstance(x, array):
            rhs = array(x.typecode, v)
        elif isinstance(x, bytearray):
            rhs = bytes(int(c) for c in v)
        else:
            rhs = [int(c) for c in v]
        if op == "extend":
            x.extend(rhs)
        else:
            x[:] = rhs
        return
    if op == "del":
        del x[ed[1] : max(ed[1], ed[2])]
        return
    if op == "clear":
        del x[:]
        return
    if op == "reverse":
        x.reverse()
        return
    raise ValueError(op)


def impl_call(t, fn: str, obj):
    if fn == "decode_bytes":
        return call(t.decode, obj, True)
    return call(getattr(t, fn), obj)


def step_line(st) -> str:
    if st[0] == "new":
        return f"hs.new {st[1]} {st[3]}"
    if st[0] == "call":
        return f"hs.call {st[1]} {st[2]}"
    return "hs.edit " + " ".join(str(x) for x in st[1:])


def step_text(st) -> str:
    return " ".join(str(x) for x in st)


def tables_snapshot(t):
    names = ("TRELLIS34_INTERLEAVE_MATRIX", "TRELLIS34_ENCODER_STATE_TRANSITION", "TRELLIS34_DIBITS",
             "TRELLIS34_DIBITS_REVERSE", "TRELLIS34_CONSTELLATION_POINTS", "TRELLIS34_CONSTELLATION_POINTS_REVERSE")
    out = []
    for n in names:
        v = getattr(t, n, None)
        out.append(repr(list(v.items()) if isinstance(v, dict) else list(v) if v is not None else None))
    return out


def class_state(t):
    """the non-callable attributes of the class body (tables and whatever else a change may park there), as text"""
    out = {}
    for n, v in vars(t).items():
        if n.startswith("__") or callable(v) or isinstance(v, (staticmethod, classmethod, property)):
            continue
        try:
            out[n] = repr(v)[:400]
        except Exception:  # noqa
            out[n] = "<unprintable>"
    return out


class HistResult:
    def __init__(self):
        self.hidden = []   # class attributes that the calls of the history wrote (auxiliary, no verdict)
        self.lines = []    # (model line, implementation output)
        self.bad = []      # dict(kind, at, owner, expected, actual, fn, what)
        self.aliases = []  # (step index, new handle, old handle)
        self.held = []     # dict(obj, kind, form, mutable, exp, owner, role)
        self.calls = []    # (fn, argument content) per call
        self.steps = []


class Session:
    """
    A caller's history on the real code, from a fresh module state, keeping every argument and every result.
      ["new", kind, form, content]     the caller builds an argument object          (allocates the next handle)
      ["call", fn, handle]             Trellis34.fn(held[handle])                    (allocates the next handle)
      ["edit", handle, op, args…]      the caller edits held[handle] in place
    After every step the kept objects are read again (all of them; for a long history the last `window` ones and
    every 64th step all; at the end all): an object must hold what its creator put there / what the call returned,
    plus the caller's own edits, and nothing else.  Each call's answer is compared with the history-free
    reference and with the first answer to the same (function, argument content) in this history.
    """

    def __init__(self, ref: Ref, window=None):
        fresh_module()
        self.ref, self.window = ref, window
        self.t = T()
        self.tables0 = tables_snapshot(self.t)
        self.class0 = class_state(self.t)
        self.res = HistResult()
        self.held = self.res.held
        self.steps = self.res.steps
        self.by_id, self.first, self.reported = {}, {}, set()

    def _bad(self, kind, at, owner, expected, actual, fn, what):
        self.res.bad.append({"kind": kind, "at": at, "owner": owner, "expected": expected, "actual": actual, "fn": fn, "what": what})

    def _reread(self, at, lo=0):
        held, steps = self.held, self.steps
        for r in range(lo, len(held)):
            h = held[r]
            if h["obj"] is None or r in self.reported:
                continue
            cur = canon_obj(h["obj"], h["kind"])
            if cur != h["exp"]:
                self.reported.add(r)
                role = "argument object built in" if h["role"] == "arg" else "object returned by"
                fn = h.get("fn") or (steps[at][1] if steps[at][0] == "call" else None)
                self._bad("held-object-changed", at, h["owner"], h["exp"], cur, fn,
                          f"the {role} step {h['owner']} ({step_text(steps[h['owner']])}) changed its content during step {at} "
                          f"({step_text(steps[at])}) although the caller did not touch it")

    def _after(self):
        idx = len(self.steps) - 1
        if self.window is None or idx % 64 == 63:
            self._reread(idx)
        else:
            self._reread(idx, max(0, len(self.held) - self.window))

    def step(self, st):
        return {"new": self.new, "call": self.call, "edit": self.edit}[st[0]](*st[1:])

    def new(self, kind, form, tok) -> int:
        st = ["new", kind, form, tok]
        self.steps.append(st)
        obj = mk_obj(kind, form, dec_val(kind, tok))
        self.held.append({"obj": obj, "kind": kind, "form": form, "mutable": form in MUTABLE_FORMS,
                          "exp": canon_obj(obj, kind), "owner": len(self.steps) - 1, "role": "arg"})
        if form in MUTABLE_FORMS:
            self.by_id[id(obj)] = len(self.held) - 1
        self.res.lines.append((step_line(st), str(len(self.held) - 1)))
        self._after()
        return len(self.held) - 1

    def call(self, fn, r) -> int:
        st = ["call", fn, r]
        self.steps.append(st)
        idx = len(self.steps) - 1
        held = self.held
        a = held[r]
        ref_n = len(held)
        if a["obj"] is None or a["kind"] is None or (a["kind"], a["form"]) not in FUNCS[fn]:
            # not a call the harness makes (only reachable while shrinking): keep the handles aligned, say nothing
            held.append({"obj": None, "kind": None, "form": None, "mutable": False, "exp": "ERR not-called", "owner": idx, "role": "res", "fn": fn})
            return ref_n
        akind, aval = split_canon(a["exp"])
        out = impl_call(self.t, fn, a["obj"])
        self.res.calls.append((fn, a["exp"]))
        c = canon_obj(out)
        self.res.lines.append((step_line(st), f"{ref_n} {c}"))
        want = self.ref.apply(fn, akind, aval)
        wrong = False
        if want == "ERR":
            if not is_err(c):
                wrong = True
                self._bad("wrong-result-in-history", idx, idx, "rejected (exception)", c, fn,
                          f"step {idx} ({step_text(st)}) of a history is answered although the argument (content {a['exp']}) must be refused")
        elif want is not None and c != want:
            wrong = True
            self._bad("wrong-result-in-history", idx, idx, want, c, fn,
                      f"step {idx} ({step_text(st)}) of a history returns a wrong result (argument content {a['exp']})")
        key = (fn, a["exp"])
        if key not in self.first:
            self.first[key] = (idx, c)
        elif self.first[key][1] != c and not wrong:
            f0 = self.first[key]
            self._bad("result-depends-on-history", idx, idx, f0[1], c, fn,
                      f"step {idx} ({step_text(st)}) answers differently from step {f0[0]} ({step_text(self.steps[f0[0]])}) "
                      f"for the same argument content {a['exp']}")
        if is_err(c):
            held.append({"obj": None, "kind": None, "form": None, "mutable": False, "exp": c, "owner": idx, "role": "res", "fn": fn})
        else:
            kind, form, mut = form_of_result(out)
            if mut and id(out) in self.by_id and held[self.by_id[id(out)]]["obj"] is out:
                self.res.aliases.append((idx, ref_n, self.by_id[id(out)]))
            held.append({"obj": out, "kind": kind, "form": form, "mutable": mut, "exp": c, "owner": idx, "role": "res", "fn": fn})
            if mut:
                self.by_id.setdefault(id(out), ref_n)
        self._after()
        return ref_n

    def edit(self, r, *ed) -> bool:
        st = ["edit", r] + list(ed)
        self.steps.append(st)
        h = self.held[r]
        ok = False
        if h["obj"] is not None and h["mutable"]:
            k, v = split_canon(h["exp"])
            nv = edit_value(k, v, ed)
            if nv is not None:
                try:
                    edit_object(h["obj"], k, ed)
                    ok = True
                except BaseException:  # noqa  (an object that refuses the edit is not a violation; nothing was changed)
                    ok = False
                if ok:
                    h["exp"] = f"{k}:{enc_val(k, nv)}"
                    self.reported.discard(r)
                    self.res.lines.append((step_line(st), "ok"))
        self._after()
        return ok

    def finish(self) -> HistResult:
        if self.steps:
            self._reread(len(self.steps) - 1)
        c1 = class_state(T())
        self.res.hidden = sorted(n for n in set(c1) | set(self.class0) if c1.get(n) != self.class0.get(n))
        if tables_snapshot(T()) != self.tables0:
            n = len(self.steps) - 1
            self._bad("tables-changed", n, n, "the six tables as loaded", "changed", None,
                      "a table of Trellis34 was modified by the calls of the history")
        for r, h in enumerate(self.held):
            if h["exp"] != "ERR not-called":
                self.res.lines.append((f"hs.read {r}", canon_obj(h["obj"], h["kind"]) if h["obj"] is not None else h["exp"]))
        return self.res


def run_history(ref: Ref, steps, window=None) -> HistResult:
    s = Session(ref, window)
    for st in steps:
        s.step(st)
    return s.finish()


def alias_followups(steps, res: HistResult):
    """identity between a result and an object held before is no violation yet; the edit that makes it one"""
    out = []
    for at, new, old in res.aliases[:3]:
        h = res.held[new]
        k, v = split_canon(h["exp"])
        if k in ("b", "l"):
            poke = ["edit", new, "flip", 0] if len(v) else ["edit", new, "extend", "b", "1"]
        else:
            poke = ["edit", new, "put", 0, (int(v[0]) + 1) % 100] if len(v) else ["edit", new, "extend", k, "1"]
        out.append(steps[: at + 1] + [poke, list(steps[at])])
    return out


# -- shrinking
def allocates(st) -> bool:
    return st[0] in ("new", "call")


def refs_of(st):
    return [st[2]] if st[0] == "call" else [st[1]] if st[0] == "edit" else []


def with_ref(st, f):
    st = list(st)
    if st[0] == "call":
        st[2] = f(st[2])
    elif st[0] == "edit":
        st[1] = f(st[1])
    return st


def sub_history(steps, keep):
    """the steps with indices in `keep` as a history of its own (handles renumbered); None if a kept step refers
    to an object whose allocating step is dropped"""
    keep = sorted(set(keep))
    handle_of_step, n = {}, 0
    for i, st in enumerate(steps):
        if allocates(st):
            handle_of_step[i] = n
            n += 1
    step_of_handle = {h: i for i, h in handle_of_step.items()}
    remap, k = {}, 0
    for i in keep:
        if allocates(steps[i]):
            remap[handle_of_step[i]] = k
            k += 1
    out = []
    for i in keep:
        st = steps[i]
        for r in refs_of(st):
            if r not in remap or step_of_handle[r] > i:
                return None
        out.append(with_ref(st, lambda r: remap[r]))
    return out


def closure(steps, idxs):
    """idxs plus the allocating steps of every object they refer to"""
    alloc = [i for i, st in enumerate(steps) if allocates(st)]
    todo, out = list(idxs), set()
    while todo:
        i = todo.pop()
        if i in out or not 0 <= i < len(steps):
            continue
        out.add(i)
        for r in refs_of(steps[i]):
            if r < len(alloc):
                todo.append(alloc[r])
    return out


def history_fails(ref, steps, kinds=None, window=None) -> bool:
    res = run_history(ref, steps, window=window if len(steps) > 200 else None)
    return any(kinds is None or b["kind"] in kinds for b in res.bad)


def shrink(ref, steps, b, max_runs=220, window=None, seconds=6.0):
    """a short history that still fails in the same way, from a fresh module state (bounded effort)"""
    kinds = {b["kind"]}
    at, owner = b["at"], b["owner"]
    runs = [0]
    t_end = time.time() + seconds

    def fails(c):
        if c is None or time.time() > t_end:
            return False
        runs[0] += 1
        return history_fails(ref, c, kinds, window)

    cur = None
    base = closure(steps, {at, owner})
    cands = [base]
    for back in (1, 2, 4, 8, 16, 32, 64):
        cands.append(closure(steps, base | set(range(max(0, at - back), at))))
        cands.append(closure(steps, base | set(range(max(0, at - back), at)) | set(range(owner, min(at, owner + back + 1)))))
    for c in cands:
        sub = sub_history(steps, c)
        if fails(sub):
            cur = sub
            break
    if cur is None:
        cur = [list(s) for s in steps[: at + 1]]
        if len(cur) == len(steps) or not fails(cur):
            return [list(s) for s in steps]
    if len(cur) > 150:
        # a long prefix: drop halves / quarters / … while it still fails (bounded), no step-by-step pass
        size = len(cur) // 2
        while size >= 8 and runs[0] < 40:
            lo = 0
            while lo < len(cur) - 1 and runs[0] < 40:
                keep = [i for i in range(len(cur)) if not lo <= i < min(lo + size, len(cur) - 1)]
                sub = sub_history(cur, closure(cur, keep)) if keep else None
                if sub is not None and len(sub) < len(cur) and fails(sub):
                    cur = sub
                else:
                    lo += size
            size //= 2
        if len(cur) > 150:
            return cur
    # greedy removal, last step first
    j = len(cur) - 1
    while j >= 0 and runs[0] < max_runs:
        sub = sub_history(cur, [i for i in range(len(cur)) if i != j])
        if sub is not None and len(sub) and fails(sub):
            cur = sub
        j -= 1
    return cur


def confirm_fresh(steps) -> bool:
    """does the history fail when replayed by a new interpreter (what a reviewer will run)?"""
    here = os.path.dirname(os.path.abspath(__file__))
    with tempfile.NamedTemporaryFile("w", suffix=".json", delete=False) as f:
        json.dump({"type": "failing-input", "failure": {"kind": "history", "input": {"kind": "history", "steps": steps}}}, f)
        name = f.name
    try:
        p = subprocess.run([sys.executable, os.path.join(os.path.dirname(here), "check.py"), "C10", "--replay", name],
                           capture_output=True, text=True, timeout=120)
        return p.returncode == 1
    except Exception:  # noqa
        return True
    finally:
        os.unlink(name)


class HistoryProbe:
    """runs histories, reports what fails (shrunk, confirmed by a new interpreter) and ships the lines of whole
    histories to the store model"""

    def __init__(self, ctx, ref):
        self.ctx, self.ref = ctx, ref
        self.n_fail = {}
        self.confirms = 0
        self.buf = {}
        self.n_buf = 0
        self.reported = 0
        self.shrink_until = None  # wall-clock end of the shrinking allowance, set at the first failure

    def session(self, window=None) -> Session:
        return Session(self.ref, window)

    def run(self, component, steps, window=None):
        s = self.session(window)
        for st in steps:
            s.step(st)
        return self.done(component, s)

    def enough(self) -> bool:
        """the search stops once a dozen failing histories have been reported"""
        return self.reported >= 12

    def done(self, component, session: Session, chase=True):
        ctx = self.ctx
        res = session.finish()
        steps = [list(x) for x in res.steps]
        ctx.count(f"hist:{component}:histories")
        ctx.count(f"hist:{component}:steps", len(steps))
        ctx.count(f"hist:{component}:calls", len(res.calls))
        ctx.count(f"hist:{component}:kept-objects", len(res.held))
        ctx.count(f"hist:{component}:edits", sum(1 for x in steps if x[0] == "edit"))
        for fn, content in res.calls:
            ctx.case(("hist-call", fn, content))
            ctx.count(f"hist-fn:{fn}")
        if res.aliases:
            ctx.count(f"hist:{component}:result-is-an-object-held-before", len(res.aliases))
        for name in res.hidden:
            # auxiliary, never a verdict: the calls keep something on the class between calls (the inventory of C19 owns that
            # question; here it only says where a history-dependent answer could come from)
            if not ctx.hist.get(f"hidden-state:class-attribute-written-by-calls:{name}"):
                ctx.notes.append(f"auxiliary: the calls of a history wrote the class attribute Trellis34.{name} (state kept between calls; "
                                 "single-threaded histories are checked here, interleavings of threads are outside the property as stated)")
            ctx.count(f"hidden-state:class-attribute-written-by-calls:{name}")
        self.report(component, steps, res, session.window)
        if not ctx.search_only and ctx.driver_ok:
            self.buf.setdefault(f"history.{component}", []).extend([("hs.reset", "ok")] + res.lines)
            self.n_buf += len(res.lines) + 1
            if self.n_buf >= 20000:
                self.flush()
        if chase and res.aliases and not res.bad:
            for s2 in alias_followups(steps, res):
                s = self.session()
                for st in s2:
                    s.step(st)
                self.done(component + ".alias-chase", s, chase=False)
        return res

    def flush(self):
        for comp, pairs in self.buf.items():
            if pairs:
                self.ctx.correspond(comp, pairs)
        self.buf, self.n_buf = {}, 0

    def report(self, component, steps, res, window=None):
        ctx = self.ctx
        seen = set()
        for b in res.bad:
            key = (b["kind"], b["fn"])
            if key in seen:
                continue
            seen.add(key)
            self.n_fail[key] = self.n_fail.get(key, 0) + 1
            if self.n_fail[key] > FAIL_CAP:
                ctx.count(f"suppressed-failure:{b['kind']}")
                continue
            if self.shrink_until is None:
                self.shrink_until = time.time() + 45.0
            self.reported += 1
            left = self.shrink_until - time.time()
            short = shrink(self.ref, steps, b, window=window, seconds=min(6.0, left)) if left > 0.5 else steps
            if short != steps and self.confirms < 3:
                self.confirms += 1
                if not confirm_fresh(short):
                    ctx.count("hist:shrunk-history-not-confirmed-by-a-new-interpreter")
                    short = steps
            r2 = run_history(self.ref, short, window=window if len(short) > 200 else None)
            same = [x for x in r2.bad if x["kind"] == b["kind"]]
            bb = same[0] if same else b
            if not same:
                short = steps
            ctx.fail(b["kind"], {"kind": "history", "steps": short, "generator": component, "function": bb["fn"]},
                     bb["what"], expected=bb["expected"], actual=bb["actual"])


# ---- history generators -----------------------------------------------------------------------------
INT_VALUES = [3, 1, -1, -3, 3, 1, -1, -3, 0, 2, -2, 5, -128, 127]
NAT_VALUES = list(range(16)) + [16, 17, 64, 255]


def relatives(x: str, rng):
    """blocks that a sloppy key / hash / comparison may confuse with the 144-bit block x"""
    def flip(s, i):
        return s[:i] + ("1" if s[i] == "0" else "0") + s[i + 1 :]

    def inv(s):
        return "".join("1" if c == "0" else "0" for c in s)

    i = rng.randrange(1, 143)
    return [
        flip(x, 143), flip(x, 0), flip(x, i),                       # one bit apart: last, first, somewhere
        x[:136] + inv(x[136:]), inv(x[:8]) + x[8:],                 # last / first octet differs
        x[:128] + format(rng.getrandbits(16), "016b"),              # same first 16 octets
        format(rng.getrandbits(16), "016b") + x[16:],               # same last 16 octets
        x[:72] + format(rng.getrandbits(72), "072b"), format(rng.getrandbits(72), "072b") + x[72:],
        inv(x),
        "".join(x[k : k + 8][::-1] for k in range(0, 144, 8)),      # the same buffer read in the other bit order
        "".join(x[k : k + 3][::-1] for k in range(0, 144, 3)),      # every tribit reversed
        x[72:] + x[:72], x[1:] + x[:1], x[8:] + x[:8], x[::-1],     # halves swapped, rotated by a bit / an octet, reversed
    ]


def arg_relatives(kind: str, tok: str, rng):
    """argument contents one element away from `tok` (first, last, somewhere): mostly invalid for the function"""
    v = dec_val(kind, tok)
    n = len(v)
    out = []
    if not n or kind == "o":
        return out
    for i in (0, n - 1, rng.randrange(n)):
        if kind in ("b", "l"):
            w = v[:i] + ("1" if v[i] == "0" else "0") + v[i + 1 :]
        else:
            w = list(v)
            w[i] = rng.choice([y for y in (INT_VALUES[:4] if kind == "i" else NAT_VALUES[:8]) if y != v[i]])
        out.append(enc_val(kind, w))
    return out


def history_pool(ref: Ref, rng, n_random: int):
    """chains (Ref.chain) of the blocks the histories use: special values, captured packets, random blocks and
    the relatives of one of them"""
    blocks = ["0" * 144, "1" * 144] + [bits_str(_ba_from_bytes(bytes.fromhex(h))) for h in CORPUS_HEX]
    blocks += [rand_block(rng) for _ in range(n_random)]
    blocks += relatives(blocks[-1], rng)
    out, seen = [], set()
    for b in blocks:
        ch = ref.chain(b)
        if ch is not None and b not in seen:
            seen.add(b)
            out.append(ch)
    return out


def arg_token(ch, fn: str, kind: str) -> str:
    key = "O" if kind == "o" else VALID_ARG[fn]
    v = ch[key]
    return v if isinstance(v, str) else enc_val(CHAIN_KIND[key], v)


def random_edit(rng, kind: str, content, other_tok=None):
    """an in-place edit of an object of the given kind with the given current content"""
    n = len(content)
    bitsy = kind in ("b", "l")
    vals = None if bitsy else (INT_VALUES if kind == "i" else NAT_VALUES)
    ops = ["point", "point", "extend", "del-prefix", "del-suffix", "del-middle", "clear", "assign", "reverse"]
    op = rng.choice(ops)
    if op == "point" and n:
        i = rng.choice([0, n - 1, rng.randrange(n)])
        return ["flip", i] if bitsy else ["put", i, rng.choice(vals)]
    if op == "extend" or (op == "point" and not n):
        k = rng.choice([1, 2, 4, 8])
        tok = format(rng.getrandbits(k), f"0{k}b") if bitsy else ",".join(str(rng.choice(vals)) for _ in range(k))
        return ["extend", RHS_KIND[kind], tok]
    if op == "del-prefix":
        return ["del", 0, rng.choice([1, 2, 3, 8, 16])]
    if op == "del-suffix":
        return ["del", max(0, n - rng.choice([1, 2, 3, 8, 16])), n]
    if op == "del-middle":
        lo = rng.randrange(n + 1)
        return ["del", lo, min(n, lo + rng.choice([1, 2, 6]))]
    if op == "clear":
        return ["clear"]
    if op == "assign":
        if other_tok is not None:
            return ["assign", RHS_KIND[kind], other_tok]
        if not n:
            tok = "-"
        elif bitsy:
            tok = format(rng.getrandbits(n), f"0{n}b")
        else:
            tok = ",".join(str(rng.choice(vals[:8])) for _ in range(n))  # the first eight are the valid values
        return ["assign", RHS_KIND[kind], tok]
    return ["reverse"]


EDIT_VARIANTS = ["point", "extend", "del", "clear", "assign", "reverse"]


def variant_edit(rng, variant: str, kind: str, content, same_len_tok):
    n = len(content)
    bitsy = kind in ("b", "l")
    if variant == "point":
        if not n:
            return ["extend", RHS_KIND[kind], "1"]
        i = rng.randrange(n)
        if bitsy:
            return ["flip", i]
        pool = [v for v in (INT_VALUES[:4] if kind == "i" else NAT_VALUES[:8]) if v != content[i]]
        return ["put", i, rng.choice(pool)]
    if variant == "extend":
        return ["extend", RHS_KIND[kind], "0000" if bitsy else ("1,1" if kind == "i" else "0,0")]
    if variant == "del":
        return ["del", 0, min(n, 16) if bitsy else min(n, 2)]
    if variant == "clear":
        return ["clear"]
    if variant == "assign":
        return ["assign", RHS_KIND[kind], same_len_tok]
    return ["reverse"]


def scripted_histories(ctx, probe: HistoryProbe, chains, reps: int):
    rng = ctx.rng
    fns = list(FUNCS)
    for rep in range(reps):
        if probe.enough():
            return
        chs = chains[:2] + rng.sample(chains[2:], min(3, len(chains) - 2)) if rep == 0 else rng.sample(chains, min(5, len(chains)))
        for fn in fns:
            forms = FUNCS[fn]
            # -- hold: keep every result while other inputs are submitted, then the first inputs again
            for kind, form in forms:
                s = probe.session()
                args = []
                for ch in chs:
                    a = s.new(kind, form, arg_token(ch, fn, kind))
                    args.append(a)
                    s.call(fn, a)
                s.call(fn, args[0])
                s.call(fn, s.new(kind, form, arg_token(chs[0], fn, kind)))
                s.call(fn, args[-1])
                probe.done("hold", s)
            # -- edit a returned object in place, then the same input (same object, new object) and another input
            for vi, variant in enumerate(EDIT_VARIANTS):
                kind, form = forms[(vi + rep) % len(forms)]
                kind2, form2 = forms[(vi + rep + 1) % len(forms)]
                x, y, z = chs[vi % len(chs)], chs[(vi + 1) % len(chs)], chs[(vi + 2) % len(chs)]
                s = probe.session()
                a = s.new(kind, form, arg_token(x, fn, kind))
                results = [s.call(fn, a), s.call(fn, a)]
                results.append(s.call(fn, s.new(kind2, form2, arg_token(x, fn, kind2))))
                for r in results:
                    h = s.held[r]
                    if h["obj"] is None or not h["mutable"]:
                        continue
                    k, v = split_canon(h["exp"])
                    # a content of the same length to assign: what the call returns for another input
                    yk = ref_result_token(probe.ref, fn, kind, y)
                    s.edit(r, *variant_edit(rng, variant, k, v, yk if yk is not None else enc_val(k, v[::-1])))
                    s.call(fn, a)
                    s.call(fn, s.new(kind, form, arg_token(x, fn, kind)))
                    s.call(fn, s.new(kind, form, arg_token(z, fn, kind)))
                probe.done("edit-result", s)
            # -- one argument object over several calls, edited by the caller between the calls
            for kind, form in forms:
                x, y = chs[rep % len(chs)], chs[(rep + 1) % len(chs)]
                s = probe.session()
                a = s.new(kind, form, arg_token(x, fn, kind))
                s.call(fn, a)
                s.call(fn, a)
                for other in FUNCS:
                    if other != fn and (kind, form) in FUNCS[other] and VALID_ARG[other] == VALID_ARG[fn] and kind != "o":
                        s.call(other, a)
                if form in MUTABLE_FORMS:
                    k = s.held[a]["exp"].split(":", 1)[0]
                    s.edit(a, "assign", RHS_KIND[k], arg_token(y, fn, kind))
                    s.call(fn, a)
                    _, v = split_canon(s.held[a]["exp"])
                    s.edit(a, *variant_edit(rng, "point", k, v, None))
                    s.call(fn, a)
                    s.edit(a, *variant_edit(rng, "del", k, v, None))
                    s.call(fn, a)
                    s.edit(a, "clear")
                    s.call(fn, a)
                    s.edit(a, "assign", RHS_KIND[k], arg_token(x, fn, kind))
                    s.call(fn, a)
                else:
                    s.call(fn, s.new(kind, form, arg_token(y, fn, kind)))
                    s.call(fn, a)
                probe.done("reuse-argument", s)
            # -- inputs a sloppy key would confuse: relatives of one block (and of its argument content), all held
            kind, form = forms[rep % len(forms)]
            x = chs[(rep + 2) % len(chs)]
            s = probe.session()
            toks = [arg_token(x, fn, kind)]
            for rb in relatives(x["B"], rng):
                rc = probe.ref.chain(rb)
                if rc is not None:
                    toks.append(arg_token(rc, fn, kind))
            toks += arg_relatives(kind, toks[0], rng)
            hs = [s.new(kind, form, tok) for tok in toks]
            for a in hs:
                s.call(fn, a)
            for a in reversed(hs):
                s.call(fn, a)
            probe.done("relatives", s)
            # -- every accepted container type of the same content
            s = probe.session()
            for ch in chs[:2]:
                for kind, form in forms:
                    s.call(fn, s.new(kind, form, arg_token(ch, fn, kind)))
            probe.done("forms", s)
        # -- the stage chain by reference: every intermediate object is the next stage's argument and stays held
        for ch in chs[:3]:
            s = probe.session()
            b = s.new("b", "ba", ch["B"])
            ts = s.call("bits_to_tribits", b)
            pts = s.call("tribits_to_points", ts)
            dd = s.call("points_to_dibits", pts)
            di = s.call("interleave", dd)
            st = s.call("dibits_to_bits", di)
            s.call("encode", b)
            s.call("decode", st)
            di2 = s.call("bits_to_dibits", st)
            dd2 = s.call("deinterleave", di2)
            p2 = s.call("dibits_to_points", dd2)
            t2 = s.call("points_to_tribits", p2)
            s.call("tribits_to_bits", t2)
            s.call("decode_bytes", st)
            # the caller damages intermediate objects and feeds them on; everything upstream stays as it was
            for h, nxt in ((di2, "deinterleave"), (p2, "points_to_tribits"), (t2, "tribits_to_bits"), (st, "decode"), (dd, "interleave"), (ts, "tribits_to_points")):
                hh = s.held[h]
                if hh["obj"] is None or not hh["mutable"]:
                    continue
                k, v = split_canon(hh["exp"])
                s.edit(h, *random_edit(rng, k, v))
                s.call(nxt, h)
            s.call("encode", b)
            s.call("decode", s.call("encode", s.new("o", "by", ch["O"])))
            probe.done("chain", s)


# ---- error paths: a call that raises (or an unusual one that is accepted) must leave nothing behind -------------
FOREIGN_INTS = [0, 2, -2, 5, -5, 4, -128, 127]
FOREIGN_POINTS = [16, 17, 31, 64, 128, 255]
FOREIGN_TRIBITS = [8, 9, 15, 16, 56, 63, 64, 255]


def bad_argument_tokens(ref: Ref, fn: str, kind: str, ch, rng, full=False):
    """(label, content token) of arguments of `fn` that are refused — wrong length, a value outside the table at the first /
    a middle / the last position (after valid, non-zero elements), a stream or point sequence that becomes unreachable at a given
    position — or that are unusual but accepted (longer, shorter, empty where the function does not check)"""
    tok = arg_token(ch, fn, kind)
    val = dec_val(kind, tok)
    n = len(val)
    out = []

    def add(label, v):
        t = enc_val(kind, v)
        if t != tok:
            out.append((label, t))

    # lengths
    add("len-1", val[: n - 1])
    add("len-2", val[: n - 2])
    add("len+1", val + val[:1] if kind != "o" else val + val[:1])
    add("empty", val[:0])
    add("single", val[:1])
    if kind in ("b", "l"):
        add("len+8", val + val[:8])
        add("half", val[: n // 2])
    # values outside the tables
    if kind in ("i", "n") and n:
        foreign = FOREIGN_INTS if kind == "i" else (FOREIGN_TRIBITS if VALID_ARG[fn] == "TS" else FOREIGN_POINTS)
        positions = [0, 1, n // 2, n - 2, n - 1]
        for pos in (positions if full else rng.sample(positions, 3)):
            if 0 <= pos < n:
                for x in (foreign if full else rng.sample(foreign, 2)):
                    w = list(val)
                    w[pos] = x
                    add(f"value{x}@{pos}", w)
    # a point the encoder cannot emit at position p (the decoder refuses half-way through its loop)
    if fn in ("decode", "decode_bytes", "points_to_tribits"):
        for p_ in ([0, 1, 2, 24, 47, 48] if full else rng.sample([0, 1, 2, 24, 47, 48], 3)):
            pts = list(ch["P"])
            st = 0 if p_ == 0 else ch["TS"][p_ - 1]
            cands = [q for q in range(16) if q not in ref.row(st)]
            if not cands:
                continue
            pts[p_] = rng.choice(cands)
            if fn == "points_to_tribits":
                add(f"unreachable@{p_}", pts)
            else:
                strm = ref.stream_of_points(pts)
                if strm is not None:
                    add(f"unreachable@{p_}", strm)
    return out


def property_steps(s, ch):
    """the property and every stage function, as steps whose answers the session compares with the table-only reference"""
    b = s.new("b", "ba", ch["B"])
    st = s.call("encode", b)
    s.call("decode", st)
    s.call("decode_bytes", st)
    s.call("decode", s.call("encode", s.new("o", "by", ch["O"])))
    ts = s.call("bits_to_tribits", b)
    pts = s.call("tribits_to_points", ts)
    dd = s.call("points_to_dibits", pts)
    di = s.call("interleave", dd)
    s.call("dibits_to_bits", di)
    if s.held[st]["obj"] is not None:
        di2 = s.call("bits_to_dibits", st)
        dd2 = s.call("deinterleave", di2)
        p2 = s.call("dibits_to_points", dd2)
        t2 = s.call("points_to_tribits", p2)
        s.call("tribits_to_bits", t2)


def error_path_histories(ctx, probe: HistoryProbe, chains, reps: int):
    """for every callable and every refused / unusual argument: a new module state whose FIRST call is that one, then the
    property and all stage functions on two blocks, the call again, the same callable on a valid argument, the property again"""
    rng = ctx.rng
    full = ctx.thorough()
    for rep in range(reps):
        walk = [ref_chain_of_tribits(probe.ref, debruijn_pairs(rng)[k : k + 48]) for k in (0, 16)]
        walk = [w for w in walk if w is not None]
        for fi, fn in enumerate(FUNCS):
            forms = FUNCS[fn]
            chs = rng.sample(chains[2:], 2) + walk[:1]
            done = set()
            for k, (kind, form) in enumerate(forms if full else [forms[(rep + fi) % len(forms)], forms[(rep + fi + 3) % len(forms)]]):
                if (kind, form) in done:
                    continue
                done.add((kind, form))
                for label, bad in bad_argument_tokens(probe.ref, fn, kind, chs[0], rng, full):
                    if probe.enough():
                        return
                    s = probe.session()
                    a = s.new(kind, form, bad)
                    s.call(fn, a)                       # the first call this module state sees
                    property_steps(s, chs[1])
                    if len(chs) > 2:
                        property_steps(s, chs[2])       # a block that walks through all 64 transitions
                    s.call(fn, a)
                    s.call(fn, s.new(kind, form, arg_token(chs[0], fn, kind)))
                    s.call(fn, a)
                    property_steps(s, chs[0])
                    ctx.count(f"error-path:{fn}:{label.split('@')[0].rstrip('0123456789-') if label.startswith('value') else label.split('@')[0]}")
                    res = probe.done("error-path", s)
                    first = res.lines[1][1] if len(res.lines) > 1 else ""
                    ctx.count("error-path:first-call-" + ("raised" if "ERR" in first else "accepted"))


def ref_chain_of_tribits(ref: Ref, ts):
    return ref.chain(block_of_tribits(list(ts)))


def ref_result_token(ref: Ref, fn, kind, ch):
    """content token of what `fn` returns for the chain's valid argument (None if the reference is silent)"""
    key = "O" if kind == "o" else VALID_ARG[fn]
    v = ch[key]
    val = bytes.fromhex(v) if kind == "o" else v
    w = ref.apply(fn, kind, val)
    if w is None or w == "ERR" or w.startswith("o:"):
        return None
    return w.split(":", 1)[1]


def random_history(ctx, probe: HistoryProbe, chains, n_steps: int, window=None, component="random"):
    rng = ctx.rng
    s = probe.session(window)
    fns = list(FUNCS)
    pool = rng.sample(chains, min(len(chains), rng.choice([2, 3, 6])))
    calls = []  # (fn, handle)
    while len(s.steps) < n_steps:
        u = rng.random()
        live = [r for r in range(max(0, len(s.held) - 40), len(s.held)) if s.held[r]["obj"] is not None and s.held[r]["kind"] is not None]
        if u < 0.38 or not live:
            fn = rng.choice(fns)
            kind, form = rng.choice(FUNCS[fn])
            tok = arg_token(rng.choice(pool), fn, kind)
            if rng.random() < 0.12 and kind != "o":
                # damaged content: wrong length / a foreign value (the error paths; reference mostly silent, model decides)
                v = dec_val(kind, tok)
                ed = random_edit(rng, kind, v)
                nv = edit_value(kind, v, ed)
                if nv is not None:
                    tok = enc_val(kind, nv)
            a = s.new(kind, form, tok)
            calls.append((fn, a))
            s.call(fn, a)
        elif u < 0.62:
            r = rng.choice(live[-12:]) if rng.random() < 0.7 else rng.choice(live)
            h = s.held[r]
            ok = [fn for fn in fns if (h["kind"], h["form"]) in FUNCS[fn]]
            if ok:
                fn = rng.choice(ok)
                calls.append((fn, r))
                s.call(fn, r)
        elif u < 0.92:
            mut = [r for r in live if s.held[r]["mutable"]]
            res = [r for r in mut if s.held[r]["role"] == "res"]
            cand = res if res and rng.random() < 0.65 else mut
            if cand:
                r = rng.choice(cand[-10:]) if rng.random() < 0.7 else rng.choice(cand)
                k, v = split_canon(s.held[r]["exp"])
                s.edit(r, *random_edit(rng, k, v))
                if rng.random() < 0.5 and calls:
                    fn, a = rng.choice(calls[-6:])
                    s.call(fn, a)
        elif calls:
            fn, a = rng.choice(calls)
            s.call(fn, a)
    return probe.done(component, s)


def block_sequence_steps(blocks):
    """the calls of the block stage as a history: per block encode(bits), decode, encode(bytes), decode as_bytes"""
    steps = []
    for i, b in enumerate(blocks):
        h = 6 * i
        steps += [["new", "b", "ba", b], ["call", "encode", h], ["call", "decode", h + 1],
                  ["new", "o", "by", bitarray(b).tobytes().hex()], ["call", "encode", h + 3], ["call", "decode_bytes", h + 1]]
    return steps


def reread_block_stage(ctx, kept):
    """scale variant of 'hold every returned object': all streams and blocks handed out during the block stage
    (thousands, one module state) must still read what they read when they were returned"""
    ctx.count("block:kept-objects-read-again", 2 * len(kept))
    first = None
    for i, (block, enc, es, dec, ds) in enumerate(kept):
        if bits_str(enc) != es or (not is_err(dec) and cbits(dec) != ds):
            first = i
            break
    if first is None:
        return
    ctx.count("block:kept-object-changed")
    ref = Ref()
    probe = HistoryProbe(ctx, ref)
    seq = [k[0] for k in kept[first : first + 4096]]
    for n in (2, 8, 64, 512, 4096):
        steps = block_sequence_steps(seq[:n])
        res = run_history(ref, steps, window=8)
        if res.bad:
            probe.report("block-sequence", steps, res, 8)
            return
        if n >= len(seq):
            break
    block, enc, es, dec, ds = kept[first]
    ctx.fail("held-object-changed", {"kind": "history", "steps": block_sequence_steps(seq), "generator": "block-sequence", "function": None},
             f"an object returned for block #{first} of the block stage changed its content while later blocks were processed "
             "(not reproduced by the same calls from a new module state)", expected=es + " / " + ds, actual=bits_str(enc) + " / " + cbits(dec))


def history_stage(ctx, ref: Ref):
    rng = ctx.rng
    probe = HistoryProbe(ctx, ref)
    chains = history_pool(ref, rng, 4)
    if len(chains) < 3:
        ctx.count("hist:skipped-tables-unusable")
        return
    # a fixed share of the budget: the sizes depend on the tier only (a boosted search at most doubles them)
    k = 2 if ctx.boost > 1 else 1
    thorough = ctx.thorough()
    scripted_histories(ctx, probe, chains, (6 if thorough else 1) * k)
    error_path_histories(ctx, probe, chains, (2 if thorough else 1) * k)
    for _ in range((1500 if thorough else 40) * k):
        if probe.enough():
            break
        random_history(ctx, probe, chains, rng.choice([12, 25, 50, 80]))
    # scale: long histories in one module state (the kept objects are re-read in a sliding window and every 64 steps)
    for _ in range((3 if thorough else 1) * k):
        if probe.enough():
            break
        random_history(ctx, probe, history_pool(ref, rng, 40), 10000 if thorough else 2500, window=8, component="random-long")
    if probe.enough():
        ctx.count("hist:stopped-after-a-dozen-failing-histories")
    probe.flush()


# ---- wrong types, argument provenance, flags, ambient state, a child interpreter -----------------------------------
class _BytesSub(bytes):
    pass


class _BitarraySub(bitarray):
    pass


def wrong_type_arguments(block: str, stream: str):
    """(label, maker) of objects no callable of Trellis34 is specified for: the call usually raises half-way"""
    bits = [int(c) for c in stream]
    out = [
        ("None", lambda: None), ("int", lambda: 5), ("float", lambda: 3.5), ("str01", lambda: stream), ("str", lambda: "trellis"),
        ("object", lambda: object()), ("dict", lambda: {0: 1, 1: 0}), ("set", lambda: {0, 1}), ("generator", lambda: (b for b in bits)),
        ("nested-list", lambda: [[1, 0]] * 98), ("list-with-None", lambda: bits[:50] + [None] + bits[51:]),
        ("list-with-str", lambda: bits[:97] + ["1"] + bits[98:]), ("list-of-str", lambda: list(stream)),
        ("array-double", lambda: array("d", [float(b) for b in bits])), ("array-unicode", lambda: array("u", stream)),
        ("bitarray-for-numbers", lambda: bitarray(stream)), ("bytes-raw", lambda: bitarray(stream + "0000").tobytes()),
        ("bytearray-raw", lambda: bytearray(bitarray(block).tobytes())), ("memoryview-raw", lambda: memoryview(bitarray(block).tobytes())),
        ("tuple-of-tuples", lambda: tuple((b, b) for b in bits)), ("bool", lambda: True), ("type", lambda: bitarray),
    ]
    try:
        import numpy as np

        out += [("numpy-float-nan", lambda: np.full(196, np.nan)), ("numpy-2d", lambda: np.zeros((98, 2), dtype=np.uint8)),
                ("numpy-str", lambda: np.array(list(stream)))]
    except Exception:  # noqa
        pass
    return out


def provenance_forms(block: str, stream: str):
    """objects with the content of a 144-bit block (for encode) / of a 196-bit stream (for decode) that come from somewhere else
    than `bitarray(str)`: (function, label, maker, strict).  strict = a bitarray or bytes (what the property names): must be
    accepted; the others are accepted by the code as it is because it only subscripts: they must give the same answer or raise"""
    octets = bitarray(block).tobytes()
    bits = [int(c) for c in stream]
    out = []

    def frombytes():
        x = bitarray(endian="big")
        x.frombytes(octets)
        return x

    def lib_bits():
        from okdmr.dmrlib.utils.bits_bytes import bytes_to_bits

        return bytes_to_bits(octets)

    def rate34_bits():
        # the block as another code path of the library hands it to the encoder (Rate34Data.as_bits of an unconfirmed block)
        from okdmr.dmrlib.etsi.layer2.pdu.rate34_data import Rate34Data

        return Rate34Data(data=octets).as_bits()

    enc = [
        ("library-bytes_to_bits", lib_bits, True), ("bitarray-buffer-bytes-readonly", lambda: bitarray(buffer=octets), True),
        ("bitarray-buffer-bytearray", lambda: bitarray(buffer=bytearray(octets)), True),
        ("bitarray-buffer-memoryview", lambda: bitarray(buffer=memoryview(octets)), True),
        ("bitarray-slice-of-longer", lambda: bitarray("10101010" + block + "111")[8:152], True),
        ("bitarray-frombytes", frombytes, True), ("frozenbitarray", lambda: frozenbitarray(block), True),
        ("bitarray-subclass", lambda: _BitarraySub(block), True), ("bitarray-copy", lambda: bitarray(bitarray(block)), True),
        ("bitarray-from-list", lambda: bitarray([int(c) for c in block]), True),
        ("bytes-subclass", lambda: _BytesSub(octets), True), ("bytes-from-bytearray", lambda: bytes(bytearray(octets)), True),
        ("bytes-from-memoryview", lambda: memoryview(octets + b"xx")[:18].tobytes(), True),
        ("bytes-join", lambda: b"".join(bytes([o]) for o in octets), True), ("bytes-fromhex", lambda: bytes.fromhex(octets.hex()), True),
        ("library-Rate34Data.as_bits", rate34_bits, True),
    ]
    dec = [
        ("frozenbitarray", lambda: frozenbitarray(stream), True), ("bitarray-little-endian", lambda: bitarray(stream, endian="little"), True),
        ("bitarray-slice-of-longer", lambda: bitarray("11" + stream + "0")[2:198], True),
        ("bitarray-buffer-readonly", lambda: bitarray(buffer=bitarray(stream + "0000").tobytes())[:196], True),
        ("bitarray-subclass", lambda: _BitarraySub(stream), True), ("bitarray-from-list", lambda: bitarray(bits), True),
        ("list-of-bool", lambda: [bool(b) for b in bits], False), ("memoryview-01", lambda: memoryview(bytes(bits)), False),
        ("array-B", lambda: array("B", bits), False), ("array-q", lambda: array("q", bits), False), ("list-of-float", lambda: [float(b) for b in bits], False),
    ]
    try:
        import numpy as np

        def readonly(a):
            a.setflags(write=False)
            return a

        dec += [
            ("numpy-uint8", lambda: np.array(bits, dtype=np.uint8), False), ("numpy-int64", lambda: np.array(bits, dtype=np.int64), False),
            ("numpy-bool", lambda: np.array(bits, dtype=bool), False), ("numpy-uint8-readonly", lambda: readonly(np.array(bits, dtype=np.uint8)), False),
            ("numpy-frombuffer", lambda: np.frombuffer(bytes(bits), dtype=np.uint8), False), ("list-of-numpy-int", lambda: [np.int64(b) for b in bits], False),
            ("numpy-strided-view", lambda: np.array([x for b in bits for x in (b, 1 - b)], dtype=np.uint8)[::2], False),
        ]
    except Exception:  # noqa
        pass
    for label, mk, strict in enc:
        out.append(("encode", label, mk, strict))
    for label, mk, strict in dec:
        out.append(("decode", label, mk, strict))
        out.append(("decode_bytes", label, mk, strict))
    return out


def snapshot_arg(x):
    """content of an argument object, to see whether a call wrote to it"""
    try:
        if isinstance(x, bitarray):
            return ("ba", x.to01(), endian_of(x))
        if isinstance(x, (bytes, bytearray, list, tuple, array)):
            return (type(x).__name__, repr(list(x)))
        if isinstance(x, memoryview):
            return ("mv", x.tobytes())
        if type(x).__module__ == "numpy":
            return ("np", x.tobytes(), str(x.dtype), x.shape)
    except Exception:  # noqa
        pass
    return None


def check_property_now(ref: Ref, blocks, bad_stream=None):
    """the property as stated, on the real code, right now: [(kind, what, expected, actual, input)]"""
    out = []
    for block in blocks:
        fails, _ = oracle_block(block)
        out += [(k, w, e, a, {"kind": "block", "block": block}) for k, w, e, a in fails]
    if bad_stream is not None:
        fails, _, _ = oracle_stream(ref, bad_stream)
        out += [(k, w, e, a, {"kind": "stream", "stream": bad_stream}) for k, w, e, a in fails]
    fails, _ = oracle_interleave(list(range(-49, 49)))
    out += [(k, w, e, a, {"kind": "interleave", "markers": list(range(-49, 49))}) for k, w, e, a in fails]
    return out


ALL_CALLABLES = ["encode", "decode", "decode_bytes", "bits_to_dibits", "dibits_to_bits", "deinterleave", "interleave", "dibits_to_points",
                 "points_to_dibits", "points_to_tribits", "tribits_to_points", "tribits_to_bits", "bits_to_tribits"]


def unreachable_stream(ref: Ref, ch, rng, pos=None):
    pos = rng.choice([0, 1, 24, 47, 48]) if pos is None else pos
    pts = list(ch["P"])
    st = 0 if pos == 0 else ch["TS"][pos - 1]
    cands = [q for q in range(16) if q not in ref.row(st)]
    if not cands:
        return None
    pts[pos] = rng.choice(cands)
    return ref.stream_of_points(pts)


def wrong_type_stage(ctx, ref: Ref):
    """every callable x every wrong-type object, as the FIRST call of a re-executed module; then the property (bits and bytes,
    several blocks incl. one that walks through all 64 transitions, a stream that must still be refused, the interleaver), the
    call again, the property again.  Failures are replayable as input kind 'after-rejected-call'."""
    rng = ctx.rng
    chains = history_pool(ref, rng, 2)
    if len(chains) < 3:
        return
    walk = ref.chain(block_of_tribits(debruijn_pairs(rng)[:48]))
    reported = 0
    for fn in ALL_CALLABLES:
        ch = rng.choice(chains[2:])
        blocks = [rng.choice(chains)["B"], rand_block(rng)] + ([walk["B"]] if walk else [])
        bad_stream = unreachable_stream(ref, rng.choice(chains[2:]), rng)
        for label, mk in wrong_type_arguments(ch["B"], ch["S"]):
            fresh_module()
            t = T()
            first = canon_err(impl_call(t, fn, mk()))
            fails = check_property_now(ref, blocks, bad_stream)
            second = canon_err(impl_call(t, fn, mk()))
            fails += check_property_now(ref, blocks[:1])
            ctx.case(("after-rejected-call", fn, label))
            ctx.count(f"wrong-type:{fn}")
            ctx.count("wrong-type-answer:" + (first if first.startswith("ERR") else "accepted"))
            if first != second:
                # same object kind, same content, same module state otherwise: the answer may not depend on the first call
                fails.append(("result-depends-on-history", f"{fn}({label}) answers {second} after having answered {first}", first, second,
                              {"kind": "block", "block": blocks[0]}))
            for kind, what, exp, act, inp in fails[:2]:
                if reported < 6:
                    reported += 1
                    ctx.fail(kind, {"kind": "after-rejected-call", "function": fn, "argument": label, "argument_block": ch["B"], "then": inp},
                             f"after {fn}({label}) as the first call of a new module state (answer: {first}): {what}", expected=exp, actual=act)


def canon_err(x) -> str:
    return x if is_err(x) else "returned " + type(x).__name__


def provenance_stage(ctx, ref: Ref):
    """the same block / stream in objects of other provenance: same answer, argument untouched"""
    rng = ctx.rng
    fresh_module()
    chains = history_pool(ref, rng, 6)
    reported = 0
    for ch in chains:
        t = T()
        for fn, label, mk, strict in provenance_forms(ch["B"], ch["S"]):
            try:
                obj = mk()
            except BaseException:  # noqa  (the provenance is not available in this environment)
                ctx.count("provenance:unavailable:" + label)
                continue
            before = snapshot_arg(obj)
            out = impl_call(t, fn, obj)
            after = snapshot_arg(obj)
            want = ("b:" + ch["S"]) if fn == "encode" else ("b:" + ch["B"]) if fn == "decode" else ("o:" + ch["O"])
            got = canon_obj(out)
            ctx.case(("provenance", fn, label, ch["B"]))
            ctx.count(f"provenance:{fn}:{label}:{'refused' if is_err(got) else 'answered'}")
            bad = None
            if is_err(got):
                if strict:
                    bad = ("provenance-refused", f"{fn} refuses a {label} object holding a valid {'block' if fn == 'encode' else 'stream'}")
            elif got != want:
                bad = ("provenance-wrong-result", f"{fn} of a {label} object differs from {fn} of bitarray(str) with the same content")
            if bad is None and before != after:
                bad = ("argument-changed", f"{fn} wrote to its argument (a {label} object)")
                want, got = str(before)[:200], str(after)[:200]
            if bad and reported < 6:
                reported += 1
                ctx.fail(bad[0], {"kind": "provenance", "function": fn, "form": label, "block": ch["B"]}, bad[1], expected=want, actual=got)
    # as_bytes given as something else than a bool, positionally and by keyword
    ch = chains[-1]
    t = T()
    flags = [(1, True), (0, False), (None, False), ("yes", True), ("", False), ([0], True), ([], False), (2.0, True)]
    for flag, as_bytes in flags:
        for how in ("positional", "keyword"):
            out = call(t.decode, bitarray(ch["S"]), flag) if how == "positional" else call(t.decode, bitarray(ch["S"]), as_bytes=flag)
            want = ("o:" + ch["O"]) if as_bytes else ("b:" + ch["B"])
            ctx.case(("as_bytes", repr(flag), how))
            ctx.count("provenance:as_bytes-flag")
            if canon_obj(out) != want and reported < 6:
                reported += 1
                ctx.fail("round-trip-bytes" if as_bytes else "round-trip", {"kind": "flag", "block": ch["B"], "as_bytes": repr(flag), "how": how},
                         f"decode(encode(block), as_bytes={flag!r}) ({how})", expected=want, actual=canon_obj(out))


class _Failing:
    encoding = "utf-8"

    def __init__(self, exc):
        self.exc = exc

    def write(self, *_a):
        raise self.exc

    flush = writelines = write


AMBIENT = ["stdout-oserror", "stdout-closed", "stderr-oserror", "root-logger-debug", "random-reseeded", "warnings-error", "recursion-tight"]


def ambient(name):
    """context manager: one ambient interpreter / process condition"""
    import contextlib
    import io
    import logging
    import random
    import warnings

    @contextlib.contextmanager
    def cm():
        saved = (sys.stdout, sys.stderr, logging.root.level, list(logging.root.handlers), logging.root.manager.disable, random.getstate(),
                 sys.getrecursionlimit())
        w = warnings.catch_warnings()
        w.__enter__()
        try:
            if name == "stdout-oserror":
                sys.stdout = _Failing(BrokenPipeError(32, "Broken pipe"))
            elif name == "stdout-closed":
                sys.stdout = _Failing(ValueError("I/O operation on closed file."))
            elif name == "stderr-oserror":
                sys.stderr = _Failing(OSError(28, "No space left on device"))
            elif name == "root-logger-debug":
                logging.disable(logging.NOTSET)
                logging.root.setLevel(logging.DEBUG)
                logging.root.handlers = [logging.StreamHandler(io.StringIO())]
            elif name == "random-reseeded":
                random.seed(20260926)
            elif name == "warnings-error":
                warnings.simplefilter("error")
            elif name == "recursion-tight":
                # room for the harness' own frames plus a shallow call tree: Trellis34 does not recurse
                import inspect

                sys.setrecursionlimit(len(inspect.stack()) + 60)
            yield
        finally:
            w.__exit__(None, None, None)
            sys.setrecursionlimit(saved[6])
            random.setstate(saved[5])
            logging.disable(saved[4])
            logging.root.handlers = saved[3]
            logging.root.setLevel(saved[2])
            sys.stdout, sys.stderr = saved[0], saved[1]

    return cm()


def ambient_stage(ctx, ref: Ref):
    """a fixed small sample of the property under ambient conditions the library should not depend on"""
    rng = ctx.rng
    fresh_module()
    chains = history_pool(ref, rng, 8)
    reported = 0
    for name in AMBIENT:
        for ch in chains[2:]:
            bad = unreachable_stream(ref, ch, rng)
            with ambient(name):
                if name == "random-reseeded":
                    import random

                    random.seed(1)
                fails = check_property_now(ref, [ch["B"]], bad)
            ctx.case(("ambient", name, ch["B"]))
            ctx.count("ambient:" + name)
            for kind, what, exp, act, inp in fails[:1]:
                if reported < 4:
                    reported += 1
                    ctx.fail(kind, dict(inp, ambient=name), f"under the ambient condition {name}: {what}", expected=exp, actual=act)


CHILD_CODE = r"""
import json, sys
sys.path[:0] = %r
import c10
spec = json.load(open(sys.argv[1]))
res = {"optimize": sys.flags.optimize, "first": [], "blocks": []}
t = c10.T()
from array import array
# the first calls this process makes on Trellis34 are refused ones (none of them relies on an assert)
for fn, typecode, vals in spec["first"]:
    res["first"].append(c10.canon_err(c10.impl_call(t, fn, array(typecode, vals))))
for block in spec["blocks"]:
    fails, obs = c10.oracle_block(block)
    res["blocks"].append({"fails": [list(f) for f in fails], "encode": obs.get("encode")})
fails, obs = c10.oracle_interleave(list(range(-49, 49)))
res["interleave"] = [list(f) for f in fails]
json.dump(res, open(sys.argv[2], "w"))
"""


def child_start(ctx, ref: Ref, blocks=None):
    """one `python -O` process (asserts stripped; a fresh interpreter whose first calls on the class fail): the round trip only —
    the rejection of unreachable points is an `assert` and is assumed to run with assertions enabled"""
    if blocks is None:
        rng = ctx.rng
        blocks = [b for _, b in structured_blocks(rng, 1)[::9]][:220] + [rand_block(rng) for _ in range(80)]
    first = [["tribits_to_points", "B", [3, 5, 9, 2]], ["points_to_dibits", "B", [1, 16]], ["dibits_to_points", "b", [3, 0]],
             ["dibits_to_bits", "b", [1, 2]], ["interleave", "b", [3, 1, -1]], ["deinterleave", "b", [3] * 97], ["points_to_tribits", "B", [0, 1]]]
    d = tempfile.mkdtemp(prefix="c10child")
    jp, rp = os.path.join(d, "spec.json"), os.path.join(d, "res.json")
    with open(jp, "w") as f:
        json.dump({"first": first, "blocks": blocks}, f)
    here = os.path.dirname(os.path.abspath(__file__))
    code = CHILD_CODE % ([os.path.dirname(here), here],)
    p = subprocess.Popen([sys.executable, "-O", "-c", code, jp, rp], stdin=subprocess.DEVNULL, stdout=subprocess.PIPE, stderr=subprocess.PIPE)
    return p, rp, d, blocks


def child_finish(ctx, handle):
    import shutil

    p, rp, d, blocks = handle
    try:
        try:
            _, err = p.communicate(timeout=300)
        except Exception:  # noqa
            p.kill()
            _, err = p.communicate()
        try:
            res = json.load(open(rp))
        except Exception as e:  # noqa
            ctx.notes.append(f"child interpreter gave no result (rc={p.returncode}): {e}: {(err or b'')[-300:]!r}")
            ctx.fail("child-interpreter", {"kind": "child", "interpreter": "python -O"}, "Trellis34 could not be exercised in a child `python -O` process")
            return
    finally:
        shutil.rmtree(d, ignore_errors=True)
    ctx.count("child:python -O optimize=%s" % res.get("optimize"))
    ctx.count("child:first-calls-refused", sum(1 for x in res["first"] if x.startswith("ERR")))
    t = T()
    reported = 0
    for block, r in zip(blocks, res["blocks"]):
        ctx.case(("child", block))
        ctx.count("child:blocks")
        mine = cbits(call(t.encode, bitarray(block)))
        fails = [tuple(f) for f in r["fails"]]
        if not fails and r["encode"] != mine:
            fails = [("length" if len(r["encode"] or "") != 196 else "round-trip", "encode in a `python -O` child whose first calls were refused differs from encode here", mine, r["encode"])]
        for kind, what, exp, act in fails[:1]:
            if reported < 4:
                reported += 1
                ctx.fail(kind, {"kind": "block", "block": block, "interpreter": "python -O, first calls refused"}, f"in a child `python -O` process: {what}", expected=exp, actual=act)
    for f in res.get("interleave", [])[:1]:
        ctx.fail(f[0], {"kind": "interleave", "markers": list(range(-49, 49)), "interpreter": "python -O"}, f"in a child `python -O` process: {f[1]}", expected=f[2], actual=f[3])


def scale_stage(ctx, ref: Ref):
    """far more distinct blocks than a few thousand in ONE module state (what a bounded cache / table of seen inputs would need),
    refused calls in between, every stream and block handed out kept and read again at the end"""
    rng = ctx.rng
    fresh_module()
    t = T()
    n = 70000 if ctx.thorough() else 9000  # a fixed share: not multiplied by a boosted search
    kept = []
    reported = 0
    bad_every = 331
    last_bad = None
    for i in range(n):
        block = rand_block(rng) if i % 7 else format(i, "0144b")  # low-entropy blocks (a counter) among the random ones
        if i % bad_every == 5:
            ts = [rng.randrange(1, 8), rng.randrange(1, 8), rng.choice(FOREIGN_TRIBITS)]
            strm = unreachable_stream(ref, ref.chain(block), rng) or "0"
            call(t.tribits_to_points, array("B", ts))
            call(t.decode, bitarray(strm))
            last_bad = (ts, strm)
            ctx.count("scale:refused-calls-in-between", 2)
        enc = call(t.encode, bitarray(block))
        dec = enc if is_err(enc) else call(t.decode, enc)
        if is_err(dec) or len(enc) != 196 or bits_str(dec) != block:
            if reported < 3:
                reported += 1
                done = False
                if last_bad is not None:
                    # the same as a history of its own, from a new module state: the refused calls, then this block
                    steps = [["new", "n", "aB", enc_val("n", last_bad[0])], ["call", "tribits_to_points", 0], ["new", "b", "ba", last_bad[1]],
                             ["call", "decode", 2], ["new", "b", "ba", block], ["call", "encode", 4], ["call", "decode", 5]]
                    res = run_history(Ref(), steps)
                    fresh_module()
                    t = T()
                    if res.bad:
                        b = res.bad[0]
                        ctx.fail(b["kind"], {"kind": "history", "steps": steps, "generator": "scale", "function": b["fn"]}, b["what"],
                                 expected=b["expected"], actual=b["actual"])
                        done = True
                if not done:
                    ctx.fail("round-trip", {"kind": "block", "block": block, "generator": f"scale: block #{i} in one module state"},
                             f"decode(encode(block)) is not the block (block #{i} of a long run in one module state; a replay of the block "
                             "alone starts from a new module state)", expected=block, actual=cbits(dec))
            continue
        kept.append((block, enc, bits_str(enc), dec, block))
    ctx.count("scale:blocks", n)
    for i, (block, enc, es, dec, ds) in enumerate(kept):
        if bits_str(enc) != es or bits_str(dec) != ds:
            ctx.fail("held-object-changed", {"kind": "block", "block": block, "generator": f"scale: objects of block #{i} read again after {n} blocks"},
                     "a stream / block handed out earlier changed while later blocks were processed", expected=es + " / " + ds,
                     actual=bits_str(enc) + " / " + bits_str(dec))
            break
    ctx.count("scale:kept-objects-read-again", 2 * len(kept))


def transformed_streams(ref: Ref, ch, rng):
    """(label, stream): specific transforms of a valid encoder output — what a receiver with one convention wrong would see"""
    s, dd, di, pts = ch["S"], ch["DD"], ch["DI"], ch["P"]
    inv = {"0": "1", "1": "0"}
    M = ref.M

    def of_dibits(d):
        try:
            return "".join(str(b) for x in d for b in ref.Dinv[x])
        except KeyError:
            return None

    out = [
        ("bits-reversed", s[::-1]), ("bits-inverted", "".join(inv[c] for c in s)), ("dibit-bits-swapped", "".join(s[i + 1] + s[i] for i in range(0, 196, 2))),
        ("rotated-by-a-dibit", s[2:] + s[:2]), ("rotated-by-a-bit", s[1:] + s[:1]), ("halves-swapped", s[98:] + s[:98]),
        ("octets-bit-reversed", "".join(s[k : k + 8][::-1] for k in range(0, 196, 8))), ("dibits-reversed", "".join(s[i : i + 2] for i in range(194, -2, -2))),
        ("not-interleaved", of_dibits(dd)), ("interleaved-twice", of_dibits([di[m] for m in M])),
        ("deinterleaved-instead", of_dibits([dd[M.index(i)] for i in range(98)]) if sorted(M) == list(range(98)) else None),
        ("dibits-negated", of_dibits([-x for x in di])), ("points-mirrored", ref.stream_of_points([15 - q for q in pts])),
        ("points-plus-8", ref.stream_of_points([(q + 8) % 16 for q in pts])), ("points-reversed", ref.stream_of_points(pts[::-1])),
        ("points-from-state-s+1", ref.stream_of_points([ref.TR[(((0 if i == 0 else ch["TS"][i - 1]) + 1) % 8) * 8 + ch["TS"][i]] for i in range(49)])),
        ("points-shifted-by-one", ref.stream_of_points(pts[1:] + pts[:1])), ("point-pairs-swapped", ref.stream_of_points([pts[i ^ 1] if (i ^ 1) < 49 else pts[i] for i in range(49)])),
        ("xor-with-another-codeword", None),
    ]
    return [(k, v) for k, v in out if v is not None and len(v) == 196 and v != s]


# ---- run -----------------------------------------------------------------------------------------
def run_transl(ctx):
    """Differential validation of the source translator (tools/py2lean.py + tools/py2lean_arr.py) and its preludes (Model/Py.lean,
    Model/PyArr.lean, and the operations of Model/PyBits.lean it uses), trusted base of Props/C10t: the fourteen definitions
    TRANSLATED from the source of trellis.py (`Gen/TranslTrellis.lean`, driver operations `t.tr.*`; decode / encode monomorphised
    for as_bytes and bitarray / bytes) against the real functions: bit strings of every length class (0..200), valid / corrupted
    code words, arrays of valid and invalid dibits / points / tribits of lengths 0..100 (KeyError, IndexError, AssertionError
    paths), valid stage chains.  A difference is a translator or prelude bug, never a finding about /repo."""
    if ctx.search_only or not ctx.driver_ok:
        return
    from array import array as _array
    from bitarray import bitarray as _ba
    t = T()
    rng = ctx.rng

    def sb(b):
        return b.to01() if len(b) else "-"

    def si(a):
        return ",".join(str(x) for x in a) if len(a) else "-"

    def res(fn, *a):
        try:
            r = fn(*a)
        except Exception as e:  # noqa
            return "ERR " + type(e).__name__
        if isinstance(r, _ba):
            return sb(r)
        if isinstance(r, (bytes, bytearray)):
            return r.hex() if r else "-"
        return si(r)

    def rbits(n):
        return _ba([rng.randrange(2) for _ in range(n)], endian="big")

    pairs = []

    def add(op, arg, fn, *pa):
        pairs.append((f"{op} {arg}", res(fn, *pa)))
        ctx.count("transl:" + op[5:])

    for _ in range(ctx.budget(150, 1500)):
        b = rbits(rng.choice([0, 1, 2, 3, 7, 98, 144, 145, 195, 196, 197, 200]))
        add("t.tr.b2d", sb(b), t.bits_to_dibits, b)
        add("t.tr.b2t", sb(b), t.bits_to_tribits, b)
        add("t.tr.dec", sb(b), t.decode, b)
        add("t.tr.enc", sb(b), t.encode, b)
        add("t.tr.decb", sb(b), t.decode, b, True)
    for _ in range(ctx.budget(150, 1500)):
        e = t.encode(rbits(144))
        if rng.random() < 0.5:
            k = rng.randrange(196)
            e[k] = 1 - e[k]
        add("t.tr.dec", sb(e), t.decode, e)
        add("t.tr.decb", sb(e), t.decode, e, True)
        by = bytes(rng.randrange(256) for _ in range(rng.choice([0, 1, 17, 18, 19, 30])))
        add("t.tr.encb", by.hex() if by else "-", t.encode, by)
    for _ in range(ctx.budget(200, 2000)):
        n = rng.choice([0, 1, 2, 3, 48, 49, 50, 97, 98, 99, 100])
        d = [rng.choice([3, 1, -1, -3]) if rng.random() < 0.93 else rng.choice([0, 2, -2, 5, 127, -128]) for _ in range(n)]
        a = _array("b", d)
        for op, fn in (("t.tr.d2b", t.dibits_to_bits), ("t.tr.deint", t.deinterleave), ("t.tr.int", t.interleave), ("t.tr.d2p", t.dibits_to_points)):
            add(op, si(d), fn, a)
        p = [rng.randrange(16) if rng.random() < 0.95 else rng.choice([16, 17, 255, 100]) for _ in range(n)]
        a = _array("B", p)
        add("t.tr.p2d", si(p), t.points_to_dibits, a)
        add("t.tr.p2t", si(p), t.points_to_tribits, a)
        tb = [rng.randrange(8) if rng.random() < 0.95 else rng.choice([8, 9, 63, 64, 255]) for _ in range(n)]
        a = _array("B", tb)
        add("t.tr.t2p", si(tb), t.tribits_to_points, a)
        add("t.tr.t2b", si(tb), t.tribits_to_bits, a)
    for _ in range(ctx.budget(100, 1000)):
        tb = t.bits_to_tribits(rbits(144))
        p = t.tribits_to_points(tb)
        add("t.tr.p2t", si(p), t.points_to_tribits, p)
        add("t.tr.t2b", si(tb), t.tribits_to_bits, tb)
        q = _array("B", p)
        q[rng.randrange(49)] = rng.randrange(16)
        add("t.tr.p2t", si(q), t.points_to_tribits, q)
    ctx.correspond("transl", pairs)


# ------------------------------------------------------------------------------------------------
# history / object-identity probes (harness/histories.py); the adapters of the four FEC properties live in harness/hist_fec.py
def ENTRY_POINTS():
    import hist_fec

    return hist_fec.entry_points("c10")


def run(ctx):
    import histories

    histories.run(ctx, ENTRY_POINTS)  # generic history / object-identity probes (adapters: harness/hist_fec.py)
    fresh_module()  # a second pass (boosted search) starts from the module state of a new process as well
    t = T()
    ref = Ref()
    rng = ctx.rng
    ctx.rule = (
        "blocks: captured packets, all-zero/all-one, every single set/cleared bit, every tribit value at every "
        "position, every (state, tribit) transition forced (first step, random position, last step before the "
        "flush, Eulerian walks through all 64), then seeded random 144-bit blocks; each through encode/decode "
        "by bits and by bytes.  received streams: encoder outputs with one dibit replaced (all 98 positions x 3 "
        "alternatives on several blocks) or one constellation point replaced (every (state, point) combination "
        "incl. the flush position), plus random 196-bit strings.  histories (each from a re-executed module): "
        "for each of the 13 callables (encode, decode, decode as_bytes, ten stage functions) and each accepted "
        "container type of the argument (big/little/frozen bitarray, list, tuple, bytes/bytearray of 0/1, five "
        "array typecodes, bytes) — hold: results of several inputs kept, then the first inputs again; edit-result: "
        "a returned object edited in place (flip/put, extend, del, clear, slice assignment, reverse), then the same "
        "input by the same and a new object and another input; reuse-argument: one argument object over several "
        "calls and functions, edited between the calls; relatives: a block and 16 blocks / 3 argument contents a "
        "sloppy key would confuse with it; forms: all container types of one content; chain: every stage's result "
        "object passed on as the next stage's argument, intermediate objects damaged; random and long random "
        "histories mixing all of these.  Every kept object (arguments too) is read again after every step, every "
        "answer is compared with a table-only reference and with the first answer for that content; a result that "
        "`is` an object held before is chased with an edit.  distinct = distinct (kind, input) resp. (function, "
        "argument content); all-zero block is the only trivial case"
    )
    ctx.trusted_base += [
        "tools/py2lean.py + tools/py2lean_arr.py + tools/extract_transl.py (source translator: Gen/TranslTrellis.lean from inspect.getsource of the Trellis34 functions) and "
        "lean/DmrVerif/Model/Py.lean, PyArr.lean, PyBits.lean (semantics of the Python subset); validated on every run by the differential operations t.tr.* (run_transl); "
        "Props/C10t states what is proved about the translated definitions",
    ]
    run_transl(ctx)
    ctx.trusted_base += [
        "Lean 4.33 kernel",
        "tools/extract_trellis.py (reads the four tables and the two reverse dicts of Trellis34 from /repo's working tree, in dict order)",
        "hand-written model Model/Trellis.lean of the ten stage functions and encode/decode, tied to the code by this run's correspondence",
        "the harness's table-only reference (Ref) that decides which received points are unreachable",
        "bitarray / array are trusted as the substrate of the implementation",
        "hand-written store model Model/TrellisStore.lean (a call appends one new object, touches nothing else), tied to the code "
        "by the history correspondence (every kept object is read back through hs.read)",
        "importlib.reload of okdmr.dmrlib.etsi.fec.trellis stands for 'a new process' at the start of every history (failing histories "
        "are confirmed by a new interpreter before they are reported in shrunk form)",
    ]
    ctx.assumptions += [
        "bit blocks are passed as big-endian bitarrays (bitarray's default, what the library's own callers pass); "
        "a little-endian bitarray argument is encoded with every 3-bit group reversed (theorem little_endian_argument) and is outside the property",
        "Python runs with assertions enabled (no -O): the rejection path is an assert (the child `python -O` process checks the round trip only)",
        "single-threaded use: the property does not mention concurrency, two threads inside one decode are not exercised",
    ]
    corr = Corr(ctx)
    child = child_start(ctx, ref)  # works while this process does

    # ---------------- corpus of captured streams
    for s in CORPUS_STREAMS:
        fails, out, info = oracle_stream(ref, s)
        ctx.case(("corpus-stream", s))
        ctx.count("stream:corpus")
        for kind, what, exp, act in fails:
            ctx.fail(kind, {"kind": "stream", "stream": s}, what, expected=exp, actual=act)
        corr.add("decode", f"tr.decode {s}", out)
        if not is_err(out) and len(out) == 144:
            f2, obs = oracle_block(out)
            for kind, what, exp, act in f2:
                ctx.fail(kind, {"kind": "block", "block": out}, what, expected=exp, actual=act)
            # (that encode(decode(stream)) reproduces the captured stream is not part of the property; the model
            #  correspondence of encode on this block covers it)
            corr.add("encode", f"tr.encode {out}", obs.get("encode"))

    # ---------------- blocks
    # a boosted search (x4 drift, x8 broken proof/correspondence) is capped so that thorough stays within minutes
    n_random = min(ctx.budget(1200, 97000), 300000)
    blocks = structured_blocks(rng, min(ctx.budget(1, 12), 24))
    blocks += [("random", rand_block(rng)) for _ in range(n_random)]
    sample_at = {"corpus": 1, "transition-forced": 5, "random": 3}
    seen_tag = {}
    encoded = []  # (block, stream) kept for the corruption stage
    kept = []  # every stream / block object the two entry points returned in this stage, read again at its end
    for tag, block in blocks:
        fails, obs = oracle_block(block, kept if len(kept) < 50000 else None)
        k = seen_tag[tag] = seen_tag.get(tag, 0) + 1
        smp = None
        if sample_at.get(tag) == k:
            smp = {"kind": tag, "block": block, "encode": obs.get("encode"), "decode_as_bytes": obs.get("decode_bytes")}
        ctx.case(("block", block), nontrivial=block != "0" * 144, sample=smp)
        ctx.count(f"block:{tag}")
        for kind, what, exp, act in fails:
            ctx.fail(kind, {"kind": "block", "block": block, "generator": tag}, what, expected=exp, actual=act)
        enc = obs.get("encode")
        corr.add("encode", f"tr.encode {block}", enc)
        if "decode" in obs:
            corr.add("decode", f"tr.decode {enc}", obs["decode"])
        if "encode_bytes" in obs:
            corr.add("encode(bytes)", f"tr.encode_bytes {bitarray(block).tobytes().hex()}", obs["encode_bytes"])
        if "decode_bytes" in obs:
            corr.add("decode(as_bytes)", f"tr.decode_bytes {enc}", obs["decode_bytes"])
        if not is_err(enc) and len(enc) == 196 and (tag != "random" or len(encoded) < 4000 or rng.random() < 0.05):
            encoded.append((block, enc))
    corr.flush()
    reread_block_stage(ctx, kept)
    del kept

    # ---------------- received streams with one dibit replaced
    def do_stream(kind, s, origin):
        fails, out, info = oracle_stream(ref, s)
        bad = info["first_unreachable"]
        verdict = "undecidable-by-tables" if info["points"] is None else ("reachable" if bad is None else "unreachable")
        ctx.case(("stream", s), sample={"kind": kind, "stream": s, "first_unreachable_position": bad, "decode": out} if ctx.hist.get(f"stream:{kind}", 0) == 2 else None)
        ctx.count(f"stream:{kind}")
        ctx.count(f"stream-verdict:{verdict}")
        if bad == 48:
            ctx.count("stream-verdict:unreachable-at-flush")
        for k2, what, exp, act in fails:
            ctx.fail(k2, {"kind": "stream", "stream": s, "generator": kind, "origin": origin}, what, expected=exp, actual=act)
        corr.add("decode(corrupted)", f"tr.decode {s}", out)
        if ctx.hist.get(f"stream:{kind}", 0) % 3 == 0:
            corr.add("decode(corrupted,as_bytes)", f"tr.decode_bytes {s}", cbytes(call(t.decode, bitarray(s), True)))

    pairs = ["00", "01", "10", "11"]
    if encoded:
        # exhaustively: every position x every alternative dibit on a few blocks
        for block, enc in [encoded[rng.randrange(len(encoded))] for _ in range(min(ctx.budget(3, 40), 100))]:
            for pos in range(98):
                for alt in pairs:
                    if alt != enc[2 * pos : 2 * pos + 2]:
                        do_stream("dibit-replaced", enc[: 2 * pos] + alt + enc[2 * pos + 2 :], {"block": block, "dibit": pos, "to": alt})
        for _ in range(min(ctx.budget(600, 20000), 60000)):
            block, enc = encoded[rng.randrange(len(encoded))]
            pos = rng.randrange(98)
            alt = rng.choice([p for p in pairs if p != enc[2 * pos : 2 * pos + 2]])
            do_stream("dibit-replaced", enc[: 2 * pos] + alt + enc[2 * pos + 2 :], {"block": block, "dibit": pos, "to": alt})
        # two dibits replaced (may move a point back into the row)
        for _ in range(min(ctx.budget(150, 5000), 20000)):
            block, enc = encoded[rng.randrange(len(encoded))]
            s = list(enc)
            for pos in rng.sample(range(98), 2):
                s[2 * pos : 2 * pos + 2] = list(rng.choice(pairs))
            do_stream("two-dibits-replaced", "".join(s), {"block": block})

    # ---------------- one constellation point replaced: every (state, point) combination
    for _ in range(min(ctx.budget(3, 30), 80)):
        for st in range(8):
            for q in range(16):
                for where in ("first", "middle", "flush"):
                    ts = [rng.randrange(8) for _ in range(48)]
                    if where == "first":
                        if st != 0:
                            continue
                        i = 0
                    elif where == "middle":
                        i = rng.randrange(1, 48)
                        ts[i - 1] = st
                    else:
                        i = 48
                        ts[47] = st
                    block = block_of_tribits(ts)
                    enc = call(t.encode, bitarray(block))
                    if is_err(enc) or len(enc) != 196:
                        continue  # reported by the block stage
                    pts = ref.points_of_stream(bits_str(enc))
                    if pts is None:
                        continue
                    pts = list(pts)
                    pts[i] = q
                    s = ref.stream_of_points(pts)
                    if s is None:
                        continue
                    ctx.count(f"point-replaced:state{st}:{'in-row' if q in ref.row(st) else 'not-in-row'}")
                    do_stream(f"point-replaced-{where}", s, {"block": block, "position": i, "state": st, "point": q})
    # specific transforms of valid encoder outputs (one convention wrong at the sender / in the channel)
    for _ in range(min(ctx.budget(12, 300), 600)):
        ch = ref.chain(rand_block(rng))
        if ch is None:
            break
        for label, strm in transformed_streams(ref, ch, rng):
            ctx.count(f"stream-transform:{label}")
            do_stream("transformed", strm, {"block": ch["B"], "transform": label})
        other = ref.chain(rand_block(rng))
        if other is not None:
            # the XOR of two code words (the code is not linear: as a rule not a code word)
            do_stream("transformed", "".join("1" if a != b else "0" for a, b in zip(ch["S"], other["S"])), {"block": ch["B"], "transform": "xor-of-two-codewords"})
    # random 196-bit strings (almost always rejected early) and random valid paths with a non-zero flush
    for _ in range(min(ctx.budget(100, 3000), 10000)):
        do_stream("random-stream", format(rng.getrandbits(196), "0196b"), {})
    for _ in range(min(ctx.budget(50, 1000), 4000)):
        ts = [rng.randrange(8) for _ in range(49)]
        st, pts = 0, []
        for x in ts:
            pts.append(ref.TR[st * 8 + x])
            st = x
        s = ref.stream_of_points(pts)
        if s is not None:
            do_stream("nonzero-flush-path", s, {"tribits": ts})
    corr.flush()

    # ---------------- interleaver on 98 distinct markers
    for k in range(min(ctx.budget(30, 500), 1000)):
        markers = list(range(-49, 49))
        if k:
            rng.shuffle(markers)
        fails, obs = oracle_interleave(markers)
        ctx.case(("interleave", tuple(markers)))
        ctx.count("interleave:markers")
        for kind, what, exp, act in fails:
            ctx.fail(kind, {"kind": "interleave", "markers": markers}, what, expected=exp, actual=act)
        corr.add("interleave", f"tr.interleave {arg_ints(markers)}", obs["interleave"])
        corr.add("deinterleave", f"tr.deinterleave {arg_ints(markers)}", obs["deinterleave"])

    # ---------------- stage functions and assertion paths (model = code; no property involved)
    if not ctx.search_only and ctx.driver_ok:
        stage_correspondence(ctx, corr, encoded)
    corr.flush()

    # ---------------- scale, provenance of the argument objects, ambient state (one module state, before the histories)
    scale_stage(ctx, ref)
    provenance_stage(ctx, ref)
    ambient_stage(ctx, ref)

    # ---------------- histories: arguments and results as kept objects (last: each history re-executes the module)
    history_stage(ctx, Ref())
    wrong_type_stage(ctx, Ref())
    child_finish(ctx, child)
    ctx.exhaustive = False


class Corr:
    """collects (line, impl output) per component and ships them to the model in bounded batches"""

    def __init__(self, ctx):
        self.ctx = ctx
        self.buf = {}
        self.n = 0

    def add(self, component, line, impl_out):
        if self.ctx.search_only or not self.ctx.driver_ok:
            return
        self.buf.setdefault(component, []).append((line, impl_out))
        self.n += 1
        if self.n >= 40000:
            self.flush()

    def flush(self):
        for comp, pairs in self.buf.items():
            if pairs:
                self.ctx.correspond(comp, pairs)
        self.buf = {}
        self.n = 0


def stage_correspondence(ctx, corr, encoded):
    t = T()
    rng = ctx.rng
    n = min(ctx.budget(60, 1500), 3000)
    valid_d = [3, 1, -1, -3]

    def rbits(k):
        return format(rng.getrandbits(k), f"0{k}b") if k else ""

    def stage(component, op, arg_line, fn, arg, canon):
        out = canon(call(fn, arg))
        ctx.case((op, arg_line))
        ctx.count(f"stage:{component}:{'error' if is_err(out) else 'ok'}")
        corr.add(component, f"{op} {arg_line}", out)

    bit_lens = [0, 1, 2, 3, 4, 5, 6, 7, 195, 196, 197]
    for _ in range(n):
        for k in bit_lens + [rng.randrange(0, 200)]:
            s = rbits(k)
            stage("bits_to_dibits", "tr.bits_to_dibits", arg_bits(s), t.bits_to_dibits, bitarray(s), cints)
        for k in [0, 1, 2, 3, 4, 5, 6, 142, 143, 144, 145, 146, 147, rng.randrange(0, 160)]:
            s = rbits(k)
            stage("bits_to_tribits", "tr.bits_to_tribits", arg_bits(s), t.bits_to_tribits, bitarray(s), cints)
            stage("bits_to_tribits(little-endian)", "tr.bits_to_tribits_le", arg_bits(s), t.bits_to_tribits, bitarray(s, endian="little"), cints)
        # encode / decode length assertions, truncation, little-endian argument
        for k in [0, 1, 143, 144, 145, 146, 152, 200, 288]:
            s = rbits(k)
            stage("encode(length)", "tr.encode", arg_bits(s), t.encode, bitarray(s), cbits)
        for k in [0, 1, 17, 18, 19, 24, 36]:
            b = bytes(rng.randrange(256) for _ in range(k))
            stage("encode(bytes,length)", "tr.encode_bytes", hex_str(b), t.encode, b, cbits)
        s = rbits(144)
        stage("encode(little-endian)", "tr.encode_le", s, t.encode, bitarray(s, endian="little"), cbits)
        # objects with len() and slices that are neither bytes nor bitarray: length assertion, then ba2int's TypeError
        for k in [0, 18, 143, 144, 196]:
            xs = [rng.randrange(2) for _ in range(k)]
            for name, obj in (("bytearray", bytearray(xs)), ("memoryview", memoryview(bytes(xs))), ("list", xs), ("tuple", tuple(xs)), ("str", "".join(map(str, xs)))):
                stage(f"encode({name})", "tr.encode_foreign", str(k), t.encode, obj, cbits)
        for k in [0, 1, 194, 195, 197, 198, 392]:
            s = rbits(k)
            stage("decode(length)", "tr.decode", arg_bits(s), t.decode, bitarray(s), cbits)
        # dibit arrays: valid values, a foreign value somewhere, odd / short / long lengths
        for k in [0, 1, 2, 3, 96, 97, 98, 99, 100, 130]:
            d = [rng.choice(valid_d) for _ in range(k)]
            stage("deinterleave", "tr.deinterleave", arg_ints(d), t.deinterleave, array("b", d), cints)
            stage("interleave", "tr.interleave", arg_ints(d), t.interleave, array("b", d), cints)
            stage("dibits_to_points", "tr.dibits_to_points", arg_ints(d), t.dibits_to_points, array("b", d), cints)
            stage("dibits_to_bits", "tr.dibits_to_bits", arg_ints(d), t.dibits_to_bits, array("b", d), cbits)
            if k:
                d2 = list(d)
                d2[rng.randrange(k)] = rng.choice([0, 2, -2, 5, -128, 127])
                stage("dibits_to_points", "tr.dibits_to_points", arg_ints(d2), t.dibits_to_points, array("b", d2), cints)
                stage("dibits_to_bits", "tr.dibits_to_bits", arg_ints(d2), t.dibits_to_bits, array("b", d2), cbits)
                stage("deinterleave", "tr.deinterleave", arg_ints(d2), t.deinterleave, array("b", d2), cints)
                stage("interleave", "tr.interleave", arg_ints(d2), t.interleave, array("b", d2), cints)
        # points
        for k in [0, 1, 10, 48, 49, 50, 60]:
            p = [rng.randrange(16) for _ in range(k)]
            stage("points_to_dibits", "tr.points_to_dibits", arg_ints(p), t.points_to_dibits, array("B", p), cints)
            stage("points_to_tribits", "tr.points_to_tribits", arg_ints(p), t.points_to_tribits, array("B", p), cints)
            # a valid encoder path of that length (accepted; fewer than 49 run out of points, extra ones are ignored)
            st, vp = 0, []
            for _j in range(k):
                x = rng.randrange(8)
                vp.append(t.TRELLIS34_ENCODER_STATE_TRANSITION[st * 8 + x])
                st = x
            stage("points_to_tribits", "tr.points_to_tribits", arg_ints(vp), t.points_to_tribits, array("B", vp), cints)
            if k:
                p2 = list(p)
                p2[rng.randrange(k)] = rng.choice([16, 17, 64, 255])
                stage("points_to_dibits", "tr.points_to_dibits", arg_ints(p2), t.points_to_dibits, array("B", p2), cints)
                stage("points_to_tribits", "tr.points_to_tribits", arg_ints(p2), t.points_to_tribits, array("B", p2), cints)
        # tribits: valid, and values above 7 (table subscript beyond the row / beyond the table)
        for k in [0, 1, 47, 48, 49, 50]:
            ts = [rng.randrange(8) for _ in range(k)]
            stage("tribits_to_points", "tr.tribits_to_points", arg_ints(ts), t.tribits_to_points, array("B", ts), cints)
            stage("tribits_to_bits", "tr.tribits_to_bits", arg_ints(ts), t.tribits_to_bits, array("B", ts), cbits)
            if k:
                ts2 = list(ts)
                ts2[rng.randrange(k)] = rng.choice([8, 9, 15, 56, 63, 64, 255])
                stage("tribits_to_points", "tr.tribits_to_points", arg_ints(ts2), t.tribits_to_points, array("B", ts2), cints)
                stage("tribits_to_bits", "tr.tribits_to_bits", arg_ints(ts2), t.tribits_to_bits, array("B", ts2), cbits)
    # the stage chain on real blocks: every intermediate array of encode and decode
    for block, enc in encoded[: ctx.budget(150, 3000)]:
        ts = call(t.bits_to_tribits, bitarray(block))
        corr.add("bits_to_tribits", f"tr.bits_to_tribits {block}", cints(ts))
        if is_err(ts):
            continue
        pts = call(t.tribits_to_points, ts)
        corr.add("tribits_to_points", f"tr.tribits_to_points {arg_ints(ts)}", cints(pts))
        if is_err(pts):
            continue
        ds = call(t.points_to_dibits, pts)
        corr.add("points_to_dibits", f"tr.points_to_dibits {arg_ints(pts)}", cints(ds))
        corr.add("points_to_tribits", f"tr.points_to_tribits {arg_ints(pts)}", cints(call(t.points_to_tribits, pts)))
        if is_err(ds):
            continue
        ids = call(t.interleave, ds)
        corr.add("interleave", f"tr.interleave {arg_ints(ds)}", cints(ids))
        corr.add("dibits_to_points", f"tr.dibits_to_points {arg_ints(ds)}", cints(call(t.dibits_to_points, ds)))
        if is_err(ids):
            continue
        corr.add("dibits_to_bits", f"tr.dibits_to_bits {arg_ints(ids)}", cbits(call(t.dibits_to_bits, ids)))
        corr.add("deinterleave", f"tr.deinterleave {arg_ints(ids)}", cints(call(t.deinterleave, ids)))
        corr.add("bits_to_dibits", f"tr.bits_to_dibits {enc}", cints(call(t.bits_to_dibits, bitarray(enc))))
        corr.add("tribits_to_bits", f"tr.tribits_to_bits {arg_ints(ts)}", cbits(call(t.tribits_to_bits, ts)))
        ctx.case(("chain", block))
        ctx.count("stage:chain")


# ---- replay --------------------------------------------------------------------------------------
def model_says(lines):
    exe = os.path.join(BIN, "drv_c10")
    if not os.path.exists(exe):
        return ["(model driver not built)"] * len(lines)
    p = subprocess.run([exe], input="\n".join(lines) + "\n", capture_output=True, text=True, timeout=600)
    out = p.stdout.split("\n")
    return out[: len(lines)]


def replay(obj):
    if str((obj.get("failure") or {}).get("kind", "")).startswith("history:"):
        import histories

        return histories.replay((obj.get("failure") or {}).get("input") or {}, ENTRY_POINTS)
    f = obj.get("failure") or {}
    inp = f.get("input") or {}
    print(json.dumps(obj.get("type")), f.get("kind"), "-", f.get("what"))
    print("recorded expected:", f.get("expected"))
    print("recorded actual:  ", f.get("actual"))
    fails = []
    if inp.get("kind") == "block":
        block = inp["block"]
        if inp.get("interpreter"):
            import common

            c = common.Ctx(PROP, "quick", 0)
            child_finish(c, child_start(c, Ref(), blocks=[block]))
            print("in a child interpreter (", inp["interpreter"], "):", "fails" if c.failures else "holds")
            for x in c.failures:
                print(f"STILL FAILS [{x['kind']}] {x['what']}: expected {x['expected']} actual {x['actual']}")
            if c.failures:
                return 1
        if inp.get("ambient"):
            with ambient(inp["ambient"]):
                fails, obs = oracle_block(block)
        else:
            fails, obs = oracle_block(block)
        lines = [f"tr.encode {block}"]
        if "encode" in obs and not is_err(obs["encode"]):
            lines += [f"tr.decode {obs['encode']}", f"tr.decode_bytes {obs['encode']}"]
        lines.append(f"tr.encode_bytes {bitarray(block).tobytes().hex()}")
        ms = model_says(lines)
        print("block:", block)
        for k, v in obs.items():
            print(f"implementation {k}: {v}")
        for l, m in zip(lines, ms):
            print(f"model {l.split(' ')[0]}: {m}")
    elif inp.get("kind") == "stream":
        s = inp["stream"]
        ref = Ref()
        fails, out, info = oracle_stream(ref, s)
        print("stream:", s)
        print("points (from the tables):", info["points"])
        print("first point the encoder cannot emit from the state reached there: position", info["first_unreachable"])
        print("implementation decode:", out)
        print("model decode:", model_says([f"tr.decode {s}"])[0])
    elif inp.get("kind") == "history":
        steps = inp["steps"]
        res = run_history(Ref(), steps)
        ms = model_says(["hs.reset"] + [l for l, _ in res.lines])[1:]
        print("history (a new module state; handles are allocated by 'new' and 'call' in order, from 0):")
        for i, st in enumerate(steps):
            print(f"  step {i}: {step_text(st)}")
        print("implementation / model, line by line:")
        for (line, out), m in zip(res.lines, ms):
            print(f"  {line[:60]}{'…' if len(line) > 60 else ''}\n      implementation: {out}\n      model:          {m}")
        fails = [(b["kind"], b["what"], b["expected"], b["actual"]) for b in res.bad]
    elif inp.get("kind") == "after-rejected-call":
        ref = Ref()
        blk = inp.get("argument_block") or "0" * 144
        chn = ref.chain(blk)
        mk = dict(wrong_type_arguments(blk, chn["S"] if chn else "0" * 196)).get(inp["argument"])
        fresh_module()
        first = canon_err(impl_call(T(), inp["function"], mk())) if mk else "?"
        print(f"new module state; first call {inp['function']}({inp['argument']}) -> {first}; then:", inp["then"])
        then = inp["then"]
        if then.get("kind") == "block":
            f2, obs = oracle_block(then["block"])
            for k, v in obs.items():
                print(f"implementation {k}: {v}")
        elif then.get("kind") == "stream":
            f2, out, _ = oracle_stream(ref, then["stream"])
            print("implementation decode:", out)
        else:
            f2, _ = oracle_interleave(then["markers"])
        fails = list(f2)
    elif inp.get("kind") == "provenance":
        ref = Ref()
        ch = ref.chain(inp["block"])
        t = T()
        for fn, label, mk, strict in provenance_forms(ch["B"], ch["S"]):
            if fn == inp["function"] and label == inp["form"]:
                obj = mk()
                before = snapshot_arg(obj)
                got = canon_obj(impl_call(t, fn, obj))
                want = ("b:" + ch["S"]) if fn == "encode" else ("b:" + ch["B"]) if fn == "decode" else ("o:" + ch["O"])
                print(f"{fn}({label} object): {got}\nexpected: {want}")
                if (is_err(got) and strict) or (not is_err(got) and got != want) or before != snapshot_arg(obj):
                    fails.append((f.get("kind"), f.get("what"), want, got))
    elif inp.get("kind") == "flag":
        t = T()
        ch = Ref().chain(inp["block"])
        for flag, as_bytes in [(1, True), (0, False), (None, False), ("yes", True), ("", False), ([0], True), ([], False), (2.0, True)]:
            if repr(flag) == inp["as_bytes"]:
                out = call(t.decode, bitarray(ch["S"]), flag) if inp["how"] == "positional" else call(t.decode, bitarray(ch["S"]), as_bytes=flag)
                want = ("o:" + ch["O"]) if as_bytes else ("b:" + ch["B"])
                print("implementation:", canon_obj(out), "expected:", want)
                if canon_obj(out) != want:
                    fails.append((f.get("kind"), f.get("what"), want, canon_obj(out)))
    elif inp.get("kind") == "interleave":
        fails, obs = oracle_interleave(inp["markers"])
        print("markers:", inp["markers"])
        for k, v in obs.items():
            print(f"implementation {k}: {v}")
        ms = model_says([f"tr.interleave {arg_ints(inp['markers'])}", f"tr.deinterleave {arg_ints(inp['markers'])}"])
        print("model interleave:", ms[0])
        print("model deinterleave:", ms[1])
    else:
        print("nothing to re-run: the replay file records a broken proof / correspondence, see 'no_longer_checks' and 'correspondence_differences'")
        for d in (obj.get("correspondence_differences") or [])[:5]:
            print("  ", d)
        return 1
    for kind, what, exp, act in fails:
        print(f"STILL FAILS [{kind}] {what}: expected {exp} actual {act}")
    if not fails:
        print("the property holds on this input now")
    return 1 if fails else 0
