"""C10 — rate 3/4 trellis coding is lossless for every 144-bit block (DESIGN §5 C10).

Correspondence: `Trellis34.encode` / `decode` (bits and bytes entry points, `as_bytes`), the ten stage
functions (also on inputs of the wrong length / with values outside the tables, for the error paths)
against the Lean model `Model/Trellis.lean` through `drv_c10`.

Oracle (the property on the real code, nothing from the model): length 196, round trip for bits and
bytes, agreement of the two entry points, interleave/deinterleave inverse on 98 distinct markers, and
rejection of every stream that contains a constellation point the encoder cannot emit from the state
reached at that position.  Reachability is computed here, from the tables only (`Ref`), never by
calling the stage functions of the implementation.
"""
import json
import os
import subprocess
from array import array

from bitarray import bitarray

from common import BIN, bits_str, hex_str, impl_error

PROP = "C10"
MODULES = ["C10"]
GEN = ["Trellis"]
MATCHERS = {}

# captured packets of okdmr/tests/dmrlib/etsi/fec/test_trellis.py: decoded octets
CORPUS_HEX = [
    "006200014100480019804a00200054004100",
    "02f24400590020004d004100520045004b00",
    "0538000000000000000000000000f486aed8",
]
# … and the on-air stream of test_deterministics
CORPUS_STREAMS = [
    "0010010100100010001000100010001000100010101001100011001010110010001000100010001000100010001000100110100000100010"
    "001000100010001000100010011110010001010100100010001000100010001000100010110000010001",
]


def T():
    from okdmr.dmrlib.etsi.fec.trellis import Trellis34

    return Trellis34


def call(fn, *a, **kw):
    try:
        return fn(*a, **kw)
    except BaseException as e:  # noqa: every exception of the real code is an observable
        return impl_error(e)


def is_err(x) -> bool:
    return isinstance(x, str) and x.startswith("ERR ")


# ---- canonical forms -----------------------------------------------------------------------------
def cbits(x) -> str:
    if is_err(x):
        return x
    s = bits_str(x)
    return s if s else "-"


def cints(x) -> str:
    if is_err(x):
        return x
    xs = [str(int(v)) for v in x]
    return ",".join(xs) if xs else "-"


def cbytes(x) -> str:
    if is_err(x):
        return x
    return hex_str(bytes(x))


def arg_bits(s: str) -> str:
    return s if s else "-"


def arg_ints(xs) -> str:
    return ",".join(str(int(v)) for v in xs) if len(xs) else "-"


# ---- independent reference: tables only ----------------------------------------------------------
class Ref:
    """stream -> points and reachability, computed from the live tables (the same attributes the
    translator writes to Gen/Trellis.lean), without calling any Trellis34 function"""

    def __init__(self):
        t = T()
        self.M = list(t.TRELLIS34_INTERLEAVE_MATRIX)
        self.TR = list(t.TRELLIS34_ENCODER_STATE_TRANSITION)
        self.D = dict(t.TRELLIS34_DIBITS)
        self.CP = dict(t.TRELLIS34_CONSTELLATION_POINTS)
        # own inversions (not the module's reverse dicts), used only to *build* corrupted streams
        self.Dinv = {v: k for k, v in self.D.items()}
        self.CPinv = {v: k for k, v in self.CP.items()}

    def row(self, state):
        return self.TR[state * 8 : state * 8 + 8]

    def points_of_stream(self, s: str):
        """the 49 points the forward tables assign to a 196-bit stream (None if a look-up is impossible)"""
        try:
            d = [self.D[(int(s[i]), int(s[i + 1]))] for i in range(0, 196, 2)]
            dd = [None] * 98
            for i, m in enumerate(self.M):
                dd[m] = d[i]
            return [self.CP[(dd[i], dd[i + 1])] for i in range(0, 98, 2)]
        except (KeyError, IndexError, TypeError):
            return None

    def stream_of_points(self, pts):
        """some 196-bit stream whose points are `pts` (None if the tables do not allow building one)"""
        try:
            dd = []
            for p in pts:
                dd.extend(self.CPinv[p])
            d = [dd[m] for m in self.M]
            out = []
            for x in d:
                out.extend(self.Dinv[x])
            return "".join(str(b) for b in out)
        except (KeyError, IndexError):
            return None

    def first_unreachable(self, pts):
        """index of the first point no encoder path can emit at that position (None: a path exists).
        Tracks the *set* of encoder states compatible with the prefix, so it stays exact even for a
        table whose rows are not distinct."""
        states = {0}
        for i, p in enumerate(pts[:49]):
            nxt = set()
            for st in states:
                r = self.row(st)
                nxt.update(k for k in range(len(r)) if r[k] == p)
            if not nxt:
                return i
            states = nxt
        return None

    def path(self, pts):
        """the tribits along the unique path (None if not unique / not reachable)"""
        st, out = 0, []
        for p in pts[:49]:
            hits = [k for k, x in enumerate(self.row(st)) if x == p]
            if len(hits) != 1:
                return None
            st = hits[0]
            out.append(st)
        return out


def tribits_to_block(ts) -> str:
    return "".join(format(t & 7, "03b") for t in ts[:48])


# ---- the property on the real code ---------------------------------------------------------------
def oracle_block(block: str):
    """block: 144 chars of 0/1.  Returns (failures, observables) on the real code."""
    t = T()
    fails = []
    octets = bitarray(block).tobytes()
    enc = call(t.encode, bitarray(block))
    obs = {"encode": cbits(enc)}
    if is_err(enc):
        fails.append(("encode-raises", f"encode of a 144-bit block raised {enc}", "196 bits", enc))
        return fails, obs
    if len(enc) != 196:
        fails.append(("length", f"encode yields {len(enc)} bits", 196, len(enc)))
    dec = call(t.decode, bitarray(enc))
    obs["decode"] = cbits(dec)
    if is_err(dec) or bits_str(dec) != block:
        fails.append(("round-trip", "decode(encode(block)) is not the block", block, cbits(dec)))
    encb = call(t.encode, octets)
    obs["encode_bytes"] = cbits(encb)
    if is_err(encb) or bits_str(encb) != bits_str(enc):
        fails.append(("bytes-bits-differ", "encode(bytes) differs from encode(bits) of the same block", cbits(enc), cbits(encb)))
    decb = call(t.decode, bitarray(enc), True)
    obs["decode_bytes"] = cbytes(decb)
    if is_err(decb) or not isinstance(decb, bytes) or decb != octets:
        fails.append(("round-trip-bytes", "decode(encode(octets), as_bytes=True) is not the 18 octets", octets.hex(), cbytes(decb)))
    return fails, obs


def oracle_stream(ref: Ref, stream: str):
    """a received 196-bit stream: unreachable point => must be rejected.  Returns (failures, observable, info)"""
    t = T()
    dec = call(t.decode, bitarray(stream))
    out = cbits(dec)
    fails = []
    pts = ref.points_of_stream(stream)
    info = {"points": pts, "first_unreachable": None}
    if pts is not None:
        bad = ref.first_unreachable(pts)
        info["first_unreachable"] = bad
        if bad is not None and not is_err(dec):
            fails.append((
                "unreachable-accepted",
                f"point {pts[bad]} at position {bad} cannot be emitted from the state reached there, yet the stream was decoded",
                "rejected (exception)", out))
        if bad is None:
            path = ref.path(pts)
            if path is not None:
                # if the stream is the real encoder's output for the block along its path, the round trip demands the block back
                want = tribits_to_block(path)
                re = call(t.encode, bitarray(want))
                info["is_encoder_output"] = (not is_err(re)) and bits_str(re) == stream
                if info["is_encoder_output"] and (is_err(dec) or bits_str(dec) != want):
                    fails.append(("round-trip", "an encoder output stream is not decoded to its block", want, out))
    return fails, out, info


def oracle_interleave(markers):
    """98 distinct markers: both compositions are the identity and positions are permuted"""
    t = T()
    fails = []
    a = array("b", markers)
    i = call(t.interleave, array("b", a))
    d = call(t.deinterleave, array("b", a))
    obs = {"interleave": cints(i), "deinterleave": cints(d)}
    if is_err(i) or is_err(d):
        fails.append(("interleave-raises", "interleave/deinterleave raised on 98 dibit positions", "98 values", f"{cints(i)[:30]} / {cints(d)[:30]}"))
        return fails, obs
    if sorted(i) != sorted(a) or sorted(d) != sorted(a) or len(i) != 98 or len(d) != 98:
        fails.append(("interleave-not-permutation", "interleave/deinterleave is not a permutation of the 98 positions", cints(sorted(a)), cints(sorted(i))))
    di = call(t.deinterleave, array("b", i))
    idd = call(t.interleave, array("b", d))
    if is_err(di) or list(di) != list(a):
        fails.append(("interleave-inverse", "deinterleave(interleave(d)) != d", cints(a), cints(di)))
    if is_err(idd) or list(idd) != list(a):
        fails.append(("interleave-inverse", "interleave(deinterleave(d)) != d", cints(a), cints(idd)))
    return fails, obs


# ---- generators ----------------------------------------------------------------------------------
def rand_block(rng) -> str:
    return format(rng.getrandbits(144), "0144b")


def block_of_tribits(ts) -> str:
    assert len(ts) == 48
    return "".join(format(t, "03b") for t in ts)


def structured_blocks(rng, reps: int):
    """(tag, block) — boundaries and every local situation of the state machine"""
    out = []
    for h in CORPUS_HEX:
        out.append(("corpus", bits_str(_ba_from_bytes(bytes.fromhex(h)))))
    out.append(("all-zero", "0" * 144))
    out.append(("all-one", "1" * 144))
    for i in range(144):
        out.append(("single-bit", "0" * i + "1" + "0" * (143 - i)))
    for i in range(144):
        out.append(("single-zero", "1" * i + "0" + "1" * (143 - i)))
    # each tribit value at each position, rest zero and rest random
    for pos in range(48):
        for v in range(8):
            ts = [0] * 48
            ts[pos] = v
            out.append(("tribit-at-position", block_of_tribits(ts)))
    # every (state, tribit) transition forced: at the first step (state 0), in the middle, at the end
    for _ in range(reps):
        for s in range(8):
            for v in range(8):
                ts = [rng.randrange(8) for _ in range(48)]
                pos = rng.randrange(47)
                ts[pos], ts[pos + 1] = s, v
                out.append(("transition-forced", block_of_tribits(ts)))
                ts = [rng.randrange(8) for _ in range(48)]
                ts[46], ts[47] = s, v  # last data transition, then (v, flush 0)
                out.append(("transition-at-end", block_of_tribits(ts)))
        for v in range(8):
            ts = [rng.randrange(8) for _ in range(48)]
            ts[0] = v  # (state 0, v) at the first step
            out.append(("first-step", block_of_tribits(ts)))
        # all 64 transitions in one block: a de Bruijn-like walk
        seq = debruijn_pairs(rng)
        for k in range(0, len(seq) - 47, 16):
            out.append(("all-transitions-walk", block_of_tribits(seq[k : k + 48])))
    return out


def debruijn_pairs(rng):
    """a sequence over 0..7 in which every ordered pair occurs (Eulerian circuit of the complete digraph)"""
    succ = {s: list(range(8)) for s in range(8)}
    for s in succ:
        rng.shuffle(succ[s])
    stack, circuit = [0], []
    while stack:
        v = stack[-1]
        if succ[v]:
            stack.append(succ[v].pop())
        else:
            circuit.append(stack.pop())
    seq = circuit[::-1]  # 65 symbols, 64 distinct consecutive pairs
    return seq + seq[1:48]


def _ba_from_bytes(b: bytes) -> bitarray:
    x = bitarray(endian="big")
    x.frombytes(b)
    return x


# ---- run -----------------------------------------------------------------------------------------
def run(ctx):
    t = T()
    ref = Ref()
    rng = ctx.rng
    ctx.rule = (
        "blocks: captured packets, all-zero/all-one, every single set/cleared bit, every tribit value at every "
        "position, every (state, tribit) transition forced (first step, random position, last step before the "
        "flush, Eulerian walks through all 64), then seeded random 144-bit blocks; each through encode/decode "
        "by bits and by bytes.  received streams: encoder outputs with one dibit replaced (all 98 positions x 3 "
        "alternatives on several blocks) or one constellation point replaced (every (state, point) combination "
        "incl. the flush position), plus random 196-bit strings.  distinct = distinct (kind, input); all-zero "
        "block is the only trivial case"
    )
    ctx.trusted_base += [
        "Lean 4.33 kernel",
        "tools/extract_trellis.py (reads the four tables and the two reverse dicts of Trellis34 from /repo's working tree, in dict order)",
        "hand-written model Model/Trellis.lean of the ten stage functions and encode/decode, tied to the code by this run's correspondence",
        "the harness's table-only reference (Ref) that decides which received points are unreachable",
        "bitarray / array are trusted as the substrate of the implementation",
    ]
    ctx.assumptions += [
        "bit blocks are passed as big-endian bitarrays (bitarray's default, what the library's own callers pass); "
        "a little-endian bitarray argument is encoded with every 3-bit group reversed (theorem little_endian_argument) and is outside the property",
        "Python runs with assertions enabled (no -O): the rejection path is an assert",
    ]
    corr = Corr(ctx)

    # ---------------- corpus of captured streams
    for s in CORPUS_STREAMS:
        fails, out, info = oracle_stream(ref, s)
        ctx.case(("corpus-stream", s))
        ctx.count("stream:corpus")
        for kind, what, exp, act in fails:
            ctx.fail(kind, {"kind": "stream", "stream": s}, what, expected=exp, actual=act)
        corr.add("decode", f"tr.decode {s}", out)
        if not is_err(out) and len(out) == 144:
            f2, obs = oracle_block(out)
            for kind, what, exp, act in f2:
                ctx.fail(kind, {"kind": "block", "block": out}, what, expected=exp, actual=act)
            # (that encode(decode(stream)) reproduces the captured stream is not part of the property; the model
            #  correspondence of encode on this block covers it)
            corr.add("encode", f"tr.encode {out}", obs.get("encode"))

    # ---------------- blocks
    # a boosted search (x4 drift, x8 broken proof/correspondence) is capped so that thorough stays within minutes
    n_random = min(ctx.budget(1200, 97000), 300000)
    blocks = structured_blocks(rng, min(ctx.budget(1, 12), 24))
    blocks += [("random", rand_block(rng)) for _ in range(n_random)]
    sample_at = {"corpus": 1, "transition-forced": 5, "random": 3}
    seen_tag = {}
    encoded = []  # (block, stream) kept for the corruption stage
    for tag, block in blocks:
        fails, obs = oracle_block(block)
        k = seen_tag[tag] = seen_tag.get(tag, 0) + 1
        smp = None
        if sample_at.get(tag) == k:
            smp = {"kind": tag, "block": block, "encode": obs.get("encode"), "decode_as_bytes": obs.get("decode_bytes")}
        ctx.case(("block", block), nontrivial=block != "0" * 144, sample=smp)
        ctx.count(f"block:{tag}")
        for kind, what, exp, act in fails:
            ctx.fail(kind, {"kind": "block", "block": block, "generator": tag}, what, expected=exp, actual=act)
        enc = obs.get("encode")
        corr.add("encode", f"tr.encode {block}", enc)
        if "decode" in obs:
            corr.add("decode", f"tr.decode {enc}", obs["decode"])
        if "encode_bytes" in obs:
            corr.add("encode(bytes)", f"tr.encode_bytes {bitarray(block).tobytes().hex()}", obs["encode_bytes"])
        if "decode_bytes" in obs:
            corr.add("decode(as_bytes)", f"tr.decode_bytes {enc}", obs["decode_bytes"])
        if not is_err(enc) and len(enc) == 196 and (tag != "random" or len(encoded) < 4000 or rng.random() < 0.05):
            encoded.append((block, enc))
    corr.flush()

    # ---------------- received streams with one dibit replaced
    def do_stream(kind, s, origin):
        fails, out, info = oracle_stream(ref, s)
        bad = info["first_unreachable"]
        verdict = "undecidable-by-tables" if info["points"] is None else ("reachable" if bad is None else "unreachable")
        ctx.case(("stream", s), sample={"kind": kind, "stream": s, "first_unreachable_position": bad, "decode": out} if ctx.hist.get(f"stream:{kind}", 0) == 2 else None)
        ctx.count(f"stream:{kind}")
        ctx.count(f"stream-verdict:{verdict}")
        if bad == 48:
            ctx.count("stream-verdict:unreachable-at-flush")
        for k2, what, exp, act in fails:
            ctx.fail(k2, {"kind": "stream", "stream": s, "generator": kind, "origin": origin}, what, expected=exp, actual=act)
        corr.add("decode(corrupted)", f"tr.decode {s}", out)
        if ctx.hist.get(f"stream:{kind}", 0) % 3 == 0:
            corr.add("decode(corrupted,as_bytes)", f"tr.decode_bytes {s}", cbytes(call(t.decode, bitarray(s), True)))

    pairs = ["00", "01", "10", "11"]
    if encoded:
        # exhaustively: every position x every alternative dibit on a few blocks
        for block, enc in [encoded[rng.randrange(len(encoded))] for _ in range(min(ctx.budget(3, 40), 100))]:
            for pos in range(98):
                for alt in pairs:
                    if alt != enc[2 * pos : 2 * pos + 2]:
                        do_stream("dibit-replaced", enc[: 2 * pos] + alt + enc[2 * pos + 2 :], {"block": block, "dibit": pos, "to": alt})
        for _ in range(min(ctx.budget(600, 20000), 60000)):
            block, enc = encoded[rng.randrange(len(encoded))]
            pos = rng.randrange(98)
            alt = rng.choice([p for p in pairs if p != enc[2 * pos : 2 * pos + 2]])
            do_stream("dibit-replaced", enc[: 2 * pos] + alt + enc[2 * pos + 2 :], {"block": block, "dibit": pos, "to": alt})
        # two dibits replaced (may move a point back into the row)
        for _ in range(min(ctx.budget(150, 5000), 20000)):
            block, enc = encoded[rng.randrange(len(encoded))]
            s = list(enc)
            for pos in rng.sample(range(98), 2):
                s[2 * pos : 2 * pos + 2] = list(rng.choice(pairs))
            do_stream("two-dibits-replaced", "".join(s), {"block": block})

    # ---------------- one constellation point replaced: every (state, point) combination
    for _ in range(min(ctx.budget(3, 30), 80)):
        for st in range(8):
            for q in range(16):
                for where in ("first", "middle", "flush"):
                    ts = [rng.randrange(8) for _ in range(48)]
                    if where == "first":
                        if st != 0:
                            continue
                        i = 0
                    elif where == "middle":
                        i = rng.randrange(1, 48)
                        ts[i - 1] = st
                    else:
                        i = 48
                        ts[47] = st
                    block = block_of_tribits(ts)
                    enc = call(t.encode, bitarray(block))
                    if is_err(enc) or len(enc) != 196:
                        continue  # reported by the block stage
                    pts = ref.points_of_stream(bits_str(enc))
                    if pts is None:
                        continue
                    pts = list(pts)
                    pts[i] = q
                    s = ref.stream_of_points(pts)
                    if s is None:
                        continue
                    ctx.count(f"point-replaced:state{st}:{'in-row' if q in ref.row(st) else 'not-in-row'}")
                    do_stream(f"point-replaced-{where}", s, {"block": block, "position": i, "state": st, "point": q})
    # random 196-bit strings (almost always rejected early) and random valid paths with a non-zero flush
    for _ in range(min(ctx.budget(100, 3000), 10000)):
        do_stream("random-stream", format(rng.getrandbits(196), "0196b"), {})
    for _ in range(min(ctx.budget(50, 1000), 4000)):
        ts = [rng.randrange(8) for _ in range(49)]
        st, pts = 0, []
        for x in ts:
            pts.append(ref.TR[st * 8 + x])
            st = x
        s = ref.stream_of_points(pts)
        if s is not None:
            do_stream("nonzero-flush-path", s, {"tribits": ts})
    corr.flush()

    # ---------------- interleaver on 98 distinct markers
    for k in range(min(ctx.budget(30, 500), 1000)):
        markers = list(range(-49, 49))
        if k:
            rng.shuffle(markers)
        fails, obs = oracle_interleave(markers)
        ctx.case(("interleave", tuple(markers)))
        ctx.count("interleave:markers")
        for kind, what, exp, act in fails:
            ctx.fail(kind, {"kind": "interleave", "markers": markers}, what, expected=exp, actual=act)
        corr.add("interleave", f"tr.interleave {arg_ints(markers)}", obs["interleave"])
        corr.add("deinterleave", f"tr.deinterleave {arg_ints(markers)}", obs["deinterleave"])

    # ---------------- stage functions and assertion paths (model = code; no property involved)
    if not ctx.search_only and ctx.driver_ok:
        stage_correspondence(ctx, corr, encoded)
    corr.flush()
    ctx.exhaustive = False


class Corr:
    """collects (line, impl output) per component and ships them to the model in bounded batches"""

    def __init__(self, ctx):
        self.ctx = ctx
        self.buf = {}
        self.n = 0

    def add(self, component, line, impl_out):
        if self.ctx.search_only or not self.ctx.driver_ok:
            return
        self.buf.setdefault(component, []).append((line, impl_out))
        self.n += 1
        if self.n >= 40000:
            self.flush()

    def flush(self):
        for comp, pairs in self.buf.items():
            if pairs:
                self.ctx.correspond(comp, pairs)
        self.buf = {}
        self.n = 0


def stage_correspondence(ctx, corr, encoded):
    t = T()
    rng = ctx.rng
    n = min(ctx.budget(60, 1500), 3000)
    valid_d = [3, 1, -1, -3]

    def rbits(k):
        return format(rng.getrandbits(k), f"0{k}b") if k else ""

    def stage(component, op, arg_line, fn, arg, canon):
        out = canon(call(fn, arg))
        ctx.case((op, arg_line))
        ctx.count(f"stage:{component}:{'error' if is_err(out) else 'ok'}")
        corr.add(component, f"{op} {arg_line}", out)

    bit_lens = [0, 1, 2, 3, 4, 5, 6, 7, 195, 196, 197]
    for _ in range(n):
        for k in bit_lens + [rng.randrange(0, 200)]:
            s = rbits(k)
            stage("bits_to_dibits", "tr.bits_to_dibits", arg_bits(s), t.bits_to_dibits, bitarray(s), cints)
        for k in [0, 1, 2, 3, 4, 5, 6, 142, 143, 144, 145, 146, 147, rng.randrange(0, 160)]:
            s = rbits(k)
            stage("bits_to_tribits", "tr.bits_to_tribits", arg_bits(s), t.bits_to_tribits, bitarray(s), cints)
            stage("bits_to_tribits(little-endian)", "tr.bits_to_tribits_le", arg_bits(s), t.bits_to_tribits, bitarray(s, endian="little"), cints)
        # encode / decode length assertions, truncation, little-endian argument
        for k in [0, 1, 143, 144, 145, 146, 152, 200, 288]:
            s = rbits(k)
            stage("encode(length)", "tr.encode", arg_bits(s), t.encode, bitarray(s), cbits)
        for k in [0, 1, 17, 18, 19, 24, 36]:
            b = bytes(rng.randrange(256) for _ in range(k))
            stage("encode(bytes,length)", "tr.encode_bytes", hex_str(b), t.encode, b, cbits)
        s = rbits(144)
        stage("encode(little-endian)", "tr.encode_le", s, t.encode, bitarray(s, endian="little"), cbits)
        for k in [0, 1, 194, 195, 197, 198, 392]:
            s = rbits(k)
            stage("decode(length)", "tr.decode", arg_bits(s), t.decode, bitarray(s), cbits)
        # dibit arrays: valid values, a foreign value somewhere, odd / short / long lengths
        for k in [0, 1, 2, 3, 96, 97, 98, 99, 100, 130]:
            d = [rng.choice(valid_d) for _ in range(k)]
            stage("deinterleave", "tr.deinterleave", arg_ints(d), t.deinterleave, array("b", d), cints)
            stage("interleave", "tr.interleave", arg_ints(d), t.interleave, array("b", d), cints)
            stage("dibits_to_points", "tr.dibits_to_points", arg_ints(d), t.dibits_to_points, array("b", d), cints)
            stage("dibits_to_bits", "tr.dibits_to_bits", arg_ints(d), t.dibits_to_bits, array("b", d), cbits)
            if k:
                d2 = list(d)
                d2[rng.randrange(k)] = rng.choice([0, 2, -2, 5, -128, 127])
                stage("dibits_to_points", "tr.dibits_to_points", arg_ints(d2), t.dibits_to_points, array("b", d2), cints)
                stage("dibits_to_bits", "tr.dibits_to_bits", arg_ints(d2), t.dibits_to_bits, array("b", d2), cbits)
                stage("deinterleave", "tr.deinterleave", arg_ints(d2), t.deinterleave, array("b", d2), cints)
                stage("interleave", "tr.interleave", arg_ints(d2), t.interleave, array("b", d2), cints)
        # points
        for k in [0, 1, 10, 48, 49, 50, 60]:
            p = [rng.randrange(16) for _ in range(k)]
            stage("points_to_dibits", "tr.points_to_dibits", arg_ints(p), t.points_to_dibits, array("B", p), cints)
            stage("points_to_tribits", "tr.points_to_tribits", arg_ints(p), t.points_to_tribits, array("B", p), cints)
            # a valid encoder path of that length (accepted; fewer than 49 run out of points, extra ones are ignored)
            st, vp = 0, []
            for _j in range(k):
                x = rng.randrange(8)
                vp.append(t.TRELLIS34_ENCODER_STATE_TRANSITION[st * 8 + x])
                st = x
            stage("points_to_tribits", "tr.points_to_tribits", arg_ints(vp), t.points_to_tribits, array("B", vp), cints)
            if k:
                p2 = list(p)
                p2[rng.randrange(k)] = rng.choice([16, 17, 64, 255])
                stage("points_to_dibits", "tr.points_to_dibits", arg_ints(p2), t.points_to_dibits, array("B", p2), cints)
                stage("points_to_tribits", "tr.points_to_tribits", arg_ints(p2), t.points_to_tribits, array("B", p2), cints)
        # tribits: valid, and values above 7 (table subscript beyond the row / beyond the table)
        for k in [0, 1, 47, 48, 49, 50]:
            ts = [rng.randrange(8) for _ in range(k)]
            stage("tribits_to_points", "tr.tribits_to_points", arg_ints(ts), t.tribits_to_points, array("B", ts), cints)
            stage("tribits_to_bits", "tr.tribits_to_bits", arg_ints(ts), t.tribits_to_bits, array("B", ts), cbits)
            if k:
                ts2 = list(ts)
                ts2[rng.randrange(k)] = rng.choice([8, 9, 15, 56, 63, 64, 255])
                stage("tribits_to_points", "tr.tribits_to_points", arg_ints(ts2), t.tribits_to_points, array("B", ts2), cints)
                stage("tribits_to_bits", "tr.tribits_to_bits", arg_ints(ts2), t.tribits_to_bits, array("B", ts2), cbits)
    # the stage chain on real blocks: every intermediate array of encode and decode
    for block, enc in encoded[: ctx.budget(150, 3000)]:
        ts = call(t.bits_to_tribits, bitarray(block))
        corr.add("bits_to_tribits", f"tr.bits_to_tribits {block}", cints(ts))
        if is_err(ts):
            continue
        pts = call(t.tribits_to_points, ts)
        corr.add("tribits_to_points", f"tr.tribits_to_points {arg_ints(ts)}", cints(pts))
        if is_err(pts):
            continue
        ds = call(t.points_to_dibits, pts)
        corr.add("points_to_dibits", f"tr.points_to_dibits {arg_ints(pts)}", cints(ds))
        corr.add("points_to_tribits", f"tr.points_to_tribits {arg_ints(pts)}", cints(call(t.points_to_tribits, pts)))
        if is_err(ds):
            continue
        ids = call(t.interleave, ds)
        corr.add("interleave", f"tr.interleave {arg_ints(ds)}", cints(ids))
        corr.add("dibits_to_points", f"tr.dibits_to_points {arg_ints(ds)}", cints(call(t.dibits_to_points, ds)))
        if is_err(ids):
            continue
        corr.add("dibits_to_bits", f"tr.dibits_to_bits {arg_ints(ids)}", cbits(call(t.dibits_to_bits, ids)))
        corr.add("deinterleave", f"tr.deinterleave {arg_ints(ids)}", cints(call(t.deinterleave, ids)))
        corr.add("bits_to_dibits", f"tr.bits_to_dibits {enc}", cints(call(t.bits_to_dibits, bitarray(enc))))
        corr.add("tribits_to_bits", f"tr.tribits_to_bits {arg_ints(ts)}", cbits(call(t.tribits_to_bits, ts)))
        ctx.case(("chain", block))
        ctx.count("stage:chain")


# ---- replay --------------------------------------------------------------------------------------
def model_says(lines):
    exe = os.path.join(BIN, "drv_c10")
    if not os.path.exists(exe):
        return ["(model driver not built)"] * len(lines)
    p = subprocess.run([exe], input="\n".join(lines) + "\n", capture_output=True, text=True, timeout=600)
    out = p.stdout.split("\n")
    return out[: len(lines)]


def replay(obj):
    f = obj.get("failure") or {}
    inp = f.get("input") or {}
    print(json.dumps(obj.get("type")), f.get("kind"), "-", f.get("what"))
    print("recorded expected:", f.get("expected"))
    print("recorded actual:  ", f.get("actual"))
    fails = []
    if inp.get("kind") == "block":
        block = inp["block"]
        fails, obs = oracle_block(block)
        lines = [f"tr.encode {block}"]
        if "encode" in obs and not is_err(obs["encode"]):
            lines += [f"tr.decode {obs['encode']}", f"tr.decode_bytes {obs['encode']}"]
        lines.append(f"tr.encode_bytes {bitarray(block).tobytes().hex()}")
        ms = model_says(lines)
        print("block:", block)
        for k, v in obs.items():
            print(f"implementation {k}: {v}")
        for l, m in zip(lines, ms):
            print(f"model {l.split(' ')[0]}: {m}")
    elif inp.get("kind") == "stream":
        s = inp["stream"]
        ref = Ref()
        fails, out, info = oracle_stream(ref, s)
        print("stream:", s)
        print("points (from the tables):", info["points"])
        print("first point the encoder cannot emit from the state reached there: position", info["first_unreachable"])
        print("implementation decode:", out)
        print("model decode:", model_says([f"tr.decode {s}"])[0])
    elif inp.get("kind") == "interleave":
        fails, obs = oracle_interleave(inp["markers"])
        print("markers:", inp["markers"])
        for k, v in obs.items():
            print(f"implementation {k}: {v}")
        ms = model_says([f"tr.interleave {arg_ints(inp['markers'])}", f"tr.deinterleave {arg_ints(inp['markers'])}"])
        print("model interleave:", ms[0])
        print("model deinterleave:", ms[1])
    else:
        print("nothing to re-run: the replay file records a broken proof / correspondence, see 'no_longer_checks' and 'correspondence_differences'")
        for d in (obj.get("correspondence_differences") or [])[:5]:
            print("  ", d)
        return 1
    for kind, what, exp, act in fails:
        print(f"STILL FAILS [{kind}] {what}: expected {exp} actual {act}")
    if not fails:
        print("the property holds on this input now")
    return 1 if fails else 0
