"""C04 — integrity indicators of parsed PDUs tell the truth about the received bits (DESIGN §5 C04)."""
import itertools
import json
import os
import sys

from bitarray import bitarray
from bitarray.util import ba2int, int2ba

if __name__ == "__main__":  # the `python -O` child of probe_cases: needs harness/ on the path for `common`
    sys.path.insert(0, os.path.dirname(os.path.dirname(os.path.abspath(__file__))))

from common import bits_str, hex_str, impl_error

PROP = "C04"
MODULES = ["C04", "C04a", "C04b", "C04c", "C04p", "C04t", "C04u"]
GEN = ["Codes", "Crc", "Integrity", "Elements", "TranslPduSmall", "TranslHytera"]
ANCHORS = [
    "okdmr/dmrlib/etsi/crc",
    "okdmr/dmrlib/etsi/fec/golay_20_8_7.py",
    "okdmr/dmrlib/etsi/fec/quadratic_residue_16_7_6.py",
    "okdmr/dmrlib/etsi/layer2/elements/data_types.py",
    "okdmr/dmrlib/etsi/layer2/elements/slcos.py",
    "okdmr/dmrlib/etsi/layer3/elements/activity_id.py",
    "okdmr/dmrlib/hytera/pdu/hdap.py",
]


# ------------------------------------------------------------------------------------------------
# known finding: the in-band sentinel.  A failing input is accepted by the matcher only if the check
# field of the *received* word (recomputed here from the recorded bits) is all-zero — for a confirmed
# last block also if the received or the sent CRC-32 field is all-zero (the constructor leaves a zero
# CRC-32 out of the CRC-9, so such a block is covered by a different code).
CHECK_FIELD = {
    "slot": (8, 20),
    "emb": (7, 16),
    "slc": (28, 36),
    "dh": (80, 96),
    "r12": (7, 16),
    "r34": (7, 16),
    "r1": (7, 16),
}


BLOCK_BITS = {"r12": 96, "r34": 144, "r1": 192}


def received_check_field_all_zero(f):
    inp = f.get("input") or {}
    kind = inp.get("pdu")
    rec = inp.get("received")
    if kind not in CHECK_FIELD or not isinstance(rec, str):
        return False
    a, b = CHECK_FIELD[kind]
    if len(rec) >= b and "1" not in rec[a:b]:
        return True
    if kind in ("r12", "r34", "r1") and inp.get("last"):
        n = BLOCK_BITS[kind]
        sent = inp.get("sent") or ""
        if (len(rec) >= n and "1" not in rec[n - 32:n]) or (len(sent) == n and "1" not in sent[n - 32:]):
            return True
    return False


def hrnp_burst16_zero_ones(f):
    """exactly the class Lean C04p.hrnp_burst_iff characterises: an HRNP packet whose received octets differ from the sent ones
    in ONE window of sixteen consecutive bits, every bit of the window inverted, the window all-zero or all-one as sent, lying in
    the announced packet and not touching the length octets 8, 9 (nor being the checksum field itself), some other bit set"""
    inp = f.get("input") or {}
    if inp.get("pdu") != "hrnp" or f.get("kind") != "corruption-accepted" or "burst" not in inp:
        return False
    try:
        s, r = bytes.fromhex(inp.get("sent")), bytes.fromhex(inp.get("received"))
    except (TypeError, ValueError):
        return False
    if len(s) != len(r) or len(s) < 12:
        return False
    plen = int.from_bytes(s[8:10], "big")
    diff = [i for i in range(len(s) * 8) if (s[i // 8] ^ r[i // 8]) >> (7 - i % 8) & 1]
    if len(diff) != 16 or diff[-1] - diff[0] != 15:
        return False
    lo, hi = diff[0], diff[-1]
    # anywhere in the announced packet except the two length octets 8, 9 (a changed length is rejected by the cross-check /
    # the length assertion); a window that overlaps the checksum field is the same residue argument over the whole packet
    # (sum of all words incl. the field = 0xFFFF) — but the field ITSELF going 0x0000 -> 0xFFFF is detected, never listed
    if not (hi < 64 or (lo >= 80 and hi < plen * 8)) or (lo, hi) == (80, 95):
        return False
    win = [(s[i // 8] >> (7 - i % 8)) & 1 for i in diff]
    if len(set(win)) != 1:
        return False
    covered = [i for i in range(0, plen * 8) if not lo <= i <= hi]
    return any((s[i // 8] >> (7 - i % 8)) & 1 for i in covered)


MATCHERS = {"received_check_field_all_zero": received_check_field_all_zero, "hrnp_burst16_zero_ones": hrnp_burst16_zero_ones}


# ------------------------------------------------------------------------------------------------
def barg(bits) -> str:
    s = bits_str(bits)
    return s if s else "-"


def call(fn, *a, **kw):
    try:
        return fn(*a, **kw)
    except BaseException as e:  # noqa
        return impl_error(e)


def is_err(x):
    return isinstance(x, str) and x.startswith("ERR")


def b01(x):
    return "1" if x else "0"


def lib():
    import types

    L = types.SimpleNamespace()
    from okdmr.dmrlib.etsi.fec.golay_20_8_7 import Golay2087
    from okdmr.dmrlib.etsi.fec.quadratic_residue_16_7_6 import QuadraticResidue1676
    from okdmr.dmrlib.etsi.layer2.pdu.slot_type import SlotType
    from okdmr.dmrlib.etsi.layer2.pdu.embedded_signalling import EmbeddedSignalling
    from okdmr.dmrlib.etsi.layer2.pdu.short_link_control import ShortLinkControl
    from okdmr.dmrlib.etsi.layer2.pdu.pi_header import PIHeader
    from okdmr.dmrlib.etsi.layer2.pdu.data_header import DataHeader
    from okdmr.dmrlib.etsi.layer2.pdu.rate12_data import Rate12Data, Rate12DataTypes
    from okdmr.dmrlib.etsi.layer2.pdu.rate34_data import Rate34Data, Rate34DataTypes
    from okdmr.dmrlib.etsi.layer2.pdu.rate1_data import Rate1Data, Rate1DataTypes
    from okdmr.dmrlib.etsi.layer2.elements.data_types import DataTypes
    from okdmr.dmrlib.etsi.layer2.elements.slcos import SLCOs
    from okdmr.dmrlib.etsi.layer3.elements.activity_id import ActivityID
    from okdmr.dmrlib.etsi.layer2.elements.lcss import LCSS
    from okdmr.dmrlib.hytera.pdu.hrnp import HRNP, HRNPOpcodes
    from okdmr.dmrlib.hytera.pdu.hdap import HDAP
    from okdmr.dmrlib.hytera.pdu import text_message_protocol as TMP
    from okdmr.dmrlib.hytera.pdu.radio_ip import RadioIP
    from okdmr.dmrlib.etsi.crc.crc8 import CRC8
    from okdmr.dmrlib.etsi.crc.crc9 import CRC9
    from okdmr.dmrlib.etsi.crc.crc16 import CRC16
    from okdmr.dmrlib.etsi.crc.crc32 import CRC32
    from okdmr.dmrlib.etsi.layer2.elements.crc_masks import CrcMasks

    L.__dict__.update(locals())
    L.rates = {
        "r12": (Rate12Data, Rate12DataTypes, 96),
        "r34": (Rate34Data, Rate34DataTypes, 144),
        "r1": (Rate1Data, Rate1DataTypes, 192),
    }
    return L


def canon(v):
    if isinstance(v, bitarray):
        return "b:" + v.to01()
    if isinstance(v, (bytes, bytearray)):
        return "x:" + bytes(v).hex()
    if hasattr(v, "value") and hasattr(v, "name"):
        return f"e:{type(v).__name__}.{v.name}"
    if isinstance(v, (list, tuple)):
        return [canon(x) for x in v]
    if isinstance(v, (int, str, bool, float)) or v is None:
        return v
    if hasattr(v, "__dict__"):
        return {k: canon(x) for k, x in sorted(vars(v).items())}
    return repr(type(v))


def fields_of(obj, drop):
    return {k: canon(v) for k, v in sorted(vars(obj).items()) if k not in drop}


def apply_pattern(word: bitarray, pat):
    r = bitarray(word)
    for p in pat:
        r.invert(p)
    return r


def burst_patterns(rng, n, maxlen, per_window):
    """bursts: window [pos, pos+ln), first and last bit set; the solid one and random interiors"""
    out = []
    for ln in range(1, min(maxlen, n) + 1):
        for pos in range(0, n - ln + 1):
            out.append(tuple(range(pos, pos + ln)))
            for _ in range(per_window if ln > 2 else 0):
                inner = [i for i in range(pos + 1, pos + ln - 1) if rng.getrandbits(1)]
                out.append(tuple([pos] + inner + [pos + ln - 1]))
    return out


def all_bursts(n, maxlen):
    """every non-empty pattern confined to a window of at most maxlen bits (each once)"""
    out = []
    for pos in range(n):
        room = min(maxlen, n - pos) - 1
        for m in range(1 << room):
            out.append(tuple([pos] + [pos + 1 + i for i in range(room) if (m >> i) & 1]))
    return out


# ------------------------------------------------------------------------------------------------
# budgets: a boosted run (ctx.boost 4 = source drift, 8 = proof / correspondence broke) widens the number
# of generated PDUs by 2 / 3; the per-PDU pattern samples stay as they are (a boosted quick stays < 4 min)
def scale(ctx) -> int:
    b = getattr(ctx, "boost", 1)
    return 1 if b <= 1 else (2 if b <= 4 else 3)


def nb(ctx, quick: int, thorough: int) -> int:
    return (thorough if ctx.thorough() else quick) * scale(ctx)


# ------------------------------------------------------------------------------------------------
# special check-field values: the values a careless special case is most likely to single out.
# ETSI TS 102 361-1 B.3.12 data type CRC masks (harness copy, not read from the library)
ETSI_MASKS = {
    "PiHeader": 0x6969, "VoiceLCHeader": 0x969696, "TerminatorWithLC": 0x999999, "CSBK": 0xA5A5, "MBCHeader": 0xAAAA,
    "DataHeader": 0xCCCC, "UnifiedSingleBlockData": 0x3333, "Rate12DataContinuation": 0x0F0,
    "Rate34DataContinuation": 0x1FF, "Rate1DataContinuation": 0x10F, "ReverseChannel": 0x7A,
}
KIND_MASK = {"dh": "DataHeader", "pi": "PiHeader", "r12": "Rate12DataContinuation", "r34": "Rate34DataContinuation", "r1": "Rate1DataContinuation"}


def rev_bits(v: int, w: int) -> int:
    return int(format(v & ((1 << w) - 1), f"0{w}b")[::-1], 2)


def special_values(w: int, own=None):
    """[(label, value)] distinct w-bit values: 0, all-ones, the bare mask of the PDU kind (also complemented /
    bit-reversed), the masks of the other kinds (low w bits, top w bits, complement), every single bit,
    all-ones with one bit cleared, alternating bits, one octet set"""
    full = (1 << w) - 1
    seen = {}

    def add(label, v):
        seen.setdefault(v & full, label)

    add("zero", 0)
    add("all-ones", full)
    if own:
        m = ETSI_MASKS[own]
        add("own-mask", m)
        add("own-mask-complement", ~m)
        add("own-mask-reversed", rev_bits(m, w))
    for name, m in ETSI_MASKS.items():
        add("mask:" + name, m)
        if m >> w:
            add("mask-top-bits:" + name, m >> (m.bit_length() - w))
        add("mask-complement:" + name, ~m)
        add("mask-reversed:" + name, rev_bits(m, w))
    for k in range(w):
        add(f"bit{k}", 1 << k)
    add("all-ones-but-lsb", full ^ 1)
    add("all-ones-but-msb", full >> 1)
    add("0x55..", 0x5555555555 & full)
    add("0xAA..", 0xAAAAAAAAAA & full)
    if w > 8:
        add("low-octet", 0xFF)
        add("high-octet", 0xFF << (w - 8))
    return [(label, v) for v, label in seen.items()]


def derived_values(c: int, w: int):
    """[(label, value)] values derived from the correct check value c: complement, bit-reversed, +-1, c xor every
    mask (the unmasked CRC / the CRC under another kind's mask), octets swapped"""
    full = (1 << w) - 1
    seen = {}

    def add(label, v):
        v &= full
        if v != c:
            seen.setdefault(v, label)

    add("complement-of-correct", c ^ full)
    add("correct-bit-reversed", rev_bits(c, w))
    add("correct+1", c + 1)
    add("correct-1", c - 1)
    for name, m in ETSI_MASKS.items():
        add("correct-xor-mask:" + name, c ^ m)
    for name, m in ETSI_MASKS.items():
        add("complement-of-correct-xor-mask:" + name, c ^ full ^ m)  # the CRC without its final inversion
    add("correct-rotated-left-1", (c << 1) | (c >> (w - 1)))
    add("correct-rotated-right-1", (c >> 1) | ((c & 1) << (w - 1)))
    add("correct-shifted-left-1", c << 1)
    add("correct-shifted-right-1", c >> 1)
    if w > 8:
        add("correct-low-octet-only", c & 0xFF)
        add("correct-high-bits-only", c & ~0xFF)
    if w == 16:
        add("correct-octets-swapped", ((c & 0xFF) << 8) | (c >> 8))
        add("correct-nibbles-swapped", ((c & 0x0F0F) << 4) | ((c & 0xF0F0) >> 4))
        add("correct-bits-reversed-within-octets", (rev_bits(c >> 8, 8) << 8) | rev_bits(c & 0xFF, 8))
        add("correct-rotated-by-4", ((c << 4) | (c >> 12)))
    return [(label, v) for v, label in seen.items()]


def gf2_solve(cols, target):
    """a 0/1 list x with xor of cols[i] over x[i] = 1 equal to target, or None (ints as GF(2) vectors)"""
    basis = {}
    for i, c in enumerate(cols):
        v, m = c, 1 << i
        while v:
            hb = v.bit_length() - 1
            if hb in basis:
                v ^= basis[hb][0]
                m ^= basis[hb][1]
            else:
                basis[hb] = (v, m)
                break
    v, m = target, 0
    while v:
        hb = v.bit_length() - 1
        if hb not in basis:
            return None
        v ^= basis[hb][0]
        m ^= basis[hb][1]
    return [(m >> i) & 1 for i in range(len(cols))]


def one_burst(rng, pos, ln):
    """a burst over [pos, pos+ln): first and last bit set, random interior"""
    if ln == 1:
        return (pos,)
    return tuple([pos] + [i for i in range(pos + 1, pos + ln - 1) if rng.getrandbits(1)] + [pos + ln - 1])


# trailing context for the bit-level parsers: 1..3 bits of every value, octets, and (added per PDU) the
# PDU's own check field, the bare mask of its kind and the next PDU
TRAIL_BITS = ["0", "1", "00", "01", "10", "11", "000", "111", "101", "010", "0" * 8, "1" * 8, "1" * 16, "0" * 16]


# ------------------------------------------------------------------------------------------------
class Fec:
    """slot type / EMB: indicator against code word membership for received words"""

    def __init__(self, ctx, L, kind):
        self.ctx, self.L, self.kind = ctx, L, kind
        if kind == "slot":
            self.n, self.k, self.code, self.cls, self.okattr = 20, 8, L.Golay2087, L.SlotType, "fec_parity_ok"
        else:
            self.n, self.k, self.code, self.cls, self.okattr = 16, 7, L.QuadraticResidue1676, L.EmbeddedSignalling, "emb_parity_ok"
        # code word membership is decided with the reference copy of the ETSI Annex B.3 generator
        # matrices (harness/reference/etsi_codes.json), not with the library's own tables
        import os

        ref = json.load(open(os.path.join(os.path.dirname(os.path.abspath(__file__)), "..", "reference", "etsi_codes.json")))
        G = ref["golay2087" if kind == "slot" else "qr1676"]["G"]
        self.codewords = set()
        self.lib_words = {}
        for m in range(2**self.k):
            mb = [(m >> (self.k - 1 - i)) & 1 for i in range(self.k)]
            w = [0] * self.n
            for bit, row in zip(mb, G):
                if bit:
                    w = [a ^ b for a, b in zip(w, row)]
            self.codewords.add("".join(str(x) for x in w))
            g = call(self.code.generate, int2ba(m, length=self.k))
            self.lib_words[m] = g if is_err(g) else "".join(str(int(x)) for x in g.tolist())

    def out(self, o):
        if is_err(o):
            return o
        if self.kind == "slot":
            return f"{b01(o.fec_parity_ok)} {o.colour_code} {o.data_type.value} {o.fec_parity}"
        return f"{b01(o.emb_parity_ok)} {o.colour_code} {o.preemption_and_power_control_indicator.value} {o.link_control_start_stop.value} {o.emb_parity}"

    def run(self):
        ctx, n, k = self.ctx, self.n, self.k
        for m, w in self.lib_words.items():
            ctx.case((self.kind, "generate", m))
            if w not in self.codewords:
                ctx.fail("generated-word-not-in-etsi-code", {"pdu": self.kind, "message": format(m, f"0{k}b"), "received": w if not is_err(w) else None},
                         f"{self.code.__name__}.generate({format(m, f'0{k}b')}) is not a code word of the ETSI code (reference generator matrix)", expected="a code word", actual=w)
        if ctx.thorough():
            words = range(2**n)
        else:
            ws = set(int(w, 2) for w in self.codewords)
            ws |= {d << (n - k) for d in range(2**k)}  # all zero-parity words
            for w in list(self.codewords)[:: 3 if self.kind == "slot" else 1]:
                v = int(w, 2)
                ws |= {v ^ (1 << i) for i in range(n)}
            ws |= {ctx.rng.getrandbits(n) for _ in range(nb(ctx, 10000, 10000))}
            words = sorted(ws)
        # special parity-field values (class "special check-field value"): every data field x {0, all-ones, masks,
        # single bits, ...} and x values derived from its correct parity (complement, reversed, +-1, xor masks)
        pw = n - k
        sp = set()
        fixed = special_values(pw)
        for w in self.codewords:
            d, par = int(w[:k], 2), int(w[k:], 2)
            for label, v in fixed + derived_values(par, pw):
                sp.add((d << pw) | v)
        ctx.count(f"{self.kind}:special-parity-words", len(sp))
        # round 4 (equality between parts): the parity field repeats the data field — left- / right-aligned, repeated to fill,
        # complemented, bit-reversed — and the data field repeats the leading / trailing parity bits of its own code word
        cross, pfull = set(), (1 << pw) - 1
        for dv in range(2**k):
            for v in (dv << (pw - k), dv, (dv << (pw - k)) | (dv >> (2 * k - pw)), rev_bits(dv, k) << (pw - k), rev_bits(dv, k), rev_bits((dv << (pw - k)) | (dv >> (2 * k - pw)), pw)):
                cross.add((dv << pw) | (v & pfull))
                cross.add((dv << pw) | (~v & pfull))
        for wd in self.codewords:
            par = int(wd[k:], 2)
            for dv in (par >> (pw - k), par & ((1 << k) - 1)):
                cross.add((dv << pw) | par)
        ctx.count(f"{self.kind}:cross:parity-field-repeats-data-field-words", len(cross))
        if not ctx.thorough():
            words = sorted(set(words) | sp | cross)
        pairs = []
        for wv in words:
            ws = format(wv, f"0{n}b")
            o = call(self.cls.from_bits, bitarray(ws))
            pairs.append((f"{self.kind}.dec {ws}", self.out(o)))
            parity_zero = "1" not in ws[k:]
            ctx.case((self.kind, "word", wv), nontrivial=wv != 0, sample={"pdu": self.kind, "received": ws, "out": self.out(o)} if wv == 0x5A5A5 % (2**n) else None)
            if parity_zero:
                ctx.count(f"{self.kind}:zero-parity-words")
            member = ws in self.codewords
            if is_err(o):
                ctx.fail("fec-decode-raises", {"pdu": self.kind, "received": ws}, f"{self.cls.__name__}.from_bits raised {o} on a {n}-bit word")
            elif bool(getattr(o, self.okattr)) != member:
                ctx.fail("indicator-not-membership", {"pdu": self.kind, "received": ws},
                         f"{self.cls.__name__}.{self.okattr} = {getattr(o, self.okattr)} but code word membership of the received word is {member}", expected=member, actual=bool(getattr(o, self.okattr)))
        ctx.count(f"{self.kind}:words", len(pairs))
        # the word inside a longer / shorter buffer (class "embedded in a larger buffer"): from_bits takes exactly n
        # bits; whatever it does with another length, it must not report a non-member ok nor a member not ok
        some = sorted(self.codewords)[:: 7] + [format(int(w, 2) ^ (1 << ctx.rng.randrange(n)), f"0{n}b") for w in sorted(self.codewords)[:: 5]]
        for ws in some:
            member = ws in self.codewords
            for t in TRAIL_BITS[:10] + [ws]:
                buf = ws + t
                o = call(self.cls.from_bits, bitarray(buf))
                pairs.append((f"{self.kind}.dec {buf}", self.out(o)))
                ctx.case((self.kind, "context", buf))
                ctx.count(f"{self.kind}:context:" + ("rejected" if is_err(o) else "parsed"))
                if not is_err(o) and bool(getattr(o, self.okattr)) != member:
                    ctx.fail("indicator-not-membership", {"pdu": self.kind, "received": buf, "word": ws, "trailing": t},
                             f"{self.cls.__name__}.from_bits of a {n}-bit word followed by {len(t)} more bits reports {self.okattr} = {getattr(o, self.okattr)}, membership of the word is {member}",
                             expected=member, actual=bool(getattr(o, self.okattr)))
            o = call(self.cls.from_bits, bitarray(ws[:-1]))
            pairs.append((f"{self.kind}.dec {ws[:-1]}", self.out(o)))
            ctx.case((self.kind, "context", ws[:-1]))
            if not is_err(o) and getattr(o, self.okattr) and not member:
                ctx.fail("indicator-not-membership", {"pdu": self.kind, "received": ws[:-1], "word": ws}, f"{self.cls.__name__}.from_bits of a truncated non-member reports ok", expected=False, actual=True)
        if not ctx.search_only and ctx.driver_ok:
            ctx.correspond(f"{self.kind}.from_bits", pairs)
        # selfcheck: construct from fields, serialise, parse back
        pairs = []
        if self.kind == "slot":
            combos = [(cc, dt) for cc in range(16) for dt in list(range(16)) + list(self.L.DataTypes)]
            for cc, dt in combos:
                o = call(self.cls, cc, dt)
                w = call(lambda: o.as_bits()) if not is_err(o) else o
                p = call(self.cls.from_bits, w) if not is_err(w) else w
                ctx.case((self.kind, "self", cc, str(dt)))
                if isinstance(dt, int):
                    pairs.append((f"slot.new {cc} {dt} 0", o if is_err(o) else f"{b01(o.fec_parity_ok)} {barg(w)}"))
                if not is_err(w) and barg(w) not in self.codewords:
                    ctx.fail("serialised-word-not-a-code-word", {"pdu": "slot", "fields": [cc, str(dt)], "received": barg(w)}, "a slot type built from fields serialises to a word that is not a Golay(20,8) code word", expected="a code word", actual=barg(w))
                if is_err(p) or not p.fec_parity_ok or not o.fec_parity_ok:
                    ctx.fail("selfcheck", {"pdu": "slot", "fields": [cc, str(dt)]}, "a slot type built from fields does not parse back with fec_parity_ok", expected=True, actual=str(p if is_err(p) else p.fec_parity_ok))
        else:
            for cc in range(16):
                for pi in range(2):
                    for lc in list(range(4)) + list(self.L.LCSS):
                        o = call(self.cls, cc, pi, lc)
                        w = call(lambda: o.as_bits()) if not is_err(o) else o
                        p = call(self.cls.from_bits, w) if not is_err(w) else w
                        ctx.case((self.kind, "self", cc, pi, str(lc)))
                        if isinstance(lc, int):
                            pairs.append((f"emb.new {cc} {pi} {lc} 0", o if is_err(o) else f"{b01(o.emb_parity_ok)} {barg(w)}"))
                        if not is_err(w) and barg(w) not in self.codewords:
                            ctx.fail("serialised-word-not-a-code-word", {"pdu": "emb", "fields": [cc, pi, str(lc)], "received": barg(w)}, "an EMB built from fields serialises to a word that is not a QR(16,7) code word", expected="a code word", actual=barg(w))
                        if is_err(p) or not p.emb_parity_ok or not o.emb_parity_ok:
                            ctx.fail("selfcheck", {"pdu": "emb", "fields": [cc, pi, str(lc)]}, "an EMB built from fields does not parse back with emb_parity_ok", expected=True, actual=str(p if is_err(p) else p.emb_parity_ok))
            # a GIVEN parity around and beyond the 9-bit field: from 2^9 on as_bits() (called by the constructor for its
            # verdict) raises OverflowError in int2ba(…, length=9); the model's embInit raises the same class
            for cc, pi, lc in [(0, 0, 0), (1, 0, 3), (7, 1, 2), (15, 1, 1), (16, 0, 0), (3, 2, 0), (3, 0, 4)]:
                for par in (1, 511, 512, 600, 2 ** 20):
                    o = call(self.cls, cc, pi, lc, par)
                    w = call(lambda: o.as_bits()) if not is_err(o) else o
                    ctx.case((self.kind, "given-parity", cc, pi, lc, par))
                    pairs.append((f"emb.new {cc} {pi} {lc} {par}", o if is_err(o) else f"{b01(o.emb_parity_ok)} {barg(w)}"))
        if not ctx.search_only and ctx.driver_ok:
            ctx.correspond(f"{self.kind}.constructor", pairs)


# ------------------------------------------------------------------------------------------------
# round 4: self-referential inputs ACROSS PARTS.  One part of the PDU is a check sum of (a prefix of) another part AND
# the same bits stand in a second field: body tail == check field == CRC(body head); data tail == CRC-32 field ==
# CRC-32(data head); serial number == low bits of the CRC-9 ...  The check sums used to CONSTRUCT such words are
# computed here (ETSI generator polynomials, hard-coded) in every convention of this file, and — as further
# candidates — by the library's own CRC functions; the verdict is always the property's: a library-serialised PDU
# parses back ok, a corrupted copy within the guaranteed class is never accepted.
REF_POLY = {8: 0x07, 9: 0x59, 16: 0x1021, 32: 0x04C11DB7}


def ref_rem(bits, w: int) -> int:
    """message(x) * x^w mod G(x) for the ETSI generator of width w"""
    g, r = REF_POLY[w] | (1 << w), 0
    for b in list(bits) + [0] * w:
        r = (r << 1) | int(b)
        if r >> w:
            r ^= g
    return r


def bits_of(data: bytes):
    b = bitarray(endian="big")
    b.frombytes(bytes(data))
    return b.tolist()


def swap_pairs(data: bytes) -> bytes:
    out = bytearray(data)
    for i in range(0, len(data) - 1, 2):
        out[i], out[i + 1] = data[i + 1], data[i]
    return bytes(out)


def dedupe(vals):
    seen, out = set(), []
    for label, v in vals:
        if v is not None and not (isinstance(v, str) and v.startswith("ERR")) and v not in seen:
            seen.add(v)
            out.append((label, v))
    return out


def conv32(L, head: bytes):
    """[(label, 4 octets)]: the 32-bit check sums of `head` as they may stand in a last block"""
    import zlib

    c = ref_rem(bits_of(swap_pairs(head)), 32)
    lib_ = call(lambda: L.CRC32.calculate(head))
    return dedupe([
        ("CRC-32 of the octets before, little-endian trailer", c.to_bytes(4, "little")), ("CRC-32 of the octets before, big-endian", c.to_bytes(4, "big")),
        ("CRC-32 of the octets before, octet pairs swapped", swap_pairs(c.to_bytes(4, "big"))), ("complemented CRC-32 of the octets before, little-endian", (c ^ 0xFFFFFFFF).to_bytes(4, "little")),
        ("remainder over the unswapped octets before, big-endian", ref_rem(bits_of(head), 32).to_bytes(4, "big")), ("zlib.crc32 of the octets before, little-endian", zlib.crc32(head).to_bytes(4, "little")),
        ("library CRC32.calculate of the octets before, little-endian", None if is_err(lib_) else lib_.to_bytes(4, "little")),
    ])


def conv16(L, head: bytes, own: str):
    """[(label, 16-bit value)]: the CRC-CCITT check sums of `head`"""
    p, m = ref_rem(bits_of(head), 16), ETSI_MASKS[own]
    lib_ = call(lambda: L.CRC16.calculate(head, L.CrcMasks[own]))
    c = (p ^ 0xFFFF ^ m) & 0xFFFF
    return dedupe([
        ("CRC-CCITT (own mask) of the octets before", c), ("CRC-CCITT (own mask) of the octets before, octets swapped", ((c & 0xFF) << 8) | (c >> 8)),
        ("plain remainder of the octets before", p), ("inverted remainder (no mask) of the octets before", p ^ 0xFFFF), ("CRC-CCITT under the CSBK mask of the octets before", (p ^ 0xFFFF ^ ETSI_MASKS["CSBK"]) & 0xFFFF),
        ("library CRC16.calculate of the octets before", None if is_err(lib_) else lib_ & 0xFFFF),
    ])


class CrossPart:
    """mixin of CrcPdu: structured words and the search for a second valid word at burst distance"""

    def lib_chk(self, word):
        r = self.rebuild(word)
        return None if r is None else self.get_chk(r)

    def cross_part_words(self, base):
        """[(label, word with structured data bits, PDU positions of the duplicated parts, [(label, check-field candidate)])]"""
        L, kind, n, rng = self.L, self.kind, self.width(), self.ctx.rng
        out = []
        if kind in ("dh", "pi"):
            for a in (64, 48):  # octets 8-9 (the body tail) / octets 6-7 (inside the source address)
                for ci, (lab, v) in enumerate(conv16(L, base[:a].tobytes(), KIND_MASK[kind])):
                    y = bitarray(base)
                    y[a:a + 16] = int2ba(v, length=16)
                    # a format with reserved / enumerated bits in octets 8-9 keeps the value only if it fits: other addresses are tried
                    for _ in range(48 if a == 64 and kind == "dh" else 0):
                        if self.rebuild(y) is not None:
                            break
                        y = bitarray(base)
                        y[16:48] = int2ba(rng.getrandbits(32), length=32)
                        cv = conv16(L, y[:a].tobytes(), KIND_MASK[kind])
                        if ci < len(cv) and cv[ci][0] == lab:
                            v = cv[ci][1]
                            y[a:a + 16] = int2ba(v, length=16)
                    out.append((f"octets {a // 8}-{a // 8 + 1} = check field = {lab}", y, list(range(a, a + 16)), [("the value that stands in the body", v)]))
        elif kind == "slc":
            for a in (20, 12):  # the second / the first 8-bit address of an activity update
                head = base[:a].tolist()
                c = ref_rem(head, 8)
                lib_ = call(lambda: L.CRC8.calculate(bitarray(head)))
                for lab, v in dedupe([(f"CRC-8 of the {a} bits before", c), (f"CRC-8 of the {a} bits before, bit-reversed", rev_bits(c, 8)), (f"complemented CRC-8 of the {a} bits before", c ^ 0xFF),
                                      (f"CRC-8 of the {a} bits before and 8 zero bits", ref_rem(head + [0] * 8, 8)), (f"library CRC8.calculate of the {a} bits before", None if is_err(lib_) else lib_ & 0xFF)]):
                    y = bitarray(base)
                    y[a:a + 8] = int2ba(v, length=8)
                    # the same number / the same bits as sent (the CRC-8 is sent least significant bit first)
                    out.append((f"bits {a}-{a + 7} = check field = {lab}", y, list(range(a, a + 8)), [("the value that stands in the body", v), ("the bits that stand in the body, as sent", rev_bits(v, 8))]))
        elif not self.last:
            cls, types, _ = L.rates[kind]
            m = ETSI_MASKS[KIND_MASK[kind]]
            head = base[16:n - 16]
            sn = base[0:7].tolist()
            p = ref_rem(head.tolist() + sn, 9)
            lib_ = call(lambda: L.CRC9.calculate_from_parts(head.tobytes(), ba2int(base[0:7]), L.CrcMasks[KIND_MASK[kind]]))
            for lab, v in dedupe([("CRC-9 of the octets before and the serial number", (p ^ 0x1FF ^ m) & 0x1FF), ("plain remainder of the octets before and the serial number", p),
                                  ("library CRC-9 of the octets before and the serial number", None if is_err(lib_) else lib_ & 0x1FF)]):
                for nota, t in (("right-aligned", int2ba(v, length=16)), ("left-aligned", int2ba(v << 7, length=16)), ("as the field is sent", int2ba(v, length=9, endian="little").tolist() + [0] * 7)):
                    y = bitarray(base)
                    y[n - 16:n] = bitarray(t) if not isinstance(t, bitarray) else t
                    out.append((f"last two data octets ({nota}) = check field = {lab}", y, list(range(n - 16, n)), [("the value that stands in the data", v)]))
            # the FIRST two data octets = check field = CRC-9 of the octets after them and the serial number
            tailo = base[32:n]
            p2 = ref_rem(tailo.tolist() + sn, 9)
            for lab, v in dedupe([("CRC-9 of the octets after and the serial number", (p2 ^ 0x1FF ^ m) & 0x1FF), ("plain remainder of the octets after and the serial number", p2)]):
                y = bitarray(base)
                y[16:32] = int2ba(v, length=16)
                out.append((f"first two data octets (right-aligned) = check field = {lab}", y, list(range(16, 32)), [("the value that stands in the data", v)]))
            # the serial number repeats the low / high bits of the CRC-9 it is covered by (searched over the 128 serial numbers)
            for part, f in (("low", lambda c: c & 0x7F), ("high", lambda c: c >> 2)):
                for s_ in rng.sample(range(128), 128):
                    y = bitarray(base)
                    y[0:7] = int2ba(s_, length=7)
                    c = self.lib_chk(y)
                    if c is not None and f(c) == s_ and c != 0:
                        out.append((f"serial number = {part} 7 bits of the CRC-9", y, list(range(0, 7)), []))
                        break
        else:
            a = n - 64  # the last four data octets; the CRC-32 field is n-32..n
            head = base[16:a].tobytes()
            for lab, t in conv32(L, head):
                y = bitarray(base)
                tb = bitarray(bits_of(t))
                y[a:a + 32] = tb
                y[n - 32:n] = tb
                out.append((f"last four data octets = CRC-32 field = {lab}", y, list(range(a, n)), []))
            for lab, t in conv32(L, base[16:n - 32].tobytes())[:3]:
                y = bitarray(base)
                y[n - 32:n] = bitarray(bits_of(t))
                out.append((f"CRC-32 field = {lab.replace('the octets before', 'the data octets')}", y, list(range(n - 32, n)), []))
            # the serial number repeats the low / high 7 bits of the CRC-32 field (the library's CRC-32 of the data, little-endian trailer)
            t = conv32(L, base[16:n - 32].tobytes())[0][1]
            for part, s_ in (("low", t[3] & 0x7F), ("high", t[0] >> 1), ("low bits of the first octet", t[0] & 0x7F)):
                y = bitarray(base)
                y[n - 32:n] = bitarray(bits_of(t))
                y[0:7] = int2ba(s_, length=7)
                out.append((f"serial number = {part} 7 bits of the CRC-32 field = CRC-32 of the data octets", y, list(range(0, 7)) + list(range(n - 32, n)), []))
            for lab, t in conv32(L, base[48:n - 32].tobytes())[:3]:
                y = bitarray(base)
                tb = bitarray(bits_of(t))
                y[16:48] = tb
                y[n - 32:n] = tb
                out.append((f"first four data octets = CRC-32 field = {lab.replace('the octets before', 'the data octets after them')}", y, list(range(16, 48)) + list(range(n - 32, n)), []))
        return out

    def derived_check_candidates(self, P, parts):
        """check values the library assigns when a duplicated part is left out / zeroed / counted from elsewhere (a checker
        that skips a part would expect exactly these)"""
        n = self.width()
        out = []
        z = bitarray(P)
        for p_ in parts:
            z[p_] = 0
        out.append(("the check value of the PDU with the duplicated parts zeroed", self.lib_chk(z)))
        if self.kind in ("r12", "r34", "r1") and self.last:
            z = bitarray(P)
            z[n - 32:n] = 0
            out.append(("the check value of the block without its CRC-32 field", self.lib_chk(z)))
            z = bitarray(P)
            z[n - 64:n - 32] = 0
            out.append(("the check value of the block with its last four data octets zeroed", self.lib_chk(z)))
            # the library's CRC-9 over other selections of the same parts (a duplicated part dropped, not zeroed)
            L, m = self.L, self.L.CrcMasks[KIND_MASK[self.kind]]
            data, c32, sn = P[16:n - 32].tobytes(), P[n - 32:n].tobytes(), ba2int(P[0:7])
            for lab, args in (("data without its last four octets | CRC-32 | serial number", (data[:-4], sn, m, c32)), ("data without its last four octets | serial number", (data[:-4], sn, m)),
                              ("data without its first four octets | CRC-32 | serial number", (data[4:], sn, m, c32))):
                v = call(L.CRC9.calculate_from_parts, *args)
                out.append((f"the CRC-9 of {lab}", None if is_err(v) else v & 0x1FF))
        return [(l, v) for l, v in out if v]

    def pair_search(self, tag, P, c_R, parts, klass, pairs, memo):
        """P: library-serialised word; R = P with the check field c_R.  Search for a library-serialised word S such that
        S xor R is a burst of at most check-width bits in code order, using the affine structure of the check value as
        MEASURED on the library's serialiser next to P (three neighbours; one column per window position).  In a sound
        library there is none when R is itself valid (c_R = the library's value) and exactly one per window otherwise;
        every S found is judged on the real code: sent S, received R (and, when R is library-serialised, sent R,
        received S)."""
        ctx, rng = self.ctx, self.ctx.rng
        n, w, order = self.width(), self.check_width(), self.code_order()
        d = n - w
        inv = {p_: j for j, p_ in enumerate(order)}

        def flip(word, *ps):
            r = bitarray(word)
            for p_ in ps:
                r.invert(p_)
            return r

        if "lin" not in memo:
            memo["lin"] = None
            free = [p_ for p_ in self.free_pos() if p_ not in parts]
            for _ in range(8):
                if len(free) < 2:
                    break
                u0, u1 = rng.sample(free, 2)
                a0, a1, a01 = self.lib_chk(flip(P, u0)), self.lib_chk(flip(P, u1)), self.lib_chk(flip(P, u0, u1))
                if None not in (a0, a1, a01):
                    memo["lin"] = (u0, a0, a0 ^ a1 ^ a01, {})
                    break
        if memo["lin"] is None:
            ctx.count(f"{tag}:cross:no-neighbours")
            return
        if c_R == 0:
            return  # an all-zero received check field is the recorded sentinel
        u0, a0, a_pred, cols = memo["lin"]
        delta = c_R ^ a_pred
        R = self.set_chk(P, c_R)
        if delta == 0:
            ctx.count(f"{tag}:cross:check-value-is-the-affine-prediction(no-second-valid-word-to-look-for)")
            return
        ctx.count(f"{tag}:cross:check-value-differs-from-the-affine-prediction")
        b0 = flip(P, u0)
        js_parts = sorted(inv[p_] for p_ in parts if inv[p_] < d)
        starts = set()
        if js_parts:
            starts |= {js_parts[-1] + 1 - w, js_parts[0], js_parts[-1] + 1 - w // 2, rng.choice(js_parts)}
        starts |= {d - w // 2, d - w + 1, rng.randrange(0, d)}
        R_is_serialised = self.rebuild(R) == R
        for j0 in sorted(j for j in starts if 0 <= j <= n - w):
            colv, js = [], []
            for j in range(j0, j0 + w):
                if j >= d:
                    colv.append(1 << (n - 1 - j))
                    js.append(j)
                    continue
                p_ = order[j]
                if p_ == u0:
                    continue
                if p_ not in cols:
                    a = self.lib_chk(flip(b0, p_))
                    cols[p_] = None if a is None else a ^ a0
                if cols[p_] is not None:
                    colv.append(cols[p_])
                    js.append(j)
            x = gf2_solve(colv, delta)
            if x is None:
                ctx.count(f"{tag}:cross:window-unsolved")
                continue
            e = [j for j, xi in zip(js, x) if xi]
            pat = tuple(sorted(order[j] for j in e))
            S = apply_pattern(R, pat)
            if self.rebuild(S) != S:
                ctx.count(f"{tag}:cross:window-solution-not-a-serialised-word")
                continue
            where = "data and check bits" if any(j >= d for j in e) and any(j < d for j in e) else "check bits" if all(j >= d for j in e) else "data bits"
            ctx.case((tag, "cross-pair", barg(S), pat))
            ctx.count(f"{tag}:cross:serialised-word-at-burst-distance-of-the-structured-word")
            ps, inds, f0 = self.parse(S)
            if is_err(ps) or inds is not True:
                ctx.fail("selfcheck", {"pdu": self.kind, "last": self.last, "sent": barg(S), "special": klass},
                         f"a library-serialised {tag} PDU next to a structured one does not parse back with its indicator true", expected=True, actual=str(ps if is_err(ps) else inds))
                continue
            extra = {"class": "cross-part/" + klass, "burst": f"{len(pat)} inverted bits within {max(e) - min(e) + 1} <= {w} consecutive bits of the code order ({where})"}
            self.judge(tag, S, R, pat, pairs, extra=extra, f0=f0)
            if R_is_serialised:
                self.judge(tag, R, S, pat, pairs, extra=dict(extra, direction="the structured word was sent"))

    def cross_part_run(self, n_bases, full_first=1):
        ctx, kind, rng = self.ctx, self.kind, self.ctx.rng
        tag = kind + ("-last" if self.last else "")
        n, w, order = self.width(), self.check_width(), self.code_order()
        inv = {p_: j for j, p_ in enumerate(order)}
        pairs = []
        k = 0
        for base in self.bases(n_bases):
            if is_err(self.parse(base, fields=False)[0]):
                continue
            for label, y, parts, cands in self.cross_part_words(base):
                P = self.rebuild(y)
                if P is None:
                    ctx.count(f"{tag}:cross:structured-data-not-kept-by-the-serialiser")
                    continue
                if self.last and not (P[n - 32:].any()):
                    continue  # a zero CRC-32 field is left out of the CRC-9 by the constructor: another code (known finding)
                # (a structured word whose CORRECT check value is 0 — a short LC that ends with the CRC-8 of its head always is one —
                #  is kept: what is received with an all-zero check field falls under the known finding, everything else does not)
                sent = barg(P)
                ctx.count(f"{tag}:cross:structured-pdus")
                ctx.count(f"{tag}:cross:{label.split(' = ')[0]}=...")
                # ---- the library serialised it: it parses back ok
                p_, ind, f0 = self.parse(P)
                c = self.corr(P, p_)
                if c:
                    pairs.append(c)
                ctx.case((tag, "cross-self", sent))
                if is_err(p_) or ind is not True:
                    ctx.fail("selfcheck", {"pdu": kind, "last": self.last, "sent": sent, "special": label},
                             f"a library-serialised {tag} PDU with {label} does not parse back with its indicator true", expected=True, actual=str(p_ if is_err(p_) else ind))
                    continue
                correct = self.get_chk(P)
                extra = {"class": "cross-part/" + label}
                # ---- corruption: every single bit (first words; then the duplicated parts and a sample), bursts inside the duplicated parts
                singles = range(n) if k < full_first else sorted(set(parts) | set(rng.sample(range(n), 16)))
                k += 1
                for i in singles:
                    ctx.case((tag, "cross-bit", sent, i))
                    self.judge(tag, P, apply_pattern(P, (i,)), (i,), pairs, corr=(i % 8 == 0), extra=extra, f0=f0)
                js = sorted(inv[q] for q in parts)
                for _ in range(12 if len(js) > 8 else 6):
                    ln = rng.randint(2, min(w, len(js)))
                    st = rng.randrange(0, len(js) - ln + 1)
                    if js[st + ln - 1] - js[st] != ln - 1:
                        continue
                    pat = tuple(sorted(order[js[st] + i] for i in one_burst(rng, 0, ln)))
                    ctx.case((tag, "cross-burst", sent, pat))
                    ctx.count(f"{tag}:cross:burst-inside-a-duplicated-part")
                    self.judge(tag, P, apply_pattern(P, pat), pat, pairs, corr=False, extra=extra, f0=f0)
                # ---- the check field replaced: by the value that stands in the body, by the value of the PDU with a part left out
                cands = dedupe(list(cands) + self.derived_check_candidates(P, parts))
                for lab2, v in cands:
                    if v in (correct, 0):
                        continue
                    r = self.set_chk(P, v)
                    pat = tuple(i for i in range(n) if r[i] != P[i])
                    ctx.case((tag, "cross-check", sent, v))
                    ctx.count(f"{tag}:cross:check-field-replaced")
                    self.judge(tag, P, r, pat, pairs, extra=dict(extra, special=lab2), f0=f0)
                # ---- a second serialised word at burst distance of the structured one (received check field: the library's own
                #      value, then the candidates)
                memo = {}
                self.pair_search(tag, P, correct, parts, label, pairs, memo)
                for lab2, v in cands[:3]:
                    if v not in (correct, 0):
                        self.pair_search(tag, P, v, parts, label + "; received check field = " + lab2, pairs, memo)
        if not ctx.search_only and ctx.driver_ok and pairs:
            ctx.correspond(f"{tag}.cross-part", pairs)


# ------------------------------------------------------------------------------------------------
class CrcPdu(CrossPart):
    """one CRC-protected PDU family: how to make valid words, parse, read indicator and fields"""

    def __init__(self, ctx, L, kind, last=False):
        self.ctx, self.L, self.kind, self.last = ctx, L, kind, last

    # -- parse a received word: returns (obj | ERR, indicator, fields)
    def parse(self, bits: bitarray, fields=True):
        """(obj | ERR, indicator, canonical field values without check value and indicator (None if not wanted))"""
        L, kind = self.L, self.kind
        if kind == "dh":
            o, ok, drop = call(L.DataHeader.from_bits, bitarray(bits)), "crc_ok", ("crc", "crc_ok")
        elif kind == "pi":
            o, ok, drop = call(L.PIHeader.from_bits, bitarray(bits)), "crc_ok", ("crc", "crc_ok")
        elif kind == "slc":
            o, ok, drop = call(L.ShortLinkControl.from_bits, bitarray(bits)), "crc_ok", ("crc_8bit", "crc_ok")
        else:
            cls, types, n = L.rates[kind]
            t = types.ConfirmedLastBlock if self.last else types.Confirmed
            o, ok, drop = call(cls.from_bits_typed, bitarray(bits), t), "crc9_ok", ("crc9", "crc9_ok")
        if is_err(o):
            return o, None, None
        return o, getattr(o, ok), (fields_of(o, drop) if fields else None)

    def route_differs(self, bits: bitarray, o):
        """the receiver's other route to the same indicator (coverage round: from_bits / convert of the rate blocks were never executed):
        Burst.extract_data decodes a rate block UNTYPED (from_bits) and the block is then converted to the type the data header announced
        (convert); that object must tell the same truth about the received bits as the typed decoder.  Returns a description or None."""
        if self.kind not in self.L.rates:
            return None
        cls, types, n = self.L.rates[self.kind]
        t = types.ConfirmedLastBlock if self.last else types.Confirmed
        u = call(cls.from_bits, bitarray(bits))
        v = u if is_err(u) else call(u.convert, t)
        if is_err(o) or is_err(v):
            return None if (is_err(o) and is_err(v)) else f"typed decode: {o if is_err(o) else 'object'}, from_bits().convert(): {v if is_err(v) else 'object'}"
        a, b = fields_of(o, ()), fields_of(v, ())
        if a != b:
            d = {k: [a.get(k), b.get(k)] for k in set(a) | set(b) if a.get(k) != b.get(k)}
            return f"from_bits(b).convert({t.name}) differs from from_bits_typed(b, {t.name}) in {json.dumps(d, default=str)[:300]}"
        return None

    def route_check(self, tag, bits: bitarray, o):
        why = self.route_differs(bits, o)
        self.ctx.count(f"{tag}:untyped-then-convert")
        if why:
            self.ctx.fail("route-differs", {"pdu": self.kind, "last": self.last, "route": barg(bits)},
                          f"{tag}: the indicator / fields depend on the route by which the block was decoded: {why}", expected="the same object", actual=why)

    def width(self):
        return {"dh": 96, "pi": 96, "slc": 36, "r12": 96, "r34": 144, "r1": 192}[self.kind]

    def check_width(self):
        return {"dh": 16, "pi": 16, "slc": 8}.get(self.kind, 9)

    # -- model line and the implementation's answer in the model's output format
    def corr(self, bits: bitarray, o):
        kind = self.kind
        ws = barg(bits)
        if kind == "dh":
            # an exception of the field decoder (C03's subject) is an input of the model
            return f"dh.dec {ws} {int(is_err(o))}", ("ERR ValueError" if is_err(o) else b01(o.crc_ok))
        if kind == "pi":
            return f"pi.dec {ws}", (o if is_err(o) else f"{b01(o.crc_ok)} {o.crc} {barg(o.as_bits())}")
        if kind == "slc":
            return f"slc.dec {ws}", (o if is_err(o) else f"{b01(o.crc_ok)} {barg(o.as_bits())}")
        out = o if is_err(o) else f"{b01(o.crc9_ok)} {o.dbsn} {o.crc9} {o.crc32} {hex_str(o.data)} {barg(o.as_bits())}"
        return f"rate.dec {kind} {int(self.last)} {ws}", out

    # -- library-made valid words ("the library serialises a PDU")
    def make(self, rng, i):
        L, kind = self.L, self.kind
        if kind == "dh":
            dpf = [0, 1, 2, 3, 13][i % 5]
            for _ in range(200):
                b = int2ba(rng.getrandbits(80), length=80)
                b[4:8] = int2ba(dpf, length=4)
                if i % 7 == 3:
                    b[16:64] = rng.choice([0, 1])  # extreme addresses
                o = call(L.DataHeader.from_bits, b + bitarray("0" * 16))
                if not is_err(o):
                    return o
            return "ERR no-valid-header"
        if kind == "pi":
            return call(L.PIHeader, bytes(rng.getrandbits(8) for _ in range(10)))
        if kind == "slc":
            if i % 4 == 0:
                return call(L.ShortLinkControl, L.SLCOs.NullMessage)
            ids = list(L.ActivityID)
            return call(L.ShortLinkControl, L.SLCOs.ActivityUpdate, 0, ids[i % len(ids)], rng.choice(ids),
                        int2ba(rng.getrandbits(8), length=8), int2ba(rng.getrandbits(8), length=8))
        cls, types, n = L.rates[kind]
        if self.last:
            nbytes = types.ConfirmedLastBlock.value
            c32 = rng.choice([rng.getrandbits(32) or 1, rng.getrandbits(32) or 1, 1 << rng.randrange(32), 0x80000001, 0xFFFFFFFF, 3 << rng.randrange(30)])
            return call(cls, data=bytes(rng.getrandbits(8) for _ in range(nbytes)), packet_type=types.ConfirmedLastBlock,
                        dbsn=rng.choice([0, 127, rng.randrange(128)]), crc32=c32)
        nbytes = types.Confirmed.value
        data = bytes(rng.getrandbits(8) for _ in range(nbytes)) if i % 5 else bytes(nbytes)
        return call(cls, data=data, packet_type=types.Confirmed, dbsn=rng.choice([0, 127, rng.randrange(128)]))

    def code_order(self):
        """PDU bit position of the j-th bit in the order in which the CRC covers the word (data first,
        check bits most significant first last): bursts are bursts of *that* order"""
        n = self.width()
        if self.kind in ("dh", "pi"):
            return list(range(n))
        if self.kind == "slc":
            return list(range(28)) + [35 - i for i in range(8)]  # CRC-8 is sent least significant bit first
        # confirmed block: CRC-9 over data (and CRC-32), then the serial number; the 9 CRC bits are sent LSB first
        return list(range(16, n)) + list(range(0, 7)) + [15 - i for i in range(9)]

    def patterns(self, rng, exhaustive_level):
        n, w = self.width(), self.check_width()
        order = self.code_order()

        def to_pdu(pats):
            return [tuple(sorted(order[j] for j in pat)) for pat in pats]

        pats = [(i,) for i in range(n)]
        if self.kind in ("dh", "pi"):
            pats += list(itertools.combinations(range(n), 2))
            triples = list(itertools.combinations(range(n), 3))
            pats += triples if exhaustive_level >= 2 else rng.sample(triples, 12000 if self.ctx.thorough() else 1500)
            pats += burst_patterns(rng, n, 16, 1 if exhaustive_level == 0 else 6)
        elif self.kind == "slc":
            pats += list(itertools.combinations(range(n), 2))
            pats += to_pdu(all_bursts(n, 8))
        else:
            if exhaustive_level >= 1:
                pats += to_pdu(all_bursts(n, 9))
            else:
                pats += to_pdu(burst_patterns(rng, n, 9, 2))
        return pats

    # -- the property's verdict on one received buffer that is NOT what was sent
    def judge(self, tag, sent_word, r, pat, pairs, corr=True, extra=None, f0=None):
        """r = the received buffer (a corrupted PDU, possibly followed by context); the outcome must be a decode
        error or indicator false"""
        ctx = self.ctx
        q, ind, _ = self.parse(r, fields=False)
        if corr:
            c = self.corr(r, q)
            if c:
                pairs.append(c)
            if self.kind in self.L.rates:
                self.route_check(tag, r, q)
        if is_err(q):
            ctx.count(f"{tag}:decode-error")
            return "error"
        if ind is False:
            ctx.count(f"{tag}:detected")
            return "detected"
        if f0 is None:
            f0 = self.parse(sent_word)[2] or {}
        f1 = self.parse(r)[2] or {}
        same = f1 == f0
        ctx.count(f"{tag}:ACCEPTED-{'same' if same else 'DIFFERENT'}-fields")
        diff = {k: [f0.get(k), f1.get(k)] for k in set(f0) | set(f1) if f0.get(k) != f1.get(k)}
        inp = {"pdu": self.kind, "last": self.last, "sent": barg(sent_word), "positions": list(pat), "received": barg(r), "fields_differ": not same}
        inp.update(extra or {})
        what = f"{tag}: a corrupted PDU ({len(pat)} inverted bits: {list(pat)[:12]}"
        if extra and extra.get("special"):
            what += f"; received check field = {extra['special']}"
        if extra and extra.get("trailing"):
            what += f"; followed by {len(extra['trailing'])} more bits"
        what += ") is accepted (indicator true)" + (f" with different field values {json.dumps(diff)[:300]}" if not same else " (same field values)")
        ctx.fail("corruption-accepted", inp, what, expected="indicator false or a decode error", actual="indicator true")
        return "accepted"

    def run(self, n_pdus, exhaustive_first):
        ctx, kind = self.ctx, self.kind
        tag = kind + ("-last" if self.last else "")
        pairs = []
        for i in range(n_pdus):
            o = self.make(ctx.rng, i)
            if is_err(o):
                ctx.fail("construct", {"pdu": kind, "last": self.last}, f"cannot build a {tag} PDU from fields: {o}")
                continue
            word = call(lambda: o.as_bits())
            if is_err(word):
                ctx.fail("serialise", {"pdu": kind, "last": self.last}, f"as_bits of a {tag} PDU raised {word}")
                continue
            sent = barg(word)
            if kind == "dh":
                pairs.append((f"dh.enc {sent[:80]}", sent))
            # ---- selfcheck
            p, ind, f0 = self.parse(word)
            c = self.corr(word, p)
            if c:
                pairs.append(c)
            ctx.case((tag, "self", sent), sample={"pdu": tag, "sent": sent, "indicator": ind} if i == 1 else None)
            ctx.count(f"{tag}:pdus")
            if is_err(p) or ind is not True:
                ctx.fail("selfcheck", {"pdu": kind, "last": self.last, "sent": sent}, f"a library-serialised {tag} PDU does not parse back with its indicator true", expected=True, actual=str(p if is_err(p) else ind))
                continue
            if call(lambda: p.as_bits()) != word:
                ctx.fail("selfcheck", {"pdu": kind, "last": self.last, "sent": sent}, f"a library-serialised {tag} PDU does not re-serialise to the same bits", expected=sent, actual=barg(call(lambda: p.as_bits())))
            if kind in self.L.rates:
                self.route_check(tag, word, p)
            # ---- corruption within the guaranteed class
            level = (2 if ctx.thorough() else 1) if i < exhaustive_first else (1 if ctx.thorough() and i < 3 * exhaustive_first else 0)
            for pat in self.patterns(ctx.rng, level):
                r = apply_pattern(word, pat)
                ctx.case((tag, sent, pat))
                self.judge(tag, word, r, pat, pairs, corr=(len(pat) == 1 or ctx.rng.random() < (0.25 if not ctx.thorough() else 0.05)), f0=f0)
            # ---- the verdict on the valid word does not depend on what was parsed before it
            p2, ind2, _ = self.parse(word)
            if is_err(p2) or ind2 is not True:
                ctx.fail("selfcheck", {"pdu": kind, "last": self.last, "sent": sent, "after": "corrupted copies of the same PDU were parsed"},
                         f"a library-serialised {tag} PDU parsed again after corrupted copies of it does not have its indicator true", expected=True, actual=str(p2 if is_err(p2) else ind2))
        if not ctx.search_only and ctx.driver_ok and pairs:
            ctx.correspond(f"{tag}.indicator", pairs)

    # ---------------------------------------------------------------------------------------------
    # check field access in code order (most significant check bit first), library-side rebuild, solver
    def chk_pos(self):
        return self.code_order()[-self.check_width():]

    def get_chk(self, word) -> int:
        v = 0
        for p in self.chk_pos():
            v = (v << 1) | word[p]
        return v

    def set_chk(self, word, v: int) -> bitarray:
        r, w = bitarray(word), self.check_width()
        for i, p in enumerate(self.chk_pos()):
            r[p] = (v >> (w - 1 - i)) & 1
        return r

    def rebuild(self, word):
        """the library's serialisation of a PDU with the data bits of `word` and no check value given
        (None if the library does not keep these data bits as they are)"""
        L, kind = self.L, self.kind

        def f():
            if kind == "dh":
                return L.DataHeader.from_bits(word[:80] + bitarray("0" * 16)).as_bits()
            if kind == "pi":
                return L.PIHeader(word[:80].tobytes()).as_bits()
            if kind == "slc":
                return L.ShortLinkControl.from_bits(word[:28] + bitarray("0" * 8)).as_bits()
            cls, types, n = L.rates[kind]
            if self.last:
                return cls(data=word[16:n - 32].tobytes(), packet_type=types.ConfirmedLastBlock, dbsn=ba2int(word[0:7]), crc32=ba2int(word[n - 32:n])).as_bits()
            return cls(data=word[16:n].tobytes(), packet_type=types.Confirmed, dbsn=ba2int(word[0:7])).as_bits()

        r = call(f)
        if is_err(r) or len(r) != len(word) or self.set_chk(r, 0) != self.set_chk(word, 0):
            return None
        return r

    def free_pos(self):
        """data bit positions the library keeps verbatim whatever their value"""
        if self.kind == "dh":
            return list(range(16, 64))  # the two 24-bit addresses
        if self.kind == "pi":
            return list(range(0, 80))
        if self.kind == "slc":
            return list(range(12, 28))  # the two 8-bit addresses of an activity update
        return list(range(16, self.width() - (32 if self.last else 0)))

    def solver(self, base):
        """the check value is an affine function of the data bits: its linear part over (a sample of) the free
        positions, measured on the library's own serialiser (no knowledge of polynomial, mask or bit order)"""
        rng, w = self.ctx.rng, self.check_width()
        free = self.free_pos()
        if len(free) > w + 24:
            free = sorted(rng.sample(free, w + 24))
        b0 = self.rebuild(base)
        if b0 is None:
            return None
        c0 = self.get_chk(b0)
        pos, cols = [], []
        for p in free:
            x = bitarray(b0)
            x.invert(p)
            r = self.rebuild(x)
            if r is not None:
                pos.append(p)
                cols.append(self.get_chk(r) ^ c0)
        return b0, c0, pos, cols

    def with_check(self, sv, target):
        """a library-serialised valid PDU whose check value is `target` (None if there is none near the base)"""
        b0, c0, pos, cols = sv
        x = gf2_solve(cols, c0 ^ target)
        if x is None:
            return None
        y = bitarray(b0)
        for p, xi in zip(pos, x):
            if xi:
                y.invert(p)
        r = self.rebuild(y)
        if r is None or self.get_chk(r) != target:
            return None
        return r

    def class_pattern(self, rng, region):
        """one error pattern of the guaranteed class as code-order indices (data bits 0..d-1, check bits d..n-1);
        region 'data': confined to the data bits, 'mixed': touches data bits and check bits"""
        n, w = self.width(), self.check_width()
        d = n - w
        multi = {"dh": 3, "pi": 3, "slc": 2}.get(self.kind, 1)
        if region == "data":
            if multi > 1 and rng.random() < 0.4:
                return tuple(sorted(rng.sample(range(d), rng.randint(2, multi))))
            ln = rng.randint(2, w)
            return one_burst(rng, rng.randrange(0, d - ln + 1), ln)
        if multi > 1 and rng.random() < 0.4:
            k = rng.randint(2, multi)
            kc = rng.randint(1, k - 1)
            return tuple(sorted(rng.sample(range(d), k - kc) + rng.sample(range(d, n), kc)))
        ln = rng.randint(2, w)
        return one_burst(rng, rng.randrange(max(0, d - ln + 1), d), ln)

    def data_derived_values(self, word):
        """check-field values correlated with the PDU's own data: w-bit windows of the data bits (as they stand and
        reversed), and the check value the library assigns to a transform of the data (octet pairs swapped, bits
        reversed within octets, complemented free bits)"""
        n, w, rng = self.width(), self.check_width(), self.ctx.rng
        full = (1 << w) - 1
        chk = set(self.chk_pos())
        data = [i for i in range(n) if i not in chk]
        out = []
        starts = list(range(0, len(data) - w + 1, max(1, w // 2)))
        for st in rng.sample(starts, min(len(starts), 8)):
            v = 0
            for i in data[st:st + w]:
                v = (v << 1) | word[i]
            out.append((f"data-window@{data[st]}", v))
            out.append((f"data-window-reversed@{data[st]}", rev_bits(v, w)))
        free = self.free_pos()
        lo, hi = free[0], free[-1] + 1
        if (hi - lo) % 16 == 0 and lo % 8 == 0:
            seg = word[lo:hi]
            sw = bitarray()
            for k in range(0, len(seg), 16):
                sw += seg[k + 8:k + 16] + seg[k:k + 8]
            rv = bitarray()
            for k in range(0, len(seg), 8):
                rv += seg[k:k + 8][::-1]
            for label, t in (("octet-pairs-swapped", sw), ("bits-reversed-within-octets", rv), ("complemented", ~seg), ("reversed", seg[::-1])):
                y = bitarray(word)
                y[lo:hi] = t
                r = self.rebuild(y)
                if r is not None:
                    out.append(("check-value-of-data-" + label, self.get_chk(r)))
        return [(label, v & full) for label, v in out]

    def with_own_check_in_data(self, sv):
        """a valid PDU whose data bits contain its own check value (fixed point of the affine map), or None"""
        b0, c0, pos, cols = sv
        w = self.check_width()
        if len(pos) < 2 * w:
            return None
        st = self.ctx.rng.randrange(0, len(pos) - w + 1)
        window = pos[st:st + w]  # the check value, most significant bit first, is to stand here
        v0 = 0
        for p_ in window:
            v0 = (v0 << 1) | b0[p_]
        cols2 = [c ^ ((1 << (w - 1 - window.index(p_))) if p_ in window else 0) for p_, c in zip(pos, cols)]
        x = gf2_solve(cols2, c0 ^ v0)
        if x is None:
            return None
        y = bitarray(b0)
        for p_, xi in zip(pos, x):
            if xi:
                y.invert(p_)
        r = self.rebuild(y)
        if r is None:
            return None
        v = 0
        for p_ in window:
            v = (v << 1) | r[p_]
        return r if v == self.get_chk(r) else None

    def bases(self, count):
        """library-made PDUs with free data bits (every data header format, activity updates, blocks)"""
        out = []
        i = 0
        while len(out) < count and i < 4 * count + 8:
            o = self.make(self.ctx.rng, i if self.kind != "slc" else 4 * i + 1 + i % 3)
            i += 1
            w = call(lambda: o.as_bits()) if not is_err(o) else o
            if not is_err(w):
                out.append(w)
        return out

    # ---------------------------------------------------------------------------------------------
    def special_run(self, n_bases, per_value_data, per_value_mixed):
        """class "special check-field value": (a) the received check field is a special value and does not match the
        data (an error confined to the check field is a burst no longer than the field); (b) valid PDUs whose
        CORRECT check value is a special value, hit in their data bits by errors of the guaranteed class (the
        received check field is then that special value); (c) errors of the class touching data and check bits,
        sent PDU chosen such that the received check field is the special value"""
        ctx, kind, rng = self.ctx, self.kind, self.ctx.rng
        tag = kind + ("-last" if self.last else "")
        n, w, order = self.width(), self.check_width(), self.code_order()
        d = n - w
        fixed = special_values(w, KIND_MASK.get(kind))
        pairs = []
        bases = self.bases(n_bases)
        solvers = []
        for word in bases:
            sent = barg(word)
            p, ind, f0 = self.parse(word)
            if is_err(p) or ind is not True:
                continue  # reported by run()
            correct = self.get_chk(word)
            # (a)
            for label, v in fixed + derived_values(correct, w) + self.data_derived_values(word):
                if v == correct:
                    continue
                r = self.set_chk(word, v)
                pat = tuple(i for i in range(n) if r[i] != word[i])
                ctx.case((tag, "special-a", sent, v))
                ctx.count(f"{tag}:special:received-check-field-only")
                self.judge(tag, word, r, pat, pairs, extra={"class": "special-check-value/check-field-only", "special": label}, f0=f0)
            # special DATA values under the same treatment: every freely choosable data bit 0 / 1 (all-zero and
            # all-ones addresses / payload): serialised -> ok; every single bit and every special check value -> not ok
            for fill in (0, 1):
                y = bitarray(word)
                for fp in self.free_pos():
                    y[fp] = fill
                sf = self.rebuild(y)
                if sf is None:
                    continue
                pf, indf, ff0 = self.parse(sf)
                c = self.corr(sf, pf)
                if c:
                    pairs.append(c)
                ctx.case((tag, "special-data", barg(sf)))
                ctx.count(f"{tag}:special:data-all-{'ones' if fill else 'zeros'}")
                if is_err(pf) or indf is not True:
                    ctx.fail("selfcheck", {"pdu": kind, "last": self.last, "sent": barg(sf), "special": f"data bits all {fill}"},
                             f"a library-serialised {tag} PDU whose free data bits are all {fill} does not parse back with its indicator true", expected=True, actual=str(pf if is_err(pf) else indf))
                    continue
                cf = self.get_chk(sf)
                for i in range(n):
                    ctx.case((tag, "special-data", barg(sf), i))
                    self.judge(tag, sf, apply_pattern(sf, (i,)), (i,), pairs, corr=(i % 4 == 0), extra={"class": "special-data-value"}, f0=ff0)
                for label, v in fixed:
                    if v != cf:
                        r = self.set_chk(sf, v)
                        ctx.case((tag, "special-data-a", barg(sf), v))
                        self.judge(tag, sf, r, tuple(i for i in range(n) if r[i] != sf[i]), pairs, extra={"class": "special-data-value/check-field-only", "special": label}, f0=ff0)
            sv = self.solver(word)
            if sv is None or len(sv[2]) < w:
                ctx.count(f"{tag}:special:no-solver")
            else:
                solvers.append(sv)
        if not solvers:
            if not ctx.search_only and ctx.driver_ok and pairs:
                ctx.correspond(f"{tag}.special-values", pairs)
            return
        # correlation: the PDU's own check value stands inside its data bits
        for sv in solvers[:2]:
            s = self.with_own_check_in_data(sv)
            if s is None:
                ctx.count(f"{tag}:special:unsolved")
                continue
            ctx.count(f"{tag}:special:valid-pdus-with-own-check-value-in-data")
            p, ind, f0 = self.parse(s)
            c = self.corr(s, p)
            if c:
                pairs.append(c)
            ctx.case((tag, "special-own", barg(s)))
            if is_err(p) or ind is not True:
                ctx.fail("selfcheck", {"pdu": kind, "last": self.last, "sent": barg(s), "special": "own check value inside the data"},
                         f"a library-serialised {tag} PDU whose data bits contain its own check value does not parse back with its indicator true", expected=True, actual=str(p if is_err(p) else ind))
                continue
            for i in range(n):
                ctx.case((tag, "special-own", barg(s), i))
                self.judge(tag, s, apply_pattern(s, (i,)), (i,), pairs, corr=(i % 4 == 0), extra={"class": "special-check-value/own-check-in-data"}, f0=f0)
        for j, (label, v) in enumerate(fixed):
            sv = solvers[j % len(solvers)]
            s = self.with_check(sv, v)
            if s is None:
                ctx.count(f"{tag}:special:unsolved")
                continue
            sent = barg(s)
            ctx.count(f"{tag}:special:valid-pdus-with-special-check-value")
            p, ind, f0 = self.parse(s)
            c = self.corr(s, p)
            if c:
                pairs.append(c)
            ctx.case((tag, "special-self", sent))
            if is_err(p) or ind is not True:
                ctx.fail("selfcheck", {"pdu": kind, "last": self.last, "sent": sent, "special": label},
                         f"a library-serialised {tag} PDU whose check value is {label} ({v:#x}) does not parse back with its indicator true", expected=True, actual=str(p if is_err(p) else ind))
                continue
            # (b) data bits hit, check field stays the special value
            singles = list(range(d)) if (d <= 100 or ctx.thorough()) else sorted(rng.sample(range(d), 100))
            pats = [(i,) for i in singles] + [self.class_pattern(rng, "data") for _ in range(per_value_data)]
            for cp in pats:
                pat = tuple(sorted(order[i] for i in cp))
                r = apply_pattern(s, pat)
                ctx.case((tag, "special-b", sent, pat))
                ctx.count(f"{tag}:special:data-corrupted-under-special-check-value")
                self.judge(tag, s, r, pat, pairs, corr=(len(pat) > 1 or rng.random() < 0.3), extra={"class": "special-check-value/valid-pdu-data-corrupted", "special": label}, f0=f0)
            # special value -> another special value
            for label2, v2 in rng.sample(fixed, min(4, len(fixed))):
                if v2 != v:
                    r = self.set_chk(s, v2)
                    pat = tuple(i for i in range(n) if r[i] != s[i])
                    ctx.case((tag, "special-a2", sent, v2))
                    self.judge(tag, s, r, pat, pairs, extra={"class": "special-check-value/special-to-special", "special": label2}, f0=f0)
            # (c) mixed patterns: sent check value = v xor (check part of the pattern)
            for _ in range(per_value_mixed):
                cp = self.class_pattern(rng, "mixed")
                ec = 0
                for i in cp:
                    if i >= d:
                        ec |= 1 << (n - 1 - i)
                s2 = self.with_check(sv, v ^ ec)
                if s2 is None:
                    ctx.count(f"{tag}:special:unsolved")
                    continue
                pat = tuple(sorted(order[i] for i in cp))
                r = apply_pattern(s2, pat)
                if self.get_chk(r) != v:
                    continue
                ctx.case((tag, "special-c", barg(s2), pat))
                ctx.count(f"{tag}:special:data+check-corrupted-into-special-check-value")
                self.judge(tag, s2, r, pat, pairs, extra={"class": "special-check-value/data-and-check-corrupted", "special": label})
        if not ctx.search_only and ctx.driver_ok and pairs:
            ctx.correspond(f"{tag}.special-values", pairs)

    def crc32_special_run(self, per_value):
        """confirmed last block: the CRC-32 field (which the CRC-9 covers) is a special value, sent or received"""
        ctx, kind, rng = self.ctx, self.kind, self.ctx.rng
        cls, types, n = self.L.rates[kind]
        tag = kind + "-last"
        order = self.code_order()
        pairs = []
        vals = special_values(32)
        vals = vals[:2] + rng.sample(vals[2:], min(len(vals) - 2, nb(ctx, 10, 30)))
        nbytes = types.ConfirmedLastBlock.value
        c32_code = [j for j, p in enumerate(order) if n - 32 <= p < n]  # code-order indices of the CRC-32 field
        for label, v in vals:
            for mode in ("sent", "received"):
                e32 = ()
                sent32 = v
                if mode == "received":
                    # a burst of at most 9 bits inside the field turns the sent value into the special value
                    ln = rng.randint(1, 9)
                    st = rng.randrange(0, 32 - ln + 1)
                    e32 = tuple(c32_code[i] for i in one_burst(rng, st, ln))
                    for i in e32:
                        sent32 ^= 1 << (n - 1 - order[i])
                o = call(cls, data=bytes(rng.getrandbits(8) for _ in range(nbytes)), packet_type=types.ConfirmedLastBlock, dbsn=rng.randrange(128), crc32=sent32)
                s = call(lambda: o.as_bits()) if not is_err(o) else o
                if is_err(s):
                    ctx.fail("construct", {"pdu": kind, "last": True, "crc32": sent32}, f"cannot build / serialise a {tag} block with CRC-32 {sent32:#x}: {s}")
                    continue
                sent = barg(s)
                p, ind, f0 = self.parse(s)
                c = self.corr(s, p)
                if c:
                    pairs.append(c)
                ctx.case((tag, "crc32-self", sent))
                ctx.count(f"{tag}:special:crc32-{mode}")
                if is_err(p) or ind is not True:
                    ctx.fail("selfcheck", {"pdu": kind, "last": True, "sent": sent, "special": "crc32 " + label},
                             f"a library-serialised {tag} block whose CRC-32 field is {sent32:#x} does not parse back with crc9_ok", expected=True, actual=str(p if is_err(p) else ind))
                    continue
                if mode == "received":
                    cps = [e32]
                else:
                    cps = [(i,) for i in rng.sample(range(n), per_value)] + [one_burst(rng, st, ln) for ln, st in ((ln, rng.randrange(0, n - ln + 1)) for ln in (rng.randint(2, 9) for _ in range(per_value)))]
                for cp in cps:
                    pat = tuple(sorted(order[i] for i in cp))
                    r = apply_pattern(s, pat)
                    ctx.case((tag, "crc32", sent, pat))
                    self.judge(tag, s, r, pat, pairs, extra={"class": "special-check-value/crc32-" + mode, "special": "crc32 " + label}, f0=f0)
        if not ctx.search_only and ctx.driver_ok and pairs:
            ctx.correspond(f"{tag}.crc32-special-values", pairs)

    # ---------------------------------------------------------------------------------------------
    def context_run(self, n_pdus, per_pdu):
        """class "PDU embedded in a larger buffer": every valid and corrupted PDU followed by 1..3 more bits (all
        values), octets, its own check field, the bare mask, the next PDU.  Parsers whose contract accepts a
        longer buffer (data header, short LC) must give the verdict of the exact-length buffer; the exact-length
        parsers (confirmed blocks) may reject, but must never accept a corrupted PDU"""
        ctx, kind, rng = self.ctx, self.kind, self.ctx.rng
        tag = kind + ("-last" if self.last else "")
        n, w, order = self.width(), self.check_width(), self.code_order()
        lenient = kind in ("dh", "slc")
        pairs = []
        for word in self.bases(n_pdus):
            sent = barg(word)
            p, ind, f0 = self.parse(word)
            if is_err(p) or ind is not True:
                continue  # reported by run()
            own = KIND_MASK.get(kind)
            trails = TRAIL_BITS + [sent, "".join(str(word[i]) for i in self.chk_pos()), sent[-w:], sent[:3]]
            if own:
                trails.append(format(ETSI_MASKS[own] & ((1 << w) - 1), f"0{w}b"))
            for t in trails:
                buf = word + bitarray(t)
                q, ind1, _ = self.parse(buf)
                c = self.corr(buf, q)
                if c:
                    pairs.append(c)
                ctx.case((tag, "context-self", sent, t))
                ctx.count(f"{tag}:context:valid+{'bits' if len(t) < 8 else 'octets' if len(t) < n else 'next-pdu'}")
                if (is_err(q) and lenient) or (not is_err(q) and ind1 is not True):
                    ctx.fail("selfcheck-in-context", {"pdu": kind, "last": self.last, "sent": sent, "buffer": barg(buf), "trailing": t},
                             f"a library-serialised {tag} PDU followed by {len(t)} more bits in the buffer does not parse back with its indicator true (exact-length buffer: true)",
                             expected=True, actual=str(q if is_err(q) else ind1))
            if kind == "dh":
                # the octet entry point: from_bytes(octets of the header + more octets)
                for extra in (b"", b"\x00", b"\xff", b"\xcc\xcc", word.tobytes()[:3], word.tobytes()):
                    data = word.tobytes() + extra
                    q = call(self.L.DataHeader.from_bytes, data)
                    bits = bitarray()
                    bits.frombytes(data)
                    pairs.append((f"dh.dec {barg(bits)} {int(is_err(q))}", "ERR ValueError" if is_err(q) else b01(q.crc_ok)))
                    ctx.case((tag, "context-self-bytes", sent, extra))
                    ctx.count(f"{tag}:context:valid-from_bytes")
                    if is_err(q) or q.crc_ok is not True:
                        ctx.fail("selfcheck-in-context", {"pdu": kind, "last": False, "sent": sent, "buffer": barg(bits), "trailing": barg(bits[96:]), "entry": "from_bytes"},
                                 f"DataHeader.from_bytes of a library-serialised header followed by {len(extra)} more octets does not report crc_ok", expected=True, actual=str(q if is_err(q) else q.crc_ok))
            # corrupted copies in context
            cps = [(i,) for i in range(n)] + [self.class_pattern(rng, rng.choice(["data", "mixed"])) for _ in range(per_pdu)]
            correct = self.get_chk(word)
            chk_only = [(label, v) for label, v in rng.sample(special_values(w, own), 6) if v != correct]
            for cp in cps + chk_only:
                if isinstance(cp[0], str):
                    r = self.set_chk(word, cp[1])
                    pat = tuple(i for i in range(n) if r[i] != word[i])
                    special = cp[0]
                else:
                    pat = tuple(sorted(order[i] for i in cp))
                    r = apply_pattern(word, pat)
                    special = None
                for t in rng.sample(trails, 2 if lenient else 1):
                    buf = r + bitarray(t)
                    ctx.case((tag, "context", sent, pat, t))
                    ctx.count(f"{tag}:context:corrupted+trailing")
                    self.judge(tag, word, buf, pat, pairs, corr=(len(pat) > 1 or rng.random() < 0.3),
                               extra={"class": "embedded-in-larger-buffer", "trailing": t, "special": special}, f0=f0)
        if not ctx.search_only and ctx.driver_ok and pairs:
            ctx.correspond(f"{tag}.in-context", pairs)


# ------------------------------------------------------------------------------------------------
HRNP_CORPUS = [
    "7e0400fe20100000000c60e1", "7e0300fe20100000000c60e2", "7e0400fd10200000000c70d2", "7E04001010200001000C71BE",
    "7e0400002010000100189b6002040005006400000001c403", "7e040000102000010019d6240204800600000f690600012903",
    "7e030000201000000018fefe02c910050002000101014f03", "7e04000020100000001873890241080500006f0000007503",
    "7e04000020100001001b43b502471808000700000000000000c403", "7E040000102000010014857A0247880100006203",
    "7E040000102000030019FDF9025284060000010A0003E95F03", "7E040000102000020019E41402528406000000E90300006A03",
    "7E04000010200004002767790980B1001400000001000000010A000835610068006F006A000203",
    # library-serialised TMP private short data in HRNP DATA: with bit 2 of octet 9 inverted (36 -> 32) the shorter octet
    # range satisfied the checksum before the length cross-check of HRNP.from_bytes (HRNP_LENGTH_WITNESS below)
    "7e040000201000070024f4e90900ae0011000000010a0007d10a0007d2b6000000f8ff03",
    "7e04000020100000001c03f502c7100900040b010601050012012303", "7e04000020100000001602fb02c8b003000b0400a803",
]


HRNP_LENGTH_WITNESS = ("7e040000201000070024f4e90900ae0011000000010a0007d10a0007d2b6000000f8ff03",
                       "7e040000201000070020f4e90900ae0011000000010a0007d10a0007d2b6000000f8ff03")


def hdap_stage_fails(L, d: bytes) -> bool:
    """does the HDAP stage of HRNP.from_bytes raise for this datagram? (C12's subject; an input of the model)"""
    plen = int.from_bytes(d[8:10], "big")
    try:
        obj = L.HDAP.from_bytes(d[12:plen])
        if d[3] == L.HRNPOpcodes.DATA.value:
            len(obj)
            obj.as_bytes()
        return False
    except BaseException:  # noqa
        return True


def hrnp_out(L, d: bytes, q):
    """canonical outcome of HRNP.from_bytes: an exception raised by the HDAP stage is 'ERR hdap' (its class is C12's subject)"""
    if not is_err(q):
        return b01(q.checksum_correct)
    framing = len(d) < 12 or len(d) < int.from_bytes(d[8:10], "big") or d[3] not in [o.value for o in L.HRNPOpcodes]
    if not framing and hdap_stage_fails(L, d):
        return "ERR hdap"
    return q


def ones_fold(t: int) -> int:
    while t >> 16:
        t = (t & 0xFFFF) + (t >> 16)
    return t


def ones_words(data: bytes) -> int:
    """folded ones' complement sum of the big-endian 16-bit words (odd tail padded with 0x00) — harness reference"""
    if len(data) % 2:
        data += b"\x00"
    return ones_fold(sum(int.from_bytes(data[i:i + 2], "big") for i in range(0, len(data), 2)))


def ones_sum(data: bytes) -> int:
    return ~ones_words(data) & 0xFFFF


def flip_bit(b: bytes, bit: int) -> bytes:
    c = bytearray(b)
    c[bit // 8] ^= 0x80 >> (bit % 8)
    return bytes(c)


def hrnp_completion(c: bytes) -> bytes:
    """two octets which, summed as the continuation of the packet's 16-bit words, would make the received checksum
    field right (the adversarial trailing context for a parser that sums beyond the announced length)"""
    plen = int.from_bytes(c[8:10], "big")
    s = ones_words(c[0:10] + c[12:plen])
    t = ~int.from_bytes(c[10:12], "big") & 0xFFFF
    delta = (t - s) % 65535
    if plen % 2:  # first trailing octet completes the last word (low octet), second opens the next (high octet)
        return bytes([delta & 0xFF, delta >> 8])
    return bytes([delta >> 8, delta & 0xFF])


def hrnp_cases(ctx, L):
    rng = ctx.rng
    packets = []
    for hx in HRNP_CORPUS:
        packets.append(bytes.fromhex(hx))
    # the library serialises: corpus payloads re-wrapped with other header fields, and the payload-less opcodes
    payloads = [bytes.fromhex(h)[12:] for h in HRNP_CORPUS if len(h) > 24]
    for i in range(nb(ctx, 12, 60)):
        if i % 3 == 0:
            op = rng.choice([o for o in L.HRNPOpcodes if o != L.HRNPOpcodes.DATA])
            o = call(L.HRNP, opcode=op, source=rng.randrange(256), destination=rng.randrange(256), block_number=rng.randrange(256), packet_number=rng.randrange(65536))
        else:
            o = call(L.HRNP, data=payloads[i % len(payloads)] if i % 2 else rng.choice(payloads), opcode=L.HRNPOpcodes.DATA, source=rng.randrange(256), destination=rng.randrange(256),
                     block_number=rng.choice([0, 255, rng.randrange(256)]), packet_number=rng.choice([0, 65535, rng.randrange(65536)]), version=rng.choice([3, 4]))
        b = call(lambda: o.as_bytes()) if not is_err(o) else o
        if is_err(b):
            ctx.fail("construct", {"pdu": "hrnp"}, f"cannot build / serialise an HRNP packet: {b}")
            continue
        packets.append(b)
    # packets whose CORRECT checksum is a special value (class "special check-field value"): the checksum is
    # additive in the packet number, which is solved for.  E.g. a single set bit: one inverted bit then makes the
    # received field 0x0000 (HRNP has no "zero means absent" rule: it must be detected like any other)
    targets = [(label, v) for label, v in special_values(16) if v != 0xFFFF]  # a non-zero packet never sums to 0
    head = [t for t in targets if t[1] in (0x0001, 0x8000, 0x0100, 0x0000, 0xCCCC, 0xFFFE, 0x7FFF)]
    rest = [t for t in targets if t not in head]
    chosen = head + rng.sample(rest, min(len(rest), nb(ctx, 8, 40)))
    special_packets = {}
    odd_payload = next((x for x in payloads if len(x) % 2), payloads[0])  # 12 + odd = odd packet length
    even_payload = next((x for x in payloads[1:] if len(x) % 2 == 0), payloads[0])
    for j, (label, target) in enumerate(chosen):
        payload = [payloads[0], odd_payload, b"", even_payload][j % 4]
        mk = (lambda pn: L.HRNP(data=payload, opcode=L.HRNPOpcodes.DATA, packet_number=pn)) if payload else (lambda pn: L.HRNP(opcode=L.HRNPOpcodes.CLOSE, packet_number=pn))
        tmpl = call(lambda: mk(0).as_bytes())
        if is_err(tmpl):
            continue
        pn = ((~target & 0xFFFF) - ones_words(tmpl[0:10] + tmpl[12:])) % 65535
        b = None
        for cand in (pn, pn + 65535):
            if cand <= 65535:
                x = call(lambda: mk(cand).as_bytes())
                if not is_err(x) and x[10:12] == target.to_bytes(2, "big"):
                    b = x
                    break
        if b is None:
            ctx.count("hrnp:special:unsolved")
            continue
        packets.append(b)
        special_packets[b] = label
        ctx.count("hrnp:special:packets-with-special-checksum")
        if bin(target).count("1") == 1:
            ctx.count("hrnp:packets-with-single-bit-checksum")
    # round 4 (equality between parts): a header field repeats the checksum that covers it — packet number = checksum / its
    # octets swapped / + 1 (fixed points of the sum: candidates from the harness' ones' complement arithmetic,
    # confirmed on the library's own serialisation), source | destination = checksum (packet number solved)
    rels = {
        "packet number = checksum": lambda x: x[6:8] == x[10:12], "packet number = checksum with its octets swapped": lambda x: x[6:8] == x[10:12][::-1] and x[6] != x[7],
        "packet number = checksum + 1": lambda x: int.from_bytes(x[6:8], "big") == int.from_bytes(x[10:12], "big") + 1, "source | destination = checksum": lambda x: x[4:6] == x[10:12],
    }
    for j, (rel, holds) in enumerate(list(rels.items()) * (1 if not ctx.thorough() else 3)):
        b = None
        for attempt in range(8):  # a fixed point need not exist for every rest of the packet: other header fields / payloads are tried
            payload = [payloads[0], b"", odd_payload, even_payload][(j + j // 4 + attempt) % 4]
            src, dst = rng.randrange(256), rng.randrange(256)
            mk = (lambda pn: L.HRNP(data=payload, opcode=L.HRNPOpcodes.DATA, packet_number=pn, source=src, destination=dst)) if payload else (lambda pn: L.HRNP(opcode=L.HRNPOpcodes.CLOSE, packet_number=pn, source=src, destination=dst))
            tmpl = call(lambda: mk(0).as_bytes())
            if is_err(tmpl):
                continue
            s0 = ones_words(tmpl[0:10] + tmpl[12:])
            if "swapped" in rel and s0 % 257:
                # pn = 256a + b, checksum = 256b + a  <=>  257 (a + b) + rest = 0 (mod 65535 = 257 * 255): the rest of the packet must be a
                # multiple of 257, which source | destination are chosen to make it
                wsd = ((src << 8) | dst) - s0 % 257
                src, dst = (wsd >> 8) & 0xFF, wsd & 0xFF
                tmpl = call(lambda: mk(0).as_bytes())
                if is_err(tmpl):
                    continue
                s0 = ones_words(tmpl[0:10] + tmpl[12:])
            if rel.startswith("source"):
                t_ = ((~((src << 8) | dst) & 0xFFFF) - s0) % 65535
                cands = [c_ for c_ in (t_, t_ + 65535) if c_ <= 65535]
            else:
                cands = [pn for pn in range(65536) if holds(tmpl[:6] + pn.to_bytes(2, "big") + tmpl[8:10] + (~ones_fold(s0 + pn) & 0xFFFF).to_bytes(2, "big"))]
            for cand in cands[:4]:
                x = call(lambda: mk(cand).as_bytes())
                if not is_err(x) and holds(x):
                    b = x
                    break
            if b is not None:
                break
        if b is None:
            ctx.count("hrnp:cross:unsolved")
            continue
        packets.append(b)
        special_packets[b] = rel
        ctx.count("hrnp:cross:packets-whose-header-field-repeats-the-checksum")
    pairs = []
    valid = []
    for b in packets:
        o = call(L.HRNP.from_bytes, b)
        ctx.case(("hrnp", "self", b), sample={"pdu": "hrnp", "sent": b.hex(), "indicator": None if is_err(o) else o.checksum_correct} if b == packets[4] else None)
        ctx.count("hrnp:packets")
        ctx.count("hrnp:packets-of-" + ("odd" if len(b) % 2 else "even") + "-length")
        pairs.append((f"hrnp.dec {hex_str(b)} {int(hdap_stage_fails(L, b))}", hrnp_out(L, b, o)))
        if is_err(o) or o.checksum_correct is not True:
            ctx.fail("selfcheck", {"pdu": "hrnp", "sent": b.hex(), "special": special_packets.get(b)}, "a valid / library-serialised HRNP packet does not parse back with checksum_correct", expected=True, actual=str(o if is_err(o) else o.checksum_correct))
            continue
        if call(lambda: o.as_bytes()) != b:
            valid.append((b, None))
            continue  # not a library serialisation (captured packet the library normalises): no field comparison
        f0 = fields_of(o, ("checksum", "checksum_correct"))
        valid.append((b, f0))
        pairs.append((f"hrnp.sum {hex_str(b[0:10] + b[12:])}", str(int.from_bytes(b[10:12], "big"))))
        for bit in range(len(b) * 8):
            c = flip_bit(b, bit)
            q = call(L.HRNP.from_bytes, c)
            ctx.case(("hrnp", b, bit))
            if bit % 5 == ctx.seed % 5 or bit < 96:
                pairs.append((f"hrnp.dec {hex_str(c)} {int(hdap_stage_fails(L, c))}", hrnp_out(L, c, q)))
            hrnp_judge(ctx, L, b, f0, c, q, {"bit": bit}, f"one inverted bit (octet {bit // 8})")
    if not ctx.search_only and ctx.driver_ok:
        ctx.correspond("hrnp.checksum_correct", pairs)
    hrnp_special_cases(ctx, L, valid)
    hrnp_context_cases(ctx, L, valid)
    hrnp_length_witness(ctx, L)
    hrnp_burst_cases(ctx, L, valid)


def hrnp_judge(ctx, L, b, f0, c, q, extra, how):
    """c = received buffer that is not the sent packet b: never checksum_correct"""
    if is_err(q):
        ctx.count("hrnp:decode-error")
    elif q.checksum_correct is False:
        ctx.count("hrnp:detected")
    else:
        same = f0 is not None and fields_of(q, ("checksum", "checksum_correct")) == f0
        ctx.count(f"hrnp:ACCEPTED-{'same' if same else 'DIFFERENT'}-fields")
        inp = {"pdu": "hrnp", "sent": b.hex(), "received": c.hex(), "fields_differ": not same}
        inp.update(extra)
        ctx.fail("corruption-accepted", inp, f"HRNP: a packet with {how} is accepted (checksum_correct)" + (" with different field values" if not same else " (same field values)"),
                 expected="checksum_correct false or a decode error", actual="checksum_correct true")


def hrnp_special_cases(ctx, L, valid):
    """the received checksum field is a special value (or derived from the correct one: complement, octets
    swapped, +-1, reversed) and is not the checksum of the packet: an error confined to the check field"""
    rng = ctx.rng
    pairs = []
    fixed = special_values(16)
    sel = valid if ctx.thorough() else valid[:4] + rng.sample(valid[4:], min(len(valid) - 4, nb(ctx, 14, 14))) if len(valid) > 4 else valid
    for b, f0 in sel:
        correct = int.from_bytes(b[10:12], "big")
        vals = fixed + derived_values(correct, 16)
        if not ctx.thorough():
            vals = vals[:8] + rng.sample(vals[8:], 20)
        # correlation: the received checksum equals another 16-bit word of the same packet (packet number, length,
        # payload words, the inner HDAP checksum octet) or the checksum of the header / the payload alone
        body = b[0:10] + b[12:]
        offs = range(0, len(body) - 1) if ctx.thorough() else list(range(0, 10, 2)) + list(range(10, len(body) - 1, 3))
        vals += [(f"packet-word@{i}", int.from_bytes(body[i:i + 2], "big")) for i in offs]
        vals += [("checksum-of-header-only", ones_sum(b[0:10])), ("checksum-of-payload-only", ones_sum(b[12:])), ("checksum-incl-own-field", ones_sum(b)),
                 ("sum-not-complemented", ones_words(body)), ("checksum-of-whole-words-only", ones_sum(body[:len(body) & ~1]))]
        for label, v in vals:
            if v == correct:
                continue
            c = b[:10] + v.to_bytes(2, "big") + b[12:]
            q = call(L.HRNP.from_bytes, c)
            ctx.case(("hrnp", "special", b, v))
            ctx.count("hrnp:special:received-check-field-only")
            pairs.append((f"hrnp.dec {hex_str(c)} {int(hdap_stage_fails(L, c))}", hrnp_out(L, c, q)))
            hrnp_judge(ctx, L, b, f0, c, q, {"class": "special-check-value/check-field-only", "special": label}, f"its checksum field replaced by {label} ({v:#06x})")
    if not ctx.search_only and ctx.driver_ok:
        ctx.correspond("hrnp.special-values", pairs)


def hrnp_context_cases(ctx, L, valid):
    """class "packet embedded in a larger buffer" (from_bytes accepts len(data) >= announced length: back-to-back
    packets of a stream, padded datagram): every valid packet and every single-bit corruption of it followed by
    1..3 octets — zeros, 0xFF, the next packet, and the octets that would complete the checksum if the sum ran on
    beyond the announced length — for both parities of the packet length"""
    rng = ctx.rng
    pairs = []
    odd = [v for v in valid if len(v[0]) % 2]
    even = [v for v in valid if len(v[0]) % 2 == 0]
    k = nb(ctx, 5, 20)
    sel = odd[:2] + rng.sample(odd[2:], min(len(odd) - 2, k)) if len(odd) > 2 else odd
    sel += even[:2] + rng.sample(even[2:], min(len(even) - 2, k)) if len(even) > 2 else even
    nxt = bytes.fromhex(HRNP_CORPUS[0])
    for b, f0 in valid:
        par = "odd" if len(b) % 2 else "even"
        trails = [b"\x00", b"\xff", b"\x01", b"\x80", b"\x7e", b"\x00\x00", b"\xff\xff", b"\x00\x01", b"\x01\x00", b"\x00\x00\x00", b"\xff\xff\xff",
                  nxt[:1], nxt[:2], nxt[:3], nxt, b, b[10:12], bytes([rng.randrange(1, 256)]), bytes(rng.randrange(256) for _ in range(3))]
        for t in trails:
            buf = b + t
            q = call(L.HRNP.from_bytes, buf)
            ctx.case(("hrnp", "context-self", b, t))
            ctx.count(f"hrnp:context:valid-{par}-length+{'next-packet' if len(t) > 3 else str(len(t)) + '-octets'}")
            pairs.append((f"hrnp.dec {hex_str(buf)} {int(hdap_stage_fails(L, buf))}", hrnp_out(L, buf, q)))
            if is_err(q) or q.checksum_correct is not True:
                ctx.fail("selfcheck-in-context", {"pdu": "hrnp", "sent": buf.hex(), "packet": b.hex(), "trailing": t.hex()},
                         f"a valid HRNP packet of {par} length {len(b)} followed by {len(t)} more octets ({t.hex()[:16]}) in the buffer does not parse with checksum_correct (exact-length buffer: true)",
                         expected=True, actual=str(q if is_err(q) else q.checksum_correct))
            elif f0 is not None and fields_of(q, ("checksum", "checksum_correct")) != f0:
                ctx.fail("selfcheck-in-context", {"pdu": "hrnp", "sent": buf.hex(), "packet": b.hex(), "trailing": t.hex(), "fields_differ": True},
                         f"a valid HRNP packet followed by {len(t)} more octets parses to other field values than from the exact-length buffer", expected="same fields", actual="different fields")
        # a truncated buffer is never accepted
        for cut in (1, 2):
            buf = b[:-cut]
            q = call(L.HRNP.from_bytes, buf)
            ctx.case(("hrnp", "context-truncated", b, cut))
            pairs.append((f"hrnp.dec {hex_str(buf)} {int(hdap_stage_fails(L, buf)) if len(buf) >= 12 else 0}", hrnp_out(L, buf, q)))
            hrnp_judge(ctx, L, b, f0, buf, q, {"class": "embedded-in-larger-buffer/truncated"}, f"its last {cut} octets missing")
    for b, f0 in sel:
        par = "odd" if len(b) % 2 else "even"
        for bit in range(len(b) * 8):
            c = flip_bit(b, bit)
            in_len = 64 <= bit < 80
            comp = hrnp_completion(c)
            trails = [comp, comp[:1], comp + b"\x00", comp + nxt, bytes([rng.randrange(1, 256)])]
            if bit % 4 == 0:
                trails += [b"\xff", nxt, b"\x00\x00\x00"]
            for t in trails:
                buf = c + t
                q = call(L.HRNP.from_bytes, buf)
                ctx.case(("hrnp", "context", b, bit, t))
                ctx.count(f"hrnp:context:corrupted-{par}-length+trailing")
                if bit % 3 == ctx.seed % 3 or t is comp:
                    pairs.append((f"hrnp.dec {hex_str(buf)} {int(hdap_stage_fails(L, buf))}", hrnp_out(L, buf, q)))
                if in_len and b[3] != L.HRNPOpcodes.DATA.value:
                    # a packet without payload: an inverted bit of the length field makes the parser read into the
                    # context, another octet range is summed, which the ones' complement sum does not exclude and no
                    # inner length can contradict (assumption recorded; model and code are still compared)
                    ctx.count("hrnp:context:length-field-bit-of-a-packet-without-payload(correspondence-only)")
                    continue
                if in_len:
                    # DATA packet: the announced length is cross-checked with the carried HDAP message (Lean
                    # C04p.hrnp_single_bit_in_context): never accepted, whatever follows
                    ctx.count("hrnp:context:length-field-bit-of-a-DATA-packet+trailing")
                hrnp_judge(ctx, L, b, f0, buf, q, {"class": "embedded-in-larger-buffer", "bit": bit, "trailing": t.hex()}, f"one inverted bit (octet {bit // 8}) followed by octets {t.hex()[:16]} in the buffer")
    if not ctx.search_only and ctx.driver_ok:
        ctx.correspond("hrnp.in-context", pairs)


# ------------------------------------------------------------------------------------------------
# inputs that failed before the repairs recorded in KNOWN_FINDINGS.txt (kept so a regression is re-reported)
def corpus_cases(ctx, L):
    # short LC on-air vectors of test_vbptc_68_36 (36 information bits): crc_ok was False before 4fb5ebd
    for bits in ("0001000110000001000000000100", "0000000000000000000000000000", "0001001110011111000010100101"):
        # 28 data bits, CRC field zero: the constructor generates the CRC; then the serialisation is parsed
        o = call(L.ShortLinkControl.from_bits, bitarray(bits + "00000000"))
        w = call(lambda: o.as_bits()) if not is_err(o) else o
        p = call(L.ShortLinkControl.from_bits, w) if not is_err(w) else w
        ctx.case(("corpus", "slc", bits))
        if is_err(p) or p.crc_ok is not True:
            ctx.fail("selfcheck", {"pdu": "slc", "sent": barg(w) if not is_err(w) else bits}, "a library-serialised short LC does not parse back with crc_ok", expected=True, actual=str(p if is_err(p) else p.crc_ok))
    # slot type with a reserved data type value: the verdict was computed for data type 12 before 892f83a
    for cc, dt in ((1, 13), (7, 15)):
        g = call(L.Golay2087.generate, int2ba(cc, length=4) + int2ba(dt, length=4))
        if is_err(g):
            continue
        w = bitarray([int(x) for x in g.tolist()])
        o = call(L.SlotType.from_bits, w)
        ctx.case(("corpus", "slot", barg(w)))
        if is_err(o) or o.fec_parity_ok is not True:
            ctx.fail("indicator-not-membership", {"pdu": "slot", "received": barg(w)}, "a valid Golay word with a reserved data type is reported invalid", expected=True, actual=str(o if is_err(o) else o.fec_parity_ok))
    # HRNP DATA packet, single-bit error inside the HDAP payload: accepted before 4e51d6f
    b = bytes.fromhex("7e0400002010000100189b6002040005006400000001c403")
    for bit in (8 * 19 + 7, 8 * 21 + 5, 8 * 22 + 0):
        c = bytearray(b)
        c[bit // 8] ^= 0x80 >> (bit % 8)
        q = call(L.HRNP.from_bytes, bytes(c))
        ctx.case(("corpus", "hrnp", bit))
        if not is_err(q) and q.checksum_correct:
            ctx.fail("corruption-accepted", {"pdu": "hrnp", "sent": b.hex(), "bit": bit, "received": bytes(c).hex()},
                     "HRNP DATA packet, error inside the HDAP payload: accepted (checksum_correct)", expected="checksum_correct false or a decode error", actual="checksum_correct true")


# ------------------------------------------------------------------------------------------------
# history / object-identity probes (harness/histories.py): entry points of the integrity-protected PDUs, described once
def ENTRY_POINTS():
    import random as _random

    import histories as H

    L = lib()

    def view(q):
        b = call(q.as_bits) if hasattr(q, "as_bits") else (call(q.as_bytes) if hasattr(q, "as_bytes") else None)
        return {"serialised": H.canon(b), "fields": H.canon(q)}

    bits_ser = lambda o: o.as_bits()  # noqa: E731
    eps = []

    # ---- slot type / EMB / short LC / PI header / rate blocks: constructor arguments as the caller gives them
    def slot_args(rng):
        return (rng.randrange(16), rng.choice(list(L.DataTypes)[:11]))

    def emb_args(rng):
        return (rng.randrange(16), rng.randrange(2), rng.choice(list(L.LCSS)))

    def slc_args(rng):
        if rng.random() < 0.2:
            return (L.SLCOs.NullMessage,)
        ids = list(L.ActivityID)
        return (L.SLCOs.ActivityUpdate, 0, rng.choice(ids), rng.choice(ids), int2ba(rng.getrandbits(8), length=8), int2ba(rng.getrandbits(8), length=8))

    def pi_args(rng):
        return (bytes(rng.getrandbits(8) for _ in range(10)),)

    def words(new, args):
        """(bits,) of a library-serialised PDU, a quarter of them with one inverted bit"""
        def make(rng):
            b = bitarray(new(*args(rng)).as_bits())
            if rng.random() < 0.25:
                b.invert(rng.randrange(len(b)))
            return (b,)
        return make

    for name, cls, args in (("slot", L.SlotType, slot_args), ("emb", L.EmbeddedSignalling, emb_args), ("slc", L.ShortLinkControl, slc_args), ("pi", L.PIHeader, pi_args)):
        eps.append(H.EP(f"{name}.build", cls, args, kind="build", serialise=bits_ser, canon=view, group=name))
        eps.append(H.EP(f"{name}.from_bits", cls.from_bits, words(cls, args), kind="parse", serialise=bits_ser, canon=view, group=name, domain="bits"))

    for kind, (cls, types, n) in L.rates.items():
        for last in (False, True):
            t = types.ConfirmedLastBlock if last else types.Confirmed
            tag = f"{kind}{'-last' if last else ''}"

            def rate_args(rng, t=t, last=last):
                data = bytes(rng.getrandbits(8) for _ in range(t.value)) if rng.random() < 0.85 else bytes(t.value)
                if last:
                    return (data, t, rng.choice([0, 127, rng.randrange(128)]), 0, rng.choice([rng.getrandbits(32) or 1, 1, 0xFFFFFFFF]))
                return (data, t, rng.choice([0, 127, rng.randrange(128)]))

            def typed(bits, cls=cls, t=t):
                return cls.from_bits_typed(bits, t)

            eps.append(H.EP(f"{tag}.build", cls, rate_args, kind="build", serialise=bits_ser, canon=view, group=kind))
            eps.append(H.EP(f"{tag}.from_bits_typed", typed, words(cls, rate_args), kind="parse", serialise=bits_ser, canon=view, group=kind, domain=f"bits{n}"))

    # ---- the two block codes behind slot type / EMB (arrays handed out by generate must be the caller's own)
    for cname, code, k, n in (("golay2087", L.Golay2087, 8, 20), ("qr1676", L.QuadraticResidue1676, 7, 16)):
        def data_bits(rng, k=k):
            return (int2ba(rng.getrandbits(k), length=k),)

        def code_word(rng, code=code, k=k, n=n):
            w = call(code.generate, int2ba(rng.getrandbits(k), length=k))
            b = bitarray([int(x) for x in w.tolist()]) if not is_err(w) else bitarray(n)
            if rng.random() < 0.3:
                b.invert(rng.randrange(len(b)))
            return (b,)

        eps.append(H.EP(f"{cname}.generate", code.generate, data_bits, kind="encode", group=cname, observe=H.class_state(code)))
        eps.append(H.EP(f"{cname}.check", code.check, code_word, kind="check", group=cname))

    # ---- data header: library-made valid words (the constructor is from_bits)
    def dh_word(rng):
        o = CrcPdu(None, L, "dh").make(_random.Random(rng.getrandbits(40)), rng.randrange(35))
        b = bitarray(o.as_bits()) if not is_err(o) else bitarray(96)
        if rng.random() < 0.25:
            b.invert(rng.randrange(len(b)))
        return (b,)

    eps.append(H.EP("dh.from_bits", L.DataHeader.from_bits, dh_word, kind="parse", serialise=bits_ser, canon=view, group="dh", domain="bits", draws=2))

    # ---- HRNP: packets with an HDAP payload OBJECT, with payload octets, without payload
    payloads = [bytes.fromhex(h)[12:] for h in HRNP_CORPUS if len(h) > 24]

    def hrnp_args(rng):
        r = rng.random()
        if r < 0.2:
            return (None, rng.choice([o for o in L.HRNPOpcodes if o != L.HRNPOpcodes.DATA]), rng.randrange(256), rng.randrange(256), rng.randrange(256), rng.randrange(65536))
        pl = rng.choice(payloads)
        data = pl
        if r < 0.75:
            o = call(L.HDAP.from_bytes, pl)
            data = pl if (is_err(o) or o is None) else o
        return (data, L.HRNPOpcodes.DATA, rng.randrange(256), rng.randrange(256), rng.choice([0, 255, rng.randrange(256)]), rng.choice([0, 65535, rng.randrange(65536)]))

    def hrnp_new(data, opcode, source, destination, block_number, packet_number):
        return L.HRNP(data=data, opcode=opcode, source=source, destination=destination, block_number=block_number, packet_number=packet_number)

    def hrnp_wire(rng):
        b = bytes.fromhex(rng.choice(HRNP_CORPUS)) if rng.random() < 0.5 else hrnp_new(*hrnp_args(rng)).as_bytes()
        if rng.random() < 0.2:
            b = flip_bit(b, rng.choice([i for i in range(len(b) * 8) if not 64 <= i < 80]))
        return (b,)

    def hrnp_view(q):
        b = call(q.as_bytes)
        back = call(L.HRNP.from_bytes, b) if not is_err(b) else b
        return {"as_bytes": H.canon(b), "parses back with checksum_correct": back if is_err(back) else bool(back.checksum_correct), "fields": H.canon(q)}

    def hrnp_ser(o):
        b = o.as_bytes()
        return (b, L.HRNP.from_bytes(b).checksum_correct)

    eps.append(H.EP("hrnp.build", hrnp_new, hrnp_args, kind="build", serialise=hrnp_ser, canon=hrnp_view, group="hrnp", draws=3))
    eps.append(H.EP("hrnp.from_bytes", L.HRNP.from_bytes, hrnp_wire, kind="parse", serialise=hrnp_ser, canon=hrnp_view, group="hrnp", draws=2))
    return eps


def hrnp_length_witness(ctx, L):
    """repaired defect: one inverted bit of the packet-length field selected an octet range whose checksum matched"""
    sent, bad = (bytes.fromhex(h) for h in HRNP_LENGTH_WITNESS)
    pairs = []
    o = call(L.HRNP.from_bytes, sent)
    ctx.case(("corpus", "hrnp-length", "sent"))
    if is_err(o) or o.checksum_correct is not True:
        ctx.fail("selfcheck", {"pdu": "hrnp", "sent": sent.hex()}, "the library-serialised packet of the HRNP length witness does not parse back with checksum_correct", expected=True, actual=str(o if is_err(o) else o.checksum_correct))
        return
    f0 = fields_of(o, ("checksum", "checksum_correct"))
    for t in (b"", b"\x7e", b"\x7e\x04", sent):
        buf = bad + t
        q = call(L.HRNP.from_bytes, buf)
        ctx.case(("corpus", "hrnp-length", t))
        ctx.count("hrnp:corpus:length-witness")
        pairs.append((f"hrnp.dec {hex_str(buf)} {int(hdap_stage_fails(L, buf))}", hrnp_out(L, buf, q)))
        hrnp_judge(ctx, L, sent, f0, buf, q, {"bit": 77, "class": "length-octet", "trailing": t.hex()}, "one inverted bit in the packet-length field (36 -> 32; historical witness)")
    if not ctx.search_only and ctx.driver_ok:
        ctx.correspond("hrnp.length-witness", pairs)


def hrnp_burst_packets(L, valid):
    """packets for the burst class: the valid ones and library-serialised packets that contain 0x0000 / 0xFFFF words and
    all-zero / all-one stretches at odd bit offsets (so that the undetectable class of the ones' complement sum is met)"""
    out = list(valid)
    T = L.TMP
    for sd in (bytes(8), b"\xff" * 8, b"\x12\x00\x00\x34\xff\xff\x56", b"\x0f\xff\xf0\xf0\x00\x0f\x55", b"\x00\x00\xff\xff\x00\xff\x00"):
        for pn in (0, 0xFFFF, 0x1234):
            t = call(T.TextMessageProtocol, opcode=T.TMPService.PrivateShortData, request_id=0xFFFF0000, destination_ip=L.RadioIP(0), source_ip=L.RadioIP(0xFFFFFF), short_data=sd)
            h = call(L.HRNP, data=t, opcode=L.HRNPOpcodes.DATA, packet_number=pn)
            b = call(lambda: h.as_bytes())
            if is_err(b):
                continue
            o = call(L.HRNP.from_bytes, b)
            if not is_err(o) and o.checksum_correct is True:
                out.append((b, fields_of(o, ("checksum", "checksum_correct"))))
    for pn in (0, 0xFFFF):
        h = call(L.HRNP, opcode=L.HRNPOpcodes.CLOSE, packet_number=pn, source=0, destination=0xFF)
        b = call(lambda: h.as_bytes())
        if not is_err(b):
            out.append((b, None))
    return out


def hrnp_burst_cases(ctx, L, valid):
    """class "burst no longer than the check field" for HRNP: every window [pos, pos + ln), ln = 1..16, at EVERY bit offset of the
    packet, the solid burst (all bits of the window inverted) and bursts with a random interior.  Lean C04p.hrnp_burst_iff:
    the ones' complement sum detects every burst of at most 15 bits and every 16-bit burst except a window inverted from
    all-zero to all-one or back (known finding hrnp-burst16-zero-ones; its matcher accepts exactly that class, so any other
    accepted burst is an unlisted violation)."""
    rng = ctx.rng
    pairs = []
    packets = hrnp_burst_packets(L, valid)
    full = ctx.thorough()
    head = 6 * scale(ctx)
    for n, (b, f0) in enumerate(packets):
        nbits = len(b) * 8
        dense = full or n < head or n >= len(valid)
        for ln in range(1, 17):
            if not dense and ln not in (1, 8, 15, 16) and (ln + n) % 4 != ctx.seed % 4:
                continue
            for pos in range(0, nbits - ln + 1):
                pats = [tuple(range(pos, pos + ln))]
                if ln > 2 and (dense or pos % 3 == ctx.seed % 3):
                    pats.append(tuple(sorted({pos, pos + ln - 1} | {i for i in range(pos + 1, pos + ln - 1) if rng.random() < 0.5})))
                for pat in pats:
                    c = bytearray(b)
                    for i in pat:
                        c[i // 8] ^= 0x80 >> (i % 8)
                    c = bytes(c)
                    q = call(L.HRNP.from_bytes, c)
                    ctx.case(("hrnp", "burst", b, pat))
                    ctx.count(f"hrnp:burst:length-{ln:02d}")
                    if (pos + ln + n) % 7 == ctx.seed % 7 or (not is_err(q) and q.checksum_correct):
                        pairs.append((f"hrnp.dec {hex_str(c)} {int(hdap_stage_fails(L, c))}", hrnp_out(L, c, q)))
                    if not is_err(q) and q.checksum_correct:
                        ctx.count("hrnp:burst:ACCEPTED")
                    hrnp_judge(ctx, L, b, f0, c, q, {"burst": {"pos": pos, "len": ln, "inverted": len(pat)}, "class": "burst<=16"},
                               f"a burst of {ln} bits from bit {pos} ({len(pat)} inverted)")
    if not ctx.search_only and ctx.driver_ok:
        ctx.correspond("hrnp.bursts", pairs)


def run_transl(ctx):
    """Differential validation of the source translator for bit-field PDU code (tools/py2lean_bits.py on top of tools/py2lean.py)
    and of its prelude (Model/PyBits.lean, Model/Py.lean), trusted base of Props/C04t: the definitions TRANSLATED from the source of
    SlotType / EmbeddedSignalling / ShortLinkControl / ServiceOptions (`Gen/TranslPduSmall.lean`, driver operations `t.ps.*`, call
    boundary instantiated with the model's Golay / QR / CRC-8) against the real classes — every attribute of the object from_bits
    returns, its as_bits(), or the exception class — on all-zero / all-one / code words / zero-check-field words / single-bit
    neighbours / random words of the right and of wrong lengths; and the prelude's bitarray primitives one by one against
    bitarray.util (`t.ps.prim.*`).  A difference is a translator or prelude bug, never a finding about /repo."""
    if ctx.search_only or not ctx.driver_ok:
        return
    import enum as _enum
    from okdmr.dmrlib.etsi.layer2.pdu.slot_type import SlotType as _Slot
    from okdmr.dmrlib.etsi.layer2.pdu.embedded_signalling import EmbeddedSignalling as _Emb
    from okdmr.dmrlib.etsi.layer2.pdu.short_link_control import ShortLinkControl as _Slc
    from okdmr.dmrlib.etsi.layer3.elements.service_options import ServiceOptions as _So
    rng = ctx.rng

    def bs(b):
        return b.to01() if len(b) else "-"

    def val(v):
        if v is None:
            return "None"
        if isinstance(v, bool):
            return "1" if v else "0"
        if isinstance(v, _enum.Enum):
            return str(v.value)
        if isinstance(v, bitarray):
            return bs(v)
        if isinstance(v, int):
            return str(v)
        return "?" + type(v).__name__

    def obj(o):
        return ";".join(f"{k}={val(v)}" for k, v in vars(o).items())

    def parse(cls, word):
        try:
            o = cls.from_bits(bitarray(word))
        except Exception as e:  # noqa
            return impl_error(e)
        try:
            enc = bs(o.as_bits())
        except Exception as e:  # noqa
            enc = impl_error(e)
        return obj(o) + " " + enc

    def call(fn, *a):
        try:
            return fn(*a)
        except Exception as e:  # noqa
            return impl_error(e)

    def rnd(n):
        return "".join(rng.choice("01") for _ in range(n))

    def words(n, check_from, count):
        out = ["0" * n, "1" * n, "0" * (n - 1) + "1", "1" + "0" * (n - 1)]
        for _ in range(count):
            w = rnd(n)
            out.append(w)
            out.append(w[:check_from] + "0" * (n - check_from))   # the in-band sentinel: regenerated check field
            i = rng.randrange(n)
            out.append(w[:i] + ("1" if w[i] == "0" else "0") + w[i + 1:])
        for k in (0, 1, n - 1, n + 1, n + 8, 2 * n):
            out.append(rnd(k))
        return out

    pairs = []
    n_slot = ctx.budget(300, 6000)
    slot_words = words(20, 8, n_slot)
    for cc in range(16):            # every colour code x data type built by the library (valid code words)
        for dt in range(16):
            w = call(lambda: bs(_Slot(cc, dt).as_bits()))
            if not w.startswith("ERR"):
                slot_words.append(w)
    for w in slot_words:
        pairs.append(("t.ps.slot " + (w or "-"), parse(_Slot, w)))
    emb_words = words(16, 7, ctx.budget(300, 6000))
    for cc in range(16):
        for pi in range(2):
            for lc in range(4):
                emb_words.append(bs(_Emb(cc, pi, lc).as_bits()))
    for w in emb_words:
        pairs.append(("t.ps.emb " + (w or "-"), parse(_Emb, w)))
    slc_words = words(36, 28, ctx.budget(300, 6000))
    for op in range(16):            # every SLCO value x a few bodies; null / activity with every activity id
        for _ in range(3):
            slc_words.append(format(op, "04b") + rnd(32))
            slc_words.append(format(op, "04b") + rnd(24) + "0" * 8)
    for t1 in range(16):
        for t2 in range(16):
            slc_words.append("0001" + format(t1, "04b") + format(t2, "04b") + rnd(16) + rng.choice(("0" * 8, rnd(8))))
    slc_words += [rnd(36) + rnd(k) for k in (1, 2, 8, 36)]
    for w in slc_words:
        pairs.append(("t.ps.slc " + (w or "-"), parse(_Slc, w)))
    for v in range(256):
        w = format(v, "08b")
        pairs.append(("t.ps.so " + w, parse(_So, w)))
    for k in (0, 1, 7, 9, 16):
        w = rnd(k)
        pairs.append(("t.ps.so " + (w or "-"), parse(_So, w)))
    # constructors with arbitrary integers (asserts, Enum calls, OverflowError of int2ba)
    ints = [-1, 0, 1, 2, 3, 4, 11, 12, 13, 15, 16, 255, 511, 512, 4095, 4096]
    for _ in range(ctx.budget(300, 3000)):
        cc, dt, par = rng.choice(ints), rng.choice(ints), rng.choice(ints + [rng.randrange(4096)])
        if not (0 <= dt < 16):
            continue                # Enum call outside the extracted graph: outside the translated domain (UNSUPPORTED)
        pairs.append((f"t.ps.slotinit {cc} {dt} {par}", call(lambda: obj(_Slot(cc, dt, par)))))
    for _ in range(ctx.budget(300, 3000)):
        cc, pi, lc, par = rng.choice(ints), rng.choice((0, 1, 0, 1, 2, -1)), rng.choice((0, 1, 2, 3, 4, -1)), rng.choice(ints + [rng.randrange(512)])
        if not (0 <= pi < 2 and 0 <= lc < 4):
            if 0 <= cc <= 15:
                continue            # the asserts on LCSS / PI fail first only if the colour code passes; keep the graph's domain
        pairs.append((f"t.ps.embinit {cc} {pi} {lc} {par}", call(lambda: obj(_Emb(cc, pi, lc, par)))))
    ctx.count("transl:from_bits", len(slot_words) + len(emb_words) + len(slc_words) + 261)
    # the prelude's primitives against bitarray
    prim = []
    for x in ints + [2 ** 16, 2 ** 64 - 1, 2 ** 64]:
        for n in (-1, 0, 1, 2, 4, 8, 9, 12, 16, 64):
            prim.append((f"t.ps.prim.int2ba {x} {n}", call(lambda: bs(int2ba(x, length=n)))))
            prim.append((f"t.ps.prim.int2bale {x} {n}", call(lambda: bs(int2ba(x, length=n, endian="little")))))
    for _ in range(ctx.budget(200, 2000)):
        w = rnd(rng.choice((0, 1, 2, 5, 8, 20, 36, 96)))
        prim.append(("t.ps.prim.ba2int " + (w or "-"), call(lambda: str(ba2int(bitarray(w))))))
        i = rng.choice((None, None, -100, -3, -1, 0, 1, 4, 8, 28, 36, 100))
        j = rng.choice((None, None, -100, -3, -1, 0, 1, 4, 8, 28, 36, 100))
        prim.append((f"t.ps.prim.slice {w or '-'} {'-' if i is None else i} {'-' if j is None else j}", bs(bitarray(w)[i:j])))
        k = rng.choice((-100, -37, -2, -1, 0, 1, 4, 7, 35, 36, 100))
        prim.append((f"t.ps.prim.getbit {w or '-'} {k}", call(lambda: str(bitarray(w)[k]))))
        xs = [rng.choice((0, 1, 0, 1, 0, 1, 2, -1)) for _ in range(rng.randrange(1, 8))]
        prim.append(("t.ps.prim.bitarray " + " ".join(map(str, xs)), call(lambda: bs(bitarray(xs)))))
    ctx.count("transl:prelude-primitives", len(prim))
    ctx.correspond("transl", pairs + prim)


def run_transl_hrnp(ctx):
    """Differential validation of the source translator (tools/py2lean.py) and its prelude (Model/Py.lean), trusted base of
    Props/C04u: the definition TRANSLATED from the source of HRNP.calculate_checksum (`Gen/TranslHytera.lean`, driver operation
    `t.hy.hrnpsum`) against the real function (C12 runs the larger sample of the same operation).  A difference is a translator or
    prelude bug, never a finding about /repo."""
    if ctx.search_only or not ctx.driver_ok:
        return
    from okdmr.dmrlib.hytera.pdu.hrnp import HRNP as _HRNP
    rng = ctx.rng
    data = [b"", b"\x00", b"\xff", b"\xff" * 2, b"\xff" * 9, bytes.fromhex("7e0400fe20100000000c"), bytes.fromhex("ffffffff0001"), bytes.fromhex("ffffffffffff0003"), b"\xff" * (131072 if ctx.thorough() else 2048)]
    data += [bytes(rng.choice((0, 0xFF, 0xFE, 1, rng.randrange(256))) for _ in range(rng.randrange(0, 60))) for _ in range(ctx.budget(300, 3000))]
    pairs = []
    for d in data:
        try:
            out = _HRNP.calculate_checksum(d).hex()
        except Exception as e:  # noqa
            out = impl_error(e)
        pairs.append(("t.hy.hrnpsum " + (d.hex() if d else "-"), out))
    ctx.count("transl:calculate_checksum", len(data))
    ctx.correspond("transl", pairs)


def run(ctx):
    ctx.trusted_base += [
        "tools/py2lean.py + tools/extract_transl.py (source translator: Gen/TranslHytera.lean from inspect.getsource of HRNP.calculate_checksum) and "
        "lean/DmrVerif/Model/Py.lean (semantics of the Python subset); validated on every run by t.hy.hrnpsum (run_transl_hrnp); Props/C04u proves the "
        "translated definition equal to the model's hrnpChecksum for all byte strings",
    ]
    run_transl_hrnp(ctx)
    ctx.rule = (
        "slot type / EMB: received words = all code words, all zero-parity words, single-bit neighbours of code words and 10^4 random "
        "words (thorough: all 2^20 / 2^16 words), indicator compared with membership in the set of generate() outputs; every PDU built from "
        "all field values parses back ok. CRC PDUs (data header x5 formats, PI header, short LC null/activity, confirmed and confirmed-last "
        "blocks of rate 1/2, 3/4, 1): library-serialised PDUs with random / extreme fields, each with all single-bit errors, (CCITT) all "
        "2-bit and sampled or all 3-bit errors and bursts <= 16, (short LC) all 2-bit errors and every burst <= 8, (CRC-9) sampled or every "
        "burst <= 9 (bursts in code order); outcome must be a decode error or indicator false (an accepted corrupted PDU is reported, with or without different field values). HRNP: captured and library-built "
        "packets x every single-bit error. Class 'special check-field value' (every check field: slot / EMB parity, data header, PI header, short LC, "
        "CRC-9 of confirmed (last) blocks, CRC-32 field of last blocks, HRNP checksum): (a) received check field replaced by 0, all-ones, the bare mask of "
        "the kind, every other ETSI mask (low / top bits, complemented, bit-reversed), every single bit, alternating bits, one octet, and values derived "
        "from the correct one (complement, bit-reversed, octets swapped, +-1, xor every mask) with the data as sent; (b) valid PDUs whose CORRECT check "
        "value is each special value (affine structure of the check measured on the library's serialiser and solved over GF(2) in the harness; HRNP: "
        "packet number solved arithmetically), corrupted in their data bits by all single bits and sampled bursts / 2-3 bit errors; (c) errors of the class "
        "touching data and check bits with the sent PDU solved such that the received check field is the special value; special -> special. Class "
        "'embedded in a larger buffer': every parser is fed each valid PDU and corrupted copies (all single bits, sampled class patterns, special check "
        "values) followed by 1..3 bits of every value, octets, its own check field, the bare mask and the next PDU (data header also through from_bytes; "
        "HRNP: valid packets of both length parities + 19 trailing contexts and a truncated buffer, every single-bit corruption + the two octets that "
        "would complete the checksum if the sum ran past the announced length, + next packet, 0xFF, random); slot / EMB / blocks take exactly n bits "
        "(rejecting is fine, accepting a corrupted word is not); PI header of 0..13 octets (its parser takes the length from the buffer). "
        "Round 4, class 'self-referential across parts': library-serialised PDUs in which one part is a check sum of the part before it AND the same bits stand "
        "in a second field — data / PI header octets 8-9 (or 6-7) = CRC-CCITT of the octets before (own mask, octets swapped, plain, inverted only, another mask, the "
        "library's own CRC16.calculate), short LC bits 20-27 = CRC-8 of the 20 bits before, confirmed block last two data octets = CRC-9 of data head and serial number "
        "(three notations), serial number = low / high 7 bits of the CRC-9 that covers it, confirmed LAST block last four data octets = CRC-32 field = CRC-32 of the "
        "data octets before (little-endian trailer, big-endian, octet pairs swapped, complemented, unswapped, zlib, the library's CRC32.calculate), CRC-32 field = "
        "CRC-32 of the data; each: parses back ok; single bits (all / the duplicated parts + sample), bursts inside the duplicated parts, check field replaced by the "
        "value that stands in the body and by the check value of the PDU with the duplicated parts zeroed / without CRC-32 field; and a SEARCH FOR A SECOND SERIALISED "
        "WORD AT BURST DISTANCE: the library's check value is measured to be affine next to the structured word (3 neighbours, one column per window position), for "
        "windows at the start / end / inside the duplicated parts, across the data / check boundary and at random the burst e with serialise(data ^ e) = received "
        "check ^ e is solved over GF(2), confirmed on the library (the word IS a serialisation) and judged: sent = that word, received = the structured word with the "
        "library's own check value (exists only if the check value is not affine at the structured word) / with the value standing in the body (one per window). "
        "FEC words whose parity field repeats the data field (aligned, repeated, complemented, reversed) / whose data repeats parity bits of its code word; HRNP "
        "packets whose packet number = checksum / checksum with its octets swapped / checksum + 1 (fixed points) or source|destination = checksum, x every single bit; PI headers of other "
        "lengths ending with the CRC of their head. "
        "A boosted run widens the number of PDUs by 2 (drift) / 3 (broken proof or correspondence), per-PDU samples stay. "
        "A case is non-trivial unless it is the all-zero word; distinct = distinct (PDU, sent word, pattern)."
    )
    ctx.trusted_base += [
        "Lean 4.33 kernel",
        "tools/extract.py, extract_crc.py, extract_integrity.py (Golay/QR matrices, CRC configurations and masks, enum value graphs, block lengths, HRNP opcodes)",
        "hand-written model of the check logic (Model/Integrity.lean on top of Model/Codes.lean and Model/Crc*.lean) tied to the code by this run's correspondence",
        "inputs of the model taken from the real code: whether the field decoder of a data header raises (field codec = C03), whether the HDAP stage of an HRNP packet raises (C12)",
        "bitarray / numpy trusted as the substrate",
        "tools/py2lean.py + tools/py2lean_bits.py + tools/extract_transl_pdu.py (source translator: Gen/TranslPduSmall.lean from inspect.getsource of SlotType / EmbeddedSignalling / "
        "ShortLinkControl / ServiceOptions and the SLCOs / ActivityID element helpers) and lean/DmrVerif/Model/Py.lean, Model/PyBits.lean (semantics of the Python subset, bitarray "
        "primitives); validated on every run by the differential operations t.ps.* (run_transl); Props/C04t proves the translated definitions equal to Model/Integrity's "
        "slotDec / embDec / slcDec (and Model/PduCsbk's ServiceOptions) for all bit strings; the call boundary (Golay / QR generate and check, numpy_array_to_int, CRC8.calculate / "
        "check are parameters of the translated definitions, instantiated with the model's functions) is trusted",
    ]
    run_transl(ctx)
    ctx.assumptions += [
        "the CRC detection theorems assume a received check field that is not all-zero (the constructors treat 0 as 'please generate': known finding zero-check-field; for a confirmed last block also a non-zero CRC-32 field, sent and received); the oracle does not",
        "bursts are bursts of the order in which the CRC covers the bits: for the short LC the 8 CRC bits are sent least significant bit first, for a confirmed block the order is data, (CRC-32,) serial number, CRC-9 (sent LSB first); a burst of the PDU bit order that straddles these field boundaries is not a burst of the code and carries no guarantee (ETSI layout, not a library matter)",
        "HRNP (after /repo bc140b5): every single-bit error of a library-serialised DATA packet, the two packet-length octets included, is covered by the theorem (C04p hrnp_single_bit, hrnp_single_bit_in_context: the announced length is cross-checked with the length the carried HDAP message accounts for) and judged by the oracle for exact-length buffers and with trailing context; for packets WITHOUT payload (no HDAP message to cross-check) a set length bit reads into the trailing context: those cases are compared model vs code only",
        "a little-endian bitarray is not a received word of this library (ba2int of it reads other values): only big-endian bitarrays, as as_bits() produces them, are fed",
        "PIHeader.from_bits takes the last 16 bits of any buffer as the CRC: a longer buffer is a longer PI header, there is no trailing context for it (other lengths are exercised as PDUs of their own)",
    ]
    L = lib()
    corpus_cases(ctx, L)
    Fec(ctx, L, "slot").run()
    Fec(ctx, L, "emb").run()
    q = not ctx.thorough()
    CrcPdu(ctx, L, "dh").run(nb(ctx, 10, 25), 0 if q else 2)
    CrcPdu(ctx, L, "pi").run(nb(ctx, 4, 10), 0 if q else 1)
    CrcPdu(ctx, L, "slc").run(nb(ctx, 24, 120), 0)
    for kind in ("r12", "r34", "r1"):
        CrcPdu(ctx, L, kind, last=False).run(nb(ctx, 6, 16), 0 if q else 2)
        CrcPdu(ctx, L, kind, last=True).run(nb(ctx, 6, 16), 0 if q else 2)
    # class "special check-field value" (fixed share of the budget)
    CrcPdu(ctx, L, "dh").special_run(nb(ctx, 5, 10), 24 if q else 120, 6 if q else 24)
    CrcPdu(ctx, L, "pi").special_run(nb(ctx, 2, 4), 24 if q else 120, 6 if q else 24)
    CrcPdu(ctx, L, "slc").special_run(nb(ctx, 3, 9), 24 if q else 120, 6 if q else 24)
    for kind in ("r12", "r34", "r1"):
        CrcPdu(ctx, L, kind, last=False).special_run(nb(ctx, 1, 3), 16 if q else 80, 6 if q else 24)
        CrcPdu(ctx, L, kind, last=True).special_run(nb(ctx, 1, 3), 16 if q else 80, 6 if q else 24)
        CrcPdu(ctx, L, kind, last=True).crc32_special_run(6 if q else 30)
    # class "PDU embedded in a larger buffer"
    CrcPdu(ctx, L, "dh").context_run(nb(ctx, 5, 15), 30 if q else 300)
    CrcPdu(ctx, L, "slc").context_run(nb(ctx, 4, 12), 30 if q else 300)
    pi_length_cases(ctx, L)
    probe_cases(ctx, L)
    for kind in ("r12", "r34", "r1"):
        CrcPdu(ctx, L, kind, last=False).context_run(nb(ctx, 1, 3), 20 if q else 100)
        CrcPdu(ctx, L, kind, last=True).context_run(nb(ctx, 1, 3), 20 if q else 100)
    # round 4: self-referential inputs across parts (fixed small share)
    CrcPdu(ctx, L, "dh").cross_part_run(nb(ctx, 5, 15), 1)
    CrcPdu(ctx, L, "pi").cross_part_run(nb(ctx, 1, 4), 1)
    CrcPdu(ctx, L, "slc").cross_part_run(nb(ctx, 3, 9), 1)
    for kind in ("r12", "r34", "r1"):
        CrcPdu(ctx, L, kind, last=False).cross_part_run(nb(ctx, 2, 5), 1)
        CrcPdu(ctx, L, kind, last=True).cross_part_run(nb(ctx, 2, 5), 1)
    hrnp_cases(ctx, L)
    import histories

    histories.run(ctx, ENTRY_POINTS)
    ctx.exhaustive = ctx.thorough()


def sample_words(ctx, L, per_kind):
    """[(kind, last, valid word, [corrupted words in the guaranteed class, received check field non-zero])] for the
    small probes below"""
    rng = ctx.rng
    out = []
    for kind, last in (("dh", False), ("pi", False), ("slc", False), ("r12", False), ("r12", True), ("r34", False), ("r34", True), ("r1", False), ("r1", True)):
        pdu = CrcPdu(ctx, L, kind, last)
        order, n = pdu.code_order(), pdu.width()
        for word in pdu.bases(per_kind):
            p, ind, _ = pdu.parse(word, fields=False)
            if is_err(p) or ind is not True:
                continue
            bad = []
            cps = [(i,) for i in rng.sample(range(n), 10)] + [pdu.class_pattern(rng, rng.choice(["data", "mixed"])) for _ in range(6)]
            for cp in cps:
                r = apply_pattern(word, tuple(order[i] for i in cp))
                if pdu.get_chk(r) != 0 and (not last or r[n - 32:].any()):
                    bad.append((tuple(sorted(order[i] for i in cp)), r))
            for label, v in rng.sample(special_values(pdu.check_width(), KIND_MASK.get(kind)), 5):
                if v not in (0, pdu.get_chk(word)):
                    r = pdu.set_chk(word, v)
                    bad.append((tuple(i for i in range(n) if r[i] != word[i]), r))
            out.append((pdu, word, bad))
        # round 4: one structured word per kind (a part repeats the check sum of the part before it) and its check field replaced by the
        # value that stands in the body, through the same probes
        for word in pdu.bases(1):
            for label, y, parts, cands in pdu.cross_part_words(word)[:2]:
                P = pdu.rebuild(y)
                if P is None or is_err(pdu.parse(P, fields=False)[0]) or pdu.parse(P, fields=False)[1] is not True or (last and not P[n - 32:].any()):
                    continue
                bad = []
                for i in sorted(set(rng.sample(parts, min(4, len(parts))))):
                    r = apply_pattern(P, (i,))
                    if pdu.get_chk(r) != 0 and (not last or r[n - 32:].any()):
                        bad.append(((i,), r))
                for _, v in cands:
                    if v not in (0, pdu.get_chk(P)):
                        r = pdu.set_chk(P, v)
                        bad.append((tuple(i for i in range(n) if r[i] != P[i]), r))
                out.append((pdu, P, bad))
    return out


def entry(pdu):
    L, kind = pdu.L, pdu.kind
    if kind == "dh":
        return L.DataHeader.from_bits, "crc_ok"
    if kind == "pi":
        return L.PIHeader.from_bits, "crc_ok"
    if kind == "slc":
        return L.ShortLinkControl.from_bits, "crc_ok"
    cls, types, n = L.rates[kind]
    t = types.ConfirmedLastBlock if pdu.last else types.Confirmed
    return (lambda bits: cls.from_bits_typed(bits, t)), "crc9_ok"


def probe_cases(ctx, L):
    """cheap probes around the verdict: (1) argument provenance — an immutable frozenbitarray; (2) error-path state —
    a call that RAISES (wrong length / type / reserved value) right before a valid and a corrupted PDU must not
    change their verdicts; (3) ambient state — root logger at DEBUG, sys.stdout replaced by a writer that raises,
    `random` reseeded; (4) one child `python -O` process (asserts stripped) whose FIRST call on every class is a
    failing one"""
    import logging
    import random as _random
    import sys as _sys

    from bitarray import frozenbitarray

    rng = ctx.rng
    words = sample_words(ctx, L, nb(ctx, 2, 6))
    hr = [bytes.fromhex(h) for h in HRNP_CORPUS[4:9]]

    def verdicts(pdu, word, bad, how, wrap=lambda b: bitarray(b), before=lambda: None):
        fn, ok = entry(pdu)
        tag = pdu.kind + ("-last" if pdu.last else "")
        before()
        o = call(fn, wrap(word))
        ctx.case(("probe", how, tag, barg(word)))
        ctx.count(f"probe:{how}")
        if is_err(o) or getattr(o, ok) is not True:
            ctx.fail("selfcheck", {"pdu": pdu.kind, "last": pdu.last, "sent": barg(word), "probe": how},
                     f"a library-serialised {tag} PDU does not parse back with its indicator true ({how})", expected=True, actual=str(o if is_err(o) else getattr(o, ok)))
        for pat, r in bad:
            before()
            q = call(fn, wrap(r))
            ctx.case(("probe", how, tag, barg(r)))
            if not is_err(q) and getattr(q, ok) is not False:
                ctx.fail("corruption-accepted", {"pdu": pdu.kind, "last": pdu.last, "sent": barg(word), "positions": list(pat), "received": barg(r), "probe": how},
                         f"{tag}: a corrupted PDU ({len(pat)} inverted bits) is accepted (indicator true) ({how})", expected="indicator false or a decode error", actual="indicator true")

    def hrnp_verdicts(how, before=lambda: None):
        for b in hr:
            before()
            o = call(L.HRNP.from_bytes, b)
            ctx.case(("probe", how, "hrnp", b))
            if is_err(o) or o.checksum_correct is not True:
                ctx.fail("selfcheck", {"pdu": "hrnp", "sent": b.hex(), "probe": how}, f"a valid HRNP packet does not parse with checksum_correct ({how})", expected=True, actual=str(o if is_err(o) else o.checksum_correct))
            for bit in rng.sample([i for i in range(len(b) * 8) if not 64 <= i < 80], 12):
                c = flip_bit(b, bit)
                before()
                q = call(L.HRNP.from_bytes, c)
                ctx.case(("probe", how, "hrnp", c))
                if not is_err(q) and q.checksum_correct is not False:
                    ctx.fail("corruption-accepted", {"pdu": "hrnp", "sent": b.hex(), "bit": bit, "received": c.hex(), "probe": how},
                             f"HRNP: a packet with one inverted bit is accepted ({how})", expected="checksum_correct false or a decode error", actual="checksum_correct true")

    # (1) provenance
    for pdu, word, bad in words:
        verdicts(pdu, word, bad, "frozenbitarray argument", wrap=lambda b: frozenbitarray(b))
    # (2) error-path state: a raising call before every parse
    raisers = [None, b"\x00", "0101", 7, bitarray(), bitarray("1"), [], (1, 0)]
    for pdu, word, bad in words:
        fn, _ = entry(pdu)
        n = pdu.width()
        own = raisers + [bitarray(word[:n - 1]), bitarray(word[:8]), bitarray("1" * n) if pdu.kind in ("dh", "slc") else bitarray(word + bitarray("1"))]
        state = {"i": 0}

        def before():
            x = own[state["i"] % len(own)]
            state["i"] += 1
            r = call(fn, x)
            ctx.count("probe:error-path:" + ("raised" if is_err(r) else "parsed"))

        verdicts(pdu, word, bad, "after a raising call", before=before)
    hstate = {"i": 0}
    hraisers = [None, b"", b"\x7e", bytes(11), b"\x7e\x04\x00\x55" + bytes(8), "7e04", 5, hr[0][:-1], hr[0][:12]]

    def hbefore():
        x = hraisers[hstate["i"] % len(hraisers)]
        hstate["i"] += 1
        call(L.HRNP.from_bytes, x)

    hrnp_verdicts("after a raising call", before=hbefore)
    for kind in ("slot", "emb"):
        cls = L.SlotType if kind == "slot" else L.EmbeddedSignalling
        okattr = "fec_parity_ok" if kind == "slot" else "emb_parity_ok"
        good = barg(call(lambda: (L.SlotType(5, 3) if kind == "slot" else L.EmbeddedSignalling(5, 1, 2)).as_bits()))
        for x in raisers + [bitarray(good[:-1]), bitarray(good + "1")]:
            call(cls.from_bits, x)
            for ws, member in ((good, True), (good[:-1] + ("0" if good[-1] == "1" else "1"), False)):
                o = call(cls.from_bits, bitarray(ws))
                ctx.case(("probe", "after a raising call", kind, ws, str(type(x))))
                if is_err(o) or bool(getattr(o, okattr)) != member:
                    ctx.fail("indicator-not-membership", {"pdu": kind, "received": ws, "probe": "after a raising call"},
                             f"{cls.__name__}.{okattr} after a raising call is {o if is_err(o) else getattr(o, okattr)}, membership is {member}", expected=member, actual=str(o if is_err(o) else getattr(o, okattr)))
    # (3) ambient state
    class _Raiser:
        def write(self, *_a):
            raise OSError("stdout is closed")

        def flush(self):
            raise OSError("stdout is closed")

    root = logging.getLogger()
    old_level, old_out, old_state = root.level, _sys.stdout, _random.getstate()
    try:
        root.setLevel(logging.DEBUG)
        _sys.stdout = _Raiser()
        for pdu, word, bad in words:
            verdicts(pdu, word, bad, "root logger DEBUG, failing stdout, random reseeded", before=lambda: _random.seed(0))
        hrnp_verdicts("root logger DEBUG, failing stdout, random reseeded", before=lambda: _random.seed(0))
    finally:
        _sys.stdout = old_out
        root.setLevel(old_level)
        _random.setstate(old_state)
    # (4) child process: python -O, first call on every class a failing one
    import os
    import subprocess

    job = {"pdus": [[pdu.kind, pdu.last, barg(word), [[list(pat), barg(r)] for pat, r in bad]] for pdu, word, bad in words],
           "hrnp": [[b.hex(), [flip_bit(b, bit).hex() for bit in rng.sample([i for i in range(len(b) * 8) if not 64 <= i < 80], 12)], [(b + t).hex() for t in (b"\x7e", b"\xff\x01", b"\x00\x00\x01")]] for b in hr]}
    try:
        r = subprocess.run([_sys.executable, "-O", os.path.abspath(__file__), "--child"], input=json.dumps(job), capture_output=True, text=True, timeout=300)
        res = json.loads(r.stdout.strip().splitlines()[-1]) if r.returncode == 0 and r.stdout.strip() else None
    except Exception as e:  # noqa
        res, r = None, None
        ctx.notes.append(f"python -O child process could not be run: {e}")
    if res is None:
        if r is not None:
            ctx.notes.append("python -O child process failed: " + (r.stderr or "")[-300:])
        ctx.count("probe:child-failed")
    else:
        ctx.count("probe:python -O child, first call failing", res["cases"])
        for _ in range(res["cases"]):
            ctx.evaluations += 1
        for f in res["failures"]:
            ctx.fail(f["kind"], f["input"], f["what"], expected=f.get("expected"), actual=f.get("actual"))


def child_main():
    """runs under `python -O`: the first call on every class is a failing one, then the verdicts on the given words"""
    import sys as _sys

    sys_path_self = os.path.dirname(os.path.dirname(os.path.abspath(__file__)))
    job = json.loads(_sys.stdin.read())
    L = lib()
    how = "python -O child process, first call on the class a failing one"
    fails, cases = [], 0
    first = set()
    for kind, last, sent, bad in job["pdus"]:
        pdu = CrcPdu(_Null(), L, kind, last)
        fn, ok = entry(pdu)
        if kind not in first:
            first.add(kind)
            call(fn, None)
            call(fn, bitarray())
        o = call(fn, bitarray(sent))
        cases += 1
        if is_err(o) or getattr(o, ok) is not True:
            fails.append({"kind": "selfcheck", "input": {"pdu": kind, "last": last, "sent": sent, "probe": how},
                          "what": f"a library-serialised {kind} PDU does not parse back with its indicator true ({how})", "expected": True, "actual": str(o if is_err(o) else getattr(o, ok))})
        for pat, rb in bad:
            q = call(fn, bitarray(rb))
            cases += 1
            if not is_err(q) and getattr(q, ok) is not False:
                fails.append({"kind": "corruption-accepted", "input": {"pdu": kind, "last": last, "sent": sent, "positions": pat, "received": rb, "probe": how},
                              "what": f"{kind}: a corrupted PDU is accepted (indicator true) ({how})", "expected": "indicator false or a decode error", "actual": "indicator true"})
    call(L.HRNP.from_bytes, None)
    call(L.HRNP.from_bytes, b"")
    for hx, bads, ctxs in job["hrnp"]:
        for buf, want in [(hx, True)] + [(c, True) for c in ctxs] + [(c, False) for c in bads]:
            q = call(L.HRNP.from_bytes, bytes.fromhex(buf))
            cases += 1
            if want and (is_err(q) or q.checksum_correct is not True):
                fails.append({"kind": "selfcheck" if buf == hx else "selfcheck-in-context", "input": {"pdu": "hrnp", "sent": buf, "packet": hx, "probe": how},
                              "what": f"a valid HRNP packet (followed by {(len(buf) - len(hx)) // 2} more octets) does not parse with checksum_correct ({how})", "expected": True, "actual": str(q if is_err(q) else q.checksum_correct)})
            if not want and not is_err(q) and q.checksum_correct is not False:
                fails.append({"kind": "corruption-accepted", "input": {"pdu": "hrnp", "sent": hx, "received": buf, "probe": how},
                              "what": f"HRNP: a packet with one inverted bit is accepted ({how})", "expected": "checksum_correct false or a decode error", "actual": "checksum_correct true"})
    for kind in ("slot", "emb"):
        cls = L.SlotType if kind == "slot" else L.EmbeddedSignalling
        okattr = "fec_parity_ok" if kind == "slot" else "emb_parity_ok"
        call(cls.from_bits, None)
        good = barg(call(lambda: (L.SlotType(5, 3) if kind == "slot" else L.EmbeddedSignalling(5, 1, 2)).as_bits()))
        for ws, member in [(good, True)] + [(good[:i] + ("0" if good[i] == "1" else "1") + good[i + 1:], False) for i in range(len(good))]:
            o = call(cls.from_bits, bitarray(ws))
            cases += 1
            if is_err(o) or bool(getattr(o, okattr)) != member:
                fails.append({"kind": "indicator-not-membership", "input": {"pdu": kind, "received": ws, "probe": how},
                              "what": f"{cls.__name__}.{okattr} is {o if is_err(o) else getattr(o, okattr)}, membership is {member} ({how})", "expected": member, "actual": str(o if is_err(o) else getattr(o, okattr))})
    print(json.dumps({"cases": cases, "failures": fails, "optimised": not __debug__}))
    return 0


def pi_length_cases(ctx, L):
    """PIHeader.from_bits takes the last 16 bits of whatever it is given as the CRC: a buffer of another length
    IS another PI header (no trailing context).  Both parities of the octet count: serialised -> parsed back ok,
    every single-bit error and check-field-only special value -> not ok"""
    rng = ctx.rng
    pairs = []
    for nbytes, structured in [(nb_, False) for nb_ in (0, 1, 2, 7, 8, 9, 11, 12, 13)] + [(nb_, True) for nb_ in (2, 3, 7, 9, 12, 13)]:
        data = bytes(rng.getrandbits(8) for _ in range(nbytes))
        tail = None
        if structured:
            # round 4: the last two data octets are the CRC of the octets before them (and will also stand in the check field)
            tail = conv16(L, data[:-2], "PiHeader")[rng.randrange(2)][1]
            data = data[:-2] + tail.to_bytes(2, "big")
            ctx.count("pi:other-length:cross:last-two-data-octets=crc-of-the-octets-before")
        o = call(L.PIHeader, data)
        word = call(lambda: o.as_bits()) if not is_err(o) else o
        if is_err(word):
            ctx.fail("construct", {"pdu": "pi", "octets": nbytes}, f"cannot build / serialise a PI header of {nbytes} octets: {word}")
            continue
        sent = barg(word)
        p = call(L.PIHeader.from_bits, bitarray(word))
        pairs.append((f"pi.dec {sent}", p if is_err(p) else f"{b01(p.crc_ok)} {p.crc} {barg(p.as_bits())}"))
        ctx.case(("pi", "length", sent))
        ctx.count("pi:other-length:pdus-" + ("odd" if nbytes % 2 else "even"))
        if is_err(p) or p.crc_ok is not True:
            ctx.fail("selfcheck", {"pdu": "pi", "sent": sent}, f"a library-serialised PI header of {nbytes} data octets does not parse back with crc_ok", expected=True, actual=str(p if is_err(p) else p.crc_ok))
            continue
        n = len(word)
        correct = ba2int(word[n - 16:])
        cands = [apply_pattern(word, (i,)) for i in range(n)] + [word[:n - 16] + int2ba(v, length=16) for _, v in special_values(16, "PiHeader") + derived_values(correct, 16) + ([("data tail", tail)] if tail is not None else []) if v != correct]
        for r in cands:
            q = call(L.PIHeader.from_bits, bitarray(r))
            pairs.append((f"pi.dec {barg(r)}", q if is_err(q) else f"{b01(q.crc_ok)} {q.crc} {barg(q.as_bits())}"))
            ctx.case(("pi", "length", sent, barg(r)))
            if not is_err(q) and q.crc_ok is not False:
                ctx.fail("corruption-accepted", {"pdu": "pi", "last": False, "sent": sent, "received": barg(r), "positions": [i for i in range(n) if r[i] != word[i]]},
                         f"pi: a corrupted PI header of {nbytes} data octets is accepted (crc_ok)", expected="indicator false or a decode error", actual="indicator true")
    if not ctx.search_only and ctx.driver_ok:
        ctx.correspond("pi.other-lengths", pairs)


# ------------------------------------------------------------------------------------------------
def replay(obj):
    f = obj.get("failure") or {}
    inp = f.get("input", {}) or {}
    print(json.dumps(obj.get("type")), f.get("kind"), "-", f.get("what"))
    if not inp:
        print(json.dumps(obj.get("no_longer_checks") or obj.get("correspondence_differences"), indent=1)[:4000])
        return 1
    if str(f.get("kind", "")).startswith("history:"):
        import histories

        return histories.replay(inp, ENTRY_POINTS)
    L = lib()
    kind = inp.get("pdu")
    still = 1
    lines = []
    if kind in ("slot", "emb") and "received" in inp:
        fec = Fec(_Null(), L, kind)
        o = call(fec.cls.from_bits, bitarray(inp["received"]))
        member = inp.get("word", inp["received"]) in fec.codewords
        print(f"implementation {fec.cls.__name__}.from_bits({inp['received']}) -> {fec.out(o)}; code word membership of the received word {inp.get('word', '')}: {member}")
        still = int(is_err(o) or bool(getattr(o, fec.okattr)) != member)
        lines = [f"{kind}.dec {inp['received']}"]
    elif kind in ("dh", "pi", "slc", "r12", "r34", "r1"):
        pdu = CrcPdu(_Null(), L, kind, bool(inp.get("last")))
        if "route" in inp:
            o, ind, _ = pdu.parse(bitarray(inp["route"]))
            why = pdu.route_differs(bitarray(inp["route"]), o)
            print(f"typed decode of {inp['route']}: indicator {ind if not is_err(o) else o}; untyped decode then convert: {why or 'the same object'}")
            still = int(bool(why))
            c = pdu.corr(bitarray(inp["route"]), o)
            if c:
                lines = [c[0]]
        if "sent" in inp and inp["sent"] != "-":
            p, ind, f0 = pdu.parse(bitarray(inp["sent"]))
            print(f"sent     {inp['sent']}: indicator {ind if not is_err(p) else p}")
            still = int(is_err(p) or ind is not True)
            if "buffer" in inp:
                # the sent PDU followed by more bits / octets in the buffer
                buf = bitarray(inp["buffer"])
                if inp.get("entry") == "from_bytes":
                    q = call(L.DataHeader.from_bytes, buf.tobytes())
                    ind1 = None if is_err(q) else q.crc_ok
                else:
                    q, ind1, _ = pdu.parse(buf)
                print(f"buffer   {inp['buffer']} (the PDU followed by {inp.get('trailing')}{', ' + inp['entry'] if inp.get('entry') else ''}): indicator {ind1 if not is_err(q) else q}")
                still = int(is_err(q) or ind1 is not True)
                c = pdu.corr(buf, q)
                if c:
                    lines = [c[0]]
            if "received" in inp:
                q, ind1, f1 = pdu.parse(bitarray(inp["received"]))
                print(f"received {inp['received']} (bits {inp.get('positions')} inverted{'; check field = ' + str(inp['special']) if inp.get('special') else ''}{'; followed by ' + str(inp['trailing']) if inp.get('trailing') else ''}): indicator {ind1 if not is_err(q) else q}")
                if not is_err(q) and not is_err(p):
                    print("fields differ:", {k: [f0.get(k), f1.get(k)] for k in set(f0) | set(f1) if f0.get(k) != f1.get(k)})
                    still = int(ind1 is True)
                else:
                    still = 0 if is_err(q) else still
                c = pdu.corr(bitarray(inp["received"]), q)
                if c:
                    lines = [c[0]]
    elif kind == "hrnp":
        b = bytes.fromhex(inp.get("received") or inp.get("sent"))
        q = call(L.HRNP.from_bytes, b)
        print(f"implementation HRNP.from_bytes({b.hex()}) -> {q if is_err(q) else ('checksum_correct=' + str(q.checksum_correct) + ' ' + repr(q)[:200])}")
        still = int(not is_err(q) and q.checksum_correct is True) if "received" in inp else int(is_err(q) or not q.checksum_correct)
        lines = [f"hrnp.dec {hex_str(b)} {int(hdap_stage_fails(L, b))}"]
    if lines:
        try:
            import common

            ctx = common.Ctx(PROP, "quick", 0)
            for l, o in zip(lines, ctx.drive(lines)):
                print(f"model  {l}  ->  {o}")
        except Exception as e:  # noqa
            print("model driver not available:", e)
    print("expected:", f.get("expected"), "actual:", f.get("actual"))
    return 1 if still else 0


class _Null:
    """minimal stand-in for the run context in replay()"""

    def fail(self, *a, **k):
        pass

    def case(self, *a, **k):
        pass

    def count(self, *a, **k):
        pass


if __name__ == "__main__" and "--child" in sys.argv:
    sys.exit(child_main())
