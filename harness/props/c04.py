"""C04 — integrity indicators of parsed PDUs tell the truth about the received bits (DESIGN §5 C04)."""
import itertools
import json

from bitarray import bitarray
from bitarray.util import ba2int, int2ba

from common import bits_str, hex_str, impl_error

PROP = "C04"
MODULES = ["C04", "C04a"]
GEN = ["Codes", "Crc", "Integrity"]
ANCHORS = [
    "okdmr/dmrlib/etsi/crc",
    "okdmr/dmrlib/etsi/fec/golay_20_8_7.py",
    "okdmr/dmrlib/etsi/fec/quadratic_residue_16_7_6.py",
    "okdmr/dmrlib/etsi/layer2/elements/data_types.py",
    "okdmr/dmrlib/etsi/layer2/elements/slcos.py",
    "okdmr/dmrlib/etsi/layer3/elements/activity_id.py",
    "okdmr/dmrlib/hytera/pdu/hdap.py",
]


# ------------------------------------------------------------------------------------------------
# known finding: the in-band sentinel.  A failing input is accepted by the matcher only if the check
# field of the *received* word (recomputed here from the recorded bits) is all-zero — for a confirmed
# last block also if the received or the sent CRC-32 field is all-zero (the constructor leaves a zero
# CRC-32 out of the CRC-9, so such a block is covered by a different code).
CHECK_FIELD = {
    "slot": (8, 20),
    "emb": (7, 16),
    "slc": (28, 36),
    "dh": (80, 96),
    "r12": (7, 16),
    "r34": (7, 16),
    "r1": (7, 16),
}


def received_check_field_all_zero(f):
    inp = f.get("input") or {}
    kind = inp.get("pdu")
    rec = inp.get("received")
    if kind not in CHECK_FIELD or not isinstance(rec, str):
        return False
    a, b = CHECK_FIELD[kind]
    if len(rec) >= b and "1" not in rec[a:b]:
        return True
    if kind in ("r12", "r34", "r1") and inp.get("last"):
        n = len(rec)
        sent = inp.get("sent") or ""
        if "1" not in rec[n - 32:] or (len(sent) == n and "1" not in sent[n - 32:]):
            return True
    return False


MATCHERS = {"received_check_field_all_zero": received_check_field_all_zero}


# ------------------------------------------------------------------------------------------------
def barg(bits) -> str:
    s = bits_str(bits)
    return s if s else "-"


def call(fn, *a, **kw):
    try:
        return fn(*a, **kw)
    except BaseException as e:  # noqa
        return impl_error(e)


def is_err(x):
    return isinstance(x, str) and x.startswith("ERR")


def b01(x):
    return "1" if x else "0"


def lib():
    import types

    L = types.SimpleNamespace()
    from okdmr.dmrlib.etsi.fec.golay_20_8_7 import Golay2087
    from okdmr.dmrlib.etsi.fec.quadratic_residue_16_7_6 import QuadraticResidue1676
    from okdmr.dmrlib.etsi.layer2.pdu.slot_type import SlotType
    from okdmr.dmrlib.etsi.layer2.pdu.embedded_signalling import EmbeddedSignalling
    from okdmr.dmrlib.etsi.layer2.pdu.short_link_control import ShortLinkControl
    from okdmr.dmrlib.etsi.layer2.pdu.pi_header import PIHeader
    from okdmr.dmrlib.etsi.layer2.pdu.data_header import DataHeader
    from okdmr.dmrlib.etsi.layer2.pdu.rate12_data import Rate12Data, Rate12DataTypes
    from okdmr.dmrlib.etsi.layer2.pdu.rate34_data import Rate34Data, Rate34DataTypes
    from okdmr.dmrlib.etsi.layer2.pdu.rate1_data import Rate1Data, Rate1DataTypes
    from okdmr.dmrlib.etsi.layer2.elements.data_types import DataTypes
    from okdmr.dmrlib.etsi.layer2.elements.slcos import SLCOs
    from okdmr.dmrlib.etsi.layer3.elements.activity_id import ActivityID
    from okdmr.dmrlib.etsi.layer2.elements.lcss import LCSS
    from okdmr.dmrlib.hytera.pdu.hrnp import HRNP, HRNPOpcodes
    from okdmr.dmrlib.hytera.pdu.hdap import HDAP

    L.__dict__.update(locals())
    L.rates = {
        "r12": (Rate12Data, Rate12DataTypes, 96),
        "r34": (Rate34Data, Rate34DataTypes, 144),
        "r1": (Rate1Data, Rate1DataTypes, 192),
    }
    return L


def canon(v):
    if isinstance(v, bitarray):
        return "b:" + v.to01()
    if isinstance(v, (bytes, bytearray)):
        return "x:" + bytes(v).hex()
    if hasattr(v, "value") and hasattr(v, "name"):
        return f"e:{type(v).__name__}.{v.name}"
    if isinstance(v, (list, tuple)):
        return [canon(x) for x in v]
    if isinstance(v, (int, str, bool, float)) or v is None:
        return v
    if hasattr(v, "__dict__"):
        return {k: canon(x) for k, x in sorted(vars(v).items())}
    return repr(type(v))


def fields_of(obj, drop):
    return {k: canon(v) for k, v in sorted(vars(obj).items()) if k not in drop}


def apply_pattern(word: bitarray, pat):
    r = bitarray(word)
    for p in pat:
        r.invert(p)
    return r


def burst_patterns(rng, n, maxlen, per_window):
    """bursts: window [pos, pos+ln), first and last bit set; the solid one and random interiors"""
    out = []
    for ln in range(1, min(maxlen, n) + 1):
        for pos in range(0, n - ln + 1):
            out.append(tuple(range(pos, pos + ln)))
            for _ in range(per_window if ln > 2 else 0):
                inner = [i for i in range(pos + 1, pos + ln - 1) if rng.getrandbits(1)]
                out.append(tuple([pos] + inner + [pos + ln - 1]))
    return out


def all_bursts(n, maxlen):
    """every non-empty pattern confined to a window of at most maxlen bits (each once)"""
    out = []
    for pos in range(n):
        room = min(maxlen, n - pos) - 1
        for m in range(1 << room):
            out.append(tuple([pos] + [pos + 1 + i for i in range(room) if (m >> i) & 1]))
    return out


# ------------------------------------------------------------------------------------------------
class Fec:
    """slot type / EMB: indicator against code word membership for received words"""

    def __init__(self, ctx, L, kind):
        self.ctx, self.L, self.kind = ctx, L, kind
        if kind == "slot":
            self.n, self.k, self.code, self.cls, self.okattr = 20, 8, L.Golay2087, L.SlotType, "fec_parity_ok"
        else:
            self.n, self.k, self.code, self.cls, self.okattr = 16, 7, L.QuadraticResidue1676, L.EmbeddedSignalling, "emb_parity_ok"
        # code word membership is decided with the reference copy of the ETSI Annex B.3 generator
        # matrices (harness/reference/etsi_codes.json), not with the library's own tables
        import os

        ref = json.load(open(os.path.join(os.path.dirname(os.path.abspath(__file__)), "..", "reference", "etsi_codes.json")))
        G = ref["golay2087" if kind == "slot" else "qr1676"]["G"]
        self.codewords = set()
        self.lib_words = {}
        for m in range(2**self.k):
            mb = [(m >> (self.k - 1 - i)) & 1 for i in range(self.k)]
            w = [0] * self.n
            for bit, row in zip(mb, G):
                if bit:
                    w = [a ^ b for a, b in zip(w, row)]
            self.codewords.add("".join(str(x) for x in w))
            g = call(self.code.generate, int2ba(m, length=self.k))
            self.lib_words[m] = g if is_err(g) else "".join(str(int(x)) for x in g.tolist())

    def out(self, o):
        if is_err(o):
            return o
        if self.kind == "slot":
            return f"{b01(o.fec_parity_ok)} {o.colour_code} {o.data_type.value} {o.fec_parity}"
        return f"{b01(o.emb_parity_ok)} {o.colour_code} {o.preemption_and_power_control_indicator.value} {o.link_control_start_stop.value} {o.emb_parity}"

    def run(self):
        ctx, n, k = self.ctx, self.n, self.k
        for m, w in self.lib_words.items():
            ctx.case((self.kind, "generate", m))
            if w not in self.codewords:
                ctx.fail("generated-word-not-in-etsi-code", {"pdu": self.kind, "message": format(m, f"0{k}b"), "received": w if not is_err(w) else None},
                         f"{self.code.__name__}.generate({format(m, f'0{k}b')}) is not a code word of the ETSI code (reference generator matrix)", expected="a code word", actual=w)
        if ctx.thorough():
            words = range(2**n)
        else:
            ws = set(int(w, 2) for w in self.codewords)
            ws |= {d << (n - k) for d in range(2**k)}  # all zero-parity words
            for w in list(self.codewords)[:: 3 if self.kind == "slot" else 1]:
                v = int(w, 2)
                ws |= {v ^ (1 << i) for i in range(n)}
            ws |= {ctx.rng.getrandbits(n) for _ in range(ctx.budget(10000, 10000))}
            words = sorted(ws)
        pairs = []
        for wv in words:
            ws = format(wv, f"0{n}b")
            o = call(self.cls.from_bits, bitarray(ws))
            pairs.append((f"{self.kind}.dec {ws}", self.out(o)))
            parity_zero = "1" not in ws[k:]
            ctx.case((self.kind, "word", wv), nontrivial=wv != 0, sample={"pdu": self.kind, "received": ws, "out": self.out(o)} if wv == 0x5A5A5 % (2**n) else None)
            if parity_zero:
                ctx.count(f"{self.kind}:zero-parity-words")
            member = ws in self.codewords
            if is_err(o):
                ctx.fail("fec-decode-raises", {"pdu": self.kind, "received": ws}, f"{self.cls.__name__}.from_bits raised {o} on a {n}-bit word")
            elif bool(getattr(o, self.okattr)) != member:
                ctx.fail("indicator-not-membership", {"pdu": self.kind, "received": ws},
                         f"{self.cls.__name__}.{self.okattr} = {getattr(o, self.okattr)} but code word membership of the received word is {member}", expected=member, actual=bool(getattr(o, self.okattr)))
        ctx.count(f"{self.kind}:words", len(pairs))
        if not ctx.search_only and ctx.driver_ok:
            ctx.correspond(f"{self.kind}.from_bits", pairs)
        # selfcheck: construct from fields, serialise, parse back
        pairs = []
        if self.kind == "slot":
            combos = [(cc, dt) for cc in range(16) for dt in list(range(16)) + list(self.L.DataTypes)]
            for cc, dt in combos:
                o = call(self.cls, cc, dt)
                w = call(lambda: o.as_bits()) if not is_err(o) else o
                p = call(self.cls.from_bits, w) if not is_err(w) else w
                ctx.case((self.kind, "self", cc, str(dt)))
                if isinstance(dt, int):
                    pairs.append((f"slot.new {cc} {dt} 0", o if is_err(o) else f"{b01(o.fec_parity_ok)} {barg(w)}"))
                if not is_err(w) and barg(w) not in self.codewords:
                    ctx.fail("serialised-word-not-a-code-word", {"pdu": "slot", "fields": [cc, str(dt)], "received": barg(w)}, "a slot type built from fields serialises to a word that is not a Golay(20,8) code word", expected="a code word", actual=barg(w))
                if is_err(p) or not p.fec_parity_ok or not o.fec_parity_ok:
                    ctx.fail("selfcheck", {"pdu": "slot", "fields": [cc, str(dt)]}, "a slot type built from fields does not parse back with fec_parity_ok", expected=True, actual=str(p if is_err(p) else p.fec_parity_ok))
        else:
            for cc in range(16):
                for pi in range(2):
                    for lc in list(range(4)) + list(self.L.LCSS):
                        o = call(self.cls, cc, pi, lc)
                        w = call(lambda: o.as_bits()) if not is_err(o) else o
                        p = call(self.cls.from_bits, w) if not is_err(w) else w
                        ctx.case((self.kind, "self", cc, pi, str(lc)))
                        if isinstance(lc, int):
                            pairs.append((f"emb.new {cc} {pi} {lc} 0", o if is_err(o) else f"{b01(o.emb_parity_ok)} {barg(w)}"))
                        if not is_err(w) and barg(w) not in self.codewords:
                            ctx.fail("serialised-word-not-a-code-word", {"pdu": "emb", "fields": [cc, pi, str(lc)], "received": barg(w)}, "an EMB built from fields serialises to a word that is not a QR(16,7) code word", expected="a code word", actual=barg(w))
                        if is_err(p) or not p.emb_parity_ok or not o.emb_parity_ok:
                            ctx.fail("selfcheck", {"pdu": "emb", "fields": [cc, pi, str(lc)]}, "an EMB built from fields does not parse back with emb_parity_ok", expected=True, actual=str(p if is_err(p) else p.emb_parity_ok))
        if not ctx.search_only and ctx.driver_ok:
            ctx.correspond(f"{self.kind}.constructor", pairs)


# ------------------------------------------------------------------------------------------------
class CrcPdu:
    """one CRC-protected PDU family: how to make valid words, parse, read indicator and fields"""

    def __init__(self, ctx, L, kind, last=False):
        self.ctx, self.L, self.kind, self.last = ctx, L, kind, last

    # -- parse a received word: returns (obj | ERR, indicator, fields)
    def parse(self, bits: bitarray):
        L, kind = self.L, self.kind
        if kind == "dh":
            o = call(L.DataHeader.from_bits, bitarray(bits))
            return o, (None if is_err(o) else o.crc_ok), (None if is_err(o) else fields_of(o, ("crc", "crc_ok")))
        if kind == "pi":
            o = call(L.PIHeader.from_bits, bitarray(bits))
            return o, (None if is_err(o) else o.crc_ok), (None if is_err(o) else fields_of(o, ("crc", "crc_ok")))
        if kind == "slc":
            o = call(L.ShortLinkControl.from_bits, bitarray(bits))
            return o, (None if is_err(o) else o.crc_ok), (None if is_err(o) else fields_of(o, ("crc_8bit", "crc_ok")))
        cls, types, n = L.rates[kind]
        t = types.ConfirmedLastBlock if self.last else types.Confirmed
        o = call(cls.from_bits_typed, bitarray(bits), t)
        return o, (None if is_err(o) else o.crc9_ok), (None if is_err(o) else fields_of(o, ("crc9", "crc9_ok")))

    def width(self):
        return {"dh": 96, "pi": 96, "slc": 36, "r12": 96, "r34": 144, "r1": 192}[self.kind]

    def check_width(self):
        return {"dh": 16, "pi": 16, "slc": 8}.get(self.kind, 9)

    # -- model line and the implementation's answer in the model's output format
    def corr(self, bits: bitarray, o):
        kind = self.kind
        ws = barg(bits)
        if kind == "dh":
            # an exception of the field decoder (C03's subject) is an input of the model
            return f"dh.dec {ws} {int(is_err(o))}", ("ERR ValueError" if is_err(o) else b01(o.crc_ok))
        if kind == "pi":
            return f"pi.dec {ws}", (o if is_err(o) else f"{b01(o.crc_ok)} {o.crc} {barg(o.as_bits())}")
        if kind == "slc":
            return f"slc.dec {ws}", (o if is_err(o) else f"{b01(o.crc_ok)} {barg(o.as_bits())}")
        out = o if is_err(o) else f"{b01(o.crc9_ok)} {o.dbsn} {o.crc9} {o.crc32} {hex_str(o.data)} {barg(o.as_bits())}"
        return f"rate.dec {kind} {int(self.last)} {ws}", out

    # -- library-made valid words ("the library serialises a PDU")
    def make(self, rng, i):
        L, kind = self.L, self.kind
        if kind == "dh":
            dpf = [0, 1, 2, 3, 13][i % 5]
            for _ in range(200):
                b = int2ba(rng.getrandbits(80), length=80)
                b[4:8] = int2ba(dpf, length=4)
                if i % 7 == 3:
                    b[16:64] = rng.choice([0, 1])  # extreme addresses
                o = call(L.DataHeader.from_bits, b + bitarray("0" * 16))
                if not is_err(o):
                    return o
            return "ERR no-valid-header"
        if kind == "pi":
            return call(L.PIHeader, bytes(rng.getrandbits(8) for _ in range(10)))
        if kind == "slc":
            if i % 4 == 0:
                return call(L.ShortLinkControl, L.SLCOs.NullMessage)
            ids = list(L.ActivityID)
            return call(L.ShortLinkControl, L.SLCOs.ActivityUpdate, 0, ids[i % len(ids)], rng.choice(ids),
                        int2ba(rng.getrandbits(8), length=8), int2ba(rng.getrandbits(8), length=8))
        cls, types, n = L.rates[kind]
        if self.last:
            nbytes = types.ConfirmedLastBlock.value
            c32 = rng.choice([rng.getrandbits(32) or 1, rng.getrandbits(32) or 1, 1 << rng.randrange(32), 0x80000001, 0xFFFFFFFF, 3 << rng.randrange(30)])
            return call(cls, data=bytes(rng.getrandbits(8) for _ in range(nbytes)), packet_type=types.ConfirmedLastBlock,
                        dbsn=rng.choice([0, 127, rng.randrange(128)]), crc32=c32)
        nbytes = types.Confirmed.value
        data = bytes(rng.getrandbits(8) for _ in range(nbytes)) if i % 5 else bytes(nbytes)
        return call(cls, data=data, packet_type=types.Confirmed, dbsn=rng.choice([0, 127, rng.randrange(128)]))

    def code_order(self):
        """PDU bit position of the j-th bit in the order in which the CRC covers the word (data first,
        check bits most significant first last): bursts are bursts of *that* order"""
        n = self.width()
        if self.kind in ("dh", "pi"):
            return list(range(n))
        if self.kind == "slc":
            return list(range(28)) + [35 - i for i in range(8)]  # CRC-8 is sent least significant bit first
        # confirmed block: CRC-9 over data (and CRC-32), then the serial number; the 9 CRC bits are sent LSB first
        return list(range(16, n)) + list(range(0, 7)) + [15 - i for i in range(9)]

    def patterns(self, rng, exhaustive_level):
        n, w = self.width(), self.check_width()
        order = self.code_order()

        def to_pdu(pats):
            return [tuple(sorted(order[j] for j in pat)) for pat in pats]

        pats = [(i,) for i in range(n)]
        if self.kind in ("dh", "pi"):
            pats += list(itertools.combinations(range(n), 2))
            triples = list(itertools.combinations(range(n), 3))
            pats += triples if exhaustive_level >= 2 else rng.sample(triples, self.ctx.budget(1500, 12000))
            pats += burst_patterns(rng, n, 16, 1 if exhaustive_level == 0 else 6)
        elif self.kind == "slc":
            pats += list(itertools.combinations(range(n), 2))
            pats += to_pdu(all_bursts(n, 8))
        else:
            if exhaustive_level >= 1:
                pats += to_pdu(all_bursts(n, 9))
            else:
                pats += to_pdu(burst_patterns(rng, n, 9, 2))
        return pats

    def run(self, n_pdus, exhaustive_first):
        ctx, kind = self.ctx, self.kind
        tag = kind + ("-last" if self.last else "")
        pairs = []
        for i in range(n_pdus):
            o = self.make(ctx.rng, i)
            if is_err(o):
                ctx.fail("construct", {"pdu": kind, "last": self.last}, f"cannot build a {tag} PDU from fields: {o}")
                continue
            word = call(lambda: o.as_bits())
            if is_err(word):
                ctx.fail("serialise", {"pdu": kind, "last": self.last}, f"as_bits of a {tag} PDU raised {word}")
                continue
            sent = barg(word)
            if kind == "dh":
                pairs.append((f"dh.enc {sent[:80]}", sent))
            # ---- selfcheck
            p, ind, f0 = self.parse(word)
            c = self.corr(word, p)
            if c:
                pairs.append(c)
            ctx.case((tag, "self", sent), sample={"pdu": tag, "sent": sent, "indicator": ind} if i == 1 else None)
            ctx.count(f"{tag}:pdus")
            if is_err(p) or ind is not True:
                ctx.fail("selfcheck", {"pdu": kind, "last": self.last, "sent": sent}, f"a library-serialised {tag} PDU does not parse back with its indicator true", expected=True, actual=str(p if is_err(p) else ind))
                continue
            if call(lambda: p.as_bits()) != word:
                ctx.fail("selfcheck", {"pdu": kind, "last": self.last, "sent": sent}, f"a library-serialised {tag} PDU does not re-serialise to the same bits", expected=sent, actual=barg(call(lambda: p.as_bits())))
            # ---- corruption within the guaranteed class
            level = (2 if ctx.thorough() else 1) if i < exhaustive_first else (1 if ctx.thorough() and i < 3 * exhaustive_first else 0)
            for pat in self.patterns(ctx.rng, level):
                r = apply_pattern(word, pat)
                q, ind, f1 = self.parse(r)
                ctx.case((tag, sent, pat))
                c = self.corr(r, q) if (len(pat) == 1 or ctx.rng.random() < (0.25 if not ctx.thorough() else 0.05)) else None
                if c:
                    pairs.append(c)
                if is_err(q):
                    ctx.count(f"{tag}:decode-error")
                elif ind is False:
                    ctx.count(f"{tag}:detected")
                else:
                    same = f1 == f0
                    ctx.count(f"{tag}:ACCEPTED-{'same' if same else 'DIFFERENT'}-fields")
                    diff = {k: [f0.get(k), f1.get(k)] for k in set(f0) | set(f1) if f0.get(k) != f1.get(k)}
                    ctx.fail("corruption-accepted",
                             {"pdu": kind, "last": self.last, "sent": sent, "positions": list(pat), "received": barg(r), "fields_differ": not same},
                             f"{tag}: a corrupted PDU ({len(pat)} inverted bits: {list(pat)[:12]}) is accepted (indicator true)"
                             + (f" with different field values {json.dumps(diff)[:300]}" if not same else " (same field values)"),
                             expected="indicator false or a decode error", actual="indicator true")
        if not ctx.search_only and ctx.driver_ok and pairs:
            ctx.correspond(f"{tag}.indicator", pairs)


# ------------------------------------------------------------------------------------------------
HRNP_CORPUS = [
    "7e0400fe20100000000c60e1", "7e0300fe20100000000c60e2", "7e0400fd10200000000c70d2", "7E04001010200001000C71BE",
    "7e0400002010000100189b6002040005006400000001c403", "7e040000102000010019d6240204800600000f690600012903",
    "7e030000201000000018fefe02c910050002000101014f03", "7e04000020100000001873890241080500006f0000007503",
    "7e04000020100001001b43b502471808000700000000000000c403", "7E040000102000010014857A0247880100006203",
    "7E040000102000030019FDF9025284060000010A0003E95F03", "7E040000102000020019E41402528406000000E90300006A03",
    "7E04000010200004002767790980B1001400000001000000010A000835610068006F006A000203",
    "7e04000020100000001c03f502c7100900040b010601050012012303", "7e04000020100000001602fb02c8b003000b0400a803",
]


def hdap_stage_fails(L, d: bytes) -> bool:
    """does the HDAP stage of HRNP.from_bytes raise for this datagram? (C12's subject; an input of the model)"""
    plen = int.from_bytes(d[8:10], "big")
    try:
        obj = L.HDAP.from_bytes(d[12:plen])
        if d[3] == L.HRNPOpcodes.DATA.value:
            len(obj)
            obj.as_bytes()
        return False
    except BaseException:  # noqa
        return True


def hrnp_out(L, d: bytes, q):
    """canonical outcome of HRNP.from_bytes: an exception raised by the HDAP stage is 'ERR hdap' (its class is C12's subject)"""
    if not is_err(q):
        return b01(q.checksum_correct)
    framing = len(d) < 12 or len(d) < int.from_bytes(d[8:10], "big") or d[3] not in [o.value for o in L.HRNPOpcodes]
    if not framing and hdap_stage_fails(L, d):
        return "ERR hdap"
    return q


def hrnp_cases(ctx, L):
    rng = ctx.rng
    packets = []
    for hx in HRNP_CORPUS:
        packets.append(bytes.fromhex(hx))
    # the library serialises: corpus payloads re-wrapped with other header fields, and the payload-less opcodes
    payloads = [bytes.fromhex(h)[12:] for h in HRNP_CORPUS if len(h) > 24]
    for i in range(ctx.budget(12, 60)):
        if i % 3 == 0:
            op = rng.choice([o for o in L.HRNPOpcodes if o != L.HRNPOpcodes.DATA])
            o = call(L.HRNP, opcode=op, source=rng.randrange(256), destination=rng.randrange(256), block_number=rng.randrange(256), packet_number=rng.randrange(65536))
        else:
            o = call(L.HRNP, data=rng.choice(payloads), opcode=L.HRNPOpcodes.DATA, source=rng.randrange(256), destination=rng.randrange(256),
                     block_number=rng.choice([0, 255, rng.randrange(256)]), packet_number=rng.choice([0, 65535, rng.randrange(65536)]), version=rng.choice([3, 4]))
        b = call(lambda: o.as_bytes()) if not is_err(o) else o
        if is_err(b):
            ctx.fail("construct", {"pdu": "hrnp"}, f"cannot build / serialise an HRNP packet: {b}")
            continue
        packets.append(b)
    # packets whose correct checksum has a single set bit: one inverted bit then makes the received
    # checksum field 0x0000 (HRNP has no "zero means absent" rule: it must be detected like any other)
    def ones_sum(data: bytes) -> int:
        if len(data) % 2:
            data += b"\x00"
        t = sum(int.from_bytes(data[i:i + 2], "big") for i in range(0, len(data), 2))
        while t >> 16:
            t = (t & 0xFFFF) + (t >> 16)
        return ~t & 0xFFFF

    for payload, target in ((payloads[0], 0x0001), (payloads[1 % len(payloads)], 0x8000), (b"", 0x0100)):
        tmpl = call(lambda: L.HRNP(data=payload, opcode=L.HRNPOpcodes.DATA, packet_number=0).as_bytes()) if payload else call(lambda: L.HRNP(opcode=L.HRNPOpcodes.CLOSE, packet_number=0).as_bytes())
        if is_err(tmpl):
            continue
        pn = next((v for v in range(65536) if ones_sum(tmpl[0:6] + v.to_bytes(2, "big") + tmpl[8:10] + tmpl[12:]) == target), None)
        if pn is None:
            continue
        o = call(L.HRNP, data=payload, opcode=L.HRNPOpcodes.DATA, packet_number=pn) if payload else call(L.HRNP, opcode=L.HRNPOpcodes.CLOSE, packet_number=pn)
        b = call(lambda: o.as_bytes()) if not is_err(o) else o
        if not is_err(b):
            packets.append(b)
            ctx.count("hrnp:packets-with-single-bit-checksum", int(b[10:12] == target.to_bytes(2, "big")))
    pairs = []
    for b in packets:
        o = call(L.HRNP.from_bytes, b)
        ctx.case(("hrnp", "self", b), sample={"pdu": "hrnp", "sent": b.hex(), "indicator": None if is_err(o) else o.checksum_correct} if b == packets[4] else None)
        ctx.count("hrnp:packets")
        pairs.append((f"hrnp.dec {hex_str(b)} {int(hdap_stage_fails(L, b))}", hrnp_out(L, b, o)))
        if is_err(o) or o.checksum_correct is not True:
            ctx.fail("selfcheck", {"pdu": "hrnp", "sent": b.hex()}, "a valid / library-serialised HRNP packet does not parse back with checksum_correct", expected=True, actual=str(o if is_err(o) else o.checksum_correct))
            continue
        if call(lambda: o.as_bytes()) != b:
            continue  # not a library serialisation (captured packet the library normalises): no field comparison
        f0 = fields_of(o, ("checksum", "checksum_correct"))
        pairs.append((f"hrnp.sum {hex_str(b[0:10] + b[12:])}", str(int.from_bytes(b[10:12], "big"))))
        for bit in range(len(b) * 8):
            c = bytearray(b)
            c[bit // 8] ^= 0x80 >> (bit % 8)
            c = bytes(c)
            q = call(L.HRNP.from_bytes, c)
            ctx.case(("hrnp", b, bit))
            if bit % 5 == ctx.seed % 5 or bit < 96:
                pairs.append((f"hrnp.dec {hex_str(c)} {int(hdap_stage_fails(L, c))}", hrnp_out(L, c, q)))
            if is_err(q):
                ctx.count("hrnp:decode-error")
            elif q.checksum_correct is False:
                ctx.count("hrnp:detected")
            else:
                same = fields_of(q, ("checksum", "checksum_correct")) == f0
                ctx.count(f"hrnp:ACCEPTED-{'same' if same else 'DIFFERENT'}-fields")
                ctx.fail("corruption-accepted", {"pdu": "hrnp", "sent": b.hex(), "bit": bit, "received": c.hex(), "fields_differ": not same},
                         f"HRNP: a packet with one inverted bit (octet {bit // 8}) is accepted (checksum_correct)" + (" with different field values" if not same else " (same field values)"),
                         expected="checksum_correct false or a decode error", actual="checksum_correct true")
    if not ctx.search_only and ctx.driver_ok:
        ctx.correspond("hrnp.checksum_correct", pairs)


# ------------------------------------------------------------------------------------------------
# inputs that failed before the repairs recorded in KNOWN_FINDINGS.txt (kept so a regression is re-reported)
def corpus_cases(ctx, L):
    # short LC on-air vectors of test_vbptc_68_36 (36 information bits): crc_ok was False before 4fb5ebd
    for bits in ("0001000110000001000000000100", "0000000000000000000000000000", "0001001110011111000010100101"):
        # 28 data bits, CRC field zero: the constructor generates the CRC; then the serialisation is parsed
        o = call(L.ShortLinkControl.from_bits, bitarray(bits + "00000000"))
        w = call(lambda: o.as_bits()) if not is_err(o) else o
        p = call(L.ShortLinkControl.from_bits, w) if not is_err(w) else w
        ctx.case(("corpus", "slc", bits))
        if is_err(p) or p.crc_ok is not True:
            ctx.fail("selfcheck", {"pdu": "slc", "sent": barg(w) if not is_err(w) else bits}, "a library-serialised short LC does not parse back with crc_ok", expected=True, actual=str(p if is_err(p) else p.crc_ok))
    # slot type with a reserved data type value: the verdict was computed for data type 12 before 892f83a
    for cc, dt in ((1, 13), (7, 15)):
        g = call(L.Golay2087.generate, int2ba(cc, length=4) + int2ba(dt, length=4))
        if is_err(g):
            continue
        w = bitarray([int(x) for x in g.tolist()])
        o = call(L.SlotType.from_bits, w)
        ctx.case(("corpus", "slot", barg(w)))
        if is_err(o) or o.fec_parity_ok is not True:
            ctx.fail("indicator-not-membership", {"pdu": "slot", "received": barg(w)}, "a valid Golay word with a reserved data type is reported invalid", expected=True, actual=str(o if is_err(o) else o.fec_parity_ok))
    # HRNP DATA packet, single-bit error inside the HDAP payload: accepted before 4e51d6f
    b = bytes.fromhex("7e0400002010000100189b6002040005006400000001c403")
    for bit in (8 * 19 + 7, 8 * 21 + 5, 8 * 22 + 0):
        c = bytearray(b)
        c[bit // 8] ^= 0x80 >> (bit % 8)
        q = call(L.HRNP.from_bytes, bytes(c))
        ctx.case(("corpus", "hrnp", bit))
        if not is_err(q) and q.checksum_correct:
            ctx.fail("corruption-accepted", {"pdu": "hrnp", "sent": b.hex(), "bit": bit, "received": bytes(c).hex()},
                     "HRNP DATA packet, error inside the HDAP payload: accepted (checksum_correct)", expected="checksum_correct false or a decode error", actual="checksum_correct true")


def run(ctx):
    ctx.rule = (
        "slot type / EMB: received words = all code words, all zero-parity words, single-bit neighbours of code words and 10^4 random "
        "words (thorough: all 2^20 / 2^16 words), indicator compared with membership in the set of generate() outputs; every PDU built from "
        "all field values parses back ok. CRC PDUs (data header x5 formats, PI header, short LC null/activity, confirmed and confirmed-last "
        "blocks of rate 1/2, 3/4, 1): library-serialised PDUs with random / extreme fields, each with all single-bit errors, (CCITT) all "
        "2-bit and sampled or all 3-bit errors and bursts <= 16, (short LC) all 2-bit errors and every burst <= 8, (CRC-9) sampled or every "
        "burst <= 9 (bursts in code order); outcome must be a decode error or indicator false (an accepted corrupted PDU is reported, with or without different field values). HRNP: captured and library-built "
        "packets x every single-bit error. A case is non-trivial unless it is the all-zero word; distinct = distinct (PDU, sent word, pattern)."
    )
    ctx.trusted_base += [
        "Lean 4.33 kernel",
        "tools/extract.py, extract_crc.py, extract_integrity.py (Golay/QR matrices, CRC configurations and masks, enum value graphs, block lengths, HRNP opcodes)",
        "hand-written model of the check logic (Model/Integrity.lean on top of Model/Codes.lean and Model/Crc*.lean) tied to the code by this run's correspondence",
        "inputs of the model taken from the real code: whether the field decoder of a data header raises (field codec = C03), whether the HDAP stage of an HRNP packet raises (C12)",
        "bitarray / numpy trusted as the substrate",
    ]
    ctx.assumptions += [
        "the CRC detection theorems assume a received check field that is not all-zero (the constructors treat 0 as 'please generate': known finding zero-check-field; for a confirmed last block also a non-zero CRC-32 field, sent and received); the oracle does not",
        "bursts are bursts of the order in which the CRC covers the bits: for the short LC the 8 CRC bits are sent least significant bit first, for a confirmed block the order is data, (CRC-32,) serial number, CRC-9 (sent LSB first); a burst of the PDU bit order that straddles these field boundaries is not a burst of the code and carries no guarantee (ETSI layout, not a library matter)",
        "HRNP: single-bit errors that clear a bit of the packet-length field are not covered by the theorem (the packet is then checked as a shorter one); the oracle includes them",
    ]
    L = lib()
    corpus_cases(ctx, L)
    Fec(ctx, L, "slot").run()
    Fec(ctx, L, "emb").run()
    q = not ctx.thorough()
    CrcPdu(ctx, L, "dh").run(ctx.budget(10, 25), 0 if q else 2)
    CrcPdu(ctx, L, "pi").run(ctx.budget(4, 10), 0 if q else 1)
    CrcPdu(ctx, L, "slc").run(ctx.budget(24, 120), 0)
    for kind in ("r12", "r34", "r1"):
        CrcPdu(ctx, L, kind, last=False).run(ctx.budget(6, 16), 0 if q else 2)
        CrcPdu(ctx, L, kind, last=True).run(ctx.budget(6, 16), 0 if q else 2)
    hrnp_cases(ctx, L)
    ctx.exhaustive = ctx.thorough()


# ------------------------------------------------------------------------------------------------
def replay(obj):
    f = obj.get("failure") or {}
    inp = f.get("input", {}) or {}
    print(json.dumps(obj.get("type")), f.get("kind"), "-", f.get("what"))
    if not inp:
        print(json.dumps(obj.get("no_longer_checks") or obj.get("correspondence_differences"), indent=1)[:4000])
        return 1
    L = lib()
    kind = inp.get("pdu")
    still = 1
    lines = []
    if kind in ("slot", "emb") and "received" in inp:
        fec = Fec(_Null(), L, kind)
        o = call(fec.cls.from_bits, bitarray(inp["received"]))
        member = inp["received"] in fec.codewords
        print(f"implementation {fec.cls.__name__}.from_bits({inp['received']}) -> {fec.out(o)}; code word membership of the received word: {member}")
        still = int(is_err(o) or bool(getattr(o, fec.okattr)) != member)
        lines = [f"{kind}.dec {inp['received']}"]
    elif kind in ("dh", "pi", "slc", "r12", "r34", "r1"):
        pdu = CrcPdu(_Null(), L, kind, bool(inp.get("last")))
        if "sent" in inp and inp["sent"] != "-":
            p, ind, f0 = pdu.parse(bitarray(inp["sent"]))
            print(f"sent     {inp['sent']}: indicator {ind if not is_err(p) else p}")
            still = int(is_err(p) or ind is not True)
            if "received" in inp:
                q, ind1, f1 = pdu.parse(bitarray(inp["received"]))
                print(f"received {inp['received']} (bits {inp.get('positions')} inverted): indicator {ind1 if not is_err(q) else q}")
                if not is_err(q) and not is_err(p):
                    print("fields differ:", {k: [f0.get(k), f1.get(k)] for k in set(f0) | set(f1) if f0.get(k) != f1.get(k)})
                    still = int(ind1 is True)
                else:
                    still = 0 if is_err(q) else still
                c = pdu.corr(bitarray(inp["received"]), q)
                if c:
                    lines = [c[0]]
    elif kind == "hrnp":
        b = bytes.fromhex(inp.get("received") or inp.get("sent"))
        q = call(L.HRNP.from_bytes, b)
        print(f"implementation HRNP.from_bytes({b.hex()}) -> {q if is_err(q) else ('checksum_correct=' + str(q.checksum_correct) + ' ' + repr(q)[:200])}")
        still = int(not is_err(q) and q.checksum_correct is True) if "received" in inp else int(is_err(q) or not q.checksum_correct)
        lines = [f"hrnp.dec {hex_str(b)} {int(hdap_stage_fails(L, b))}"]
    if lines:
        try:
            import common

            ctx = common.Ctx(PROP, "quick", 0)
            for l, o in zip(lines, ctx.drive(lines)):
                print(f"model  {l}  ->  {o}")
        except Exception as e:  # noqa
            print("model driver not available:", e)
    print("expected:", f.get("expected"), "actual:", f.get("actual"))
    return 1 if still else 0


class _Null:
    """minimal stand-in for the run context in replay()"""

    def fail(self, *a, **k):
        pass

    def case(self, *a, **k):
        pass

    def count(self, *a, **k):
        pass
