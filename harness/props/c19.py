"""C19 — codec calls are pure: results do not depend on earlier calls or alter inputs (DESIGN §5 C19).

Level: *partial* for this technique.  Lean proves non-interference of the inventoried hidden state; that no
other hidden state exists is established here: the AST inventory (tools/scan_state.py) must equal the reviewed
baseline committed in Props/C19.lean, and ~210 public codec entry points are run in random interleavings, every
result compared with the same call executed FIRST in a fresh interpreter state (c19_worker.py fork server).
For every entry point, argument VARIANTS (arg_variants / spec_variants: values a coarse memo key would identify - other
bit order, other type, lost length / padding, masked, one argument replaced, the caller's buffer re-used) are called
back to back; returned buffers are overwritten by the caller and the call repeated; returned objects stay held and
must neither change under later calls nor be handed out twice.
Argument FORMS (arg_forms): every buffer argument of every entry point is also handed over in every container form the
callee's own conversions may accept (bytes / bytearray / memoryview / bytes subclass, bitarray of either bit order on whole
octets and not, frozenbitarray, list / tuple of ints, list of bools, numpy arrays of several element types, read-only, from
frombuffer, non-contiguous, array.array, text of 0/1); each form has its own fresh reference, its argument snapshot, an
identity / shared-memory test between argument and result, and is called twice more with the very same object the caller
kept (never rewritten by the caller).  Wall clock: eight deterministic clock settings in different centuries / years /
months are applied BEFORE the library is imported, in fork servers and in brand-new interpreters.
A boosted run (proof / correspondence broke, source drift) multiplies the budgets by at most 2; the forms and the extra
clock settings have a fixed share.
Round 5 - CONSTRUCTION PROBE (c19_graph.py, `construction_probe` below): every class of the library is built twice from equal
arguments, every mutable node of the object graph is compared by identity with the objects the library holds (parameter
defaults, class attributes, globals), with the other instance and with the arguments, and edited in place by the caller; the
other instance, a fresh one, the library's objects and the arguments must not notice.  The object graphs of the results held
inside the histories are walked for library-held / shared nodes too.  Sharing that exists on the unchanged tree is listed, entry
by entry with a remark, in c19.aliases.json (tools/c19_rebaseline.py --aliases [--write]) and spelled out in ctx.assumptions.
"""
import json
import os
import subprocess
import sys
import threading
import time

from common import PY, Infra

PROP = "C19"
MODULES = ["C19"]
GEN = ["HiddenState", "PurityInit"]
MATCHERS = {}

HERE = os.path.dirname(os.path.abspath(__file__))
WORKER = os.path.join(HERE, "c19_worker.py")
with open(os.path.join(HERE, "c19_corpus.json")) as _f:
    CORPUS = json.load(_f)
# sharing between a constructed object and library state / another instance / the caller's argument that exists on the UNCHANGED
# tree, each judged by a person (regenerate: tools/c19_rebaseline.py --aliases [--write]; an entry whose remark starts with
# "REVIEW" has not been judged and suppresses nothing)
ALIASES_FILE = os.path.join(HERE, "c19.aliases.json")
try:
    with open(ALIASES_FILE) as _f:
        _al = json.load(_f)
        ALIASES = _al.get("reviewed", [])
        RESULT_ROOTS = [e["prefix"] for e in _al.get("reviewed_result_roots", []) if not str(e.get("remark", "")).startswith("REVIEW")]
except FileNotFoundError:
    ALIASES, RESULT_ROOTS = [], []


# ------------------------------------------------------------------------------------------------
# argument encodings (see c19_worker.dec) and small generators; library-free on purpose
def B(s):
    return ["b", s]


def BL(s):
    return ["bl", s]


def X(h):
    return ["x", h]


def XA(h):
    return ["xa", h]


def I(v):
    return ["i", int(v)]


def S(v):
    return ["s", v]


N = ["n"]


def rbits(r, n):
    m = r.random()
    if m < 0.06:
        return "0" * n
    if m < 0.12:
        return "1" * n
    return "".join(r.choice("01") for _ in range(n))


def rhex(r, n):
    m = r.random()
    if m < 0.05:
        return "00" * n
    if m < 0.10:
        return "ff" * n
    return bytes(r.randrange(256) for _ in range(n)).hex()


def flip_bits(r, s, k=None):
    if not s:
        return s
    k = k if k is not None else r.choice([1, 1, 2, 3])
    l = list(s)
    for _ in range(k):
        i = r.randrange(len(l))
        l[i] = "1" if l[i] == "0" else "0"
    return "".join(l)


def flip_hex(r, h, k=None):
    b = bytearray.fromhex(h)
    if not b:
        return h
    for _ in range(k if k is not None else r.choice([1, 1, 2])):
        b[r.randrange(len(b))] ^= 1 << r.randrange(8)
    return bytes(b).hex()


def hex2bits(h):
    return "".join(f"{x:08b}" for x in bytes.fromhex(h))


def from_corpus(r, key, n_bytes=None, mutate=0.35):
    """hex from the captured corpus (sometimes with a few flipped bits), or random"""
    pool = CORPUS.get(key) or []
    if pool and r.random() < 0.75:
        h = r.choice(pool)
        return flip_hex(r, h) if r.random() < mutate else h
    if n_bytes is None:
        n_bytes = r.choice([0, 1, 3, 7, 12, 20, 40])
    return rhex(r, n_bytes)


def bits_of_len(r, n, key=None, mutate=0.3):
    """an n-bit string: captured (corpus bit strings of that length / corpus hex) or random; rarely a wrong length"""
    if r.random() < 0.04:
        return rbits(r, r.choice([0, 1, n - 1, n + 1, n + 8]) if n > 1 else 0)
    pool = list((CORPUS.get("bits") or {}).get(str(n), []))
    kp = [hex2bits(h)[:n] if set(h) - set("01") or len(h) != n else h for h in CORPUS.get(key, []) if len(h) * 4 >= n or len(h) == n] if key else []
    if kp:
        pool = kp if r.random() < 0.8 else pool + kp
    if pool and r.random() < (0.85 if kp else 0.6):
        s = r.choice(pool)
        return flip_bits(r, s) if r.random() < mutate else s
    return rbits(r, n)


CRC_CFGS = ["crc7", "crc8", "crc9", "crc16", "crc32",
            [16, 0x1021, 0xFFFF, 0x0000, 0, 0], [16, 0x8005, 0x0000, 0x0000, 1, 1], [32, 0x04C11DB7, 0xFFFFFFFF, 0xFFFFFFFF, 1, 1],
            [12, 0x80F, 0, 0, 0, 0], [24, 0x864CFB, 0xB704CE, 0, 0, 0], [5, 0x15, 0, 0, 0, 0], [8, 0x07, 0, 0x55, 0, 1], [10, 0x233, 0, 0, 0, 0],
            # same width as a library configuration, other polynomial (the lookup-table cache is keyed by both)
            [8, 0x31, 0, 0, 0, 0], [9, 0x119, 0, 0, 0, 0], [32, 0x1EDC6F41, 0, 0, 0, 0], [16, 0x3D65, 0, 0xFFFF, 0, 0],
            # two polynomials of a width the library itself never caches: whichever comes first must not decide the other's table
            [12, 0xF13, 0, 0, 0, 0], [24, 0x5D6DCB, 0, 0, 0, 0], [10, 0x3D9, 0, 0, 0, 0], [5, 0x09, 0, 0, 0, 0]]


def crc_data(r, le_ok=True):
    n = r.choice([0, 1, 7, 8, 9, 16, 24, 40, 72, 80, 96, 100, 128])
    s = rbits(r, n)
    return BL(s) if (le_ok and r.random() < 0.2) else B(s)


def crc_cfg_data(r, le_ok=True):
    """(configuration, data).  With reverse_input_bytes the data is a whole number of octets: byte reversal of a partial
    octet reads bitarray's pad bits, whose content is unspecified (not library state; excluded from the domain)."""
    c = r.choice(CRC_CFGS)
    d = crc_data(r, le_ok)
    if isinstance(c, list) and c[4]:
        d = [d[0], d[1][: len(d[1]) // 8 * 8]]
    return (["l", [I(x) for x in c]] if isinstance(c, list) else S(c)), d


GPS_DATES = ["290200", "290224", "290228", "290296", "280200", "010300", "311299", "010100", "311200", "010101", "311226", "290226", "310426", "000000", "320126", "011326",
             "010170", "311269", "010138", "190138", "290204", "311250", "010151"]


def gps40(r):
    def f(w, v):
        return v.rjust(w, "0")[:w]

    if r.random() < 0.2:
        return rhex(r, 40)
    # day month year (two digits): also leap days (valid in 2000 + yy only if that year is a leap year: 2000 is, 1900 / 2100 are
    # not), the last / first day of a year / century, days that do not exist
    ddmmyy = r.choice(GPS_DATES) if r.random() < 0.35 else f(2, str(r.randrange(1, 29))) + f(2, str(r.randrange(1, 13))) + f(2, str(r.randrange(100)))
    s = (r.choice("AV") + f(2, str(r.randrange(24))) + f(2, str(r.randrange(60))) + f(2, str(r.randrange(60)))
         + ddmmyy
         + r.choice("NS") + f"{r.random() * 9000:09.4f}" + r.choice("EW") + f"{r.random() * 18000:010.4f}"
         + r.choice(["\0\0\0", "1.5", "9.9", "0.0"]) + r.choice(["\0\0\0", "045", "359"]))
    return s.encode("ascii").hex()


TMS_SAMPLES = ["0003d00001", "00021f00", "00049f009520", "000de00101954461006800 6f006a00".replace(" ", ""), "0002d000", "00039f0005", "0005e0000561 00".replace(" ", "")]
ARS_SAMPLES = ["0007f0200231310000", "000131", "0010f5000231310939393939393939393900"]
LRRP_NAMES_REQ = ["request-id", "interval", "oneshot-trigger", "periodic-trigger", "ret-info", "request-speed-hor", "trg-condition", "require-altitude", "no-such-token"]
LRRP_NAMES_ANS = ["request-id", "result", "info-time", "circle-2d", "point-2d", "speed-hor", "protocol-version", "lev-conf", "no-such-token"]
LRRP_ATTRS = ["result-code", "ret-info-accuracy", "ret-info-no-req-id", "ret-info-time", "no-such-attribute", 0x22, 0x23, 0x50, 0x51, 0x54, 0x99]


LRRP_VALID = [
    (1, "request-id", X("2468ace0"), []), (1, "interval", I(30), []), (1, "oneshot-trigger", N, []), (1, "ret-info", N, []),
    (1, "ret-info", N, [("ret-info-accuracy", I(0x49))]), (1, "ret-info", N, [("ret-info-accuracy", I(0x49)), ("ret-info-time", I(0x49))]),
    (1, "ret-info", N, [("ret-info-time", I(0x49))]), (1, "ret-info", N, [("ret-info-accuracy", I(7))]), (1, "ret-info", N, [("ret-info-time", I(9)), ("ret-info-accuracy", I(7))]),
    (0, "result", X("515355"), [("result-code", I(5))]), (0, "result", X(""), [("result-code", I(0))]), (0, "result", X(""), [("result-code", I(200))]),
    (0, "result", N, [(0x22, I(17))]), (0, "result", N, [(0x22, I(17)), ("result-code", I(18))]),
    (0, "request-id", X("2468ace0"), []), (0, "speed-hor", ["f", 0.04688], []), (0, "protocol-version", I(1), []), (0, "info-time", X("1f4dbc7780"), []),
]


def lrrp_token_args(r):
    if r.random() < 0.65:
        req, name, value, attrs = r.choice(LRRP_VALID)
        return [S(name), value, ["d", [[S(k) if isinstance(k, str) else I(k), v] for k, v in attrs]], I(req)]
    req = r.random() < 0.5
    name = r.choice(LRRP_NAMES_REQ if req else LRRP_NAMES_ANS)
    if r.random() < 0.2:
        name = r.choice([0x22, 0x23, 0x31, 0x37, 0x38, 0x39, 0x50, 0x51, 0x52, 0x53, 0x6C])
    nm = S(name) if isinstance(name, str) else I(name)
    value = r.choice([N, X("2468ace0"), I(5), X("515355")])
    attrs = []
    for _ in range(r.choice([0, 0, 1, 1, 2])):
        k = r.choice(LRRP_ATTRS)
        v = r.choice([N, I(0), I(0x49), I(5), I(200)])
        attrs.append([S(k) if isinstance(k, str) else I(k), v])
    return [nm, value, ["d", attrs], I(1 if req else 0)]


# ------------------------------------------------------------------------------------------------
# argument VARIANTS: values that compare equal to an argument (or collide with it under a natural but too coarse key)
# and yet are not the same value for the callee.  A memo / cache / "same as last time" shortcut keyed by something
# coarser than the argument - ==, to01(), tolist(), tobytes(), ba2int(), bytes(), int.from_bytes(), hash(), id(),
# a masked or normalised value, the first argument only - answers the second call of f(x); f(x') with the remembered
# result of the first.  Each class names the key that would identify x and x'.
def _octet_mirror(s):
    """0/1 values of the bitarray of the other bit order that has the same buffer octets (tobytes()); pad bits are zero"""
    pad = s + "0" * (-len(s) % 8)
    return "".join(pad[i : i + 8][::-1] for i in range(0, len(pad), 8))


def arg_variants(e, r):
    """[(class, encoded argument')] for one encoded argument"""
    t = e[0]
    out = []
    if t in ("b", "bl"):
        s = e[1]
        o = "bl" if t == "b" else "b"
        strong = len(set(s)) == 2 and s != s[::-1]  # otherwise both bit orders are (nearly) the same value
        if strong:
            # bitarray == / to01() / tolist() / iteration ignore the bit order; ba2int(), tobytes(), bytereverse() do not
            out.append(("endian", [o, s]))
            # the same buffer octets read in the other bit order: tobytes() / memoryview / bytes() keys
            out.append(("tobytes-endian", [o, _octet_mirror(s)]))
        # the same ba2int(): leading (big) / trailing (little) zeros added or dropped - the length is lost
        z = "0" * r.choice([1, 1, 4, 8])
        out.append(("ba2int-length", [t, z + s if t == "b" else s + z]))
        cut = s.lstrip("0") if t == "b" else s.rstrip("0")
        if cut and cut != s:
            out.append(("ba2int-length", [t, cut]))
        # the same tobytes(): the zero pad bits of the last octet become part of the value / trailing zeros become pad bits
        if len(s) % 8:
            out.append(("tobytes-padding", [t, s + "0" * (-len(s) % 8)]))
        tz = len(s) - len(s.rstrip("0"))
        if s and len(s) % 8 == 0 and tz:
            out.append(("tobytes-padding", [t, s[: -min(tz, r.choice([1, 3, 7]))]]))
        # equal and hash-equal, another type
        out.append(("frozen-bitarray", ["fb" if t == "b" else "fbl", s]))
        # a key that looks at a part of the buffer only (a header, the first / last octets, the length)
        if len(s) >= 2:
            out.append(("same-prefix", [t, s[:-1] + ("1" if s[-1] == "0" else "0")]))
            out.append(("same-suffix", [t, ("1" if s[0] == "0" else "0") + s[1:]]))
        if len(s) >= 3:
            k = len(s) // 2
            out.append(("same-ends", [t, s[:k] + ("1" if s[k] == "0" else "0") + s[k + 1 :]]))
    elif t in ("x", "xa"):
        h = e[1]
        # bytes == bytearray == memoryview (and hash(bytes) == hash(memoryview))
        for o in (("xa", "mv") if t == "x" else ("x", "mva")):
            out.append(("bytes-type", [o, h]))
        # the same int.from_bytes(.., "big") / lstrip(b"\0"); the same rstrip(b"\0") / ljust(n, b"\0")
        out.append(("int-length", [t, "00" + h]))
        if h.startswith("00") and len(h) > 2:
            out.append(("int-length", [t, h[2:]]))
        out.append(("zero-padding", [t, h + "00"]))
        if h.endswith("00") and len(h) > 2:
            out.append(("zero-padding", [t, h[:-2]]))
        if len(h) >= 4:
            out.append(("same-prefix", [t, h[:-2] + f"{int(h[-2:], 16) ^ 0x01:02x}"]))
            out.append(("same-suffix", [t, f"{int(h[:2], 16) ^ 0x80:02x}" + h[2:]]))
        if len(h) >= 6:
            k = len(h) // 4 * 2
            out.append(("same-ends", [t, h[:k] + f"{int(h[k : k + 2], 16) ^ 0x10:02x}" + h[k + 2 :]]))
    elif t == "i":
        v = e[1]
        # 1 == True == 1.0 == numpy.int64(1), all with the same hash (functools.lru_cache(typed=False), dict keys)
        if v in (0, 1):
            out.append(("int-type", ["B", bool(v)]))
        if abs(v) < 2**53:
            out.append(("int-type", ["f", float(v)]))
        if -(2**63) <= v < 2**63:
            out.append(("int-type", ["npi", v]))
        # the same value under a mask (v & 0xFF, v % 65536, …)
        # (small values may be counts / sizes: only bit 8 is toggled there, a 4 GiB buffer is not a codec call)
        out.append(("int-mask", ["i", v ^ (1 << (r.choice([8, 16, 24, 32]) if abs(v) >= 256 else 8))]))
    elif t == "f":
        if float(e[1]).is_integer():
            out.append(("int-type", ["i", int(e[1])]))
    elif t == "s":
        v = e[1]
        if v.swapcase() != v:
            out.append(("str-normalised", ["s", v.upper() if v.upper() != v else v.lower()]))
        out.append(("str-normalised", ["s", v + " "]))
    elif t == "np":
        # numpy.array_equal / tolist() / == do not see the element type or the container
        for dt in ("bool", "uint8", "float64"):
            out.append(("array-type", ["npd", dt, e[1]]))
        out.append(("array-type", ["l", [I(x) for x in e[1]]]))
    elif t == "d":
        # dict == ignores the insertion order, iteration does not
        if len(e[1]) >= 2:
            out.append(("dict-order", ["d", list(reversed(e[1]))]))
    return [(c, v) for c, v in out if v != e]


HOLDABLE = {"b", "bl", "xa", "np", "d"}
# forms that are mutable objects (a callee could alter them): kept by the caller and handed over again as they are
KEEPABLE = {"b", "bl", "bz", "blz", "xa", "mva", "np", "npd", "npv", "npfa", "l", "lb", "arr"}


# ------------------------------------------------------------------------------------------------
# argument FORMS: the same data in every container the callee's own conversions may accept.  What a signature calls `bytes`
# is, for `bitarray.frombytes`, `bytes()`, `int.from_bytes`, slicing and iteration, anything with the buffer protocol - and
# a conversion that is a copy for the usual form may be the identity (or a view) for another one, so that an in-place
# operation that was safe on the usual form lands in the caller's object.  Each form is its own call (own fresh reference).
def _bits_hex(s, little=False):
    """hex of bitarray(s, endian).tobytes() for a whole number of octets"""
    return "".join(f"{int(s[i : i + 8][::-1] if little else s[i : i + 8], 2):02x}" for i in range(0, len(s), 8))


def arg_forms(e):
    """[(form name, encoded argument)] - all forms of one encoded buffer argument (the form it has included)"""
    t = e[0]
    out = []
    if t in ("x", "xa", "mv", "mva"):
        h = e[1]
        bits = hex2bits(h)
        octs = list(bytes.fromhex(h))
        out = [("bytes", X(h)), ("bytearray", XA(h)), ("memoryview-readonly", ["mv", h]), ("memoryview-writable", ["mva", h]), ("bytes-subclass", ["bsub", h]),
               # bitarrays whose buffer holds exactly these octets
               ("bitarray-big-whole-octets", B(bits)), ("bitarray-little-whole-octets", BL(_octet_mirror(bits))),
               ("frozenbitarray-big", ["fb", bits]), ("frozenbitarray-little", ["fbl", _octet_mirror(bits)]),
               ("list-of-ints", ["l", [I(x) for x in octs]]), ("tuple-of-ints", ["t", [I(x) for x in octs]]),
               ("numpy-uint8", ["npd", "uint8", octs]), ("numpy-frombuffer-readonly", ["npfb", h]), ("numpy-frombuffer-writable", ["npfa", h]),
               ("array-B", ["arr", "B", octs])]
        if len(bits) >= 8:
            # not a whole number of octets (pad bits of the buffer zeroed by the caller): another value, still an accepted form
            out += [("bitarray-big-partial-octet", ["bz", bits[:-3]]), ("bitarray-little-partial-octet", ["blz", _octet_mirror(bits)[:-3]])]
    elif t in ("b", "bl"):
        sbits = e[1]
        vals = [int(c) for c in sbits]
        out = [("bitarray-big", B(sbits)), ("bitarray-little", BL(sbits)),
               ("frozenbitarray-big", ["fb", sbits]), ("frozenbitarray-little", ["fbl", sbits]),
               ("list-of-ints", ["l", [I(x) for x in vals]]), ("list-of-bools", ["lb", vals]), ("tuple-of-ints", ["t", [I(x) for x in vals]]),
               ("numpy-int64", ["np", vals]), ("numpy-bool", ["npd", "bool", vals]), ("numpy-uint8", ["npd", "uint8", vals]), ("numpy-int8", ["npd", "int8", vals]),
               ("numpy-float64", ["npd", "float64", vals]), ("numpy-readonly", ["npro", "int64", vals]), ("numpy-non-contiguous", ["npv", "int64", vals]),
               ("text-01", S(sbits))]
        if len(sbits) % 8 == 0:
            hx = _bits_hex(sbits, t == "bl")
            out += [("bitarray-other-order-same-octets", ["bl" if t == "b" else "b", _octet_mirror(sbits)]),
                    ("bytes", X(hx)), ("bytearray", XA(hx)), ("memoryview-readonly", ["mv", hx]), ("memoryview-writable", ["mva", hx])]
    elif t == "np":
        vals = e[1]
        sbits = "".join("1" if x else "0" for x in vals)
        hx = bytes(x & 0xFF for x in vals).hex()
        out = [("numpy-int64", ["np", vals]), ("numpy-bool", ["npd", "bool", vals]), ("numpy-uint8", ["npd", "uint8", vals]), ("numpy-int8", ["npd", "int8", vals]),
               ("numpy-float64", ["npd", "float64", vals]), ("numpy-readonly", ["npro", "int64", vals]), ("numpy-non-contiguous", ["npv", "int64", vals]),
               ("numpy-frombuffer-readonly", ["npfb", hx]), ("numpy-frombuffer-writable", ["npfa", hx]),
               ("list-of-ints", ["l", [I(x) for x in vals]]), ("list-of-bools", ["lb", vals]), ("tuple-of-ints", ["t", [I(x) for x in vals]]),
               ("bitarray-big", B(sbits)), ("bitarray-little", BL(sbits)), ("frozenbitarray-big", ["fb", sbits]), ("array-B", ["arr", "B", vals]),
               ("bytes", X(hx)), ("bytearray", XA(hx))]
    return out


def spec_forms(spec):
    """[(form name, argument index, call)]: ONE buffer argument of the call handed over in another form"""
    out = []
    for j, e in enumerate(spec["a"]):
        for form, e2 in arg_forms(e):
            out.append((form, j, {"ep": spec["ep"], "a": spec["a"][:j] + [e2] + spec["a"][j + 1 :]}))
    return out


def keep_arg(spec, j, slot):
    """the call with argument j being an object the caller keeps between calls and never rewrites"""
    return {"ep": spec["ep"], "a": spec["a"][:j] + [["k", slot, spec["a"][j]]] + spec["a"][j + 1 :]}


def unkept(spec):
    """the call as made the first time in a fresh interpreter: a kept object is, then, the plain argument; the object an earlier
    call returned (["r", i, path, value]) is a new object of that value"""
    if not any(e and e[0] in ("k", "r") for e in spec["a"]):
        return spec
    return {"ep": spec["ep"], "a": [e[2] if e and e[0] == "k" else (e[3] if e and e[0] == "r" else e) for e in spec["a"]]}


def subhist(calls, idxs):
    """the calls at the (ascending) positions idxs as a history of their own: references to the result of an earlier call
    (["r", position, …]) are renumbered; None if a referenced call is not among them"""
    pos = {p: n for n, p in enumerate(idxs)}
    out = []
    for p in idxs:
        s1 = calls[p]
        if any(e and e[0] == "r" for e in s1["a"]):
            a2 = []
            for e in s1["a"]:
                if e and e[0] == "r":
                    if e[1] not in pos:
                        return None
                    e = ["r", pos[e[1]]] + list(e[2:])
                a2.append(e)
            s1 = dict(s1, a=a2)
        out.append(s1)
    return out


def enc_of_canon(c):
    """the encoded argument for a returned buffer, from its (complete) canonical form; None for anything else"""
    if "…" in c or not c.endswith("'"):
        return None
    for pre, tag in (("bb'", "b"), ("bl'", "bl"), ("xa'", "xa"), ("x'", "x")):
        if c.startswith(pre):
            return [tag, c[len(pre) : -1]]
    return None


def scribbled(enc):
    """the value of a returned buffer after the caller overwrote it (c19_worker.scribble)"""
    if enc[0] in ("b", "bl"):
        return [enc[0], "".join("1" if ch == "0" else "0" for ch in enc[1])]
    if enc[0] == "xa":
        return ["xa", bytes(x ^ 0xFF for x in bytes.fromhex(enc[1])).hex()]
    return enc


def bad_calls(spec, r):
    """calls of the same entry point that are expected to RAISE (wrong length, wrong type, nothing): a failing call must leave
    nothing behind that changes the next valid one - also when it is the first call the process ever makes to that class"""
    out = []
    a = spec["a"]
    for j, e in enumerate(a):
        alts = []
        if e[0] in ("b", "bl"):
            alts = [[e[0], e[1][:-1]], [e[0], e[1] + "1"], [e[0], ""], N, I(5), S("x")]
        elif e[0] in ("x", "xa"):
            alts = [[e[0], e[1][:-2]], [e[0], e[1] + "00"], [e[0], ""], N, I(5), S(e[1])]
        elif e[0] == "np":
            alts = [["np", e[1][:-1]], ["np", e[1] + [1]], ["np", [2] * len(e[1])], N]
        elif e[0] == "i":
            alts = [N, S("1")]  # (no other VALUES: a negative count or size may loop or allocate, that is not an error path)
        elif e[0] in ("d", "l"):
            alts = [N, I(0)]
        for x in alts:
            if x != e:
                out.append({"ep": spec["ep"], "a": a[:j] + [x] + a[j + 1 :]})
    r.shuffle(out)
    return out


# entry points that may hand back (or hand back a view of) a mutable argument on the UNCHANGED tree - reviewed, by reading the code:
ALIAS_OK = {
    # HammingCommon.correct_numpy_array returns its argument untouched when the word is not repairable
    "h743.correct_numpy_array", "h1393.correct_numpy_array", "h15113.correct_numpy_array", "h16114.correct_numpy_array", "h17123.correct_numpy_array",
    # repair_if_necessary(deinterleaved=True) is the documented in-place repair; (deinterleaved=False) works on the copy
    # made by deinterleave_all_bits
    "bptc.repair_deinterleaved",
}
# (PDU / burst objects that keep the buffer they were built from - `self.full_bits = full_bits` - are not concerned: the test looks
# at returned BUFFERS, top level or directly inside a returned list / tuple; every as_bits() / as_bytes() of the catalogue builds a
# new one.  Surveyed over 44 000 calls in all forms: nothing but correct_numpy_array hands its argument back.)


def alias_reviewed(ep):
    return ep in ALIAS_OK


def other_content(e, r, others_j):
    """another content for a buffer the caller re-uses: the same kind of value from another pool call, or a few flipped bits"""
    t = e[0]
    same = [o for o in others_j if o[0] == t and o != e]
    if same and r.random() < 0.5:
        return r.choice(same)
    if t in ("b", "bl"):
        return [t, flip_bits(r, e[1])] if e[1] else (same[0] if same else None)
    if t == "xa":
        return [t, flip_hex(r, e[1])] if e[1] else (same[0] if same else None)
    if t == "np":
        if not e[1]:
            return same[0] if same else None
        k = r.randrange(len(e[1]))
        return [t, [1 - x if i == k else x for i, x in enumerate(e[1])]]
    if t == "d":
        return same[0] if same else None
    return None


CFG_EPS = {"bitcrc.bitwise", "bitcrc.table", "bitcrc.persistent", "bitcrc.verify", "m.crc.new", "m.crc.kept"}


BITARRAY_TAGS = ("b", "bl", "fb", "fbl", "bz", "blz")
# parameters that take anything with the buffer protocol (`bytes` in the signature) and hand it as a whole to bitarray.frombytes:
# a bit array of whole octets is a well-defined value there; one that does not fill its last octet shows its pad bits, whose
# content is unspecified (malloc'ed memory, not library state)
BUFFER_ARGS = {"util.bytes_to_bits": (0,), "util.bytes_bits_bytes": (0,), "m.crc9parts": (0,), "crc9.from_parts": (0,), "crc9.check": (0,)}


def form_comparable(ep, j, orig, enc):
    """may the RESULT of the call with argument j handed over as `enc` (originally `orig`) be compared between executions?
    A bit array where octets are expected turns every slice the callee takes into a bit array that does not fill its last
    octet; what the buffer protocol / int.from_bytes / bytes() read from it then contains unspecified pad bits.  Such calls are
    executed for the argument snapshot and the identity test only."""
    if enc[0] not in BITARRAY_TAGS or orig[0] not in ("x", "xa", "mv", "mva"):
        return True
    return j in BUFFER_ARGS.get(ep, ()) and enc[0] in ("b", "bl", "fb", "fbl") and len(enc[1]) % 8 == 0


def in_domain(spec):
    """reverse_input_bytes on a partial octet reads bitarray's pad bits (unspecified, see crc_cfg_data): whole octets only;
    likewise a bit array handed to a parameter that is read through the buffer protocol (BUFFER_ARGS)"""
    for j in BUFFER_ARGS.get(spec["ep"], ()):
        if j < len(spec["a"]):
            e = spec["a"][j]
            e = e[2] if e[0] in ("h", "k") else e
            if e[0] in ("b", "bl", "fb", "fbl") and len(e[1]) % 8:
                return False
    if spec["ep"] in CFG_EPS:
        c = spec["a"][0]
        if c[0] == "l" and len(c[1]) == 6 and c[1][4][1]:
            for e in spec["a"][1:]:
                e = e[2] if e[0] in ("h", "k") else e
                if e[0] in ("b", "bl", "fb", "fbl") and len(e[1]) % 8:
                    return False
    return True


def spec_variants(spec, r, others):
    """[(class, call A, call B)]: B differs from A in ONE argument, by a variant of it (arg_variants), by the value another
    pool call has there (a key that drops that argument: mask, flag, second operand), or A and B hand over the very same
    buffer object whose content the caller replaced in between (a key by identity / a remembered reference)"""
    nm, a = spec["ep"], spec["a"]
    out = []
    for j, e in enumerate(a):
        for cls, e2 in arg_variants(e, r):
            out.append((cls, spec, {"ep": nm, "a": a[:j] + [e2] + a[j + 1 :]}))
    if len(a) >= 2:
        for j, e in enumerate(a):
            cand = [o["a"][j] for o in others if len(o["a"]) == len(a) and o["a"][j] != e]
            if cand:
                out.append(("other-argument", spec, {"ep": nm, "a": a[:j] + [r.choice(cand)] + a[j + 1 :]}))
    for j, e in enumerate(a):
        if e[0] in HOLDABLE:
            e2 = other_content(e, r, [o["a"][j] for o in others if len(o["a"]) == len(a)])
            if e2 is not None and e2 != e:
                out.append(("held-buffer", {"ep": nm, "a": a[:j] + [["h", j, e]] + a[j + 1 :]}, {"ep": nm, "a": a[:j] + [["h", j, e2]] + a[j + 1 :]}))
    return out


# ------------------------------------------------------------------------------------------------
# the catalogue: name -> (family, state tags it shares, generator of encoded arguments)
def catalogue():
    C = {}

    def ep(name, family, tags, gen):
        C[name] = {"family": family, "tags": set(tags), "gen": gen}

    # ---- CRC
    ep("crc8.calculate", "crc", ["crc"], lambda r: [crc_data(r)])
    ep("crc8.check", "crc", ["crc"], lambda r: [crc_data(r), I(r.choice([0, 255, r.randrange(256), 256]))])
    ep("crc9.calculate", "crc", ["crc"], lambda r: [crc_data(r), I(r.randrange(12))])
    ep("crc9.from_parts", "crc", ["crc"], lambda r: [X(rhex(r, r.choice([10, 16, 12, 0]))), I(r.randrange(128)), I(r.randrange(12)), r.choice([N, I(0), I(r.randrange(2**32)), X(rhex(r, 4)), X(rhex(r, 3))])])
    ep("crc9.check", "crc", ["crc"], lambda r: [X(rhex(r, r.choice([10, 16]))), I(r.randrange(128)), I(r.choice([0, 511, r.randrange(512), 512])), I(r.randrange(12)), r.choice([N, X(rhex(r, 4))])])
    ep("crc16.calculate", "crc", ["crc"], lambda r: [X(rhex(r, r.choice([0, 1, 10, 12, 33]))), I(r.randrange(12))])
    ep("crc16.check", "crc", ["crc"], lambda r: [X(rhex(r, 10)), I(r.choice([0, 0xFFFF, r.randrange(65536), 65536])), I(r.randrange(12))])
    ep("crc32.calculate", "crc", ["crc"], lambda r: [r.choice([X, XA])(rhex(r, r.choice([0, 1, 2, 5, 12, 13, 40])))])
    ep("crc32.check", "crc", ["crc"], lambda r: [X(rhex(r, r.choice([4, 12, 13]))), I(r.choice([0, r.randrange(2**32), 2**32]))])
    ep("bitcrc.bitwise", "crc", ["crc"], lambda r: list(crc_cfg_data(r)))
    ep("bitcrc.table", "crc", ["crc"], lambda r: list(crc_cfg_data(r)))
    ep("bitcrc.persistent", "crc", ["crc"], lambda r: [(cd := crc_cfg_data(r))[0], I(r.randrange(2)), cd[1]])
    ep("bitcrc.verify", "crc", ["crc"], lambda r: [(cd := crc_cfg_data(r, le_ok=False))[0], I(r.randrange(2)), cd[1], I(r.randrange(70000))])
    # ---- block codes
    for nm, n, k in (("h743", 7, 4), ("h1393", 13, 9), ("h15113", 15, 11), ("h16114", 16, 11), ("h17123", 17, 12)):
        ep(f"{nm}.generate", "fec", ["matrices"], (lambda k: lambda r: [B(bits_of_len(r, k))])(k))
        ep(f"{nm}.check", "fec", ["matrices"], (lambda n: lambda r: [B(bits_of_len(r, n))])(n))
        ep(f"{nm}.check_and_correct", "fec", ["matrices"], (lambda n: lambda r: [B(bits_of_len(r, n))])(n))
        ep(f"{nm}.correct_numpy_array", "fec", ["matrices"], (lambda n: lambda r: [["np", [int(c) for c in rbits(r, n)]]])(n))
    ep("golay.generate", "fec", ["matrices"], lambda r: [B(bits_of_len(r, 8))])
    ep("golay.check", "fec", ["matrices"], lambda r: [B(bits_of_len(r, 20, "slot20"))])
    ep("qr.generate", "fec", ["matrices"], lambda r: [B(bits_of_len(r, 7))])
    ep("qr.check", "fec", ["matrices"], lambda r: [B(bits_of_len(r, 16, "emb16"))])
    ep("bptc.encode", "fec", ["matrices", "bptc"], lambda r: [B(bits_of_len(r, 96, "info96"))])
    ep("bptc.deinterleave_data_bits", "fec", ["matrices", "bptc"], lambda r: [B(onair(r)), I(r.randrange(2))])
    ep("bptc.deinterleave_all_bits", "fec", ["bptc"], lambda r: [B(onair(r))])
    ep("bptc.repair", "fec", ["matrices", "bptc"], lambda r: [B(onair(r))])
    ep("bptc.repair_deinterleaved", "fec", ["matrices", "bptc"], lambda r: [B(onair(r))])
    ep("vbptc12873.encode", "fec", ["matrices"], lambda r: [B(bits_of_len(r, r.choice([72, 77, 128])))])
    ep("vbptc12873.deinterleave_data_bits", "fec", ["matrices"], lambda r: [B(bits_of_len(r, 128)), I(r.randrange(2))])
    ep("vbptc12873.deinterleave_all_bits", "fec", [], lambda r: [B(bits_of_len(r, 128))])
    ep("vbptc12873.deinterleave_cs5_bits", "fec", [], lambda r: [B(bits_of_len(r, 128))])
    ep("vbptc3211.encode", "fec", ["matrices"], lambda r: [B(bits_of_len(r, r.choice([11, 32]))), I(r.randrange(2))])
    ep("vbptc3211.deinterleave_data_bits", "fec", ["matrices"], lambda r: [B(bits_of_len(r, 32))])
    ep("vbptc3211.deinterleave_all_bits", "fec", [], lambda r: [B(bits_of_len(r, 32))])
    ep("vbptc6828.encode", "fec", ["matrices"], lambda r: [B(bits_of_len(r, r.choice([28, 36, 68])))])
    ep("vbptc6828.deinterleave_data_bits", "fec", ["matrices"], lambda r: [B(bits_of_len(r, 68)), I(r.randrange(2))])
    ep("vbptc6828.deinterleave_all_bits", "fec", [], lambda r: [B(bits_of_len(r, 68))])
    ep("vbptc6828.deinterleave_crc8_bits", "fec", [], lambda r: [B(bits_of_len(r, 68))])
    ep("trellis.encode", "fec", ["trellis"], lambda r: [B(bits_of_len(r, 144, "info144")) if r.random() < 0.6 else X(from_corpus(r, "info144", 18))])
    ep("trellis.decode", "fec", ["trellis"], lambda r: [B(trellis_onair(r)), I(r.randrange(2))])
    ep("rs.generate", "fec", ["rs"], lambda r: [X(rhex(r, r.choice([9, 9, 9, 8]))), X(r.choice(["000000", "969696", "999999", rhex(r, 3)]))])
    ep("rs.check", "fec", ["rs"], lambda r: [X(from_corpus(r, "flc96", 12)), X(r.choice(["000000", "969696", "999999"]))])
    ep("fivebit.calculate", "fec", [], lambda r: [X(rhex(r, r.choice([9, 9, 0, 3, 10])))])
    ep("fivebit.verify", "fec", [], lambda r: [X(rhex(r, 9)), I(r.randrange(32))])
    # ---- PDUs
    keys = {"csbk": "csbk96", "dataheader": "dh96", "flc": "flc96", "pi": "pi96", "rate12": "r12_96"}
    for nm, n in (("csbk", 96), ("dataheader", 96), ("flc", 96), ("slc", 36), ("pi", 96), ("rate12", 96), ("rate34", 144), ("rate1", 192),
                  ("slottype", 20), ("emb", 16), ("udp", 80), ("serviceoptions", 8)):
        key = keys.get(nm) or {144: "info144", 192: "info192", 20: "slot20", 16: "emb16"}.get(n) or ("info96" if n == 96 else None)
        tags = ["crc"] if nm in ("csbk", "dataheader", "slc", "rate12", "rate34", "rate1") else (["rs", "fivebit"] if nm == "flc" else (["matrices"] if nm in ("slottype", "emb") else []))
        g = (lambda n, key: lambda r: [B(bits_of_len(r, n, key))])(n, key)
        ep(f"{nm}.from_bits", "pdu", tags, g)
        ep(f"{nm}.as_bits", "pdu", tags, g)
    for nm, n in (("csbk", 12), ("dataheader", 12), ("flc", 12), ("udp", 10)):
        g = (lambda n, key: lambda r: [X(from_corpus(r, key, n))])(n, keys.get(nm, "info96"))
        ep(f"{nm}.from_bytes", "pdu", ["crc"], g)
        ep(f"{nm}.as_bytes", "pdu", ["crc"], g)
    for nm, n in (("csbk", 96), ("dataheader", 96), ("flc", 96), ("slc", 36), ("pi", 96), ("rate12", 96), ("rate34", 144), ("rate1", 192),
                  ("slottype", 20), ("emb", 16), ("udp", 80)):
        key = keys.get(nm) or {144: "info144", 192: "info192", 20: "slot20", 16: "emb16"}.get(n) or ("info96" if n == 96 else None)
        g = (lambda n, key: lambda r: [B(bits_of_len(r, n, key, mutate=0.1))])(n, key)
        ep(f"{nm}.as_bits_twice", "pdu", ["crc"], g)
        ep(f"{nm}.repr_twice", "pdu", ["crc"], g)
    for nm, n in (("rate12", 96), ("rate34", 144), ("rate1", 192)):
        ep(f"{nm}.typed", "pdu", ["crc"], (lambda n: lambda r: [B(bits_of_len(r, n, {96: "r12_96", 144: "info144", 192: "info192"}[n])), I(r.randrange(5))])(n))
    ep("flc.repr", "pdu", ["rs"], lambda r: [B(bits_of_len(r, 96, "flc96"))])
    ep("csbk.repr", "pdu", ["crc"], lambda r: [B(bits_of_len(r, 96, "csbk96"))])
    ep("dataheader.repr", "pdu", ["crc"], lambda r: [B(bits_of_len(r, 96, "dh96"))])
    ep("csbk.default_params", "defaults", ["crc", "defaults"], lambda r: [I(r.randrange(2)), I(r.randrange(2**24))])
    ep("dataheader.default_padding", "defaults", ["crc", "defaults"], lambda r: [I(r.randrange(2**24)), I(r.randrange(2**24))])
    ep("serviceoptions.default", "defaults", ["defaults"], lambda r: [I(r.randrange(4))])
    # ---- burst
    ep("burst.from_bytes", "burst", ["crc", "matrices", "trellis", "bptc", "rs"], lambda r: [X(from_corpus(r, "burst33", 33)), I(r.randrange(3))])
    ep("burst.as_bytes", "burst", ["crc", "matrices", "trellis", "bptc", "rs"], lambda r: [X(from_corpus(r, "burst33", 33)), I(r.randrange(3))])
    ep("burst.from_bits", "burst", ["crc", "matrices", "trellis", "bptc", "rs"], lambda r: [B(hex2bits(from_corpus(r, "burst33", 33))), I(r.randrange(3))])
    ep("burst.repr", "burst", ["crc", "matrices", "trellis", "bptc", "rs"], lambda r: [X(from_corpus(r, "burst33", 33, mutate=0.1)), I(r.randrange(3))])
    ep("burst.default", "defaults", ["defaults"], lambda r: [])
    ep("burst.default_typed", "defaults", ["defaults", "matrices"], lambda r: [I(r.randrange(3))])
    ep("burst.from_hytera_ipsc", "burst", ["crc", "matrices", "trellis", "bptc", "rs"], lambda r: [X(from_corpus(r, "ipsc", 72))])
    ep("burst.deinterleave", "burst", ["matrices", "trellis", "bptc"], lambda r: [B(onair(r)), I(r.randrange(16))])
    ep("ipsc.from_ipsc_bytes", "hytera", [], lambda r: [X(from_corpus(r, "ipsc", 72))])
    ep("ipsc.as_ipsc_bytes", "hytera", [], lambda r: [X(from_corpus(r, "ipsc", 72))])
    # ---- Hytera
    svc = {"hdap": None, "rcp": ("02", "82"), "lp": ("08", "88"), "tmp": ("09", "89"), "rrs": ("11", "91")}
    for nm in ("hdap", "rcp", "lp", "tmp", "rrs"):
        hd = (lambda pre: lambda r: [X(hdap_sample(r, pre))])(svc[nm])
        ep(f"{nm}.from_bytes", "hytera", ["defaults"], hd)
        ep(f"{nm}.as_bytes", "hytera", ["defaults"], hd)
    ep("hdap.as_bytes_twice", "hytera", ["defaults"], lambda r: [X(hdap_sample(r, None))])
    ep("hrnp.as_bytes_twice", "hytera", ["defaults"], lambda r: [X(from_corpus(r, "hrnp", mutate=0.1))])
    ep("hstrp.as_bytes_twice", "hytera", ["defaults"], lambda r: [X(from_corpus(r, "hstrp", mutate=0.1))])
    ep("gpsdata.as_bytes_twice", "hytera", [], lambda r: [X(gps40(r))])
    ep("burst.as_bytes_twice", "burst", ["crc", "matrices", "trellis", "bptc", "rs"], lambda r: [X(from_corpus(r, "burst33", 33, mutate=0.1)), I(r.randrange(3))])
    ep("hrnp.from_bytes", "hytera", ["defaults"], lambda r: [X(from_corpus(r, "hrnp"))])
    ep("hrnp.as_bytes", "hytera", ["defaults"], lambda r: [X(from_corpus(r, "hrnp"))])
    ep("hrnp.repr", "hytera", ["defaults"], lambda r: [X(from_corpus(r, "hrnp", mutate=0.1))])
    ep("hstrp.from_bytes", "hytera", ["defaults"], lambda r: [X(from_corpus(r, "hstrp"))])
    ep("hstrp.as_bytes", "hytera", ["defaults"], lambda r: [X(from_corpus(r, "hstrp"))])
    ep("hstrp.repr", "hytera", ["defaults"], lambda r: [X(from_corpus(r, "hstrp", mutate=0.1))])
    ep("hstrp_type.from_bytes", "hytera", [], lambda r: [X(rhex(r, r.choice([1, 1, 0, 2])))])
    ep("hstrp_type.as_bytes", "hytera", [], lambda r: [X(rhex(r, 1))])
    ep("hstrp_options.from_bytes", "hytera", [], lambda r: [X(r.choice(["83040001869f040102", "040101", rhex(r, 9), rhex(r, 3)]))])
    ep("hstrp_options.as_bytes", "hytera", [], lambda r: [X(r.choice(["83040001869f040102", "040101", rhex(r, 9)]))])
    ep("gpsdata.from_bytes", "hytera", [], lambda r: [X(gps40(r))])
    ep("gpsdata.as_bytes", "hytera", [], lambda r: [X(gps40(r))])
    ep("radioip.from_bytes", "hytera", [], lambda r: [X(rhex(r, r.choice([4, 4, 3])))])
    ep("radioip.as_bytes", "hytera", [], lambda r: [X(rhex(r, 4))])
    ep("rcp.default_settings", "defaults", ["defaults"], lambda r: [I(r.randrange(2))])
    ep("rcp.default_repr", "defaults", ["defaults"], lambda r: [])
    ep("lp.default_gps", "defaults", ["defaults"], lambda r: [I(r.randrange(2**32)), I(r.randrange(2**24))])
    ep("lp.default_request", "defaults", ["defaults"], lambda r: [I(r.randrange(2**32)), I(r.randrange(2**24))])
    ep("hrnp.default", "defaults", ["defaults"], lambda r: [I(r.randrange(65536))])
    ep("hrnp.wrap_default_rcp", "defaults", ["defaults"], lambda r: [I(r.randrange(65536))])
    # ---- Motorola
    mb = lambda r: [X(from_corpus(r, "mbxml"))]  # noqa
    ep("mbxml.from_bytes", "motorola", ["lrrp"], lambda r: [X(from_corpus(r, "mbxml")), I(1 if r.random() < 0.25 else 0)])
    ep("mbxml.as_bytes", "motorola", ["lrrp"], mb)
    ep("mbxml.as_xml", "motorola", ["lrrp"], lambda r: [X(from_corpus(r, "mbxml", mutate=0.15))])
    ep("mbxml.repr", "motorola", ["lrrp"], lambda r: [X(from_corpus(r, "mbxml", mutate=0.15))])
    ep("mbxml.read_uintvar", "motorola", [], lambda r: [X(rhex(r, r.choice([1, 2, 5, 6]))), I(r.randrange(2))])
    ep("mbxml.write_uintvar", "motorola", [], lambda r: [I(r.choice([0, 1, 127, 128, 16383, 16384, r.randrange(2**32), 2**32]))])
    ep("mbxml.read_sintvar", "motorola", [], lambda r: [X(rhex(r, r.choice([1, 2, 5]))), I(0)])
    ep("mbxml.write_sintvar", "motorola", [], lambda r: [I(r.choice([0, 1, -1, 63, 64, -64, r.randrange(-2**31, 2**31)]))])
    ep("mbxml.read_ufloatvar", "motorola", [], lambda r: [X(rhex(r, r.choice([2, 3, 6]))), I(0)])
    ep("mbxml.write_infotime", "motorola", [], lambda r: [r.choice([I(20030630073000), S("20240229235959"), S("2003063007300"), I(19991231235959)])])
    ep("lrrp.get_token", "motorola", ["lrrp"], lrrp_token_args)
    ep("lrrp.get_token_twice", "motorola", ["lrrp"], lrrp_token_args)
    ep("lrrp.get_attribute", "motorola", ["lrrp"], lambda r: [S(k) if isinstance(k := r.choice(LRRP_ATTRS), str) else I(k), r.choice([N, I(0), I(0x49), I(5)])])
    ep("lrrp.build_constants_table", "motorola", ["lrrp"], lambda r: [X(from_corpus(r, "mbxml", mutate=0.05))])
    tm = lambda r: [X(flip_hex(r, h) if r.random() < 0.3 else h) if (h := r.choice(TMS_SAMPLES + CORPUS.get("tms", []))) else X("")]  # noqa
    ep("mbxml.as_bytes_twice", "motorola", ["lrrp"], lambda r: [X(from_corpus(r, "mbxml", mutate=0.1))])
    ep("tms.from_bytes", "motorola", [], tm)
    ep("tms.as_bytes", "motorola", [], tm)
    ep("tms.as_bytes_twice", "motorola", [], tm)
    ar = lambda r: [X(flip_hex(r, h) if r.random() < 0.3 else h) if (h := r.choice(ARS_SAMPLES + CORPUS.get("ars", []))) else X("")]  # noqa
    ep("ars.from_bytes", "motorola", [], ar)
    ep("ars.as_bytes", "motorola", [], ar)
    ep("ars.repr", "motorola", [], ar)
    ep("ars.as_bytes_twice", "motorola", [], ar)
    # ---- utils
    ep("util.byteswap_bytes", "util", [], lambda r: [r.choice([X, XA])(rhex(r, r.choice([0, 1, 2, 3, 4, 33, 34])))])
    ep("util.byteswap_bytearray", "util", [], lambda r: [XA(rhex(r, r.choice([0, 1, 2, 3, 4, 33, 34])))])
    ep("util.bytes_to_bits", "util", [], lambda r: [r.choice([X, X, XA, lambda h: B(hex2bits(h)), lambda h: BL(hex2bits(h))])(rhex(r, r.choice([0, 1, 5, 10, 12]))), I(r.randrange(2))])  # whole octets
    ep("util.bits_to_bytes", "util", [], lambda r: [r.choice([B, B, BL])(rbits(r, r.choice([0, 1, 8, 13, 80, 264])))])
    # conversions chained the way the codecs chain them: the result of one is the argument of the next
    ep("util.bytes_bits_bytes", "util", [], lambda r: [r.choice([X, XA, lambda h: B(hex2bits(h))])(rhex(r, r.choice([0, 1, 5, 12]))), I(r.randrange(2))])
    ep("util.bits_numpy_bits", "util", [], lambda r: [r.choice([B, BL])(rbits(r, r.choice([0, 5, 15, 16])))])
    ep("util.numpy_array_to_bitarray", "util", [], lambda r: [["np", [int(c) for c in rbits(r, r.choice([0, 5, 15]))]]])
    ep("util.numpy_array_to_int", "util", [], lambda r: [["np", [int(c) for c in rbits(r, r.choice([1, 5, 15]))]]])
    ep("util.bitarray_to_numpy_array", "util", [], lambda r: [B(rbits(r, r.choice([0, 5, 15])))])
    ep("util.half_byte_to_bytes", "util", [], lambda r: [I(r.randrange(16)), I(r.choice([1, 2, 3]))])
    from props.c19_model import add_model_entry_points

    add_model_entry_points(ep, {"B": B, "BL": BL, "X": X, "XA": XA, "I": I, "S": S, "rbits": rbits, "rhex": rhex, "flip_hex": flip_hex})
    return C


def add_auto_entry_points(C, inventory):
    """the entry points a worker found by introspection (c19_worker.auto_entries): every class of the etsi layer2 / layer3 element
    packages, every Enum of the codec packages, every other class with from_* / as_* that the catalogue above does not name.
    member entry points: the argument is the member index (the pool holds EVERY member); static ones: a buffer of the width the
    members serialise to (learned by the worker), sometimes another length"""
    added = {}
    for m in inventory.get("entries", []):
        nm = m["ep"]
        if nm in C or not m.get("callable", True):
            continue
        tags = ["elements"] if (m.get("elements") or m.get("enum")) else []
        if m["kind"] == "member":
            gen = (lambda n: lambda r: [I(r.randrange(n))])(m["n"])
        else:
            kind, ws = m.get("arg", "bits"), m.get("widths") or []

            def gen(r, kind=kind, ws=ws, n=m.get("n") or 0):
                if kind == "int":
                    return [I(r.choice([0, 1, 2, max(0, n - 1), n, 127, 255, 65535, r.randrange(1 << 16), r.randrange(1 << 32)]))]
                base = ws or ([1, 2, 4, 8, 16, 24, 32, 48, 64, 72, 96] if kind == "bits" else [0, 1, 2, 4, 6, 8, 12, 24, 38, 72])
                w = r.choice(base)
                if r.random() < 0.25:
                    w = max(0, r.choice([0, w - 1, w + 1, w + 8, 2 * w]))
                return [B(rbits(r, w))] if kind == "bits" else [X(rhex(r, w))]

        C[nm] = {"family": "auto", "tags": set(tags), "gen": gen, "auto": m}
        added[nm] = m
        if m["kind"] == "member":
            m["all"] = [[I(i)] for i in range(m["n"])]
    # the element Enums' as_bits as an entry point of the Lean model (Model/Purity `Call.elementBits`, table Gen.PurityInit.elementBits)
    every = [[S(nm[len("auto."):-len(".as_bits")]), I(i)] for nm, m in sorted(added.items())
             if m["kind"] == "member" and m.get("elements") and m["method"] == "as_bits" for i in range(m["n"])]
    if every and "m.element" not in C:
        C["m.element"] = {"family": "model", "tags": {"elements"}, "gen": (lambda r: list(r.choice(every))), "auto": {"kind": "model", "all": every}}
        added["m.element"] = C["m.element"]["auto"]
    return added


def hdap_sample(r, prefixes):
    pool = [h for h in CORPUS.get("hdap", []) if prefixes is None or h[:2] in prefixes]
    # HDAP payloads carried inside the captured HRNP / HSTRP frames
    if pool and r.random() < 0.85:
        h = r.choice(pool)
        m = r.random()
        if m < 0.25:
            return flip_hex(r, h)
        if m < 0.32:
            return h[: 2 * r.randrange(len(h) // 2 + 1)]
        if m < 0.40 and prefixes is not None:
            # toggle the reliable flag (first octet | 0x80)
            return f"{int(h[:2], 16) ^ 0x80:02x}" + h[2:]
        return h
    return rhex(r, r.choice([0, 1, 7, 12, 30]))


def trellis_onair(r):
    pool = (CORPUS.get("bits") or {}).get("196", [])
    if pool and r.random() < 0.7:
        s = r.choice(pool)
        return flip_bits(r, s, r.choice([0, 0, 0, 0, 1, 2]))
    return onair(r)


def onair(r):
    return bits_of_len(r, 196, None) if r.random() < 0.4 else (flip_bits(r, s, r.choice([0, 1, 2, 3])) if (s := r.choice(CORPUS["onair196"])) else rbits(r, 196))


# calls that once failed (repaired defects): kept first in every run
def corpus_specs():
    tok = [S("result"), X("515355"), ["d", [[S("result-code"), I(5)]]], I(0)]
    return [
        # d571898: two identical get_token calls with attributes must answer identically
        ("get_token-attributes-twice", [{"ep": "lrrp.get_token", "a": tok}, {"ep": "lrrp.get_token", "a": tok}]),
        ("get_token-ret-info-twice", [{"ep": "lrrp.get_token", "a": [S("ret-info"), N, ["d", [[S("ret-info-accuracy"), I(5)]]], I(1)]}] * 2 + [{"ep": "lrrp.get_token", "a": tok}]),
        ("get_token_twice", [{"ep": "lrrp.get_token_twice", "a": tok}]),
        # a980052: reverse_input_bytes byte-reversed the caller's buffer, a second identical call answered differently
        ("crc-reverse-input", [{"ep": "bitcrc.persistent", "a": [["l", [I(x) for x in [32, 0x04C11DB7, 0xFFFFFFFF, 0xFFFFFFFF, 1, 1]]], I(1), B("1010101010001000010001000000000000000000")]}] * 2),
        ("crc-reverse-input-bitwise", [{"ep": "bitcrc.bitwise", "a": [["l", [I(x) for x in [16, 0x8005, 0, 0, 1, 1]]], B("0000000100100011")]}] * 2),
        # 2d27283: byteswap_bytearray swapped an even-length bytearray argument in place
        ("byteswap-bytearray-even", [{"ep": "util.byteswap_bytearray", "a": [XA("01020304")]}]),
        ("byteswap-bytearray-odd", [{"ep": "util.byteswap_bytearray", "a": [XA("010203")]}]),
    ]


# ------------------------------------------------------------------------------------------------
class Server:
    def __init__(self, ambient=0):
        env = dict(os.environ)
        env["C19_AMBIENT"] = str(ambient)
        env["OPENBLAS_NUM_THREADS"] = "1"
        env["OMP_NUM_THREADS"] = "1"
        env.pop("PYTHONHASHSEED", None)
        self.p = subprocess.Popen([PY, WORKER, "--server"], stdin=subprocess.PIPE, stdout=subprocess.PIPE, stderr=subprocess.DEVNULL, text=True, env=env, cwd=HERE)

    def ask(self, req):
        self.p.stdin.write(json.dumps(req) + "\n")
        self.p.stdin.flush()
        line = self.p.stdout.readline()
        if not line:
            raise Infra("C19 worker died")
        return json.loads(line)

    def close(self):
        try:
            self.p.stdin.write('{"op":"quit"}\n')
            self.p.stdin.flush()
            self.p.stdin.close()
            self.p.wait(timeout=10)
        except Exception:
            self.p.kill()


def parallel(jobs, nserv, ambient=0):
    """jobs: list of requests; answered by `nserv` fork servers; returns responses in order"""
    if not jobs:
        return []
    nserv = max(1, min(nserv, len(jobs)))
    out = [None] * len(jobs)
    idx = [0]
    lock = threading.Lock()
    errs = []

    def work():
        try:
            s = Server(ambient)
        except Exception as e:  # noqa
            errs.append(e)
            return
        try:
            while True:
                with lock:
                    i = idx[0]
                    idx[0] += 1
                if i >= len(jobs):
                    break
                out[i] = s.ask(jobs[i])
        except Exception as e:  # noqa
            errs.append(e)
        finally:
            s.close()

    ts = [threading.Thread(target=work) for _ in range(nserv)]
    for t in ts:
        t.start()
    for t in ts:
        t.join()
    if errs:
        raise Infra(f"C19 worker failure: {errs[0]}")
    return out


def fresh_one(specs, ambient=0, par=12):
    """every spec in a brand-new interpreter"""
    env = dict(os.environ)
    env["C19_AMBIENT"] = str(ambient)
    env["OPENBLAS_NUM_THREADS"] = "1"
    res = [None] * len(specs)
    running = []
    i = 0
    while i < len(specs) or running:
        while i < len(specs) and len(running) < par:
            p = subprocess.Popen([PY, WORKER, "--one", json.dumps(specs[i])], stdout=subprocess.PIPE, stderr=subprocess.DEVNULL, text=True, env=env, cwd=HERE)
            running.append((i, p))
            i += 1
        j, p = running.pop(0)
        o, _ = p.communicate(timeout=300)
        try:
            res[j] = json.loads(o.strip().splitlines()[-1])
        except Exception:
            res[j] = ["ERR worker no output", [], ""]
    return res


def diff_excerpt(a, b, width=110):
    """the region where two canonical strings start to differ"""
    i = 0
    n = min(len(a), len(b))
    while i < n and a[i] == b[i]:
        i += 1
    lo = max(0, i - 50)
    pre = "..." if lo else ""
    return (pre + a[lo : i + width] + ("..." if len(a) > i + width else ""), pre + b[lo : i + width] + ("..." if len(b) > i + width else ""))


def explain(history):
    """(result of the last call when made first, result after the history), unabridged, cut to where they differ"""
    rr = parallel([{"op": "first", "specs": [unkept(history[-1])], "full": True}, {"op": "seq", "calls": history, "probe": False, "full": True}], 2)
    try:
        return diff_excerpt(rr[0]["r"][0][0], rr[1]["r"][-1][0])
    except Exception:
        return None


def inventory_diff():
    """(items of the current AST scan that are not in the reviewed list of Props/C19.lean, reviewed items that are gone)"""
    import re

    from props.c19_model import scan_rows

    verif = os.path.dirname(os.path.dirname(HERE))
    rows = scan_rows()
    src = open(os.path.join(verif, "lean", "DmrVerif", "Props", "C19.lean"), encoding="utf-8").read()
    a = src.index("def reviewed :")
    block = src[a : src.index("]\n", a)]
    row = re.compile(r'^\s*\("((?:[^"\\]|\\.)*)", "((?:[^"\\]|\\.)*)", "((?:[^"\\]|\\.)*)", "((?:[^"\\]|\\.)*)"\),?\s*$', re.M)
    old = [tuple(x.replace('\\"', '"').replace("\\\\", "\\") for x in m.groups()) for m in row.finditer(block)]
    return [x for x in rows if x not in old], [x for x in old if x not in rows]


def source_fingerprint():
    """(path, size, mtime) of every source file of the package the workers import"""
    import importlib.util

    spec = importlib.util.find_spec("okdmr.dmrlib")
    root = list(spec.submodule_search_locations)[0]
    out = []
    for d, dirs, files in os.walk(root):
        dirs[:] = sorted(x for x in dirs if x != "__pycache__")
        for fn in sorted(files):
            if fn.endswith(".py"):
                st = os.stat(os.path.join(d, fn))
                out.append((os.path.join(d, fn), st.st_size, st.st_mtime_ns))
    return out


def key_of(spec):
    """identity of a call = entry point + arguments (what the caller does with the result afterwards, "m", is not part of it)"""
    return json.dumps({"ep": spec["ep"], "a": spec["a"]}, sort_keys=True)



# ------------------------------------------------------------------------------------------------
# construction aliasing (round 5): see c19_graph.py
def alias_key(e):
    return (e["cls"], e["via"], e["path"], e["with"], e["label"])


def label_reviewed(lab, labels):
    """is the library-held object `lab` (or the one it lies inside) one the reviewed list names?"""
    return lab in labels or any(lab.startswith(x + ".") or lab.startswith(x + "[") for x in labels) or any(lab.startswith(x) for x in RESULT_ROOTS)


def reviewed_aliases():
    return {alias_key(e): e.get("remark", "") for e in ALIASES if not str(e.get("remark", "")).startswith("REVIEW")}


def construction_results(thorough=False, ncpu=8, seed=0):
    """(listing, [result per target]) from the fork servers"""
    lst = parallel([{"op": "graph-list", "thorough": bool(thorough), "seed": seed}], 1)[0]
    if not isinstance(lst, dict) or "targets" not in lst:
        raise Infra(f"C19 worker could not list the classes of the library: {lst}")
    tg = lst["targets"]
    n = max(1, min(ncpu, len(tg)))
    chunks = [tg[i::n] for i in range(n)]
    rs = parallel([{"op": "graph", "targets": c} for c in chunks], n)
    out = [None] * len(tg)
    for i, rr in enumerate(rs):
        for j, x in enumerate(rr["r"]):
            out[i + j * n] = x
    return lst, list(zip(tg, out))


def construction_keys(res, f):
    """identities of one finding: (class, way it was built, attribute path, shared with what, which object)"""
    keys = []
    for sh in f["shared"]:
        keys.append((res["cls"], res["via"], f["path"], sh["with"], sh["label"] if sh["with"] != "instances" else "second-instance"))
    kinds = {sh["with"] for sh in f["shared"]}
    for e in f["effects"]:
        on = {"held": "instances", "fresh": "library", "library": "library", "argument": "argument"}[e["on"]]
        if on not in kinds and not (on == "library" and "instances" in kinds):
            # behaviour without identity (a view, a copy made too late): keyed by the effect
            keys.append((res["cls"], res["via"], f["path"], "effect:" + e["on"], ""))
    return keys


CONSTRUCT_KINDS = {"library": "constructed-object-shares-library-state", "instances": "constructed-objects-share-state",
                   "argument": "constructed-object-keeps-argument"}


def construction_story(res, f):
    """the concrete history, as the statements a caller would write"""
    ck = res["cls"].split(":")[1]
    steps = [f"a = {res['call']}", f"b = {res['call']}    # equal arguments, made separately"]
    if f.get("edit"):
        steps.append(f"a{f['path']}: {f['edit']}    # the caller edits ITS OWN object in place; a{f['path']} was {f['value']}")
    for sh in f["shared"]:
        if sh["with"] == "library":
            steps.append(f"# a{f['path']} IS the object the library holds as {sh['label']}")
        elif sh["with"] == "instances":
            steps.append(f"# a{f['path']} IS b{sh['label'].split(' of a second')[0]}: one {f['type']} object in two {ck} results")
        else:
            steps.append(f"# a{f['path']} IS the caller's argument object `{sh['label']}`")
    for e in f["effects"]:
        steps.append(f"# {e['text']}: {e['expected']}  ->  {e['actual']}")
    return steps


def construction_probe(ctx, fail, ncpu):
    """every class of the library built twice with equal arguments; every mutable node of the object graph compared by identity with
    library-held objects / the other instance / the arguments and edited in place (c19_graph.examine, in fork servers)"""
    lst, results = construction_results(ctx.thorough(), ncpu, ctx.seed)
    reviewed = reviewed_aliases()
    ctx.count("construct:classes", lst.get("classes", 0))
    ctx.count("construct:targets", len(results))
    ctx.count("construct:classes-built", len({t["cls"] for t, _ in results}))
    ctx.count("construct:factories", len({(t["cls"], t["via"]) for t, _ in results if t["via"] != "ctor"}))
    ctx.count("construct:classes-without-constructor(static-methods-only)", len(lst.get("static_only") or []))
    if lst.get("unbuildable"):
        ctx.count("construct:classes-not-buildable", len(lst["unbuildable"]))
        ctx.notes.append("classes the construction probe found no accepted arguments for: " + ", ".join(lst["unbuildable"][:12]))
    if lst.get("skipped_modules"):
        ctx.count("construct:modules-not-importable", len(lst["skipped_modules"]))
        ctx.notes.append("modules the construction probe could not import: " + ", ".join(lst["skipped_modules"][:8]))
    seen_fail = set()
    used = set()
    pending = []
    for t, res in results:
        if not isinstance(res, dict) or "child_error" in (res or {}) or "findings" not in (res or {}):
            ctx.count("construct:probe-failed")
            ctx.notes.append(f"construction probe of {t['cls']} ({t['variant']}) did not finish: {(res or {}).get('child_error', res)}")
            continue
        ctx.count(f"construct:variant:{t['variant'].split(':')[0]}")
        ctx.count("construct:mutable-nodes", res["nodes"])
        ctx.count("construct:nodes-edited-in-place", res["edited"])
        for n in res["notes"]:
            ctx.count("construct:note:" + n.split(":")[0])
        ctx.case(("construct", t["cls"], t["via"], t["variant"]), nontrivial=res["nodes"] > 0,
                 sample={"construct": res["call"], "variant": t["variant"], "mutable-nodes": res["nodes"], "edited": res["edited"]} if len(ctx.samples) < 3 and res["nodes"] else None)
        for f in res["findings"]:
            keys = construction_keys(res, f)
            new = [k for k in keys if k not in reviewed]
            used.update(k for k in keys if k in reviewed)
            for k in keys:
                ctx.count("construct:sharing:" + k[3].split(":")[0] + (":reviewed" if k in reviewed else ":NEW"))
            if new:
                pending.append((t, res, f, new))
    # the shortest story first: the class whose own attribute it is before the PDUs that contain such an object
    pending.sort(key=lambda x: (x[2]["path"].count(".") + x[2]["path"].count("["), len(x[0]["plan"]), x[0]["cls"], x[0]["variant"]))
    reported = 0
    for t, res, f, new in pending:
        k = new[0]
        if (k[0], k[1], k[2]) in seen_fail:
            continue  # the same attribute of the same class through another variant of the arguments
        seen_fail.add((k[0], k[1], k[2]))
        eff_on = {"held": "instances", "fresh": "library", "library": "library", "argument": "argument"}
        kind = CONSTRUCT_KINDS[eff_on[k[3][7:]] if k[3].startswith("effect:") else k[3]]
        if reported >= 8:
            ctx.count(f"fail:{kind}")
            continue
        reported += 1
        withs = sorted({x[3] for x in new})
        what = (f"{res['call']}: the {f['type']} at {f['path'] or 'the result'} of the object it returns is "
                + "; ".join(("the object the library holds as " + x[4]) if x[3] == "library" else ("the very object a second call with equal arguments returned there") if x[3] == "instances"
                            else ("the caller's argument object `" + x[4] + "`, kept as is") if x[3] == "argument" else ("tied to it (" + x[3] + ")") for x in new)
                + (f".  After the caller edits it in place ({f['edit']}): " + "; ".join(e["text"] for e in f["effects"]) if f["effects"] else ""))
        eff = next((e for e in f["effects"] if e["on"] in ("fresh", "held")), None) or (f["effects"][0] if f["effects"] else None)
        fail(kind, {"construct": t, "path": f["path"], "new_sharing": [list(x) for x in new], "history": None, "steps": construction_story(res, f)},
             what, expected=eff["expected"] if eff else "an object of its own", actual=eff["actual"] if eff else "shared (" + ", ".join(withs) + ")")
    gone = sorted(k for k in reviewed if k not in used)
    if gone:
        ctx.count("construct:reviewed-sharing-gone", len(gone))
        ctx.notes.append("reviewed sharing (c19.aliases.json) that this run did not see any more: " + "; ".join(f"{k[0].split(':')[1]}{k[2]} ({k[3]})" for k in gone[:8]))
    return lst, results


def construction_assumptions():
    """what the reviewed list lets pass, spelled out (nothing is excluded silently)"""
    rv = [e for e in ALIASES if not str(e.get("remark", "")).startswith("REVIEW")]
    if not rv:
        return []
    name = lambda e: f"{e['cls'].split(':')[1]}{'.' + e['via'][8:] + '()' if e['via'] != 'ctor' else ''}{e['path']}"  # noqa: E731
    lib = sorted({f"{name(e)} [{e['label']}]" for e in rv if e["with"] == "library"})
    arg = sorted({f"{name(e)}<-{e['label']}" for e in rv if e["with"] == "argument"})
    out = ["construction probe: sharing that exists on the UNCHANGED tree is listed, each with a remark, in harness/props/c19.aliases.json and is not reported again "
           "(anything not in that list is a failure).  (1) the object a constructor / accessor stores or hands out IS an object the library holds (a mutable default stored as "
           "is, a class-level table).  Reviewed: the library itself never writes these objects (inventory theorems of Props/C19); a CALLER who edits that attribute of one object "
           "in place - not a library call - changes every other and every later object built with the same (default) arguments: " + "; ".join(lib)]
    if RESULT_ROOTS:
        out[0] += ".  Objects returned inside histories may reference (reviewed, kept by hand in the same file): everything under " + ", ".join(RESULT_ROOTS) + " (a parsed MBXML document references the class-level LRRP token definitions and default constants table themselves)"
    out.append(f"construction probe: (2) {len(arg)} constructor parameters whose mutable argument object is kept as is (self.x = x, the style of the library's PDU classes on the "
               "unchanged tree; what the caller later does to its own object shows in the PDU and vice versa - the caller's act, not a library call): " + "; ".join(arg))
    return out


# ------------------------------------------------------------------------------------------------
# ------------------------------------------------------------------------------------------------
# history / object-identity probes (harness/histories.py): C19 speaks about every codec call, so its entry points are those the codec
# properties describe, taken over as they are (name / group / domain prefixed by the module); C19's own machinery above is untouched
HIST_MODULES = ("c01", "c03", "c04", "c05", "c11", "c12", "c13", "c14", "c15", "c16", "c02", "c06", "c09", "c10")


def ENTRY_POINTS():
    import importlib

    out = []
    for m in HIST_MODULES:
        try:
            mod = importlib.import_module(f"props.{m}")
            eps = getattr(mod, "ENTRY_POINTS", None)
            eps = eps() if callable(eps) else (eps or [])
        except Exception:  # noqa: a module whose adapter cannot be built here is that module's business
            continue
        for e in eps:
            e.name = f"{m}:{e.name}"
            e.group = f"{m}:{e.group}"
            if e.domain is not None:
                e.domain = f"{m}:{e.domain}"
            out.append(e)
    return out


def run(ctx):
    from props.c19_model import model_lines  # correspondence with the Lean model (history-free model + inventory)

    ctx.rule = (
        "argument pool per entry point = captured packets of the test-suite (c19_corpus.json, some with 1-3 flipped bits), "
        "boundary / wrong-length and random arguments; every pool call is executed FIRST in a forked copy of a freshly imported "
        "interpreter (reference) and a sample in brand-new interpreters; then random interleavings of pool calls run in one process "
        "each and every result / argument buffer / shared-state probe is compared with the reference; plus each call twice in a row, "
        "ordered pairs of entry points that share inventoried state (A;B and B;A), long chained histories, and two different "
        "deterministic time/random settings.  Argument VARIANTS (for every entry point, a fixed number per class): pairs of calls "
        "f(x), f(x') where x' compares equal to x or collides with it under a coarse key but is another value for the callee - same "
        "0/1 values in the other bit order, same buffer octets in the other bit order, leading / trailing zeros (ba2int, tobytes, "
        "int.from_bytes, rstrip), frozenbitarray, bytes / bytearray / memoryview, int / bool / float / numpy.int64, a value equal under a "
        "mask, normalised text, array element type, dict order, same prefix / suffix / ends, ONE argument replaced by that of another pool call, "
        "the very same buffer object re-used by the caller with replaced content, the same data handed to another entry point sharing "
        "state - run back to back as f(x); f(x'); f(x); f(x').  After some calls the caller overwrites the buffers it got back and calls "
        "again; every object returned inside a history of <= 40 calls is held and examined again after the last call.  "
        "Argument FORMS (a fixed share: one pool call per entry point in quick): every buffer argument in every container form the "
        "callee's own conversions may accept - bytes / bytearray / memoryview (read-only, writable) / bytes subclass, bitarray of either bit "
        "order on whole octets and not, frozenbitarray, list / tuple of ints, list of bools, numpy arrays (int64, bool, uint8, int8, float64, "
        "read-only, frombuffer, non-contiguous view), array.array, text of 0/1 - each with its own fresh reference, argument snapshot, an "
        "identity / shared-memory test between argument and returned buffers (against a reviewed list), and three calls with the very same "
        "object the caller keeps and never rewrites.  Failing calls first: [bad, good, bad', good] per entry point (wrong length, wrong "
        "type, None).  Pipes: the object one call returned is the argument of another call (preferably of the same codec), as it is or after "
        "the caller overwrote it.  In every eighth interleaving random / numpy.random are re-seeded between the calls.  Wall clock: eight "
        "deterministic clock settings (1970, 1999-12-31 23:59:59, 2001, 2024-02-29, 2026-12-31 23:59:59, 2030, 2100-02-28, 2101; the clock "
        "advances with every reading, crossing the year / month boundary) and one logging setting (root logger at DEBUG) are applied BEFORE "
        "the library is imported, in fork servers and in brand-new interpreters; every entry point plus every call whose result carries a "
        "date is compared across them.  ENTRY POINTS FOUND BY INTROSPECTION (a worker lists them from the tree under test): every class of "
        "the etsi layer2 / layer3 element packages, every Enum of the codec packages and every other class with from_* / as_* that the "
        "catalogue does not name - member methods / properties without required arguments for EVERY member (argument = member index), "
        "one-argument static / class methods on buffers of the width the members serialise to (plus other lengths), the result together "
        "with what the parsed object's own as_* / to_* / get_* / is_* methods and repr hand out.  Per class: identity histories (each member "
        "call twice, both results held), scribble histories (the caller overwrites the returned buffer in place and calls again, the Lean "
        "model's element call in between), dependent histories (the caller overwrites what every member of a few classes handed out, then "
        "one call of every PDU / burst / Hytera / Motorola entry point), parse-scribble histories, ordered pairs and interleavings among "
        "them (a third of the calls followed by the caller's overwrite); these draw from a second random stream, the hand catalogue's is "
        "unchanged by what the introspection finds.  CONFIGURATION SWEEP (deterministic): every non-default CRC configuration of the pool "
        "and every combination of init 0 / all ones, reverse_input_bytes, reverse_output_bytes on the (width, polynomial) of each library "
        "calculator, as bitwise / table based / kept table based calculator on messages of 0 / 1 / 2 / 5 octets, each kept one twice, then the "
        "library's own calculators and the PDUs that use them.  CONSTRUCTION PROBE (deterministic): every class of okdmr.dmrlib (found by walking the package "
        "directory, Enums excepted) is built with the required arguments only (synthesised from the annotations until the constructor accepts them), with every "
        "optional object given, and once per parameter that takes a mutable value with an object the caller keeps; public no-argument static / class methods of the "
        "codec packages that hand out a mutable object are called as factories.  Two instances from equal, separately made arguments; every mutable node of the "
        "first one's attribute graph (bitarray, bytearray, list, dict, set, array, numpy array, nested library object; through vars(), lists, dicts) is compared "
        "by identity with every object the library holds (parameter defaults of every function, class attributes, module globals, enum member state), with the nodes "
        "of the second instance and with the argument objects, then edited in place by the caller (inverted / appended / popped / a scalar field set): the second "
        "instance, a freshly built third one, the library-held objects and the arguments must be what they were (and are again once the edit is undone).  "
        "A case = one executed call inside a history, or one constructed class / variant; non-trivial unless the call raised."
    )
    ctx.trusted_base += [
        "Lean 4.33 kernel",
        "tools/scan_state.py (AST inventory of hidden state; flow-insensitive, over-approximates 'may mutate')",
        "the reviewed inventory baseline in Props/C19.lean (a human judged every item)",
        "hand-written model of the inventoried state (Model/Purity.lean) tied to the code by this run's correspondence",
        "os.fork(): a forked copy of a just-imported interpreter is taken as a fresh interpreter state (validated against brand-new interpreters on a sample every run)",
        "the introspection of c19_worker.auto_entries (pkgutil walk of the etsi / hytera / motorola / utils packages, inspect signatures) decides which element / enum entry points exist; a class it cannot import or a method that raises on every sample buffer is counted, not exercised",
        "the canonical form (c19_worker.canon): all instance fields recursively, enums by name, buffers as bits/hex; CRC scratch registers, the import-day of the default GPSData and the address inside text made of a memoryview ARGUMENT ('<memory at 0x…>') are masked",
    ]
    ctx.assumptions += [
        "purity is claimed for the catalogued public codec entry points (CRC, FEC, PDU, burst, Hytera, Motorola, utils), not for the protocol handlers / storage / transmission tracker (C08, C17, C18, C20)",
        "the documented in-place repairs (HammingCommon.check_and_correct, BPTC19696.repair_if_necessary(deinterleaved=True)) may change their argument iff they return that very buffer",
        "a bit array handed over where octets are expected is compared by result only where it is read as a whole through bitarray.frombytes on whole octets (BUFFER_ARGS); elsewhere the callee's slices of it do not fill their last octet and what the buffer protocol shows of the pad bits is unspecified memory (not library state) - those calls are executed for the argument snapshot and the identity test only",
        "inside the random histories the caller's overwrite (scribble) reaches returned top-level buffers and buffers directly inside a returned list / tuple; the FIELDS of constructed objects are edited in place by the construction probe (every class, every mutable node of the object graph, c19_graph.py), not inside the random histories",
        "construction probe: arguments are synthesised from the annotations (first accepted candidate per parameter: one enum member, one width per buffer), one object graph per class and variant - an attribute that only exists for other argument values (another opcode, another packet format) is not reached; the protocol handlers / storage / transmission classes are built and examined, but none of their other methods is called",
        "forced thread interleavings are out of scope (the property does not mention concurrency); state a threaded interleaving could expose is reported as an inventory / shared-state difference",
        "LocationProtocol's default gpsdata carries the date of the import day (date.today() in a default argument); it reaches as_bytes of a default-built StandardReport only and is compared with the import date, not across days",
    ]
    ctx.assumptions += construction_assumptions()
    r = ctx.rng
    fp0 = source_fingerprint()
    CAT = catalogue()
    # entry points found by introspection of the tree under test (in a worker: this process never imports the library)
    inv = parallel([{"op": "auto"}], 1)[0]
    if not isinstance(inv, dict) or "entries" not in inv:
        raise Infra(f"C19 worker could not list the element classes: {inv}")
    AUTO = add_auto_entry_points(CAT, inv)
    ctx.count("auto:entry-points", len(AUTO))
    ctx.count("auto:classes", len({m["cls"] for m in AUTO.values() if "cls" in m}))
    ctx.count("auto:element-package-classes", len({m["cls"] for m in AUTO.values() if m.get("elements")}))
    ctx.count("auto:enum-members", sum(m["n"] for m in AUTO.values() if m["kind"] == "member"))
    ctx.count("auto:enum-members-in-the-lean-model", len((AUTO.get("m.element") or {}).get("all") or []))
    ctx.count("auto:not-callable-with-a-buffer", sum(1 for m in inv["entries"] if not m.get("callable", True)))
    if inv.get("skipped_modules"):
        ctx.count("auto:modules-not-importable", len(inv["skipped_modules"]))
        ctx.notes.append("modules the introspection could not import: " + ", ".join(inv["skipped_modules"][:8]))
    if inv.get("error"):
        ctx.count("auto:introspection-failed")
        ctx.notes.append("introspection of the element / enum classes failed in the worker: " + inv["error"])
    # the hand-written catalogue keeps its own random stream (ctx.rng) - what it generates does not depend on which classes the
    # introspection finds; everything about the introspected entry points draws from a second stream
    import random as _random

    ra = _random.Random(f"C19:auto:{ctx.seed}")
    names = sorted(n for n in CAT if n not in AUTO)
    auto_names = sorted(AUTO)
    ncpu = max(2, min(12, (os.cpu_count() or 4) - 2))
    MAXF = 40
    # a boosted run (x4 source drift, x8 proof / correspondence broke) concentrates the search, but every history costs a forked
    # interpreter: the multiplier is capped so that a boosted quick run stays within a few minutes
    eff = min(max(1, ctx.boost), 2)
    if ctx.boost > eff:
        ctx.notes.append(f"budget multiplier {ctx.boost} capped at {eff} for C19")

    def bud(quick, thorough):
        return (thorough if ctx.thorough() else quick) * eff

    def fail(kind, inp, what, expected=None, actual=None):
        if len(ctx.failures) < MAXF:
            ctx.fail(kind, inp, what, expected=expected, actual=actual)
        ctx.count(f"fail:{kind}")

    t_phase = [time.time()]

    def phase(name):
        now = time.time()
        ctx.hist[f"seconds:{name}"] = round(ctx.hist.get(f"seconds:{name}", 0) + now - t_phase[0], 1)
        t_phase[0] = now

    phase("worker-start+introspection")
    # ---------------- construction aliasing: every class of the library built twice, every mutable node of the object edited in place
    # (deterministic, draws nothing from the random streams)
    construction_probe(ctx, fail, ncpu)
    phase("construction-probe")
    # ---------------- argument pool
    pool = {}
    for rng, nms in ((r, names), (ra, auto_names)):
        for nm in nms:
            # the entry points modelled in Lean get a larger pool (their results are also compared with the model)
            per_ep = bud(10, 40) * (3 if nm.startswith("m.") else 1)
            if nm in AUTO:
                if AUTO[nm].get("all"):
                    pool[nm] = [{"ep": nm, "a": a} for a in AUTO[nm]["all"]]  # every member, in order
                    continue
                per_ep = bud(6, 24)
            seen = set()
            lst = []
            tries = 0
            while len(lst) < per_ep and tries < per_ep * 4:
                tries += 1
                spec = {"ep": nm, "a": CAT[nm]["gen"](rng)}
                k = key_of(spec)
                if k not in seen:
                    seen.add(k)
                    lst.append(spec)
            pool[nm] = lst
    # ---------------- variants: pairs of calls (A, B) of one entry point that a coarse memo key would identify
    kvar = min(bud(2, 6), 6)
    var_pairs = []
    # the introspected entry points have their own histories over EVERY member (element:*); of the generic per-entry-point
    # shares (variants, forms, failing calls first) a quick run gives them the parsers of the element packages only
    generic_auto = [nm for nm in auto_names if AUTO[nm]["kind"] == "static" and (ctx.thorough() or AUTO[nm].get("elements"))]
    forms_auto = generic_auto if ctx.thorough() else generic_auto[ctx.seed % 3 :: 3]  # a third of them per quick run, by seed
    ctx.count("auto:entry-points-in-the-generic-shares", len(generic_auto))
    for rng, nms in ((r, names), (ra, generic_auto)):
        for nm in nms:
            quota = {}
            for s in pool[nm][: 4 * kvar]:
                vs = spec_variants(s, rng, [o for o in pool[nm] if o is not s])
                rng.shuffle(vs)  # a class with several members (int-type, bytes-type, array-type) does not always spend its quota on the first
                for cls, sa, sb in vs:
                    if quota.get(cls, 0) < kvar and in_domain(sa) and in_domain(sb):
                        quota[cls] = quota.get(cls, 0) + 1
                        var_pairs.append((cls, sa, sb))
            for cls, n in quota.items():
                ctx.count(f"variant:{cls}", n)
            if quota:
                ctx.count("variant:entry-points")
    # the same data handed to two entry points that share inventoried state (a memo shared by calculators / codecs whose
    # key drops the configuration or the entry point)
    kind = {"b": "bits", "bl": "bits", "x": "bytes", "xa": "bytes"}

    def first_buf(spec):
        return next((j for j, e in enumerate(spec["a"]) if e[0] in kind), None)

    cross = []

    def cross_of(rng, nms):
        for t in sorted({t for nm in nms for t in CAT[nm]["tags"]}):
            grp = [nm for nm in nms if t in CAT[nm]["tags"]]
            pairs = [(a, b) for a in grp for b in grp if a != b]
            rng.shuffle(pairs)
            n = 0
            for a, b in pairs:
                if n >= min(bud(40, 400), 400):
                    break
                sa, sb0 = rng.choice(pool[a]), rng.choice(pool[b])
                ja, jb = first_buf(sa), first_buf(sb0)
                if ja is None or jb is None:
                    continue
                e = sa["a"][ja]
                if kind[e[0]] != kind[sb0["a"][jb][0]]:
                    if kind[e[0]] == "bytes":
                        e = B(hex2bits(e[1]))
                    elif len(e[1]) % 8 == 0 and e[0] == "b":
                        e = X(f"{int(e[1], 2):0{len(e[1]) // 4}x}" if e[1] else "")
                    else:
                        continue
                sb = {"ep": b, "a": sb0["a"][:jb] + [e] + sb0["a"][jb + 1 :]}
                if in_domain(sb):
                    cross.append((sa, sb))
                    n += 1

    cross_of(r, names)
    cross_of(ra, auto_names)
    ctx.count("variant:same-data-other-entry-point", len(cross))
    # ---------------- forms: ONE buffer argument of a pool call in every container form (arg_forms); a fixed share of the budget
    nform = min(bud(1, 3), 6)
    form_calls = []  # (entry point, pool call, [(form, argument index, call)])
    form_of = {}
    unstable = set()  # calls whose result may contain unspecified memory (form_comparable): snapshot / identity checks only
    for nm in names + forms_auto:
        for s0 in pool[nm][:nform]:
            fl = [(form, j, fs) for form, j, fs in spec_forms(s0) if in_domain(fs)]
            if fl:
                form_calls.append((nm, s0, fl))
                for form, j, fs in fl:
                    form_of.setdefault(key_of(fs), (form, j))
                    ctx.count(f"form:{form}")
                    if not form_comparable(nm, j, s0["a"][j], fs["a"][j]):
                        unstable.add(key_of(fs))
    ctx.count("form:result-not-compared(unspecified-pad-bits)", len(unstable))
    ctx.count("form:entry-points", len({nm for nm, _, _ in form_calls}))
    # ---------------- failing calls first: [bad, good, bad', good, …] per entry point
    nbad = min(bud(1, 3), 4)
    err_hist = []
    for rng, nms in ((r, names), (ra, generic_auto)):
        for nm in nms:
            for s0 in pool[nm][:nbad]:
                bc = [b for b in bad_calls(s0, rng) if in_domain(b)][:3]
                if bc:
                    err_hist.append([x for b in bc for x in (b, s0)])
    ctx.count("error-first:entry-points", len({h[0]["ep"] for h in err_hist}))
    # ---------------- configuration sweep (deterministic, not left to the random pool): every non-default CRC configuration of
    # CRC_CFGS, and every combination of init (0 / all ones), reverse_input_bytes, reverse_output_bytes on the (width, polynomial)
    # of each LIBRARY calculator (they share the cached lookup table with it), as a bitwise, a table based and a kept table based
    # calculator on messages of 0 / 1 / 2 / 5 octets (one feed, several feeds), each kept one twice; then the library's own
    # calculators and the PDUs that use them
    from props.c19_model import CFGS as LIB_CFGS

    sweep_cfgs = [c for c in CRC_CFGS if isinstance(c, list)]
    for c in LIB_CFGS[:5]:  # the (width, polynomial) of CRC8 / CRC9 / CRC16 / CRC32 / CRC7 as the library configures them
        for init in (0, (1 << c[0]) - 1):
            for ri in (0, 1):
                for ro in (0, 1):
                    v = [c[0], c[1], init, 0, ri, ro]
                    if v not in sweep_cfgs:
                        sweep_cfgs.append(v)
    lib_tail = [pool[nm][0] for nm in ("crc8.calculate", "crc9.calculate", "crc16.calculate", "crc32.calculate", "csbk.from_bits", "dataheader.from_bits",
                                       "slc.from_bits", "rate12.from_bits", "pi.from_bits") if pool.get(nm)]
    lib_tail += [s0 for s0 in pool.get("m.crc.shared", [])[:8]]
    sweep_hist = []
    for c in sweep_cfgs:
        cfg = ["l", [I(x) for x in c]]
        m = {n: B(rbits(ra, 8 * n)) for n in (0, 1, 2, 5)}
        one = B(format(ra.randrange(1, 256), "08b"))

        def kept_(d):
            return {"ep": "bitcrc.persistent", "a": [cfg, I(1), d]}

        calls = [kept_(one), kept_(one), {"ep": "bitcrc.table", "a": [cfg, m[1]]}, {"ep": "bitcrc.table", "a": [cfg, m[0]]}, kept_(m[0]), kept_(m[1]), kept_(m[2]),
                 {"ep": "bitcrc.bitwise", "a": [cfg, m[1]]}, kept_(m[5]), kept_(m[5]), {"ep": "bitcrc.table", "a": [cfg, m[5]]}, kept_(one)]
        calls = [x for x in calls if in_domain(x)]
        sweep_hist.append(calls + lib_tail)
    ctx.count("config-sweep:configurations", len(sweep_cfgs))
    hist_corpus = corpus_specs()
    all_specs = [x for h in sweep_hist for x in h] + [b for h in err_hist for b in h[::2]] + [s for nm in names + auto_names for s in pool[nm]] + [x for _, sa, sb in var_pairs for x in (sa, sb)] + [sb for _, sb in cross] + [fs for _, _, fl in form_calls for _, _, fs in fl]
    for _, calls in hist_corpus:
        for s in calls:
            all_specs.append(s)
    uniq = {}
    for s in all_specs:
        uniq.setdefault(key_of(s), s)
    ulist = list(uniq.values())
    pool_keys = {key_of(s) for nm in names + auto_names for s in pool[nm]} | {key_of(s) for _, calls in hist_corpus for s in calls}
    dropped = set()
    ctx.count("pool:specs", len(ulist))
    ctx.count("pool:entry-points", len(names) + len(auto_names))

    phase("generation")
    # ---------------- reference: each call executed first in a fresh (forked, just imported) interpreter state
    t0 = time.time()
    chunks = [ulist[i : i + 40] for i in range(0, len(ulist), 40)]
    resp = parallel([{"op": "first", "specs": c} for c in chunks], ncpu)
    ref = {}
    for c, rr in zip(chunks, resp):
        for s, res in zip(c, rr["r"]):
            ref[key_of(s)] = res
            if res[0].startswith("ERR worker"):
                if key_of(s) in pool_keys:
                    raise Infra(f"reference call failed in the worker: {s} -> {res[0]}")
                # a derived variant the interpreter does not survive (time / memory): not a codec call, the pair is dropped
                dropped.add(key_of(s))
                ctx.count("variant:dropped-worker-error")
    pristine = parallel([{"op": "probe"}], 1)[0].get("probe")
    if not pristine:
        raise Infra("state probe failed")
    ctx.count("probe:shared-objects", len(pristine))
    ctx.notes.append(f"reference table: {len(ref)} calls in {time.time() - t0:.1f}s; state probe covers {len(pristine)} shared objects")

    phase("reference")
    # ---------------- pipes: (producer call, consumer call, argument index, value handed over, caller overwrites it first)
    from props.c19_worker import INPLACE_OK

    consumers = {}
    for nm in names:
        if nm in INPLACE_OK or nm.startswith("m.ham.cac"):
            continue
        for s0 in pool[nm]:
            for j, e in enumerate(s0["a"]):
                if e[0] in ("b", "bl", "x", "xa"):
                    consumers.setdefault(("bits" if e[0] in ("b", "bl") else "octets", len(e[1])), []).append((s0, j))
    producers = []
    for nm in names:
        if nm in INPLACE_OK or nm.startswith("m."):
            continue
        for s0 in pool[nm]:
            enc = enc_of_canon(ref[key_of(s0)][0])
            if enc is not None and enc[1]:
                producers.append((s0, enc))
    # round robin over the producing entry points (mutable results first), so that each of them is piped at least once or twice;
    # the consumer is, by preference, an entry point of the same codec (decode -> encode, from_bits -> as_bits: where a round-trip
    # shortcut would sit), otherwise any that takes a buffer of that kind and length
    by_ep = {}
    for p in producers:
        by_ep.setdefault(p[0]["ep"], []).append(p)
    for lst in by_ep.values():
        r.shuffle(lst)
        lst.sort(key=lambda p: p[1][0] == "x")
    order = [lst[i] for i in range(max((len(v) for v in by_ep.values()), default=0)) for _, lst in sorted(by_ep.items()) if i < len(lst)]
    pipes = []
    for n_, (a_spec, enc) in enumerate(order[: bud(240, 2400)]):
        grp = "bits" if enc[0] in ("b", "bl") else "octets"
        cand = consumers.get((grp, len(enc[1]))) or [c for k2, v in sorted(consumers.items()) if k2[0] == grp for c in v]
        if not cand:
            continue
        fam = a_spec["ep"].split(".")[0]
        same = [c for c in cand if c[0]["ep"].split(".")[0] == fam and c[0]["ep"] != a_spec["ep"]]
        b_spec, j = r.choice(same) if same and r.random() < 0.7 else r.choice(cand)
        mutate = enc[0] != "x" and (n_ < len(by_ep) or r.random() < 0.4)  # the first round: the caller overwrites the result first
        enc_arg = scribbled(enc) if mutate else enc
        b_ref = {"ep": b_spec["ep"], "a": b_spec["a"][:j] + [enc_arg] + b_spec["a"][j + 1 :]}
        if in_domain(b_ref):
            pipes.append((a_spec, b_spec, j, enc_arg, mutate))
    extra = {}
    for a_spec, b_spec, j, enc_arg, mutate in pipes:
        b_ref = {"ep": b_spec["ep"], "a": b_spec["a"][:j] + [enc_arg] + b_spec["a"][j + 1 :]}
        if key_of(b_ref) not in ref:
            extra.setdefault(key_of(b_ref), b_ref)
    elist = list(extra.values())
    chunks = [elist[i : i + 40] for i in range(0, len(elist), 40)]
    for c, rr in zip(chunks, parallel([{"op": "first", "specs": c} for c in chunks], ncpu)):
        for s1, res in zip(c, rr["r"]):
            ref[key_of(s1)] = res
            uniq[key_of(s1)] = s1
            if res[0].startswith("ERR worker"):
                dropped.add(key_of(s1))
    pipes = [p for p in pipes if key_of({"ep": p[1]["ep"], "a": p[1]["a"][: p[2]] + [p[3]] + p[1]["a"][p[2] + 1 :]}) not in dropped]
    ctx.count("pipe:result-handed-to-another-call", len(pipes))
    ctx.count("pipe:after-caller-overwrote-it", sum(1 for p in pipes if p[4]))

    # argument buffers must be unchanged already in the reference (single call)
    for k, res in ref.items():
        s = uniq[k]
        ctx.case(("first", k), nontrivial=not res[0].startswith("ERR"))
        ctx.count(f"ep:{s['ep']}")
        ctx.count("result:ERR" if res[0].startswith("ERR") else "result:value")
        if res[2].startswith("TWICE-DIFFERS"):
            fail("same-object-call-differs", {"history": [s], "index": 0}, f"{s['ep']}: serialising / printing the same object twice gives two different answers", expected=res[2].split(" | ")[0][14:], actual=res[2].split(" | ")[-1])
        elif res[2]:
            ctx.count("in-place-repair-exempted")
        fm = form_of.get(k)
        if fm and not res[0].startswith("ERR"):
            ctx.count(f"form-accepted:{fm[0]}")
        for ch in res[1]:
            fail("argument-mutated", {"history": [s], "index": 0, "argument": ch[0], **({"form": fm[0]} if fm and fm[1] == ch[0] else {})},
                 f"{s['ep']} altered its argument buffer #{ch[0]}" + (f" (handed over as {fm[0]})" if fm and fm[1] == ch[0] else ""), expected=ch[1], actual=ch[2])
        for al in (res[3] if len(res) > 3 else []):
            ctx.count("result-aliases-argument:" + ("reviewed" if alias_reviewed(s["ep"]) else "NEW"))
            if not alias_reviewed(s["ep"]):
                fail("result-aliases-argument", {"history": [s], "index": 0, "argument": al[0], **({"form": fm[0]} if fm and fm[1] == al[0] else {})},
                     f"{s['ep']}: the returned object {al[1]} #{al[0]}" + (f" (handed over as {fm[0]})" if fm and fm[1] == al[0] else "")
                     + ": what the caller (or a later in-place operation of the library) does to the result lands in the caller's buffer",
                     expected="a new object", actual=al[1])

    phase("pipes")
    # ---------------- brand-new interpreters on a sample (validates the fork server; catches import-order effects)
    nfresh = bud(24, 160)
    sample = [ulist[i] for i in sorted(r.sample(range(len(ulist)), min(nfresh, len(ulist)))) if key_of(ulist[i]) not in dropped and key_of(ulist[i]) not in unstable]
    fres = fresh_one(sample)
    for s, fr in zip(sample, fres):
        ctx.case(("fresh", key_of(s)))
        if fr[0] != ref[key_of(s)][0]:
            fail("fresh-interpreter-differs", {"history": [s], "index": 0}, f"{s['ep']}: brand-new interpreter and forked fresh state disagree", expected=fr[0], actual=ref[key_of(s)][0])
    ctx.count("fresh-interpreter-calls", len(sample))

    phase("brand-new-interpreters")
    # ---------------- histories
    histories = []  # (label, [specs])
    for label, calls in hist_corpus:
        histories.append(("corpus:" + label, calls))
    # each call twice in a row
    for nm in names:
        for s in pool[nm][: bud(3, 12)]:
            histories.append(("twice", [s, s]))
    # variants back to back on the same entry point: f(x); f(x'); f(x)  and  f(x'); f(x); f(x')
    # (the property quantifies over all histories, so several pairs share one process: the state probe is what costs)
    CH = 5
    by_cls = {}
    var_pairs = [(c, sa, sb) for c, sa, sb in var_pairs if key_of(sa) not in dropped and key_of(sb) not in dropped]
    cross = [(sa, sb) for sa, sb in cross if key_of(sb) not in dropped]
    for cls, sa, sb in var_pairs:
        # held-buffer: the very same object twice with the same content, then with the content replaced by the caller
        by_cls.setdefault(cls, []).append([sa, sa, sb, sb, sa] if cls == "held-buffer" else [sa, sb, sa, sb])
    for sa, sb in cross:
        by_cls.setdefault("same-data-other-entry-point", []).append([sa, sb, sa, sb])
    for cls in sorted(by_cls):
        for i in range(0, len(by_cls[cls]), CH):
            histories.append((f"variant:{cls}", [c for blk in by_cls[cls][i : i + CH] for c in blk]))
    # the caller overwrites the buffers it got back, then makes the same call again (a result that aliases library state)
    scr = [[dict(s, m=1), s, dict(s, m=1), s] for nm in names for s in pool[nm][:kvar]]  # (the introspected ones: element:* below)
    for i in range(0, len(scr), CH):
        histories.append(("scribble", [c for blk in scr[i : i + CH] for c in blk]))
    # every form of a buffer argument as an object the caller KEEPS: the same call three times with the very same object, never
    # rewritten by the caller (a callee that alters the object, or remembers it, answers the later calls differently).
    # The documented in-place repairs may alter it: they are called once per form only (the reference above).
    from props.c19_worker import INPLACE_OK

    for nm, s0, fl in form_calls:
        if nm in INPLACE_OK or nm == "m.ham.cac":
            continue
        calls = []
        for form, j, fs in fl:
            if key_of(fs) in dropped:
                continue
            ks = keep_arg(fs, j, f"{j}:{form}")
            calls += [ks, ks, ks] if fs["a"][j][0] in KEEPABLE else [fs, fs]
        for i in range(0, len(calls), 60):
            histories.append(("forms", calls[i : i + 60]))
    # a call that RAISES comes first (the first call the process makes to that class), then the valid call, alternating
    for h in err_hist:
        h = [c for c in h if key_of(c) not in dropped]
        if h:
            histories.append(("error-first", h))
    # the object one call returned is the argument of another call (as it is, or after the caller overwrote it): a memo keyed by
    # the identity of a returned object, a result that is a view of library state, an in-place step of the consumer
    for i in range(0, len(pipes), CH):
        calls = []
        for a_spec, b_spec, j, enc_arg, mutate in pipes[i : i + CH]:
            calls += [dict(a_spec, m=1) if mutate else a_spec, {"ep": b_spec["ep"], "a": b_spec["a"][:j] + [["r", len(calls), None, enc_arg]] + b_spec["a"][j + 1 :]}]
        histories.append(("pipe", calls))
    # ordered pairs of entry points sharing inventoried state: A;B and B;A
    tags = sorted({t for nm in names for t in CAT[nm]["tags"]})
    npairs = 0
    for t in tags:
        grp = [nm for nm in names if t in CAT[nm]["tags"]]
        pairs = [(a, b) for a in grp for b in grp if a < b]
        r.shuffle(pairs)
        for a, b in pairs[: bud(45, 100000)]:
            sa, sb = r.choice(pool[a]), r.choice(pool[b])
            histories.append((f"pair:{t}", [sa, sb, sa]))
            histories.append((f"pair:{t}", [sb, sa, sb]))
            npairs += 1
    ctx.count("ordered-pairs-sharing-state", npairs * 2)
    # random interleavings
    nseq = bud(400, 5000)
    seqlen = 30
    weights = [3 if CAT[nm]["tags"] else 1 for nm in names]
    for k_seq in range(nseq):
        calls = []
        # half of the sequences concentrate on a few entry points (same state hit repeatedly)
        focus = r.sample(names, r.choice([2, 3, 5])) if r.random() < 0.5 else None
        for _ in range(seqlen):
            nm = r.choice(focus) if focus and r.random() < 0.8 else r.choices(names, weights)[0]
            calls.append(r.choice(pool[nm]))
        # in every eighth the application re-seeds `random` / `numpy.random` between its calls
        histories.append(("interleaving:reseed" if k_seq % 8 == 0 else "interleaving", calls))
    # long chained histories
    for _ in range(bud(4, 40)):
        calls = [r.choice(pool[r.choices(names, weights)[0]]) for _ in range(bud(400, 2500) // eff)]
        histories.append(("long", calls))

    # ---- element classes / enum members (process-wide singletons), EVERY member of every class:
    #  identity  : the same member call twice, both results held: two calls must hand out two objects, neither may change later
    #  scribble  : the caller overwrites the returned buffer in place, calls again, overwrites, calls again (compared with the
    #              fresh reference of that member)
    #  dependent : the caller overwrites what every member of a few classes handed out, then one call of every PDU / burst /
    #              Hytera / Motorola entry point (a burst or PDU serialised WITH that element)
    dependents = [pool[nm][0] for nm in names if CAT[nm]["family"] in ("pdu", "burst", "defaults", "hytera", "motorola") and pool[nm] and key_of(pool[nm][0]) not in dropped]
    member_eps = [nm for nm in auto_names if AUTO[nm]["kind"] == "member"]
    for nm in member_eps:
        specs = pool[nm]
        for i in range(0, len(specs), 20):
            histories.append(("element:identity", [x for s1 in specs[i : i + 20] for x in (s1, s1)]))
        key = nm[len("auto."):-len(".as_bits")] if nm.endswith(".as_bits") else None
        modelled = {tuple(a[1]) for a in ((AUTO.get("m.element") or {}).get("all") or []) if a[0][1] == key}
        for i in range(0, len(specs), 8):
            calls = []
            for s1 in specs[i : i + 8]:
                mi = s1["a"][0][1]
                mid = [{"ep": "m.element", "a": [S(key), I(mi)]}] if ("i", mi) in modelled else []
                calls += [dict(s1, m=1), s1] + mid + [dict(s1, m=1), s1]
            histories.append(("element:scribble", calls))
    for i in range(0, len(member_eps), 4):
        grp = member_eps[i : i + 4]
        pre = [dict(s1, m=1) for nm in grp for s1 in pool[nm]]
        histories.append(("element:dependent", pre + dependents + [s1 for nm in grp for s1 in pool[nm]]))
    # the static ones (from_bits / from_bytes / resolve_*): parse, overwrite what the parsed object's serialisers handed out,
    # parse again; then the member calls of the same class
    static_eps = [nm for nm in auto_names if AUTO[nm]["kind"] == "static"]
    members_of = {}
    for nm in member_eps:
        members_of.setdefault(AUTO[nm]["cls"], []).append(nm)
    for nm in static_eps:
        calls = [x for s1 in pool[nm][:6] for x in (dict(s1, m=1), s1)]
        calls += [s1 for m2 in members_of.get(AUTO[nm]["cls"], []) for s1 in pool[m2][:16]]
        if calls:
            histories.append(("element:parse-scribble", calls[:40]))
    ctx.count("element:member-entry-points", len(member_eps))
    ctx.count("element:static-entry-points", len(static_eps))
    ctx.count("element:dependent-calls-per-history", len(dependents))
    for h in sweep_hist:
        h = [c for c in h if key_of(c) not in dropped]
        if h:
            histories.append(("config-sweep", h))
    # the static ones also twice in a row (both results held)
    for nm in static_eps:
        for s1 in pool[nm][: bud(2, 12)]:
            histories.append(("twice", [s1, s1]))
    # ordered pairs among the introspected entry points (A;B;A and B;A;B), and interleavings that concentrate on a few of them,
    # now and then mixed with the hand-catalogued ones; in a third of the calls the caller overwrites what it was handed
    a_pairs = [(a, b) for a in auto_names for b in auto_names if a < b and pool[a] and pool[b]]
    ra.shuffle(a_pairs)
    for a, b in a_pairs[: bud(30, 2000)]:
        sa, sb = ra.choice(pool[a]), ra.choice(pool[b])
        histories.append(("pair:auto", [sa, sb, sa]))
        histories.append(("pair:auto", [sb, sa, sb]))
    live_auto = [nm for nm in auto_names if pool[nm]]
    for _ in range(bud(40, 600) if live_auto else 0):
        calls = []
        focus = ra.sample(live_auto, min(len(live_auto), ra.choice([2, 3, 5])))
        for _ in range(seqlen):
            u = ra.random()
            nm = ra.choice(focus) if u < 0.6 else ra.choice(live_auto) if u < 0.8 else ra.choices(names, weights)[0]
            s1 = ra.choice(pool[nm])
            calls.append(dict(s1, m=1) if nm in AUTO and ra.random() < 0.3 else s1)
        histories.append(("interleaving:auto", calls))

    t0 = time.time()
    # every object returned inside a (short) history stays held by the caller and is examined again after the last call
    # (deep: the object graphs of the held results are walked as well - nodes that ARE library-held objects, nodes shared by two results)
    resp = parallel([{"op": "seq", "calls": calls, "probe": True, "hold": len(calls) <= 40, "deep": True, "reseed": label.endswith(":reseed")} for label, calls in histories], ncpu)
    ctx.notes.append(f"{len(histories)} histories ({sum(len(c) for _, c in histories)} calls) in {time.time() - t0:.1f}s")
    bad_hist = []
    held_bad = []
    alias_bad = []
    state_changed = []
    deep_lib, deep_cross = {}, []
    reviewed_labels = {k[4] for k in reviewed_aliases() if k[3] == "library"}
    for (label, calls), rr in zip(histories, resp):
        ctx.count(f"history:{label.split(':')[0]}")
        if label.startswith("element:"):
            ctx.count(f"history:{label}")
        if label.endswith(":reseed"):
            ctx.count("history:random-reseeded-between-calls")
        if "child_error" in rr:
            raise Infra(f"history run failed in the worker: {rr['child_error']}")
        first_bad = None
        for i, (s, res) in enumerate(zip(calls, rr["r"])):
            exp = ref[key_of(unkept(s))]
            ctx.case((label, i, key_of(s), key_of(calls[i - 1]) if i else ""), nontrivial=not res[0].startswith("ERR"), sample={"history": label, "position": i, "call": s["ep"], "result": res[0][:120]} if (i == 3 and len(ctx.samples) < 12) else None)
            if res[0] != exp[0] and first_bad is None and key_of(unkept(s)) not in unstable:
                first_bad = i
                bad_hist.append((label, calls, i, exp[0], res[0]))
            for ch in res[1]:
                fail("argument-mutated", {"history": calls[: i + 1][-50:], "index": min(i, 49), "argument": ch[0]}, f"{s['ep']} altered its argument buffer #{ch[0]}", expected=ch[1], actual=ch[2])
        for ch in rr.get("held_changed") or []:
            ctx.count("held-results-changed")
            held_bad.append((label, calls, ch))
        for al in rr.get("held_alias") or []:
            ctx.count("held-results-aliased")
            # an in-place repair hands back its argument; with a buffer the caller re-uses that is one object by the caller's doing
            alias_bad.append((label, calls, al))
        if "held_changed" in rr:
            ctx.count("held-results-examined", len(calls))
        hd = rr.get("held_deep") or {}
        if hd.get("error"):
            ctx.count("held-deep:walk-failed")
        for hit in hd.get("library") or []:
            rv = label_reviewed(hit[2], reviewed_labels)
            ctx.count("held-deep:library-held-node:" + ("reviewed" if rv else "NEW"))
            if not rv:
                deep_lib.setdefault(hit[2], (label, calls, hit))
        for hit in hd.get("cross") or []:
            ctx.count("held-deep:node-shared-by-two-results")
            deep_cross.append((label, calls, hit))
        pr = rr.get("probe") or {}
        diff = sorted(k for k in set(pr) | set(pristine) if pr.get(k) != pristine.get(k))
        if diff:
            # the invariant of the Lean model ("caches / shared defaults / tables keep their initial value") does not hold on
            # the code: a correspondence difference.  Whether a RESULT depends on it is searched for below.
            ctx.count("inv-broken:histories")
            state_changed.append((label, calls, diff))
            if len(ctx.disagreements) < 20:
                ctx.disagreements.append({"component": "shared-state-invariant", "line": f"after history {label} of {len(calls)} call(s) ending with {calls[-1]['ep']}",
                                          "impl": {k: pr.get(k) for k in diff[:4]}, "model": {k: pristine.get(k) for k in diff[:4]}, "history": calls[-12:]})

    # directed search: a history that changed shared state, followed by every pool call
    if state_changed:
        seen_obj = set()
        jobs = []
        for label, calls, diff in sorted(state_changed, key=lambda x: len(x[1])):
            if diff[0] in seen_obj or len(seen_obj) >= 4:
                continue
            seen_obj.add(diff[0])
            pre = calls[-30:]
            for i in range(0, len(ulist), 120):
                jobs.append((label, pre, ulist[i : i + 120]))
        rs = parallel([{"op": "seq", "calls": pre + tail, "probe": False} for _, pre, tail in jobs], ncpu)
        for (label, pre, tail), rr in zip(jobs, rs):
            if "r" not in rr:
                continue
            for j, (s, res) in enumerate(zip(tail, rr["r"][len(pre):])):
                ctx.case(("directed", key_of(s), key_of(pre[-1])))
                if res[0] != ref[key_of(s)][0] and key_of(s) not in unstable:
                    bad_hist.append(("directed:" + label, pre + tail[: j + 1], len(pre) + j, ref[key_of(s)][0], res[0]))
                    break
        ctx.count("directed-search-histories", len(jobs))

    # results the caller still holds that changed under later calls: shrink to (the call, one later call) where possible
    for label, calls, ch in held_bad[:4]:
        i = ch[0]
        best, bch = calls, ch
        cands = [x for x in ([subhist(calls, [i, q]) for q in range(i + 1, min(len(calls), i + 41))] + [subhist(calls, list(range(i, len(calls))))]) if x]
        rs = parallel([{"op": "seq", "calls": c, "probe": False, "hold": True} for c in cands], ncpu)
        for c, rr in zip(cands, rs):
            hc = [x for x in (rr.get("held_changed") or []) if x[0] == 0]
            if hc:
                best, bch = c, hc[0]
                break
        fail("returned-object-changed-later", {"history": best, "index": bch[0], "found_in": label},
             f"the object returned by call #{bch[0]} ({best[bch[0]]['ep']}) changed while the later call(s) were made: results share a buffer with library state or with each other",
             expected=bch[1], actual=bch[2])
    for _ in held_bad[4:]:
        ctx.count("fail:returned-object-changed-later")

    for label, calls, al in alias_bad[:3]:
        i, j, tn = al
        best, bi, bj = calls[: j + 1], i, j
        rr = parallel([{"op": "seq", "calls": [calls[i], calls[j]], "probe": False, "hold": True}], 1)[0]
        if any(x[0] == 0 and x[1] == 1 for x in rr.get("held_alias") or []):
            best, bi, bj = [calls[i], calls[j]], 0, 1
        fail("returned-objects-alias", {"history": best, "index": bj, "other": bi, "found_in": label},
             f"call #{bi} ({best[bi]['ep']}) and call #{bj} ({best[bj]['ep']}) returned the very same mutable {tn} object: what the caller does to one result shows in the other",
             expected="two objects", actual=f"one {tn}")
    for _ in alias_bad[3:]:
        ctx.count("fail:returned-objects-alias")

    # a returned object graph holds an object of the library (not in the reviewed list): the call alone, in a fresh state
    for lab, (label, calls, hit) in sorted(deep_lib.items())[:4]:
        i, path, _lab, tn = hit
        one = subhist(calls, [i]) or calls[: i + 1]
        rr = parallel([{"op": "seq", "calls": one, "probe": False, "hold": True, "deep": True}], 1)[0]
        again = [h for h in ((rr.get("held_deep") or {}).get("library") or []) if h[2] == lab]
        best, bi = (one, again[0][0]) if again else (calls[: i + 1], i)
        fail("returned-object-holds-library-state", {"history": best, "index": bi, "path": path, "library_object": lab, "found_in": label},
             f"{calls[i]['ep']}: the {tn} at {path or 'the top'} of what it returns IS the object the library holds as {lab}: a caller who edits its result in place changes what every later call sees",
             expected="an object of its own", actual=f"the library's {lab}")
    for _ in sorted(deep_lib)[4:]:
        ctx.count("fail:returned-object-holds-library-state")
    for label, calls, hit in deep_cross[:3]:
        i, pi, j, pj, tn = hit
        pair = subhist(calls, [i, j])
        best, bi, bj = calls[: j + 1], i, j
        if pair:
            rr = parallel([{"op": "seq", "calls": pair, "probe": False, "hold": True, "deep": True}], 1)[0]
            if any(h[0] == 0 and h[2] == 1 for h in ((rr.get("held_deep") or {}).get("cross") or [])):
                best, bi, bj = pair, 0, 1
        fail("returned-objects-share-state", {"history": best, "index": bj, "other": bi, "paths": [pi, pj], "found_in": label},
             f"the {tn} at {pi or 'the top'} of what call #{bi} ({best[bi]['ep']}) returned IS the {tn} at {pj or 'the top'} of what call #{bj} ({best[bj]['ep']}) returned: two results share one mutable object, what the caller does to one shows in the other",
             expected="two objects", actual=f"one {tn}")
    for _ in deep_cross[3:]:
        ctx.count("fail:returned-objects-share-state")

    # shrink the first few history-dependent results to a short reproducing history
    for label, calls, i, exp, act in bad_hist[:6]:
        best = calls[: i + 1]
        cands = [x for x in ([subhist(calls, [i])] + [subhist(calls, list(range(max(0, i - k), i + 1))) for k in (1, 2, 4, 8, 16) if k < i]
                             + [subhist(calls, [q, i]) for q in range(max(0, i - 40), i)]) if x]
        if cands:
            rs = parallel([{"op": "seq", "calls": c, "probe": False} for c in cands], ncpu)
            for c, rr in sorted(zip(cands, rs), key=lambda x: len(x[0])):
                if "r" in rr and rr["r"][-1][0] != exp:
                    best = c
                    break
        ex = explain(best)
        if ex and ex[0] != ex[1]:
            exp, act = ex
        if len(best) == 1:
            fail("nondeterministic-result", {"history": best, "index": 0, "found_in": label},
                 f"{calls[i]['ep']} answers differently in two fresh interpreter states (time, randomness or unspecified memory reaches the result)", expected=exp, actual=act)
        else:
            fail("history-dependent-result", {"history": best, "index": len(best) - 1, "found_in": label},
                 f"{calls[i]['ep']} answers differently after {len(best) - 1} earlier call(s) than when called first in a fresh interpreter", expected=exp, actual=act)
    for _ in bad_hist[6:]:
        ctx.count("fail:history-dependent-result")

    phase("histories")
    # ---------------- wall-clock / randomness: deterministic settings applied BEFORE the library is imported, fresh state each.
    # Settings 1 and 2 get the broad sample; the other clocks (other centuries / years / months, a leap day, Dec 31 23:59:59,
    # an unset clock) and the logging setting get one call of every entry point plus every call whose result carries a date
    # or time or that belongs to the packet families with time fields.
    from props.c19_worker import AMBIENT, AMBIENT_LOGGING, ambient_description

    amb_main = [s for nm in names for s in pool[nm][: bud(3, 10)]]
    timed = [s for s in ulist if key_of(s) not in dropped and key_of(s) not in unstable and ("t'" in ref[key_of(s)][0] or s["ep"].startswith(("gpsdata.", "lp.", "mbxml.write_infotime", "m.gpsdate")))]
    if len(timed) > bud(150, 1500):
        timed = [timed[i] for i in sorted(r.sample(range(len(timed)), bud(150, 1500)))]
    amb_extra = list({key_of(s): s for s in [pool[nm][0] for nm in names + auto_names if pool[nm]] + timed}.values())
    settings = sorted(AMBIENT) + [AMBIENT_LOGGING]
    amb_res = {}

    def amb_run(k):
        specs = amb_main if k in (1, 2) else amb_extra
        chunks = [specs[i : i + 40] for i in range(0, len(specs), 40)]
        rs = parallel([{"op": "first", "specs": c} for c in chunks], 2 if k in (1, 2) else 1, ambient=k)
        amb_res[k] = {key_of(s): x[0] for c, rr in zip(chunks, rs) for s, x in zip(c, rr["r"])}

    errs = []

    def amb_guard(k):
        try:
            amb_run(k)
        except BaseException as e:  # noqa
            errs.append(e)

    ts = [threading.Thread(target=amb_guard, args=(k,)) for k in settings]
    for t in ts:
        t.start()
    for t in ts:
        t.join()
    if errs:
        raise Infra(f"C19 ambient run failed: {errs[0]}")
    # the same in brand-new interpreters (the setting is applied by `--one` before the import, too): a few date-bearing calls per clock
    nb = bud(2, 6)
    bn = [(k, s) for k in sorted(AMBIENT) for s in (timed[:: max(1, len(timed) // nb)][:nb] if timed else [])]
    by_k = {}
    for k, s in bn:
        by_k.setdefault(k, []).append(s)
    for k, specs in by_k.items():
        for s, fr in zip(specs, fresh_one(specs, ambient=k)):
            amb_res.setdefault(("new", k), {})[key_of(s)] = fr[0]
    ctx.count("ambient-brand-new-interpreters", len(bn))
    seen_amb = set()
    for tag in sorted(amb_res, key=str):
        k = tag[1] if isinstance(tag, tuple) else tag
        for key, got in amb_res[tag].items():
            ctx.case(("ambient", str(tag), key))
            ctx.count(f"ambient-setting:{k}")
            base = ref[key][0]
            if got != base and key not in seen_amb:
                seen_amb.add(key)
                s1 = uniq[key]
                others = {str(t): amb_res[t][key] for t in sorted(amb_res, key=str) if key in amb_res[t]}
                fail("ambient-dependent-result", {"history": [s1], "index": 0, "setting": k,
                                                  "settings": {str(t): ambient_description(t[1] if isinstance(t, tuple) else t) for t in sorted(amb_res, key=str) if key in amb_res[t]},
                                                  "note": "the setting is applied before the library is imported (fork server and brand-new interpreter alike)"},
                     f"{s1['ep']} depends on " + ("the logging configuration" if k == AMBIENT_LOGGING else "wall-clock time or randomness (of the call or of the moment the library was imported)"),
                     expected=base, actual=others)
    ctx.count("ambient-calls", sum(len(v) for v in amb_res.values()))

    phase("ambient")
    # ---------------- the inventory of the source as it is now against the reviewed list (also a Lean theorem: inventory_baseline)
    new_items, gone_items = inventory_diff()
    ctx.count("inventory:new-items", len(new_items))
    ctx.count("inventory:gone-items", len(gone_items))
    if new_items or gone_items:
        ctx.notes.append("hidden-state inventory differs from the reviewed list in Props/C19.lean; after reviewing run tools/c19_rebaseline.py --write")
        if not any(d.get("component") == "inventory-baseline" for d in ctx.disagreements):
            # first in the list: the replay file keeps the first differences only
            ctx.disagreements.insert(0, {"component": "inventory-baseline", "line": "tools/scan_state.py vs `reviewed` in Props/C19.lean",
                                      "impl": {"new": [" | ".join(x) for x in new_items[:12]], "gone": [" | ".join(x) for x in gone_items[:12]]},
                                      "model": "the reviewed list"})

    # the working tree must not change under a run that compares executions made at different moments
    if source_fingerprint() != fp0:
        raise Infra("the source tree of okdmr.dmrlib changed while the check was running (results of different moments are not comparable); run again")

    # ---------------- generic history / object-identity probes on the entry points of the codec modules
    import histories as _hist_engine  # (`histories` is a local of this function)

    _hist_engine.run(ctx, ENTRY_POINTS)
    phase("history-probes")

    # ---------------- correspondence with the Lean model: history-free model of the modelled entry points + inventory
    if not ctx.search_only and ctx.driver_ok:
        clocks = {AMBIENT[k][0][0]: amb_res.get(k) or {} for k in sorted(AMBIENT)}
        for comp, pairs in model_lines(ctx, pool, ref, histories, resp, clocks).items():
            ctx.correspond(comp, pairs)
    phase("inventory+model")


def replay(obj):
    f = obj.get("failure") or {}
    inp = f.get("input") or {}
    hist = inp.get("history")
    print(json.dumps(obj.get("type")), f.get("kind"), "-", f.get("what"))
    if str(f.get("kind", "")).startswith("history:"):
        import histories

        return histories.replay(inp, ENTRY_POINTS)
    if inp.get("construct"):
        # construction probe: the target is examined again in a fresh fork server
        res = parallel([{"op": "graph", "targets": [inp["construct"]]}], 1)[0]["r"][0]
        reviewed = reviewed_aliases()
        still = 0
        for f2 in res.get("findings") or []:
            new = [k for k in construction_keys(res, f2) if k not in reviewed]
            if f2["path"] == inp.get("path") and new:
                still = 1
                for line in construction_story(res, f2):
                    print(line)
        if not still:
            print(f"{res.get('call')}: nothing at {inp.get('path')} is shared any more", res.get("notes") or "")
        print("expected:", f.get("expected"))
        print("actual  :", f.get("actual"))
        return still
    if not hist:
        print("no history recorded (proof / correspondence replay): see 'no_longer_checks' / 'correspondence_differences' in the file")
        return 1
    rr = parallel([{"op": "seq", "calls": hist, "probe": True, "hold": True, "deep": True}, {"op": "first", "specs": [unkept(hist[-1])]}, {"op": "probe"}], 1)
    seq, first, pristine = rr[0], rr[1]["r"][0], rr[2]["probe"]
    deep = seq.get("held_deep") or {}
    rl = {k[4] for k in reviewed_aliases() if k[3] == "library"}
    deep_hits = [h for h in deep.get("library") or [] if not label_reviewed(h[2], rl)] + (deep.get("cross") or [])
    for h in deep_hits:
        print("shared node:", h)
    held = (seq.get("held_changed") or []) + (seq.get("held_alias") or []) + deep_hits
    for ch in seq.get("held_changed") or []:
        print(f"the object returned by call #{ch[0]} ({hist[ch[0]]['ep']}) changed afterwards: {ch[1]} -> {ch[2]}")
    for al in seq.get("held_alias") or []:
        print(f"call #{al[0]} and call #{al[1]} returned the very same mutable {al[2]} object")
    last = seq["r"][-1]
    print(f"history of {len(hist)} call(s); last call: {hist[-1]['ep']} {json.dumps(hist[-1]['a'])[:300]}")
    ex = explain(hist)
    print("called first in a fresh interpreter :", ex[0] if ex and ex[0] != ex[1] else first[0])
    print("called after the history            :", ex[1] if ex and ex[0] != ex[1] else last[0])
    mutated = [(s["ep"], ch) for s, res in zip(hist, seq["r"]) for ch in res[1]]
    for epn, ch in mutated:
        print(f"argument buffer #{ch[0]} of {epn} changed: {ch[1]} -> {ch[2]}")
    diff = sorted(k for k in set(pristine) | set(seq.get("probe") or {}) if (seq.get("probe") or {}).get(k) != pristine.get(k))
    for k in diff[:10]:
        print("shared object changed:", k)
    amb = False
    if f.get("kind") == "ambient-dependent-result":
        from props.c19_worker import AMBIENT, AMBIENT_LOGGING, ambient_description

        for k in sorted(AMBIENT) + [AMBIENT_LOGGING]:
            a = parallel([{"op": "first", "specs": [unkept(hist[-1])], "full": True}], 1, ambient=k)[0]["r"][0][0]
            base_full = parallel([{"op": "first", "specs": [unkept(hist[-1])], "full": True}], 1)[0]["r"][0][0] if k == min(AMBIENT) else base_full  # noqa: F821
            ex2 = diff_excerpt(base_full, a) if a != base_full else None
            print(f"setting {k} ({ambient_description(k)}):", "same as without the setting" if ex2 is None else f"DIFFERS: {ex2[1]}   (without the setting: {ex2[0]})")
            amb = amb or a != base_full
    alias = [(s["ep"], al) for s, res in zip(hist, seq["r"]) for al in (res[3] if len(res) > 3 else []) if not alias_reviewed(s["ep"])]
    for epn, al in alias:
        print(f"the object returned by {epn} {al[1]} #{al[0]}")
    print("expected:", f.get("expected"))
    print("actual  :", f.get("actual"))
    return 1 if (last[0] != first[0] or mutated or diff or amb or held or alias) else 0
