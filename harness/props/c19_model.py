"""C19: the entry points modelled in Lean (Model/Purity.lean) — generators, line protocol, correspondence pairs."""
import importlib.util
import json
import os

HERE = os.path.dirname(os.path.abspath(__file__))
VERIF = os.path.dirname(os.path.dirname(HERE))

CFGS = [[8, 7, 0, 0, 0, 0], [9, 0x59, 0, 0, 0, 0], [16, 0x1021, 0, 0, 0, 0], [32, 0x04C11DB7, 0, 0, 0, 0], [7, 0x27, 0, 0, 0, 0],
        [16, 0x1021, 0xFFFF, 0, 0, 0], [16, 0x8005, 0, 0, 1, 1], [32, 0x04C11DB7, 0xFFFFFFFF, 0xFFFFFFFF, 1, 1],
        [12, 0x80F, 0, 0, 0, 0], [24, 0x864CFB, 0xB704CE, 0, 0, 0], [5, 0x15, 0, 0, 0, 0], [8, 0x07, 0, 0x55, 0, 1], [10, 0x233, 0, 0, 0, 0],
        [3, 0x3, 0x7, 0x7, 0, 1], [15, 0x4599, 0, 0, 0, 0],
        [8, 0x31, 0, 0, 0, 0], [9, 0x119, 0, 0, 0, 0], [32, 0x1EDC6F41, 0, 0, 0, 0], [16, 0x3D65, 0, 0xFFFF, 0, 0],
        [12, 0xF13, 0, 0, 0, 0], [24, 0x5D6DCB, 0, 0, 0, 0], [10, 0x3D9, 0, 0, 0, 0], [5, 0x09, 0, 0, 0, 0]]
CODES = [(7, 4), (13, 9), (15, 11), (16, 11), (17, 12), (20, 8), (16, 7)]
TOK_NAMES_REQ = ["request-id", "interval", "oneshot-trigger", "ret-info", "ret-info", "ret-info", "trg-condition", "no-such-token", 0x50, 0x51, 0x52, 0x53, 0x22]
TOK_NAMES_ANS = ["request-id", "result", "result", "result", "info-time", "speed-hor", "no-such-token", 0x37, 0x38, 0x39, 0x22]
ATTR_KEYS = ["result-code", "ret-info-accuracy", "ret-info-no-req-id", "ret-info-time", "no-such-attribute", 0x22, 0x23, 0x50, 0x51, 0x52, 0x54, 0x55, 0x99]
ATTR_VALS = [None, 0, 0x49, 5, 7, 200]
# values of CrcMasks (etsi/layer2/elements/crc_masks.py); the worker looks the member up BY VALUE, so a changed table shows
MASK_VALUES = [26985, 9868950, 10066329, 42405, 43690, 52428, 13107, 240, 511, 271, 122]
GPS_DATES = ["290224", "290200", "290226", "280200", "311299", "010100", "311226", "310426", "320126", "011326", "000000", "010170", "150638", "290296", "300900"]
TMS = ["0003d00001", "00021f00", "00049f009520", "000de001019544610068006f006a00", "0002d000", "00039f0005", "0005e000056100", "0004d0020a0b", "00065f0201029f3f"]


_SCAN = []


def scan_rows():
    """the AST inventory of the source as it is now (tools/scan_state.py), computed once per run (the tree must not change under a
    run anyway: c19.source_fingerprint)"""
    if not _SCAN:
        spec = importlib.util.spec_from_file_location("scan_state", os.path.join(VERIF, "tools", "scan_state.py"))
        mod = importlib.util.module_from_spec(spec)
        spec.loader.exec_module(mod)
        _SCAN.append([tuple(x) for x in mod.scan()])
    return _SCAN[0]


def add_model_entry_points(ep, h):
    """h: helper namespace of c19.py (B, BL, X, XA, I, S, N, rbits, rhex, flip_hex)"""
    B, BL, X, XA, I, S, rbits, rhex = h["B"], h["BL"], h["X"], h["XA"], h["I"], h["S"], h["rbits"], h["rhex"]

    def data(r, cfg=None, le=True):
        n = r.choice([0, 1, 7, 8, 9, 16, 24, 40, 72, 80, 96, 100])
        if cfg and cfg[4]:
            n = n // 8 * 8
        s = rbits(r, n)
        return BL(s) if (le and r.random() < 0.2) else B(s)

    def cfg_args(r):
        c = r.choice(CFGS)
        return [["l", [I(x) for x in c]], I(r.randrange(2)), data(r, c)]

    def ham(r, which):
        i = r.randrange(7 if which != "cac" else 5)  # index into the worker's list of code classes (Golay / QR have no repair)
        n, k = CODES[i]
        ln = k if which == "gen" else n
        if r.random() < 0.05:
            ln = r.choice([0, ln - 1, ln + 1])
        return [I(i), B(rbits(r, ln))]

    def tok(r):
        req = r.randrange(2)
        name = r.choice(TOK_NAMES_REQ if req else TOK_NAMES_ANS)
        keys = []
        for _ in range(r.choice([0, 0, 1, 1, 1, 2, 2, 3])):
            k = r.choice(ATTR_KEYS)
            if k not in keys:
                keys.append(k)
        attrs = [["l", [S(k) if isinstance(k, str) else I(k), (["n"] if (v := r.choice(ATTR_VALS)) is None else I(v))]] for k in keys]
        return [I(req), S(name) if isinstance(name, str) else I(name), ["l", attrs]]

    ep("m.crc.shared", "model", ["crc"], lambda r: [I(r.randrange(4)), data(r)])
    ep("m.crc.new", "model", ["crc"], cfg_args)
    ep("m.crc.kept", "model", ["crc"], cfg_args)
    ep("m.ham.gen", "model", ["matrices"], lambda r: ham(r, "gen"))
    ep("m.ham.check", "model", ["matrices"], lambda r: ham(r, "check"))
    ep("m.ham.cac", "model", ["matrices"], lambda r: ham(r, "cac"))
    ep("m.fivebit", "model", [], lambda r: [X(rhex(r, r.choice([9, 9, 0, 3, 10])))])
    ep("m.byteswap", "model", [], lambda r: [XA(rhex(r, r.choice([0, 1, 2, 3, 4, 9, 34])))])
    for d in ("burst", "csbk", "dh", "so", "rcp"):
        ep(f"m.default.{d}", "model", ["defaults"], lambda r: [])
    def parts(r):
        h = rhex(r, r.choice([10, 10, 16, 12, 1, 0]))
        bits = "".join(f"{x:08b}" for x in bytes.fromhex(h))
        data = r.choice([X, X, XA, lambda _: B(bits), lambda _: B(bits), lambda _: BL(bits)])(h)
        sn = r.randrange(128) if r.random() < 0.9 else r.choice([128, 200, 255])
        c32 = r.choice([["n"], ["n"], X(rhex(r, 4)), X(rhex(r, 4)), X(rhex(r, 3)), X(rhex(r, 5))])
        return [data, I(sn), I(r.choice(MASK_VALUES)), c32]

    ep("m.crc9parts", "model", ["crc"], parts)
    ep("m.gpsdate", "model", [], lambda r: [S(r.choice(GPS_DATES) if r.random() < 0.5 else f"{r.randrange(1, 32):02d}{r.randrange(1, 13):02d}{r.randrange(100):02d}")])
    ep("m.gettoken", "model", ["lrrp"], tok)
    ep("m.tms", "model", [], lambda r: [X(h["flip_hex"](r, t) if r.random() < 0.2 else t) if (t := r.choice(TMS)) else X(""), I(r.randrange(2))])


def _bits(e):
    return (e[1] or "-"), ("1" if e[0] == "bl" else "0")


def _key(e):
    return ("s:" + e[1]) if e[0] == "s" else f"n:{e[1]}"


def _plain(e):
    """a buffer the caller holds and re-uses (["h", slot, enc]) is, for the model, the value it holds at the call"""
    if e[0] in ("h", "k"):
        return _plain(e[2])
    if e[0] == "l":
        return ["l", [_plain(x) for x in e[1]]]
    if e[0] == "d":
        return ["d", [[_plain(k), _plain(v)] for k, v in e[1]]]
    return e


def _in_domain(e, tags):
    """the argument is of a kind the line protocol can express (the variants of c19.arg_variants mostly are not)"""
    t = e[0]
    if t not in tags:
        return False
    if t in ("b", "bl"):
        return isinstance(e[1], str) and not set(e[1]) - set("01")
    if t == "i":
        return isinstance(e[1], int) and not isinstance(e[1], bool) and e[1] >= 0
    if t == "s":
        # the line protocol is split at blanks, attributes at '='
        return isinstance(e[1], str) and e[1] != "" and not any(ch.isspace() or ch == "=" for ch in e[1])
    if t in ("x", "xa"):
        return isinstance(e[1], str)
    if t == "l":
        return all(_in_domain(x, tags) for x in e[1])
    return True


def line_of(spec, py_result=None):
    """the driver line of a modelled call (without the S./P. prefix); None if the call is outside the model's domain"""
    name, a = spec["ep"], [_plain(x) for x in spec["a"]]
    if name.startswith("m.crc."):
        if not all(_in_domain(x, ("b", "bl", "i", "l")) for x in a) or a[-1][0] not in ("b", "bl"):
            return None
        if name != "m.crc.shared" and (a[0][0] != "l" or len(a[0][1]) != 6 or a[1][0] != "i" or a[1][1] not in (0, 1)):
            return None
        if name == "m.crc.shared" and (a[0][0] != "i" or a[0][1] >= 4):
            return None
    elif name.startswith("m.ham."):
        # the block codes are modelled on the 0/1 values; the bit order of the container is not an input of the model
        if len(a) != 2 or not _in_domain(a[0], ("i",)) or not _in_domain(a[1], ("b",)) or a[0][1] >= (5 if name == "m.ham.cac" else 7):
            return None
    elif name == "m.fivebit":
        if not _in_domain(a[0], ("x",)):
            return None
    elif name == "m.byteswap":
        if not _in_domain(a[0], ("xa",)):
            return None
    elif name == "m.gettoken":
        if not (_in_domain(a[0], ("i",)) and a[0][1] in (0, 1) and _in_domain(a[1], ("s", "i")) and a[2][0] == "l"
                and all(p[0] == "l" and len(p[1]) == 2 and _in_domain(p[1][0], ("s", "i")) and (p[1][1][0] == "n" or _in_domain(p[1][1], ("i",))) for p in a[2][1])):
            return None
    elif name == "m.tms":
        if not (_in_domain(a[0], ("x",)) and _in_domain(a[1], ("i",))):
            return None
    elif name == "m.crc9parts":
        if len(a) != 4 or a[0][0] not in ("x", "xa", "mv", "mva", "b", "bl", "fb", "fbl") or not isinstance(a[0][1], str):
            return None
        if a[0][0] in ("b", "bl", "fb", "fbl") and (set(a[0][1]) - set("01") or len(a[0][1]) % 8):
            return None  # a bit array that does not fill its last octet: the pad bits of its buffer are unspecified
        if not (_in_domain(a[1], ("i",)) and _in_domain(a[2], ("i",)) and a[2][1] in MASK_VALUES):
            return None
        if not (a[3][0] == "n" or (a[3][0] in ("x", "xa") and isinstance(a[3][1], str) and a[3][1] != "")):
            return None
    elif name == "m.gpsdate":
        if len(a) != 1 or a[0][0] != "s" or not isinstance(a[0][1], str) or len(a[0][1]) != 6 or set(a[0][1]) - set("0123456789"):
            return None
    elif name == "m.element":
        if len(a) != 2 or not _in_domain(a[0], ("s",)) or not _in_domain(a[1], ("i",)):
            return None
    if name == "m.crc.shared":
        d, le = _bits(a[1])
        return f"crc.shared {a[0][1]} {d} {le}"
    if name in ("m.crc.new", "m.crc.kept"):
        c = [x[1] for x in a[0][1]]
        d, le = _bits(a[2])
        return f"{name[2:]} {c[0]} {c[1]} {c[2]} {c[3]} {c[4]} {c[5]} {a[1][1]} {d} {le}"
    if name in ("m.ham.gen", "m.ham.check", "m.ham.cac"):
        return f"{name[2:]} {a[0][1]} {_bits(a[1])[0]}"
    if name == "m.fivebit":
        return f"fivebit {a[0][1] or '-'}"
    if name == "m.byteswap":
        return f"byteswap {a[0][1] or '-'}"
    if name.startswith("m.default."):
        return name[2:]
    if name == "m.crc9parts":
        t = a[0][0]
        form = "o" if t in ("x", "xa", "mv", "mva") else ("l" if t in ("bl", "fbl") else "b")
        bits = "".join(f"{x:08b}" for x in bytes.fromhex(a[0][1])) if form == "o" else a[0][1]
        return f"crc9parts {form} {bits or '-'} {a[1][1]} {a[2][1]} {'none' if a[3][0] == 'n' else a[3][1]}"
    if name == "m.gpsdate":
        d = a[0][1]
        return f"gpsdate {int(d[0:2])} {int(d[2:4])} {int(d[4:6])}"
    if name == "m.element":
        return f"element {a[0][1]} {a[1][1]}"
    if name == "m.gettoken":
        attrs = " ".join(f"{_key(p[1][0])}={'none' if p[1][1][0] == 'n' else p[1][1][1]}" for p in a[2][1])
        return f"gettoken {a[0][1]} {_key(a[1])}" + (" " + attrs if attrs else "")
    if name == "m.tms":
        # the model takes the fields the Python object ended up with (header octet and the octets after it)
        if not py_result or not py_result.startswith("x:"):
            return None
        parts = py_result.split(" ")
        raw = bytes.fromhex(parts[0][2:]) if parts[0][2:] != "-" else b""
        hdr = [p for p in parts if p.startswith("hdr:")]
        if len(raw) < 3 or not hdr:
            return None
        flags, ty = hdr[0][4:].split(":")
        more = raw[2] >> 7
        return f"tms {more} {flags[0]} {flags[1]} {flags[2]} {ty} {raw[3:].hex() or '-'}"
    return None


def expected_of(spec, py_result):
    """what the model must print for the Python result"""
    if spec["ep"] == "m.tms" and py_result.startswith("x:"):
        parts = py_result.split(" ")
        # the second as_bytes of the kept object must equal the first (idempotent rewrite of the header flag)
        if parts[0] != parts[1]:
            return "PYTHON-AS_BYTES-NOT-IDEMPOTENT " + py_result
        body = parts[0][2:][6:] or "-"
        return f"{parts[0]} args:{body}"
    return py_result


def _unq(res0):
    try:
        v = json.loads(res0)
        return v if isinstance(v, str) else None
    except Exception:
        return None


def model_lines(ctx, pool, ref, histories, resp, clocks=None):
    """correspondence pairs: component -> [(driver line, what the implementation answered)]
    clocks: {year the clock showed at import: {call key: result of the call made first under that clock}}"""
    out = {}

    def key_of(spec):
        return json.dumps(spec, sort_keys=True)

    # (1) history-free model == the call executed first in a fresh interpreter
    pairs = []
    for nm in sorted(pool):
        if not nm.startswith("m."):
            continue
        for s in pool[nm]:
            py = _unq(ref[key_of(s)][0])
            if py is None:
                continue
            ln = line_of(s, py)
            if ln is not None:
                pairs.append(("P." + ln, expected_of(s, py)))
    out["history-free-model"] = pairs
    # (2) the state machine along the real histories: every modelled call of a history, in order, then the invariant
    pairs = []
    budget = (120000 if ctx.thorough() else 6000) * min(max(1, ctx.boost), 2)
    for (label, calls), rr in zip(histories, resp):
        if len(pairs) > budget or "r" not in rr:
            continue
        ms = [(s, res) for s, res in zip(calls, rr["r"]) if s["ep"].startswith("m.")]
        if not ms:
            continue
        pairs.append(("reset", "ok"))
        for s, res in ms:
            py = _unq(res[0])
            if py is None:
                continue
            ln = line_of(s, py)
            if ln is not None:
                pairs.append(("S." + ln, expected_of(s, py)))
        pairs.append(("inv", "1"))
    out["state-machine-along-histories"] = pairs
    # (2b) the same calls in interpreters whose wall clock, at import, showed another century / year / month: the model is told
    # the clock (`clock <year>` sets S.importClock) and must answer what the Python answered under it
    pairs = []
    for year in sorted(clocks or {}):
        pairs.append((f"clock {year}", "ok"))
        for nm in sorted(pool):
            if not nm.startswith("m."):
                continue
            for s in pool[nm]:
                got = (clocks[year] or {}).get(key_of(s))
                py = _unq(got) if got is not None else None
                if py is None:
                    continue
                ln = line_of(s, py)
                if ln is not None:
                    pairs.append(("S." + ln, expected_of(s, py)))
    if pairs:
        pairs.append(("reset", "ok"))
    out["import-clock"] = pairs
    # (3) the inventory compiled into the model == the inventory of the source as it is now
    rows = scan_rows()
    pairs = [("inventory.count", str(len(rows)))] + [(f"inventory.item {i}", " | ".join(r)) for i, r in enumerate(rows)]
    out["inventory"] = pairs
    ctx.count("inventory:items", len(rows))
    return out
