def model_lines(ctx, pool, ref, histories, resp):
    return {}
