"""
Shared machinery of every check: the run context (seed, tier, counters, evidence), the Lean stage
(translator -> lake build -> axiom audit -> forbidden-token scan), the model driver (line protocol),
the verdict logic (known findings, VIOLATION lines, replay files, exit codes).

Exit codes: 0 property held on everything explored (KNOWN-FINDING lines allowed), 1 violation,
2 infrastructure error (never reported as a violation).
"""
import fcntl
import hashlib
import json
import os
import random
import re
import subprocess
import sys
import time
import traceback

VERIF = os.path.dirname(os.path.dirname(os.path.abspath(__file__)))
LEAN = os.path.join(VERIF, "lean")
GEN = os.path.join(LEAN, "DmrVerif", "Gen")
EVIDENCE = os.path.join(VERIF, "evidence")
REPLAYS = os.path.join(VERIF, "replays")
RUN = os.path.join(VERIF, ".run")
KNOWN = os.path.join(VERIF, "KNOWN_FINDINGS.txt")
BASELINE = os.path.join(VERIF, "harness", "gen_baseline.json")
BIN = os.path.join(LEAN, ".lake", "build", "bin")
PY = "/venv/bin/python"

ALLOWED_AXIOMS = {"propext", "Classical.choice", "Quot.sound"}
FORBIDDEN = re.compile(
    r"\b(sorry|admit|native_decide|bv_decide|implemented_by|unsafe)\b|^\s*axiom\s|maxHeartbeats\s+0\b"
)


class Infra(Exception):
    """infrastructure failure: exit 2, never a violation"""


def strip_lean_comments(src: str) -> str:
    # block comments (possibly nested) and line comments
    out = []
    i = 0
    depth = 0
    n = len(src)
    while i < n:
        if src.startswith("/-", i):
            depth += 1
            i += 2
        elif depth and src.startswith("-/", i):
            depth -= 1
            i += 2
        elif depth:
            if src[i] == "\n":
                out.append("\n")
            i += 1
        elif src.startswith("--", i):
            while i < n and src[i] != "\n":
                i += 1
        else:
            out.append(src[i])
            i += 1
    return "".join(out)


class Lock:
    def __init__(self, path):
        self.path = path

    def __enter__(self):
        os.makedirs(os.path.dirname(self.path), exist_ok=True)
        self.f = open(self.path, "w")
        fcntl.flock(self.f, fcntl.LOCK_EX)
        return self

    def __exit__(self, *a):
        fcntl.flock(self.f, fcntl.LOCK_UN)
        self.f.close()


def sh(cmd, cwd=None, timeout=3600, env=None, input=None):
    e = dict(os.environ)
    if env:
        e.update(env)
    p = subprocess.run(
        cmd, cwd=cwd, env=e, input=input, capture_output=True, text=True, timeout=timeout
    )
    return p.returncode, p.stdout, p.stderr


class Ctx:
    def __init__(self, prop_id: str, tier: str, seed: int):
        self.prop = prop_id
        self.tier = tier
        self.seed = seed
        self.rng = random.Random(f"{prop_id}:{seed}")
        self.t0 = time.time()
        self.evaluations = 0
        self._distinct = set()
        self.samples = []
        self.hist = {}
        self.rule = ""
        self.exhaustive = False
        self.failures = []  # oracle failures on the real code: dict(kind, input, expected, actual, what)
        self.disagreements = []  # model vs implementation: dict(component, line, impl, model)
        self.known_printed = []
        self.lean = {
            "obligations": [],
            "discharged": [],
            "failed": [],
            "axioms": {},
            "gen": {},
            "build_ok": None,
            "build_log": "",
            "extract_errors": [],
        }
        self.notes = []
        self.assumptions = []
        self.trusted_base = []
        self.checker_cmd = ""
        self.corr_lines = 0
        self.driver_ok = True
        self.drift = []  # 'file::function' whose normalised AST differs from the committed baseline
        self.uncovered = []  # new statements of changed functions that this run never executed
        self.one_sided = []  # conditions inside new statements that always went the same way
        self.matchers = {}  # the property module's MATCHERS (set by check.py before run)
        self._known = None
        self._unlisted = 0  # failures so far that no known finding accounts for
        self.anchor_coverage = None  # statement coverage of the anchored functions (drift.AnchorCoverage.summary)
        self.crash = None  # traceback when the harness itself raised while driving changed code
        self.search_only = False
        self.boost = 1  # multiplied when the proof/correspondence broke: failing-input search budget

    # ---- bookkeeping -----------------------------------------------------------------------
    def thorough(self) -> bool:
        return self.tier == "thorough"

    def budget(self, quick: int, thorough: int) -> int:
        return (thorough if self.thorough() else quick) * self.boost

    def count(self, key: str, n: int = 1):
        self.hist[key] = self.hist.get(key, 0) + n

    def case(self, desc, nontrivial: bool = True, sample=None):
        """register one explored case; desc must identify it (used for the distinct count)"""
        self.evaluations += 1
        if nontrivial:
            h = hashlib.blake2b(repr(desc).encode(), digest_size=8).digest()
            self._distinct.add(h)
        if sample is not None and len(self.samples) < 12:
            self.samples.append(sample)

    def fail(self, kind: str, input, what: str, expected=None, actual=None):
        rec = {"kind": kind, "input": input, "what": what, "expected": expected, "actual": actual}
        self.failures.append(rec)
        # hundreds of failing inputs that no known finding accounts for: the verdict is settled, and on some
        # changes every further case costs a shrink.  Stop the search (check.py catches Enough).
        if self._known is None:
            self._known = load_known(self.prop)
        for k in self._known:
            fn = self.matchers.get(k["match"])
            try:
                if fn is not None and fn(rec):
                    return
            except Exception:
                pass
        self._unlisted += 1
        if self._unlisted >= ENOUGH:
            raise Enough()

    def driver_target(self) -> str:
        return f"drv_{self.prop.lower()}"

    # ---- Lean stage ------------------------------------------------------------------------
    def lean_stage(self, prop_modules, gen_names=None, clean=False):
        """translator -> lake build of the property's modules (and the driver) -> axiom audit"""
        os.makedirs(RUN, exist_ok=True)
        self._closure_files = self._import_closure(prop_modules)
        with Lock(os.path.join(RUN, "lake.lock")):
            self._extract(gen_names)
            self._build(prop_modules, clean)
            if self.lean["build_ok"]:
                self._audit(prop_modules)
        self._scan_forbidden(prop_modules)
        self.checker_cmd = (
            "cd lean && lake build "
            + " ".join(f"DmrVerif.Props.{m}" for m in prop_modules)
            + f" {self.driver_target()} && lake env lean DmrVerif/Audit/<prop>.lean  (#print axioms of every theorem)"
            + ("; lake env leanchecker <modules>" if self.thorough() else "")
        )

    def _extract(self, gen_names):
        """Regenerate EVERY table from /repo (about 4 s), then keep the verdict-relevant part: the Gen
        modules in the import closure of this property's theorems and driver (plus any listed in GEN).
        A property module's GEN list is therefore advisory; a stale or incomplete list cannot leave a
        table this property depends on un-regenerated, and a table that only other properties use
        cannot break this property's run."""
        cmd = [PY, os.path.join(VERIF, "tools", "extract.py")]
        rc, out, err = sh(cmd, timeout=600)
        try:
            with open(BASELINE) as f:
                base = json.load(f)
        except FileNotFoundError:
            base = {}
        needed = set(gen_names or [])
        for rel in self._closure_files:
            m = re.match(r"DmrVerif/Gen/(\w+)\.lean$", rel.replace(os.sep, "/"))
            if m:
                needed.add(m.group(1))
        self.lean["gen_needed"] = sorted(needed)
        for line in out.splitlines():
            parts = line.split(" ", 2)
            if parts[0] == "ERROR":
                if len(parts) > 1 and parts[1] in needed:
                    self.lean["extract_errors"].append(line)
                continue
            if len(parts) == 3:
                name, digest, state = parts
                if name in needed:
                    self.lean["gen"][name] = {
                        "sha256": digest,
                        "baseline": base.get(name) == digest,
                    }
        if rc not in (0, 3):
            raise Infra(f"extract.py failed rc={rc}: {err[-2000:]}")

    def gen_differs(self) -> bool:
        return bool(self.lean["extract_errors"]) or any(
            not g["baseline"] for g in self.lean["gen"].values()
        )

    def _build(self, prop_modules, clean):
        targets = [f"DmrVerif.Props.{m}" for m in prop_modules] + [self.driver_target()]
        if clean:
            # rebuild the property modules from clean: remove their build products
            for m in prop_modules:
                for ext in ("olean", "ilean", "trace", "hash", "olean.hash", "ilean.hash"):
                    p = os.path.join(
                        LEAN, ".lake", "build", "lib", "lean", "DmrVerif", "Props", f"{m}.{ext}"
                    )
                    if os.path.exists(p):
                        os.remove(p)
        t = time.time()
        rc, out, err = sh(["lake", "build"] + targets, cwd=LEAN, timeout=7200)
        self.lean["build_s"] = round(time.time() - t, 1)
        self.lean["build_ok"] = rc == 0
        self.lean["build_log"] = (out + err)[-20000:]

    def theorems_of(self, module):
        path = os.path.join(LEAN, "DmrVerif", "Props", f"{module}.lean")
        src = strip_lean_comments(open(path, encoding="utf-8").read())
        ns = []
        names = []
        for line in src.splitlines():
            m = re.match(r"\s*namespace\s+(\S+)", line)
            if m:
                ns.append(m.group(1))
                continue
            m = re.match(r"\s*end\s+(\S+)", line)
            if m and ns and ns[-1] == m.group(1):
                ns.pop()
                continue
            m = re.match(r"\s*(?:@\[[^\]]*\]\s*)?(?:private\s+|protected\s+)?theorem\s+(\S+)", line)
            if m:
                names.append((".".join(ns + [m.group(1)]), line))
        return names

    def _audit(self, prop_modules):
        os.makedirs(os.path.join(LEAN, "DmrVerif", "Audit"), exist_ok=True)
        for m in prop_modules:
            thms = [n for n, _ in self.theorems_of(m)]
            path = os.path.join(LEAN, "DmrVerif", "Audit", f"{m}.lean")
            body = f"-- GENERATED by harness/common.py: axiom audit of Props/{m}.lean\nimport DmrVerif.Props.{m}\n"
            body += "".join(f"#print axioms {t}\n" for t in thms)
            old = open(path).read() if os.path.exists(path) else None
            if old != body:
                with open(path, "w") as f:
                    f.write(body)
            rc, out, err = sh(["lake", "env", "lean", path], cwd=LEAN, timeout=3600)
            if rc != 0:
                raise Infra(f"audit of {m} failed: {(out + err)[-2000:]}")
            text = out.replace("\n  ", " ").replace("\n ", " ")
            seen = {}
            for mm in re.finditer(r"'([^']+)' depends on axioms: \[([^\]]*)\]", text):
                seen[mm.group(1)] = [a.strip() for a in mm.group(2).split(",") if a.strip()]
            for mm in re.finditer(r"'([^']+)' does not depend on any axioms", text):
                seen[mm.group(1)] = []
            for t in thms:
                self.lean["obligations"].append(t)
                ax = seen.get(t)
                if ax is None:
                    self.lean["failed"].append((t, "no #print axioms output"))
                    continue
                self.lean["axioms"][t] = ax
                bad = [a for a in ax if a not in ALLOWED_AXIOMS]
                if bad:
                    self.lean["failed"].append((t, f"depends on non-standard axioms {bad}"))
                else:
                    self.lean["discharged"].append(t)

    def _import_closure(self, prop_modules):
        """source files the property's theorems and driver transitively import (within lean/)"""
        todo = [os.path.join("DmrVerif", "Props", f"{m}.lean") for m in prop_modules]
        todo.append(os.path.join("Drv", f"{self.prop}.lean"))
        seen = []
        while todo:
            rel = todo.pop()
            if rel in seen:
                continue
            path = os.path.join(LEAN, rel)
            if not os.path.exists(path):
                continue
            seen.append(rel)
            for line in open(path, encoding="utf-8"):
                m = re.match(r"\s*(?:public\s+)?import\s+((?:DmrVerif|Drv)\.[\w.]+)", line)
                if m:
                    todo.append(m.group(1).replace(".", os.sep) + ".lean")
        return sorted(seen)

    def _scan_forbidden(self, prop_modules=None):
        hits = []
        files = self._import_closure(prop_modules or [])
        self.lean["sources"] = files
        for rel in files:
            p = os.path.join(LEAN, rel)
            src = strip_lean_comments(open(p, encoding="utf-8").read())
            for i, line in enumerate(src.splitlines(), 1):
                if FORBIDDEN.search(line):
                    hits.append(f"{rel}:{i}: {line.strip()[:120]}")
        self.lean["forbidden_hits"] = hits
        if hits:
            raise Infra("forbidden tokens in Lean sources: " + "; ".join(hits[:5]))

    def leanchecker(self, prop_modules):
        mods = [f"DmrVerif.Props.{m}" for m in prop_modules]
        with Lock(os.path.join(RUN, "lake.lock")):
            rc, out, err = sh(["lake", "env", "leanchecker"] + mods, cwd=LEAN, timeout=7200)
        self.lean["leanchecker_rc"] = rc
        if rc != 0:
            raise Infra(f"leanchecker failed: {(out + err)[-2000:]}")

    def failing_theorems(self):
        """map error locations of the build log to theorem names of Props files"""
        out = []
        for mm in re.finditer(r"error: (DmrVerif/\S+\.lean):(\d+):\d+: (.*)", self.lean["build_log"]):
            out.append({"file": mm.group(1), "line": int(mm.group(2)), "message": mm.group(3)[:300]})
        return out

    # ---- model driver ----------------------------------------------------------------------
    def drive(self, lines):
        """pipe lines through the compiled Lean model; returns one output line per input line"""
        if not lines:
            return []
        exe = os.path.join(BIN, self.driver_target())
        if not os.path.exists(exe):
            raise Infra("model driver is not built")
        data = "\n".join(lines) + "\n"
        rc, out, err = sh([exe], input=data, timeout=7200)
        res = out.split("\n")
        if res and res[-1] == "":
            res.pop()
        if rc != 0 or len(res) != len(lines):
            raise Infra(f"driver rc={rc}, {len(res)} outputs for {len(lines)} lines: {err[-500:]}")
        self.corr_lines += len(lines)
        return res

    def correspond(self, component: str, pairs):
        """pairs: list of (line, impl_output).  Runs the model on the lines and records differences."""
        lines = [p[0] for p in pairs]
        outs = self.drive(lines)
        bad = 0
        for (line, impl), model in zip(pairs, outs):
            if impl != model:
                bad += 1
                if len(self.disagreements) < 50:
                    self.disagreements.append(
                        {"component": component, "line": line, "impl": impl, "model": model}
                    )
        self.count(f"corr:{component}", len(lines))
        if bad:
            self.count(f"corr-diff:{component}", bad)
        return bad


# ---- known findings ----------------------------------------------------------------------------
ENOUGH = 400


class Enough(BaseException):
    """raised by Ctx.fail once ENOUGH unlisted failing inputs are recorded (BaseException: the harness modules
    catch Exception around calls of the real code)"""


def load_known(prop_id):
    known = []
    if not os.path.exists(KNOWN):
        return known
    for line in open(KNOWN, encoding="utf-8"):
        line = line.strip()
        if not line.startswith("known:"):
            continue
        fields = dict(re.findall(r"(\w+)=(\S+)", line.split(" what=")[0]))
        what = line.split(" what=", 1)[1] if " what=" in line else ""
        if fields.get("property") == prop_id:
            known.append({"id": fields.get("id"), "match": fields.get("match"), "what": what})
    return known


def impl_error(e: BaseException) -> str:
    """canonical error kind of an exception raised by the real code"""
    return "ERR " + type(e).__name__


# ---- verdict -----------------------------------------------------------------------------------
def finish(ctx: Ctx, matchers=None, level="proof"):
    """classify, write evidence and replay files, print the verdict lines, return the exit code"""
    matchers = matchers or {}
    known = load_known(ctx.prop)
    os.makedirs(EVIDENCE, exist_ok=True)
    os.makedirs(REPLAYS, exist_ok=True)
    violations = []
    known_hits = {}
    for f in ctx.failures:
        hit = None
        for k in known:
            fn = matchers.get(k["match"])
            try:
                if fn is not None and fn(f):
                    hit = k
                    break
            except Exception:
                pass
        if hit:
            known_hits.setdefault(hit["id"], [hit, 0])[1] += 1
        else:
            violations.append(f)

    proof_broken = []
    if ctx.lean["build_ok"] is False:
        proof_broken.append(
            {"what": "lake build of the property theorems failed", "errors": ctx.failing_theorems()[:20]}
        )
    for t, why in ctx.lean["failed"]:
        proof_broken.append({"what": f"theorem {t}: {why}"})
    for e in ctx.lean["extract_errors"]:
        proof_broken.append({"what": f"translator could not read the table: {e}"})
    coverage_gaps = [
        {"what": "correspondence does not reach changed code: new statement never executed by this run "
                 "(the model was not compared with the code on any input that takes it)",
         "file": u["file"], "function": u["qualname"], "line": u["line"], "source": u["src"]}
        for u in ctx.uncovered[:40]
    ] + [
        {"what": "correspondence does not exercise changed code both ways: a condition inside a new statement "
                 "was evaluated but always went the same way (the model was never compared with the code on an "
                 "input taking the other branch)",
         "file": u["file"], "function": u["qualname"], "line": u["line"], "source": u["src"]}
        for u in ctx.one_sided[:40]
    ]

    if getattr(ctx, "crash", None):
        coverage_gaps.append(
            {"what": "the correspondence / oracle run could not be completed on the changed code: the harness raised "
                     "while driving it (sources differ from the committed baseline)",
             "traceback": ctx.crash[-3000:]})

    lines = []
    n_replay = 0

    def write_replay(obj):
        nonlocal n_replay
        n_replay += 1
        path = os.path.join(REPLAYS, f"{ctx.prop}-{ctx.seed}-{n_replay}.json")
        with open(path, "w") as fh:
            json.dump(obj, fh, indent=1, default=str)
        return os.path.relpath(path, VERIF)

    # a known finding must still be reported when the failing inputs are seen
    for kid, (k, n) in known_hits.items():
        lines.append(f"KNOWN-FINDING: property={ctx.prop} {k['what']} [{kid}; {n} failing inputs this run]")
    # known findings that are proved in Lean but were not sampled this run are reported as well
    for k in known:
        if k["id"] not in known_hits:
            lines.append(f"KNOWN-FINDING: property={ctx.prop} {k['what']} [{k['id']}; not sampled this run]")

    rc = 0
    if violations:
        rc = 1
        shown = violations[:5]
        for v in shown:
            path = write_replay(
                {
                    "property": ctx.prop,
                    "seed": ctx.seed,
                    "tier": ctx.tier,
                    "type": "failing-input",
                    "failure": v,
                    "replay_cmd": f"{PY} harness/check.py {ctx.prop} --replay <this file>",
                    "proof_or_correspondence_broken": proof_broken + coverage_gaps[:5] + ctx.disagreements[:5],
                }
            )
            lines.append(f"VIOLATION property={ctx.prop} replay={path}")
    elif proof_broken or ctx.disagreements or coverage_gaps:
        # the proof no longer covers the code and the search found no failing input
        if proof_broken and not ctx.gen_differs() and not ctx.disagreements and not ctx.lean["failed"] and not coverage_gaps:
            # tables equal the committed baseline: the Lean sources themselves are broken
            raise Infra("lake build failed although the generated tables equal the baseline:\n" + ctx.lean["build_log"][-3000:])
        rc = 1
        path = write_replay(
            {
                "property": ctx.prop,
                "seed": ctx.seed,
                "tier": ctx.tier,
                "type": "no-failing-input-found",
                "no_longer_checks": proof_broken + coverage_gaps,
                "correspondence_differences": ctx.disagreements[:20],
                "search": {"evaluations": ctx.evaluations, "histogram": ctx.hist},
            }
        )
        lines.append(f"VIOLATION property={ctx.prop} replay={path} no-failing-input-found")

    n_obl = len(ctx.lean["obligations"])
    n_dis = len(ctx.lean["discharged"])
    ev = {
        "property_id": ctx.prop,
        "tier": ctx.tier,
        "seed": ctx.seed,
        "level": level,
        "coverage": {
            "obligations": max(n_obl, 1),
            "discharged": n_dis if n_obl else 0,
            "checker_cmd": ctx.checker_cmd or "lake build",
            "trusted_base": ctx.trusted_base
            + [f"axioms used by the property theorems: {sorted({a for ax in ctx.lean['axioms'].values() for a in ax})}"],
            "theorems": ctx.lean["obligations"],
            "axioms": ctx.lean["axioms"],
            "generated_tables": ctx.lean["gen"],
            "lean_sources_scanned": ctx.lean.get("sources", []),
            "lean_build_s": ctx.lean.get("build_s"),
            "leanchecker_rc": ctx.lean.get("leanchecker_rc"),
            "evaluations": ctx.evaluations,
            "distinct_nontrivial": len(ctx._distinct),
            "rule": ctx.rule,
            "samples": ctx.samples[:12],
            "exhaustive": ctx.exhaustive,
            "correspondence_lines_compared": ctx.corr_lines,
            "correspondence_differences": len(ctx.disagreements),
            "oracle_failures": len(ctx.failures),
            "oracle_failures_matching_known_findings": sum(n for _, n in known_hits.values()),
            "source_drift": ctx.drift[:40],
            "changed_statements_never_executed": [f"{u['file']}:{u['line']} ({u['qualname']}): {u['src']}" for u in ctx.uncovered[:40]],
            "changed_conditions_one_sided": [f"{u['file']}:{u['line']} ({u['qualname']}): {u['src']}" for u in ctx.one_sided[:40]],
            "input_distribution": dict(sorted(ctx.hist.items())),
            "notes": ctx.notes,
        },
        "assumptions": ctx.assumptions,
        "wall_s": round(time.time() - ctx.t0, 2),
        "violations": len(violations) + (1 if rc == 1 and not violations else 0),
    }
    ac = getattr(ctx, "anchor_coverage", None)
    if ac:
        # measurement only: the full list goes to .run/, the evidence keeps the capped one
        full = ac.pop("_all_never_executed", None)
        ev["coverage"]["anchor_coverage"] = ac
        try:
            with open(os.path.join(RUN, f"acov-{ctx.prop}.json"), "w") as fh:
                json.dump(dict(ac, statements_never_executed=full if full is not None else ac["statements_never_executed"],
                               tier=ctx.tier, seed=ctx.seed), fh, indent=1)
        except OSError:
            pass
    with open(os.path.join(EVIDENCE, f"{ctx.prop}.json"), "w") as fh:
        json.dump(ev, fh, indent=1, default=str)
    for l in lines:
        print(l)
    if ac:
        print(f"coverage: {ac['executed']}/{ac['statements']} statements of anchored functions executed "
              f"({len(ac['functions_never_entered'])} of {ac['functions']} functions never entered)")
    print(
        f"[{ctx.prop}] tier={ctx.tier} seed={ctx.seed} theorems={n_dis}/{n_obl} "
        f"cases={ctx.evaluations} distinct={len(ctx._distinct)} corr_lines={ctx.corr_lines} "
        f"diffs={len(ctx.disagreements)} oracle_failures={len(ctx.failures)} "
        f"wall={ev['wall_s']}s exit={rc}"
    )
    return rc


def bits_str(ba) -> str:
    return "".join("1" if b else "0" for b in ba)


def hex_str(b: bytes) -> str:
    return b.hex() if len(b) else "-"
