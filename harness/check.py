#!/venv/bin/python
"""
Entry point of every quick / thorough / replay command.

  check.py Cxx [--tier quick|thorough] [--replay FILE]

Environment: VERIF_SEED (int, default 0), VERIF_TIER (quick|thorough; --tier wins).
See harness/common.py for the verdict rules and DESIGN.md §3.
"""
import importlib
import json
import os
import sys
import traceback

sys.path.insert(0, os.path.dirname(os.path.abspath(__file__)))

# The registered commands always verify /repo (the editable install in /venv imports its working
# tree).  VERIF_REPO=<dir> points a run at another checkout instead; it is used only for trials of
# seeded changes in scratch worktrees (tools/run_seeded.py), never by a registered command.
_alt = os.environ.get("VERIF_REPO")
if _alt:
    sys.path.insert(0, _alt)
    os.environ["PYTHONPATH"] = _alt + (os.pathsep + os.environ["PYTHONPATH"] if os.environ.get("PYTHONPATH") else "")

import common  # noqa: E402


def _watchdog(ctx, prop, tier):
    """A run that does not come back.  On the unchanged tree that is an infrastructure error (exit 2).  On a tree
    whose sources differ from the committed baseline, changed code that never returns control (a loop that lost
    its exit or its sleep) has kept the correspondence from being completed: reported like every other
    correspondence that no longer checks, with whatever failing inputs were found before."""
    import threading
    import time

    limit = float(os.environ.get("VERIF_WALL_LIMIT", "1800" if tier == "quick" else "14400"))

    def fire():
        time.sleep(limit)
        try:
            import drift
            changed = bool(getattr(ctx, "drift", None)) or drift.drift_any()
        except Exception:
            changed = False
        if not changed:
            print(f"INFRASTRUCTURE-ERROR property={prop}: no result after {limit:.0f} s on a tree equal to the baseline", file=sys.stderr, flush=True)
            os._exit(2)
        ctx.crash = f"the run did not finish within {limit:.0f} s: code under test did not return control (sources differ from the committed baseline)"
        ctx.notes.append(ctx.crash)
        try:
            mod = sys.modules.get(f"props.{prop.lower()}")
            rc = common.finish(ctx, getattr(mod, "MATCHERS", {}))
        except BaseException as e:
            print(f"INFRASTRUCTURE-ERROR property={prop}: watchdog could not write the verdict: {e}", file=sys.stderr, flush=True)
            rc = 2
        sys.stdout.flush()
        os._exit(rc)

    threading.Thread(target=fire, daemon=True, name="verif-watchdog").start()


def main(argv):
    if not argv:
        print(__doc__)
        return 2
    prop = argv[0].upper()
    tier = os.environ.get("VERIF_TIER", "quick")
    replay = None
    i = 1
    while i < len(argv):
        if argv[i] == "--tier":
            tier = argv[i + 1]
            i += 2
        elif argv[i] == "--replay":
            replay = argv[i + 1]
            i += 2
        else:
            i += 1
    if tier not in ("quick", "thorough"):
        tier = "quick"
    try:
        seed = int(os.environ.get("VERIF_SEED", "0"))
    except ValueError:
        seed = 0
    os.chdir(common.VERIF)
    mod = importlib.import_module(f"props.{prop.lower()}")
    if replay:
        with open(replay) as f:
            obj = json.load(f)
        return mod.replay(obj)
    ctx = common.Ctx(prop, tier, seed)
    _watchdog(ctx, prop, tier)
    try:
        ctx.lean_stage(mod.MODULES, getattr(mod, "GEN", None), clean=ctx.thorough())
        if ctx.thorough() and ctx.lean["build_ok"]:
            ctx.leanchecker(mod.MODULES)
        proof_broken = (
            not ctx.lean["build_ok"] or ctx.lean["failed"] or ctx.lean["extract_errors"]
        )
        if proof_broken:
            # the proof no longer covers the code: search the real implementation harder
            ctx.boost = 8
            ctx.notes.append("proof obligations failed: failing-input search with boosted budget")
            # the driver may still build on its own (it needs the model and tables, not the proofs)
            with common.Lock(os.path.join(common.RUN, "lake.lock")):
                rc, _, _ = common.sh(["lake", "build", ctx.driver_target()], cwd=common.LEAN, timeout=3600)
            ctx.driver_ok = rc == 0
        else:
            ctx.driver_ok = True
        import drift

        ctx.drift = drift.drift(prop, getattr(mod, "ANCHORS", ()))
        if ctx.drift:
            # auxiliary only: concentrate the search where the source changed (DESIGN §2.3)
            ctx.boost = max(ctx.boost, 4)
            ctx.notes.append("source drift against harness/anchors.json (budget x4): " + ", ".join(ctx.drift[:12]))
        # coverage obligation on changed code (DESIGN §2.3): statements of drifted functions that the
        # committed baseline does not have must be EXECUTED by this run's correspondence / oracle;
        # a new branch that no generated input reaches is code the model was never compared with
        cov = drift.Coverage(drift.new_statements(ctx.drift) if ctx.drift else [], common.RUN)
        cov.start()
        # reach on the unchanged tree (measurement only, never a verdict): which statements of the anchored functions
        # do this run's inputs execute?  thorough: always; quick: with VERIF_COVERAGE=1
        acov = None
        if ctx.thorough() or os.environ.get("VERIF_COVERAGE") == "1":
            try:
                acov = drift.AnchorCoverage(
                    drift.anchor_statements(prop, getattr(mod, "ANCHORS", ()), getattr(mod, "COVERAGE_KEEP", ())), common.RUN, tag=prop + "-")
                acov.start()
            except Exception as e:
                ctx.notes.append(f"anchor coverage not measured: {type(e).__name__}: {e}")
                acov = None
        ctx.matchers = getattr(mod, "MATCHERS", {}) or {}
        try:
            mod.run(ctx)
            if ctx.disagreements and not ctx.failures and ctx.boost < 8:
                ctx.boost = 8
                ctx.notes.append("correspondence differs: failing-input search with boosted budget")
                ctx.search_only = True
                mod.run(ctx)
        except common.Infra:
            raise
        except common.Enough:
            ctx.notes.append(f"search stopped after {common.ENOUGH} failing inputs that no known finding accounts for")
        except Exception:
            # the oracle / correspondence code itself raised.  On the unchanged tree that is a defect of the
            # harness (exit 2).  On a tree whose sources differ from the committed baseline it means the changed
            # code handed the harness something it was never written for: the correspondence could not be
            # completed, which is reported like any other correspondence that no longer checks.
            if not (proof_broken or ctx.drift or drift.drift_any()):
                raise
            ctx.crash = traceback.format_exc()
            ctx.notes.append("the harness's own oracle raised while driving changed code: correspondence incomplete")
        finally:
            cov.stop()
            if acov is not None:
                try:
                    acov.stop()
                    ctx.anchor_coverage = acov.summary()
                    acov.cleanup()
                except Exception as e:
                    ctx.notes.append(f"anchor coverage not measured: {type(e).__name__}: {e}")
        one = cov.one_sided()
        if one:
            ctx.one_sided = one
            ctx.notes.append(f"{len(one)} condition(s) in new statements of changed functions always went the same way")
        unc = cov.uncovered()
        if unc:
            ctx.uncovered = unc
            ctx.notes.append(f"{len(unc)} new statement(s) of changed functions were never executed by this run")
        elif unc is None and cov.stmts:
            ctx.notes.append("statement coverage of changed functions not measured (sys.monitoring unavailable)")
        return common.finish(ctx, getattr(mod, "MATCHERS", {}))
    except common.Infra as e:
        print(f"INFRASTRUCTURE-ERROR property={prop}: {e}", file=sys.stderr)
        return 2
    except Exception:
        traceback.print_exc()
        print(f"INFRASTRUCTURE-ERROR property={prop}: harness exception", file=sys.stderr)
        return 2


if __name__ == "__main__":
    sys.exit(main(sys.argv[1:]))
