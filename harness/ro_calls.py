"""Read-only calls that must BE read-only (round 6, class A) - shared by the stateful properties C08, C17, C18, C20.

Every object a history touches (Terminal / Timeslot / Transmission / watcher; the HSTRP / RRS, P2P and RDAC handlers;
RepeaterStorage and its Repeater records; every library object reachable from them) offers calls that are meant to
OBSERVE only: `debug()`, `repr` / `str` / `format` / `len` / `bool` / `hash` / `==` / `in` / iteration / `dir` / `vars` /
`copy.copy`, reading every attribute and property, `get_*` / `is_*` / `has_*` getters, `match_*` lookups that do not
auto-create, `all()`, the logging helpers.  A realistic change makes one of them advance a counter, consume an iterator,
prune expired entries or cache-and-freeze a value (seeded change C08-P: `Timeslot.debug()` calls
`get_rx_sequence()` whose default is to increment).

This module is the general mechanism; the property modules place it into their histories:

* `targets(label, root)`     the library objects reachable from a root (attributes, list items, dict values), by path
* `catalogue(obj, pools)`    the observer-style calls of one live object, discovered by INTROSPECTION on every run:
                             the builtin protocols (always - a change may ADD a `__repr__` / `__len__`), every public
                             method whose name says "observer" (OBSERVER_NAME) or that a person reviewed as one
                             (REVIEWED_EXTRA), in every combination "one bool parameter set explicitly", the other
                             parameters drawn from the module's pools by parameter NAME; a method with a required
                             parameter nobody can supply is skipped (counted)
* `perform(obj, spec)`       one call; returns (outcome, canonical value); never lets an exception of the library escape
* `snapshot(roots)`          identity-free canonical picture of the whole object graph below the roots plus the
                             class-level and module-level DATA of every library class met (a cache may live there);
                             positions of iterators / generators included.  The harness takes it before and after each
                             interleaved call: any difference is a failure AT that call (kind "read-only-call").
* `EXCLUDED`                 the reviewed list of calls that DO change state on the unchanged tree, each with the reason
                             (a getter whose documented job is to advance; the auto-creating form of a lookup).  Found by
                             running the comparison on the unchanged tree with VERIF_RO_NOEXCLUDE=1 (then every listed
                             call is made and reported) and reading the code of each hit.  Everything else must be neutral.
* `ddmin(seq, test)`         shortening of a failing history.

The second half of the class - a call that leaves no trace in the picture (state in a closure, an lru_cache) but changes
what LATER steps answer - is covered by the modules: the same history runs once without and once with the interleaved
calls in fresh objects; the answers of every step, the final state and a final sweep through the whole catalogue (the
observers' own answers, e.g. a getter that froze a value half-way) must be identical, and the model is only ever told the
history without the calls.
"""
import copy
import datetime as _dt
import enum
import inspect
import logging
import os
import re
import types
import uuid as _uuid

LIB = "okdmr."

# names that promise "I only look".  Anything else is called only if it is in REVIEWED_EXTRA.
OBSERVER_NAME = re.compile(
    r"^(debug|dump|describe|status|summary|stats?|info|all|items|keys|values|copy|count|size|length|peek|show|snapshot)$"
    r"|^(get|is|has|can|should|match|find|lookup|search|list|log|print|format|as|to|describe|dump|debug|show|packet_is|command_get)_"
)
# public methods without such a name that were READ and are observers by their docstring / body (class name -> names)
REVIEWED_EXTRA = {
    "Repeater": ["attr", "repeater_target_address"],  # attr(key) with value None: "read only" (its own comment); the configured target address
}
# calls that change state ON THE UNCHANGED TREE, reviewed one by one: (class, method, explicit bool flags) -> reason
EXCLUDED = {
    ("Timeslot", "get_rx_sequence", ""): "accessor whose documented job is to advance: increment defaults to True for its caller process_burst (timeslot.py)",
    ("Timeslot", "get_rx_sequence", "increment=True"): "the advancing form of the accessor, asked for explicitly",
    ("RepeaterStorage", "match_incoming", "auto_create=True"): "the auto-creating form of the lookup IS the creating operation of the storage (C20 'creates a record only on an auto-creating lookup')",
}
# parameters that switch a lookup into a writing operation are only ever given their neutral value by the pools
# (patch = {} / value = None); see the modules' `ro_pools`.

PROTO_ALWAYS = ["repr", "str", "format", "hash", "bool", "eq-self", "eq-other", "ne-other", "dir", "vars", "copy", "attrs"]
PROTO_IF = [("len", "__len__"), ("iter", "__iter__"), ("contains", "__contains__"), ("reversed", "__reversed__"), ("sizeof", "__sizeof__")]

_HEX = re.compile(r"0x[0-9a-fA-F]{6,}")


def no_exclusions() -> bool:
    return os.environ.get("VERIF_RO_NOEXCLUDE", "") not in ("", "0")


def is_lib_class(cls) -> bool:
    return getattr(cls, "__module__", "").startswith(LIB)


def is_lib_obj(x) -> bool:
    return is_lib_class(type(x)) and not isinstance(x, (enum.Enum, type))


# ------------------------------------------------------------------------------------------------ json-able arguments
def jenc(v):
    if v is None or type(v) in (bool, int, str, float):
        return v
    if isinstance(v, _uuid.UUID):
        return {"u": v.int}
    if type(v) is bytes:
        return {"x": v.hex()}
    if type(v) is bytearray:
        return {"X": v.hex()}
    if type(v) is tuple:
        return {"t": [jenc(x) for x in v]}
    if type(v) is list:
        return [jenc(x) for x in v]
    if type(v) is dict:
        return {"d": [[jenc(k), jenc(x)] for k, x in v.items()]}
    raise TypeError(f"no json form for an argument of type {type(v).__name__}")


def jdec(v):
    if isinstance(v, list):
        return [jdec(x) for x in v]
    if isinstance(v, dict):
        if "u" in v:
            return _uuid.UUID(int=v["u"])
        if "x" in v:
            return bytes.fromhex(v["x"])
        if "X" in v:
            return bytearray.fromhex(v["X"])
        if "t" in v:
            return tuple(jdec(x) for x in v["t"])
        if "d" in v:
            return {jdec(k): jdec(x) for k, x in v["d"]}
    return v


# ------------------------------------------------------------------------------------------------ canonical picture
class _Canon:
    def __init__(self):
        self.seen = {}
        self.keep = []
        self.classes = []

    def lib_class(self, cls):
        for c in cls.__mro__:
            if is_lib_class(c) and c not in self.classes:
                self.classes.append(c)

    def c(self, x, depth=0):
        t = type(x)
        if x is None:
            return "None"
        if t is bool:
            return "b:%d" % x
        if t is int:
            return x
        if t is str:
            return "s:" + x
        if t is float:
            return "f:" + repr(x)
        if t in (bytes, bytearray):
            return ("x:" if t is bytes else "X:") + bytes(x).hex()
        if isinstance(x, enum.Enum):
            return f"e:{t.__name__}.{x.name}"
        if isinstance(x, _uuid.UUID):
            return "u:" + x.hex
        if t.__name__ == "bitarray":
            return "bits:" + x.to01()
        if isinstance(x, (_dt.datetime, _dt.date, _dt.time)):
            return "dt:" + x.isoformat()
        if isinstance(x, _dt.timedelta):
            return "td:" + repr(x.total_seconds())
        if isinstance(x, logging.Logger):
            return "logger:" + x.name
        if isinstance(x, type):
            return "class:" + getattr(x, "__qualname__", str(x))
        if isinstance(x, (types.FunctionType, types.BuiltinFunctionType, types.MethodType, staticmethod, classmethod, property)):
            return "fn:" + getattr(x, "__qualname__", t.__name__)
        if depth > 14:
            return "deep:" + t.__name__
        if isinstance(x, (tuple, list)):
            return ("T" if isinstance(x, tuple) else "L", t.__name__, [self.c(v, depth + 1) for v in x])
        if isinstance(x, dict):
            if is_lib_obj(x):
                self.lib_class(t)
            return ("D", t.__name__, [(self.c(k, depth + 1), self.c(v, depth + 1)) for k, v in list(x.items())])  # insertion order is state (lookup order)
        if isinstance(x, (set, frozenset)):
            return ("S", t.__name__, sorted((self.c(v, depth + 1) for v in x), key=repr))
        if isinstance(x, types.GeneratorType):
            fr = x.gi_frame
            return ("gen", x.__qualname__, "done" if fr is None else (fr.f_lasti, [(k, self.c(v, depth + 1)) for k, v in sorted(fr.f_locals.items()) if k != "self"]))
        if hasattr(t, "__next__"):
            # an iterator held as state: where it stands (list / range / count / dict iterators tell through __reduce__ or a copy)
            try:
                red = x.__reduce__()
                return ("iter", t.__name__, self.c(red[1:], depth + 1))
            except Exception:  # noqa
                pass
            try:
                return ("iter", t.__name__, [self.c(v, depth + 1) for v in copy.copy(x)][:64])
            except Exception:  # noqa
                return "iter:" + t.__name__
        if is_lib_obj(x):
            i = self.seen.get(id(x))
            if i is not None:
                return ("ref", i)
            self.seen[id(x)] = i = len(self.seen)
            self.keep.append(x)
            self.lib_class(t)
            items = []
            d = getattr(x, "__dict__", None)
            if d is not None:
                items += sorted(d.items(), key=lambda kv: kv[0])
            for cls in t.__mro__:
                for s in getattr(cls, "__slots__", ()) or ():
                    if isinstance(s, str) and hasattr(x, s) and s not in ("__dict__", "__weakref__"):
                        items.append((s, getattr(x, s)))
            return ("obj", t.__name__, i, [(k, self.c(v, depth + 1)) for k, v in items])
        return "o:" + t.__qualname__


def _is_data(name, v) -> bool:
    if name.startswith("__") and name.endswith("__"):
        return False
    if isinstance(v, (type, types.ModuleType, types.FunctionType, types.BuiltinFunctionType, types.MethodType, staticmethod, classmethod, property, logging.Logger)):
        return False
    if type(v).__module__ in ("typing", "abc", "_abc") or callable(v):
        return False
    return True


def snapshot(roots, extra=None):
    """canonical picture of everything below `roots` (dict label -> object), of the class-level and module-level data of
    every library class met, and of `extra` (plain values the caller wants in: counters of stubs)"""
    cn = _Canon()
    out = [("root", k, cn.c(v)) for k, v in roots.items()]
    n = 0
    while n < len(cn.classes):  # class data may hold further library objects
        cls = cn.classes[n]
        n += 1
        out.append(("classdata", cls.__qualname__, [(k, cn.c(v)) for k, v in sorted(vars(cls).items()) if _is_data(k, v)]))
    mods = []
    for cls in cn.classes:
        m = inspect.getmodule(cls)
        if m is not None and m not in mods:
            mods.append(m)
    for m in mods:
        out.append(("moduledata", m.__name__, [(k, cn.c(v)) for k, v in sorted(vars(m).items()) if _is_data(k, v)]))
    if extra is not None:
        out.append(("extra", cn.c(extra)))
    return out


def first_diff(a, b, path=""):
    """where two pictures differ first (a short text)"""
    if type(a) is not type(b):
        return f"{path}: {short(a)} -> {short(b)}"
    if isinstance(a, (list, tuple)):
        if len(a) >= 2 and a[0] in ("obj", "root", "classdata", "moduledata") and isinstance(a[1], str):
            path = f"{path}/{a[1]}" if a[0] != "obj" else f"{path}<{a[1]}>"
        for i, (x, y) in enumerate(zip(a, b)):
            if x != y:
                if isinstance(x, tuple) and len(x) == 2 and isinstance(x[0], str) and isinstance(y, tuple) and len(y) == 2 and x[0] == y[0]:
                    return first_diff(x[1], y[1], f"{path}.{x[0][2:] if x[0].startswith('s:') else x[0]}")
                return first_diff(x, y, path if isinstance(x, (list, tuple)) else f"{path}[{i}]")
        if len(a) != len(b):
            return f"{path}: {len(a)} entries -> {len(b)} entries ({short(a[len(b):] if len(a) > len(b) else b[len(a):])})"
        return None
    return None if a == b else f"{path}: {short(a)} -> {short(b)}"


def short(x, n=120):
    s = repr(x)
    return s if len(s) <= n else s[: n - 3] + "..."


def canon_value(v):
    """canonical form of what an observer call returned (addresses of default reprs masked)"""
    c = _Canon().c(v)
    return _mask(c)


def _mask(c):
    if isinstance(c, str):
        return _HEX.sub("0x?", c)
    if isinstance(c, tuple):
        return tuple(_mask(x) for x in c)
    if isinstance(c, list):
        return [_mask(x) for x in c]
    return c


_STAMP = re.compile(r"\d{4}-\d\d-\d\d[ T]\d\d:\d\d:\d\d(\.\d+)?")


def mask_times(c):
    """for comparisons BETWEEN two runs: wall-clock readings (floats of the size of a Unix time, printed dates) are not state"""
    if isinstance(c, str):
        if c.startswith("f:"):
            try:
                return "f:time" if abs(float(c[2:])) >= 1e9 else c
            except ValueError:
                return c
        return _STAMP.sub("<time>", c)
    if isinstance(c, tuple):
        return tuple(mask_times(x) for x in c)
    if isinstance(c, list):
        return [mask_times(x) for x in c]
    return c


# ------------------------------------------------------------------------------------------------ reachable objects
def targets(label, root, cap=10, depth=3):
    """library objects reachable from `root`: [(path, object)], the root first; path = [label, ["a", attr] | ["i", n] | ["k", n], ...]"""
    out, seen, queue = [], set(), [([label], root, 0)]
    while queue and len(out) < cap:
        path, x, d = queue.pop(0)
        if is_lib_obj(x):
            if id(x) in seen:
                continue
            seen.add(id(x))
            out.append((path, x))
        if d >= depth:
            continue
        kids = []
        if is_lib_obj(x):
            try:
                kids = [(["a", k], v) for k, v in sorted(vars(x).items())]
            except TypeError:
                kids = []
        elif isinstance(x, (list, tuple)):
            kids = [(["i", i], v) for i, v in enumerate(x[:6])]
        elif isinstance(x, dict):
            kids = [(["k", i], v) for i, v in enumerate(list(x.values())[:6])]
        for step, v in kids:
            if is_lib_obj(v) or isinstance(v, (list, tuple, dict)):
                queue.append((path + [step], v, d + 1))
    return out


def resolve(path, roots):
    x = roots[path[0]]
    for kind, k in path[1:]:
        if kind == "a":
            x = vars(x)[k]
        elif kind == "i":
            x = x[k]
        else:
            x = list(x.values())[k]
    return x


def path_text(path):
    s = str(path[0])
    for kind, k in path[1:]:
        s += f".{k[k.find('__') + 2:] if kind == 'a' and k.startswith('_') and '__' in k[1:] else k}" if kind == "a" else f"[{k}]"
    return s


# ------------------------------------------------------------------------------------------------ discovery
def flag_text(flags) -> str:
    return ",".join(f"{k}={flags[k]}" for k in sorted(flags))


def excluded(obj, name, flags):
    if no_exclusions():
        return None
    ft = flag_text(flags)
    for cls in type(obj).__mro__:
        r = EXCLUDED.get((cls.__name__, name, ft))
        if r:
            return r
    return None


def catalogue(obj, pools, skipped=None):
    """the observer-style calls `obj` offers NOW: [[kind, name, flags]] (kind 'proto' | 'call').  `pools`: parameter name ->
    list of values a caller can supply safely.  `skipped` (a list) receives what could not be called and why."""
    t = type(obj)
    out = [["proto", p, {}] for p in PROTO_ALWAYS]
    out += [["proto", p, {}] for p, dunder in PROTO_IF if getattr(t, dunder, None) is not None and (dunder != "__sizeof__" or dunder in vars(t))]
    extra = {n for cls in t.__mro__ for n in REVIEWED_EXTRA.get(cls.__name__, ())}
    for name in sorted(dir(t)):
        if name.startswith("_"):
            continue
        st = inspect.getattr_static(t, name)
        if isinstance(st, property) or not callable(getattr(t, name, None)):
            continue  # properties and data are read by the protocol call "attrs"
        if not (OBSERVER_NAME.search(name) or name in extra):
            continue
        owner = next((c for c in t.__mro__ if name in vars(c)), t)
        if not is_lib_class(owner):
            continue  # inherited from asyncio / object: not this library's promise
        try:
            sig = inspect.signature(getattr(obj, name))
        except (TypeError, ValueError):
            continue
        bools, missing = [], []
        for p in sig.parameters.values():
            if p.kind in (p.VAR_POSITIONAL, p.VAR_KEYWORD):
                continue
            if p.default is p.empty and p.name not in pools:
                missing.append(p.name)
            if type(p.default) is bool and p.name not in pools:
                bools.append(p.name)
        if missing:
            if skipped is not None:
                skipped.append(f"{t.__name__}.{name}(needs {','.join(missing)})")
            continue
        variants = [{}] + [{b: v} for b in bools for v in (True, False)]
        for flags in variants:
            why = excluded(obj, name, flags)
            if why:
                if skipped is not None:
                    skipped.append(f"{t.__name__}.{name}({flag_text(flags)}) excluded: {why}")
                continue
            out.append(["call", name, flags])
    return out


def draw_args(obj, name, pools, rng):
    """values for the parameters the pools know (json form)"""
    args = {}
    try:
        sig = inspect.signature(getattr(obj, name))
    except (TypeError, ValueError):
        return args
    for p in sig.parameters.values():
        if p.name in pools and p.kind not in (p.VAR_POSITIONAL, p.VAR_KEYWORD):
            if p.default is p.empty or rng.random() < 0.8:
                args[p.name] = jenc(rng.choice(pools[p.name]))
    return args


def spec_text(spec):
    path, kind, name, flags, args = spec
    inner = ", ".join([f"{k}={v}" for k, v in sorted(flags.items())] + [f"{k}={short(jdec(v), 40)}" for k, v in sorted(args.items())])
    return f"{path_text(path)}.{name}({inner})" if kind == "call" else f"{name}({path_text(path)})"


class _Stranger:
    """an object of another kind to compare with"""


def perform(obj, spec, other=None):
    """one observer-style call.  Returns (outcome, canonical value): 'ok' / 'ERR <Class>'"""
    _, kind, name, flags, args = spec
    try:
        if kind == "call":
            kw = {k: jdec(v) for k, v in args.items()}
            kw.update(flags)
            r = getattr(obj, name)(**kw)
        elif name == "repr":
            r = repr(obj)
        elif name == "str":
            r = str(obj)
        elif name == "format":
            r = format(obj, "")
        elif name == "hash":
            r = hash(obj) is not None
        elif name == "bool":
            r = bool(obj)
        elif name == "eq-self":
            r = obj == obj
        elif name == "eq-other":
            r = [obj == (other if other is not None else _Stranger()), obj == None, obj == _Stranger()]  # noqa: E711
        elif name == "ne-other":
            r = [obj != (other if other is not None else _Stranger()), obj != 0]
        elif name == "dir":
            r = sorted(n for n in dir(obj) if not n.startswith("__"))  # (copyreg caches __slotnames__ on a class that was copied once: interpreter bookkeeping)
        elif name == "vars":
            r = sorted(vars(obj)) if hasattr(obj, "__dict__") else None
        elif name == "copy":
            r = type(copy.copy(obj)).__name__
        elif name == "attrs":
            r = []
            for n in sorted(dir(obj)):
                if n.startswith("__"):
                    continue
                try:
                    v = getattr(obj, n)
                except Exception as e:  # noqa
                    v = "ERR " + type(e).__name__
                if not callable(v):
                    r.append((n, v))
        elif name == "len":
            r = len(obj)
        elif name == "iter":
            r = [x for _, x in zip(range(64), iter(obj))]
        elif name == "contains":
            r = [(other in obj) if other is not None else None, None in obj, "" in obj]
        elif name == "reversed":
            r = [x for _, x in zip(range(64), reversed(obj))]
        elif name == "sizeof":
            r = obj.__sizeof__() > 0
        else:
            raise KeyError(name)
        if isinstance(r, types.GeneratorType) or (hasattr(type(r), "__next__") and not isinstance(r, (str, bytes))):
            r = [x for _, x in zip(range(64), r)]  # a view / generator handed out: looking at it is part of the call
        return "ok", canon_value(r)
    except BaseException as e:  # noqa: an observer may refuse (TypeError: unhashable ...): that is an answer, it still must not change anything
        if isinstance(e, (KeyboardInterrupt, MemoryError)):
            raise
        return "ERR " + type(e).__name__, None


def all_specs(roots, pools, rng=None, skipped=None, cap=10):
    """every call of every reachable object: [[path, kind, name, flags, args]] (args drawn with rng, or the first pool value)"""
    import random

    rng = rng or random.Random(0)
    specs = []
    for label, root in roots.items():
        for path, obj in targets(label, root, cap=cap):
            for kind, name, flags in catalogue(obj, pools, skipped):
                specs.append([path, kind, name, flags, draw_args(obj, name, pools, rng) if kind == "call" else {}])
    return specs


def sweep(roots, pools, seed=0):
    """the final look through every observer of every reachable object (both runs do it, in the same order with the same
    arguments): [[text, outcome, value]]"""
    import random

    out = []
    for spec in all_specs(roots, pools, random.Random(seed)):
        try:
            obj = resolve(spec[0], roots)
        except Exception:  # noqa
            continue
        oc, val = perform(obj, spec)
        out.append([spec_text(spec), oc, val])
    return out


def checked_sweep(roots, pools, seed=0, extra=None):
    """the final sweep, itself under the rule: (answers, masked picture afterwards, the calls made, what changed or None).
    Every history of the read-only class - with or without interleaved calls - ends with it, so EVERY call of the catalogue is made in
    the end state of every such history; if the pictures before and after differ, the caller appends the calls as explicit history
    elements (each is then checked where it is made) and shortens."""
    import random

    specs = all_specs(roots, pools, random.Random(seed))
    s0 = snapshot(roots, extra() if extra else None)
    out = []
    for spec in specs:
        try:
            obj = resolve(spec[0], roots)
        except Exception:  # noqa
            continue
        oc, val = perform(obj, spec)
        out.append([spec_text(spec), oc, val])
    s1 = snapshot(roots, extra() if extra else None)
    changed = None if s0 == s1 else (first_diff(s0, s1) or "changed")
    return mask_times([out, s1]), specs, changed


# ------------------------------------------------------------------------------------------------ shortening
def ddmin(seq, test, max_runs=120):
    """delta debugging: drop chunks of `seq` while `test(candidate)` still holds"""
    seq = list(seq)
    n, runs = 2, 0
    while len(seq) >= 2 and runs < max_runs:
        chunk = -(-len(seq) // n)
        reduced = False
        for i in range(0, len(seq), chunk):
            cand = seq[:i] + seq[i + chunk:]
            runs += 1
            if cand and test(cand):
                seq, n, reduced = cand, max(n - 1, 2), True
                break
            if runs >= max_runs:
                break
        if not reduced:
            if chunk == 1:
                break
            n = min(n * 2, len(seq))
    return seq
