"""
Drift detector (auxiliary, never a verdict): a normalised-AST hash of every function/class body in the
files a property is anchored in.  When a hash differs from the committed baseline
(harness/anchors.json) the check does not report anything by itself; it multiplies the search budget
of that run and records which functions changed, so that a one-line change in a rarely taken branch
is met by a concentrated search (DESIGN §2.3).
"""
import ast
import hashlib
import json
import os

HERE = os.path.dirname(os.path.abspath(__file__))
BASE = os.path.join(HERE, "anchors.json")


def repo_root():
    alt = os.environ.get("VERIF_REPO")
    return alt if alt else "/repo"


class _Strip(ast.NodeTransformer):
    def _strip_doc(self, node):
        self.generic_visit(node)
        if node.body and isinstance(node.body[0], ast.Expr) and isinstance(getattr(node.body[0], "value", None), ast.Constant) and isinstance(node.body[0].value.value, str):
            node.body = node.body[1:] or [ast.Pass()]
        return node

    visit_FunctionDef = _strip_doc
    visit_AsyncFunctionDef = _strip_doc
    visit_ClassDef = _strip_doc
    visit_Module = _strip_doc


def hashes_of(path):
    out = {}
    try:
        src = open(path, encoding="utf-8").read()
        tree = _Strip().visit(ast.parse(src))
    except Exception as e:  # unparsable file: one pseudo entry that will differ from the baseline
        return {"<unparsable>": hashlib.sha256(repr(e).encode()).hexdigest()[:16]}

    def walk(node, prefix):
        rest = []
        for ch in getattr(node, "body", []):
            if isinstance(ch, (ast.FunctionDef, ast.AsyncFunctionDef)):
                q = prefix + ch.name
                out[q] = hashlib.sha256(ast.dump(ch, include_attributes=False).encode()).hexdigest()[:16]
            elif isinstance(ch, ast.ClassDef):
                walk(ch, prefix + ch.name + ".")
            else:
                rest.append(ast.dump(ch, include_attributes=False))
        # everything in the body that is not a def/class: class attributes, tables, module code
        out[prefix + "<body>"] = hashlib.sha256("\n".join(rest).encode()).hexdigest()[:16]

    walk(tree, "")
    return out


def files_under(rel):
    root = repo_root()
    p = os.path.join(root, rel)
    if os.path.isdir(p):
        res = []
        for d, _, fs in os.walk(p):
            for f in sorted(fs):
                if f.endswith(".py"):
                    res.append(os.path.relpath(os.path.join(d, f), root))
        return sorted(res)
    return [rel]


def snapshot(rels):
    snap = {}
    for rel in rels:
        for f in files_under(rel):
            snap[f] = hashes_of(os.path.join(repo_root(), f))
    return snap


def anchors_of(prop_id):
    with open(os.path.join(HERE, "..", "properties.jsonl")) as f:
        for line in f:
            p = json.loads(line)
            if p["id"] == prop_id:
                return p["anchors"]["files"]
    return []


def drift(prop_id, extra=()):
    """list of 'file::qualname' whose hash differs from the committed baseline (or is new/missing)"""
    try:
        base = json.load(open(BASE))
    except FileNotFoundError:
        return []
    rels = list(anchors_of(prop_id)) + list(extra)
    cur = snapshot(rels)
    changed = []
    for f, hs in cur.items():
        b = base.get(f)
        if b is None:
            changed.append(f"{f}::<new file>")
            continue
        for q, h in hs.items():
            if b.get(q) != h:
                changed.append(f"{f}::{q}")
        for q in b:
            if q not in hs:
                changed.append(f"{f}::{q} (removed)")
    return changed


if __name__ == "__main__":
    # maintainer command: record the baseline for the whole package
    snap = snapshot(["okdmr/dmrlib"])
    snap = {f: h for f, h in snap.items() if "/tests/" not in f}
    with open(BASE, "w") as f:
        json.dump(snap, f, indent=0, sort_keys=True)
    print(f"{len(snap)} files, {sum(len(v) for v in snap.values())} hashed bodies")
