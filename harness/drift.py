"""
Drift detector (auxiliary, never a verdict): a normalised-AST hash of every function/class body in the
files a property is anchored in.  When a hash differs from the committed baseline
(harness/anchors.json) the check does not report anything by itself; it multiplies the search budget
of that run and records which functions changed, so that a one-line change in a rarely taken branch
is met by a concentrated search (DESIGN §2.3).
"""
import ast
import hashlib
import json
import os

HERE = os.path.dirname(os.path.abspath(__file__))
BASE = os.path.join(HERE, "anchors.json")


def repo_root():
    alt = os.environ.get("VERIF_REPO")
    return alt if alt else "/repo"


class _Strip(ast.NodeTransformer):
    def _strip_doc(self, node):
        self.generic_visit(node)
        if node.body and isinstance(node.body[0], ast.Expr) and isinstance(getattr(node.body[0], "value", None), ast.Constant) and isinstance(node.body[0].value.value, str):
            node.body = node.body[1:] or [ast.Pass()]
        return node

    visit_FunctionDef = _strip_doc
    visit_AsyncFunctionDef = _strip_doc
    visit_ClassDef = _strip_doc
    visit_Module = _strip_doc


def hashes_of(path):
    out = {}
    try:
        src = open(path, encoding="utf-8").read()
        tree = _Strip().visit(ast.parse(src))
    except Exception as e:  # unparsable file: one pseudo entry that will differ from the baseline
        return {"<unparsable>": hashlib.sha256(repr(e).encode()).hexdigest()[:16]}

    def walk(node, prefix):
        rest = []
        for ch in getattr(node, "body", []):
            if isinstance(ch, (ast.FunctionDef, ast.AsyncFunctionDef)):
                q = prefix + ch.name
                out[q] = hashlib.sha256(ast.dump(ch, include_attributes=False).encode()).hexdigest()[:16]
            elif isinstance(ch, ast.ClassDef):
                walk(ch, prefix + ch.name + ".")
            else:
                rest.append(ast.dump(ch, include_attributes=False))
        # everything in the body that is not a def/class: class attributes, tables, module code
        out[prefix + "<body>"] = hashlib.sha256("\n".join(rest).encode()).hexdigest()[:16]

    walk(tree, "")
    return out


# ---- statement level: which statements of a changed function are new, and are they executed? ------
_SKIP = (ast.Pass, ast.Global, ast.Nonlocal, ast.Import, ast.ImportFrom)


def _stmt_key(node):
    """hash of a statement; compound statements are hashed by their header only, so that a change in
    a nested statement does not also make the enclosing statement look new"""
    if isinstance(node, ast.If):
        d = "If:" + ast.dump(node.test, include_attributes=False)
    elif isinstance(node, ast.While):
        d = "While:" + ast.dump(node.test, include_attributes=False)
    elif isinstance(node, (ast.For, ast.AsyncFor)):
        d = "For:" + ast.dump(node.target, include_attributes=False) + ast.dump(node.iter, include_attributes=False)
    elif isinstance(node, (ast.With, ast.AsyncWith)):
        d = "With:" + "".join(ast.dump(i, include_attributes=False) for i in node.items)
    elif isinstance(node, ast.Try):
        d = "Try:" + "".join(ast.dump(h.type, include_attributes=False) if h.type else "bare" for h in node.handlers)
    elif isinstance(node, (ast.FunctionDef, ast.AsyncFunctionDef, ast.ClassDef)):
        d = type(node).__name__ + ":" + node.name
    elif isinstance(node, ast.Match):
        d = "Match:" + ast.dump(node.subject, include_attributes=False)
    else:
        d = ast.dump(node, include_attributes=False)
    return hashlib.sha256(d.encode()).hexdigest()[:12]


def _header_span(node):
    """line span of the part of a statement that is executed when the statement is reached"""
    first_child = None
    for fld in ("body",):
        b = getattr(node, fld, None)
        if isinstance(b, list) and b and isinstance(b[0], ast.stmt):
            first_child = b[0].lineno
    if isinstance(node, ast.Match) and node.cases:
        first_child = node.cases[0].pattern.lineno
    end = getattr(node, "end_lineno", node.lineno)
    if first_child is not None and first_child > node.lineno:
        end = first_child - 1
    return node.lineno, max(end, node.lineno)


def _is_docstring(node):
    return isinstance(node, ast.Expr) and isinstance(getattr(node, "value", None), ast.Constant) and isinstance(node.value.value, str)


def _stmts(fn):
    """all statements inside a function (nested blocks and nested defs included), in source order"""
    out = []

    def rec(body):
        for st in body:
            if isinstance(st, _SKIP) or _is_docstring(st):
                continue
            if isinstance(st, ast.AnnAssign) and st.value is None:
                continue
            out.append(st)
            for fld in ("body", "orelse", "finalbody"):
                b = getattr(st, fld, None)
                if isinstance(b, list) and b and isinstance(b[0], ast.stmt):
                    rec(b)
            for h in getattr(st, "handlers", []) or []:
                rec(h.body)
            for c in getattr(st, "cases", []) or []:
                rec(c.body)

    rec(fn.body)
    return out


def stmts_of(path):
    """{qualname: [(key, lineno, end_lineno_of_header)]} for every function of the file"""
    res = {}
    try:
        tree = ast.parse(open(path, encoding="utf-8").read())
    except Exception:
        return res

    def walk(node, prefix):
        for ch in getattr(node, "body", []):
            if isinstance(ch, (ast.FunctionDef, ast.AsyncFunctionDef)):
                res[prefix + ch.name] = [(_stmt_key(st),) + _header_span(st) + (type(st).__name__,) for st in _stmts(ch)]
            elif isinstance(ch, ast.ClassDef):
                walk(ch, prefix + ch.name + ".")

    walk(tree, "")
    return res


def new_statements(changed):
    """changed: the 'file::qualname' entries returned by drift().  Returns the statements of those
    functions that the committed baseline does not have (all statements for a new function):
    [{file, path, qualname, line, end, src}]"""
    try:
        base = json.load(open(BASE)).get("__stmts__", {})
    except FileNotFoundError:
        base = {}
    out = []
    by_file = {}
    for c in changed:
        f, _, q = c.partition("::")
        q = q.replace(" (removed)", "")
        if q.endswith("<body>") or q in ("<new file>", "<unparsable>"):
            if q == "<new file>":
                by_file.setdefault(f, None)  # every function of a new file
            continue
        if by_file.get(f, set()) is not None:
            by_file.setdefault(f, set()).add(q)
    for f, quals in by_file.items():
        path = os.path.realpath(os.path.join(repo_root(), f))
        cur = stmts_of(path)
        try:
            lines = open(path, encoding="utf-8").read().splitlines()
        except OSError:
            lines = []
        for q, sts in cur.items():
            if quals is not None and q not in quals:
                continue
            have = list(base.get(f, {}).get(q, []))
            for key, lo, hi, kind in sts:
                if key in have:
                    have.remove(key)
                    continue
                out.append({"file": f, "path": path, "qualname": q, "line": lo, "end": hi, "kind": kind,
                            "src": lines[lo - 1].strip()[:160] if 0 < lo <= len(lines) else ""})
    return out



# ---- value level: comparisons inside new statements whose result is used as a VALUE (no jump) ------
class _WrapCompare(ast.NodeTransformer):
    """wrap every comparison and every `not` that starts inside one of the given line spans in a call of the
    recorder builtin `__verif_cmp__(site, value)` (returns value unchanged); locations are preserved"""

    def __init__(self, spans, first_site=0):
        self.spans = spans
        self.sites = []  # (lineno, col, source-dump)
        self.first = first_site

    def _in(self, node):
        return any(lo <= node.lineno <= hi for lo, hi in self.spans)

    def _wrap(self, node):
        k = self.first + len(self.sites)
        self.sites.append((node.lineno, node.col_offset, ast.unparse(node)[:120]))
        call = ast.Call(func=ast.Name(id="__verif_cmp__", ctx=ast.Load()), args=[ast.Constant(value=k), node], keywords=[])
        ast.copy_location(call, node)
        ast.copy_location(call.func, node)
        ast.copy_location(call.args[0], node)
        return call

    def visit_Compare(self, node):
        self.generic_visit(node)
        return self._wrap(node) if self._in(node) else node

    def visit_UnaryOp(self, node):
        self.generic_visit(node)
        return self._wrap(node) if isinstance(node.op, ast.Not) and self._in(node) else node


def _module_of(path):
    rel = os.path.relpath(path, os.path.realpath(repo_root()))
    if rel.startswith("..") or not rel.endswith(".py"):
        return None
    return rel[:-3].replace(os.sep, ".")


def _live_functions(module, qualname):
    """function objects (unwrapped) that the qualified name denotes in the imported module"""
    import inspect
    import types
    obj = module
    parts = qualname.split(".")
    try:
        for p_ in parts[:-1]:
            obj = inspect.getattr_static(obj, p_)
        name = parts[-1]
        d = getattr(obj, "__dict__", {})
        raw = d.get(name)
        if raw is None and name.startswith("__") and not name.endswith("__") and isinstance(obj, type):
            raw = d.get("_" + obj.__name__.lstrip("_") + name)
        if raw is None:
            return []
    except Exception:
        return []
    cands = []
    if isinstance(raw, (staticmethod, classmethod)):
        cands.append(raw.__func__)
    elif isinstance(raw, property):
        cands += [f for f in (raw.fget, raw.fset, raw.fdel) if f is not None]
    else:
        cands.append(raw)
    out = []
    for f in cands:
        seen = 0
        while not isinstance(f, types.FunctionType) and hasattr(f, "__wrapped__") and seen < 8:
            f = f.__wrapped__
            seen += 1
        if isinstance(f, types.FunctionType):
            out.append(f)
    return out


def _jump_keys(code):
    """{offset: key} for the conditional jumps of a code object; the key is made of source positions, so that it
    is the same in the plain and in the instrumented compilation of the same source"""
    import dis
    keys = {}
    count = {}
    for ins in dis.get_instructions(code):
        if ins.opname in Coverage._COND:
            p_ = ins.positions
            base = (p_.lineno, p_.col_offset, p_.end_lineno, p_.end_col_offset, ins.opname) if p_ else (None, None, None, None, ins.opname)
            n = count.get(base, 0)
            count[base] = n + 1
            keys[ins.offset] = ":".join(str(x) for x in base + (n,))
    return keys


class Coverage:
    """Which of the given statements were executed at least once by this process or by processes
    forked from it (sys.monitoring LINE events, each location reported once: negligible overhead).
    Child interpreters started with exec are not seen."""

    TOOL = 3

    def __init__(self, stmts, run_dir):
        self.stmts = stmts
        self.want = {}
        for s in stmts:
            self.want.setdefault(s["path"], set()).update(range(s["line"], s["end"] + 1))
        self.log = os.path.join(run_dir, f"cov-{os.getpid()}.txt")
        self.active = False

    def start(self):
        import sys
        if not self.stmts or not hasattr(sys, "monitoring"):
            return
        mon = sys.monitoring
        try:
            mon.use_tool_id(self.TOOL, "verif-drift-coverage")
        except ValueError:
            return
        fd = os.open(self.log, os.O_WRONLY | os.O_CREAT | os.O_TRUNC | os.O_APPEND, 0o644)
        want = self.want
        cache = {}
        armed = set()
        seen_br = set()

        jkeys = {}

        def on_branch(code, src, dst):
            k = (id(code), src, dst)
            if k not in seen_br:
                seen_br.add(k)
                try:
                    jk = jkeys.get(id(code))
                    if jk is None:
                        jk = jkeys[id(code)] = (code, _jump_keys(code))  # the code object is kept alive: ids stay unique
                    key = jk[1].get(src)
                    if key is not None:
                        os.write(fd, f"B|{os.path.realpath(code.co_filename)}|{code.co_qualname}|{code.co_firstlineno}|{key}|{dst}\n".encode())
                except OSError:
                    pass

        def on_line(code, line):
            f = code.co_filename
            w = cache.get(f, 0)
            if w == 0:
                w = cache[f] = want.get(os.path.realpath(f)) if f and not f.startswith("<") else None
            if w is not None:
                if id(code) not in armed:
                    armed.add(id(code))
                    try:
                        if any(l in w for _, _, l in code.co_lines() if l):
                            mon.set_local_events(self.TOOL, code, mon.events.BRANCH)
                    except Exception:
                        pass
                if line in w:
                    try:
                        os.write(fd, f"{os.path.realpath(f)}:{line}\n".encode())
                    except OSError:
                        pass
            return mon.DISABLE

        mon.register_callback(self.TOOL, mon.events.LINE, on_line)
        mon.register_callback(self.TOOL, mon.events.BRANCH, on_branch)
        mon.set_events(self.TOOL, mon.events.LINE)
        self.active = True
        try:
            self._instrument(fd)
        except Exception as e:  # value-level recording is an extra: never let it break a run
            self.sites = {}
            self.instrument_note = f"comparison recorder not installed: {type(e).__name__}: {e}"

    def _instrument(self, fd):
        """swap the code of the changed functions for a compilation in which every comparison inside a new
        statement reports its outcome (asserts excepted)"""
        import builtins
        import importlib
        import sys
        self.sites = {}
        seen = set()

        def rec(k, v):
            o = 1 if v is True else 0 if v is False else 2
            if (k, o) not in seen:
                seen.add((k, o))
                try:
                    os.write(fd, f"C|{k}|{o}\n".encode())
                except OSError:
                    pass
            return v

        builtins.__verif_cmp__ = rec
        by_path = {}
        for s_ in self.stmts:
            if s_.get("kind") != "Assert":
                by_path.setdefault(s_["path"], []).append(s_)
        for path, sts in by_path.items():
            modname = _module_of(path)
            if not modname:
                continue
            try:
                module = sys.modules.get(modname) or importlib.import_module(modname)
                tree = ast.parse(open(path, encoding="utf-8").read())
            except Exception:
                continue
            if os.path.realpath(getattr(module, "__file__", "") or "") != path:
                continue
            w = _WrapCompare([(s_["line"], s_["end"]) for s_ in sts], first_site=len(self.sites))
            tree = ast.fix_missing_locations(w.visit(tree))
            if not w.sites:
                continue
            top = compile(tree, path, "exec")
            codes = {}
            stack = [top]
            while stack:
                c = stack.pop()
                stack.extend(x for x in c.co_consts if hasattr(x, "co_code"))
                codes.setdefault((c.co_qualname, c.co_firstlineno), c)
            swapped = set()
            for q in sorted({s_["qualname"] for s_ in sts}):
                for fn in _live_functions(module, q):
                    old = fn.__code__
                    newc = codes.get((old.co_qualname, old.co_firstlineno))
                    if newc is None or newc.co_freevars != old.co_freevars or newc.co_argcount != old.co_argcount \
                            or os.path.realpath(old.co_filename) != path:
                        continue
                    fn.__code__ = newc
                    swapped.add((newc.co_firstlineno, max((l for _, _, l in newc.co_lines() if l), default=newc.co_firstlineno)))
            for i, (ln, col, text) in enumerate(w.sites):
                st = next((s_ for s_ in sts if s_["line"] <= ln <= s_["end"]), None)
                inside = any(lo <= ln <= hi for lo, hi in swapped)
                if st is not None and inside:
                    self.sites[w.first + i] = {"file": st["file"], "path": path, "qualname": st["qualname"], "line": ln,
                                               "src": st["src"], "expr": text}

    def stop(self):
        import sys
        if not self.active:
            return
        mon = sys.monitoring
        mon.set_events(self.TOOL, 0)
        mon.register_callback(self.TOOL, mon.events.LINE, None)
        mon.register_callback(self.TOOL, mon.events.BRANCH, None)
        mon.free_tool_id(self.TOOL)
        self.active = False

    def uncovered(self):
        """statements never executed; None if monitoring was unavailable"""
        if not self.stmts:
            return []
        if not os.path.exists(self.log):
            return None
        hit = {}
        for l in open(self.log):
            if l.startswith(("B|", "C|")):
                continue
            f, _, n = l.strip().rpartition(":")
            if n.isdigit():
                hit.setdefault(f, set()).add(int(n))
        return [s for s in self.stmts if not (hit.get(s["path"], set()) & set(range(s["line"], s["end"] + 1)))]

    _COND = {"POP_JUMP_IF_FALSE", "POP_JUMP_IF_TRUE", "POP_JUMP_IF_NONE", "POP_JUMP_IF_NOT_NONE", "FOR_ITER"}

    def one_sided(self):
        """conditional jumps inside new statements (asserts excluded) that were executed but always went
        the same way: [{file, qualname, line, src, observed}]; [] if nothing to report or not measured"""
        import dis
        if not self.stmts or not os.path.exists(self.log):
            return []
        seen = {}
        values = {}
        lines_hit = {}
        for l in open(self.log):
            if l.startswith("B|"):
                _, path, qual, first, src, dst = l.rstrip("\n").split("|")
                seen.setdefault((path, qual, int(first), src), set()).add(int(dst))
            elif l.startswith("C|"):
                _, k, o = l.rstrip("\n").split("|")
                values.setdefault(int(k), set()).add(int(o))
            else:
                f, _, n = l.strip().rpartition(":")
                if n.isdigit():
                    lines_hit.setdefault(f, set()).add(int(n))
        out = []
        by_path = {}
        for s in self.stmts:
            if s.get("kind") != "Assert":
                by_path.setdefault(s["path"], []).append(s)
        for path, sts in by_path.items():
            try:
                top = compile(open(path, encoding="utf-8").read(), path, "exec")
            except Exception:
                continue
            stack = [top]
            while stack:
                code = stack.pop()
                stack.extend(c for c in code.co_consts if hasattr(c, "co_code"))
                jk = _jump_keys(code)
                for ins in dis.get_instructions(code):
                    if ins.opname not in self._COND:
                        continue
                    ln = ins.positions.lineno if ins.positions else None
                    st = next((s for s in sts if ln is not None and s["line"] <= ln <= s["end"]), None)
                    if st is None:
                        continue
                    if not (lines_hit.get(path, set()) & set(range(st["line"], st["end"] + 1))):
                        continue  # statement never executed: already reported as such
                    obs = seen.get((path, code.co_qualname, code.co_firstlineno, jk.get(ins.offset)), set())
                    if len(obs) < 2:
                        out.append({"file": st["file"], "path": path, "qualname": st["qualname"], "line": ln,
                                    "src": st["src"], "observed": len(obs), "opname": ins.opname})
        # comparisons used as values: evaluated, always a plain bool, and always the same one
        for k, site in getattr(self, "sites", {}).items():
            obs = values.get(k, set())
            if obs and 2 not in obs and len(obs) < 2:
                out.append(dict(site, observed=len(obs), opname="COMPARE (value)",
                                src=f"{site['src']}   [comparison `{site['expr']}` was always {bool(next(iter(obs)))}]"))
        # one entry per (line, qualname)
        uniq = {}
        for o in out:
            uniq.setdefault((o["path"], o["line"]), o)
        return list(uniq.values())


# ---- reach of the correspondence on the UNCHANGED tree --------------------------------------------------
# Which statements of the functions in a property's anchored files do the generated inputs execute?  A measurement
# only (never a verdict): a statement that no input reaches is code the model was never compared with, and a later
# change there could only be reported as no-failing-input-found.  Always on in the thorough tier, on in quick with
# VERIF_COVERAGE=1.
_DEBUG_FN = ("__repr__", "__str__", "debug", "log_debug", "debug_packet", "print_stats", "print_statistics",
             "print_snmp_data", "print_pcap", "set_debug_voice_bytes", "main")


def _is_stub(fn):
    """abstract method / interface stub: nothing but pass, ..., a docstring or raise NotImplementedError"""
    for d in fn.decorator_list:
        if "abstractmethod" in ast.dump(d):
            return True
    body = [st for st in fn.body if not _is_docstring(st) and not isinstance(st, ast.Pass)]
    for st in body:
        if isinstance(st, ast.Expr) and isinstance(st.value, ast.Constant) and st.value.value is Ellipsis:
            continue
        if isinstance(st, ast.Raise) and st.exc is not None and "NotImplemented" in ast.dump(st.exc):
            continue
        return False
    return True


def anchor_statements(prop_id, extra=(), keep=()):
    """every statement of every function of the files the property is anchored in (properties.jsonl anchors.files
    plus the module's ANCHORS): [{file, path, qualname, line, end, kind, src}].  Left out: docstrings, def/class
    headers, imports, __repr__/__str__/debug helpers (unless named in keep), interface stubs, tests."""
    out = []
    seen = set()
    for rel in list(anchors_of(prop_id)) + list(extra):
        for f in files_under(rel):
            if f in seen or "/tests/" in f or not f.endswith(".py"):
                continue
            seen.add(f)
            path = os.path.realpath(os.path.join(repo_root(), f))
            try:
                src = open(path, encoding="utf-8").read()
                tree = ast.parse(src)
            except Exception:
                continue
            lines = src.splitlines()

            def walk(node, prefix):
                for ch in getattr(node, "body", []):
                    if isinstance(ch, (ast.FunctionDef, ast.AsyncFunctionDef)):
                        if (ch.name in _DEBUG_FN and ch.name not in keep) or _is_stub(ch):
                            continue
                        for st in _stmts(ch):
                            lo, hi = _header_span(st)
                            out.append({"file": f, "path": path, "qualname": prefix + ch.name, "line": lo, "end": hi,
                                        "kind": type(st).__name__,
                                        "src": lines[lo - 1].strip()[:160] if 0 < lo <= len(lines) else ""})
                    elif isinstance(ch, ast.ClassDef):
                        walk(ch, prefix + ch.name + ".")

            walk(tree, "")
    return out


class AnchorCoverage(Coverage):
    """Coverage of the given statements, line events only (no branch arming, no code swapping), under its own tool id
    and log; Python children started with exec report too (harness/covhook/sitecustomize.py via PYTHONPATH)."""

    TOOL = 4
    HOOK = os.path.join(HERE, "covhook")

    def __init__(self, stmts, run_dir, tag=""):
        super().__init__(stmts, run_dir)
        os.makedirs(run_dir, exist_ok=True)
        self.log = os.path.join(run_dir, f"acov-{tag}{os.getpid()}.txt")
        self.wantf = os.path.join(run_dir, f"acov-{tag}{os.getpid()}.want")
        self._stop = None
        self._env = {}

    def start(self):
        if not self.stmts:
            return
        import importlib.util
        try:
            spec = importlib.util.spec_from_file_location("_verif_covhook", os.path.join(self.HOOK, "sitecustomize.py"))
            hook = importlib.util.module_from_spec(spec)
            spec.loader.exec_module(hook)
            self._stop = hook.install(self.want, self.log, tool=self.TOOL, truncate=True)
        except Exception:
            self._stop = None
        if self._stop is None:
            return
        self.active = True
        try:
            with open(self.wantf, "w", encoding="utf-8") as fh:
                for p_, ls in self.want.items():
                    fh.write(p_ + "\t" + ",".join(str(x) for x in sorted(ls)) + "\n")
            new = {"VERIF_ACOV_LOG": self.log, "VERIF_ACOV_WANT": self.wantf,
                   "PYTHONPATH": self.HOOK + (os.pathsep + os.environ["PYTHONPATH"] if os.environ.get("PYTHONPATH") else "")}
            for k, v in new.items():
                self._env[k] = os.environ.get(k)
                os.environ[k] = v
        except Exception:
            pass

    def stop(self):
        if not self.active:
            return
        self._stop()
        self.active = False
        for k, v in self._env.items():
            if v is None:
                os.environ.pop(k, None)
            else:
                os.environ[k] = v

    def summary(self, cap=200):
        """the evidence entry; None when nothing was measured"""
        if not self.stmts:
            return None
        unc = self.uncovered()
        if unc is None:
            return None
        missed = {id(s) for s in unc}
        per_fn = {}
        for s in self.stmts:
            t = per_fn.setdefault((s["file"], s["qualname"]), [0, 0])
            t[0] += 1
            t[1] += id(s) not in missed
        never = sorted(f"{f}::{q}" for (f, q), (n, m) in per_fn.items() if m == 0)
        part = [s for s in unc if per_fn[(s["file"], s["qualname"])][1] > 0]
        rest = [s for s in unc if per_fn[(s["file"], s["qualname"])][1] == 0]
        fmt = lambda s: f"{s['file']}::{s['qualname']}:{s['line']}: {s['src']}"  # noqa: E731
        per_file = {}
        for s in self.stmts:
            t = per_file.setdefault(s["file"], [0, 0])
            t[0] += 1
            t[1] += id(s) not in missed
        return {"statements": len(self.stmts), "executed": len(self.stmts) - len(unc),
                "functions": len(per_fn), "functions_never_entered": never,
                "statements_never_executed_in_entered_functions": len(part),
                "statements_never_executed": [fmt(s) for s in (part + rest)[:cap]],
                "per_file": {f: f"{m}/{n}" for f, (n, m) in sorted(per_file.items())},
                "_all_never_executed": [fmt(s) for s in part + rest]}

    def cleanup(self):
        for p_ in (self.log, self.wantf):
            try:
                os.remove(p_)
            except OSError:
                pass


def files_under(rel):
    root = repo_root()
    p = os.path.join(root, rel)
    if os.path.isdir(p):
        res = []
        for d, _, fs in os.walk(p):
            for f in sorted(fs):
                if f.endswith(".py"):
                    res.append(os.path.relpath(os.path.join(d, f), root))
        return sorted(res)
    return [rel]


def snapshot(rels):
    snap = {}
    for rel in rels:
        for f in files_under(rel):
            snap[f] = hashes_of(os.path.join(repo_root(), f))
    return snap


def anchors_of(prop_id):
    with open(os.path.join(HERE, "..", "properties.jsonl")) as f:
        for line in f:
            p = json.loads(line)
            if p["id"] == prop_id:
                return p["anchors"]["files"]
    return []


def drift(prop_id, extra=()):
    """list of 'file::qualname' whose hash differs from the committed baseline (or is new/missing)"""
    try:
        base = json.load(open(BASE))
    except FileNotFoundError:
        return []
    base = {k: v for k, v in base.items() if not k.startswith("__")}
    rels = list(anchors_of(prop_id)) + list(extra)
    cur = snapshot(rels)
    changed = []
    for f, hs in cur.items():
        b = base.get(f)
        if b is None:
            changed.append(f"{f}::<new file>")
            continue
        for q, h in hs.items():
            if b.get(q) != h:
                changed.append(f"{f}::{q}")
        for q in b:
            if q not in hs:
                changed.append(f"{f}::{q} (removed)")
    return changed


def drift_any():
    """does ANY library source under okdmr/dmrlib differ from the committed baseline? (used only to tell a harness
    defect from a harness that was handed changed code, see check.py)"""
    try:
        base = json.load(open(BASE))
    except FileNotFoundError:
        return False
    base = {k: v for k, v in base.items() if not k.startswith("__")}
    cur = {f: h for f, h in snapshot(["okdmr/dmrlib"]).items() if "/tests/" not in f}
    return cur != base


if __name__ == "__main__":
    # maintainer command: record the baseline for the whole package
    snap = snapshot(["okdmr/dmrlib"])
    snap = {f: h for f, h in snap.items() if "/tests/" not in f}
    snap["__stmts__"] = {f: {q: [t[0] for t in sts] for q, sts in stmts_of(os.path.join(repo_root(), f)).items()} for f in snap}
    import subprocess
    snap["__head__"] = subprocess.run(["git", "-C", repo_root(), "rev-parse", "HEAD"], capture_output=True, text=True).stdout.strip()
    with open(BASE, "w") as f:
        json.dump(snap, f, indent=0, sort_keys=True)
    print(f"{len(snap) - 2} files, {sum(len(v) for k, v in snap.items() if not k.startswith('__'))} hashed bodies, "
          f"{sum(len(x) for v in snap['__stmts__'].values() for x in v.values())} statements, HEAD {snap['__head__'][:8]}")
