import DmrVerif.Driver.Loop
import DmrVerif.Driver.Hytera
import DmrVerif.Driver.TranslHytera

/-! model driver for property C12 (`t.hy.*`: the checksum functions translated from the source, `Gen/TranslHytera.lean`) -/

def main : IO Unit := Dmr.Driver.runMain [Dmr.Driver.Hytera.hyteraOp, Dmr.Driver.translHyteraOp]
