import DmrVerif.Driver.Loop
import DmrVerif.Driver.Hytera

/-! model driver for property C12 -/

def main : IO Unit := Dmr.Driver.runMain [Dmr.Driver.Hytera.hyteraOp]
