import DmrVerif.Driver.Loop
import DmrVerif.Driver.Codes

/-! model driver for property C06: the stateless block-code operations plus the object history
(`h.*` operations thread a `Heap` through the lines of one run) -/

def main : IO Unit := Dmr.Driver.runMainS Dmr.Driver.histStep Dmr.Heap.empty
