import DmrVerif.Driver.Loop
import DmrVerif.Driver.Codes

/-! model driver for property C06 -/

def main : IO Unit := Dmr.Driver.runMain [Dmr.Driver.codesOp]
