import DmrVerif.Driver.Loop
import DmrVerif.Driver.Storage

/-! model driver for property C20 (repeater storage) -/

def main : IO Unit := Dmr.Driver.runMainS Dmr.Driver.Storage.storageStep Dmr.Storage.init
