import DmrVerif.Driver.Loop
import DmrVerif.Driver.Fragment

/-! model driver for property C07: the transmission generator, and the tracker of C08 as its receiver -/

def main : IO Unit := Dmr.Driver.runMainS Dmr.Driver.fragStep none
