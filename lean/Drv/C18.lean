import DmrVerif.Driver.Loop
import DmrVerif.Driver.Handshake

/-! model driver for property C18 (P2P and RDAC handshake handlers) -/

def main : IO Unit := Dmr.Driver.runMainS Dmr.Driver.Handshake.handshakeStep Dmr.Driver.Handshake.dinit
