import DmrVerif.Driver.Loop
import DmrVerif.Driver.Bptc

/-! model driver for property C02: the stateless entry points (`bptc.*`) and histories of calls over the
objects handed out so far (`bh.*` operations thread a `Bptc.Store` through the lines of one run) -/

def main : IO Unit := Dmr.Driver.runMainS Dmr.Driver.bptcStep Dmr.Bptc.Store.empty
