import DmrVerif.Driver.Loop
import DmrVerif.Driver.Bptc

/-! model driver for property C02 -/

def main : IO Unit := Dmr.Driver.runMain [Dmr.Driver.bptcOp]
