import DmrVerif.Driver.Loop
import DmrVerif.Driver.Burst

/-! model driver for property C01 -/

def main : IO Unit := Dmr.Driver.runMain [Dmr.Driver.burstOp, Dmr.Driver.pduOp]
