import DmrVerif.Driver.Loop
import DmrVerif.Driver.Integrity

/-! model driver for property C04 -/

def main : IO Unit := Dmr.Driver.runMain [Dmr.Driver.integrityOp, Dmr.Driver.crcOp]
