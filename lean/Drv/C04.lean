import DmrVerif.Driver.Loop
import DmrVerif.Driver.Integrity
import DmrVerif.Driver.TranslPduSmall

/-! model driver for property C04 (`t.ps.*`: the small bit-field PDUs translated from the source, `Gen/TranslPduSmall.lean`) -/

def main : IO Unit := Dmr.Driver.runMain [Dmr.Driver.integrityOp, Dmr.Driver.crcOp, Dmr.Driver.translPduSmallOp]
