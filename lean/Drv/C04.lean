import DmrVerif.Driver.Loop
import DmrVerif.Driver.Integrity
import DmrVerif.Driver.TranslPduSmall
import DmrVerif.Driver.TranslHytera

/-! model driver for property C04 (`t.ps.*`: the small bit-field PDUs translated from the source, `Gen/TranslPduSmall.lean`;
`t.hy.*`: the HRNP checksum translated from the source, `Gen/TranslHytera.lean`) -/

def main : IO Unit := Dmr.Driver.runMain [Dmr.Driver.integrityOp, Dmr.Driver.crcOp, Dmr.Driver.translPduSmallOp, Dmr.Driver.translHyteraOp]
