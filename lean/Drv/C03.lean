import DmrVerif.Driver.Loop
import DmrVerif.Driver.Pdu
import DmrVerif.Driver.TranslCsbk

/-! model driver for property C03 (`t.cs.*`: `CSBK` translated from the source, `Gen/TranslCsbk.lean`) -/

def main : IO Unit := Dmr.Driver.runMain [Dmr.Driver.pduOp, Dmr.Driver.pduArgsOp, Dmr.Driver.translCsbkOp]
