import DmrVerif.Driver.Loop
import DmrVerif.Driver.Pdu

/-! model driver for property C03 -/

def main : IO Unit := Dmr.Driver.runMain [Dmr.Driver.pduOp, Dmr.Driver.pduArgsOp]
