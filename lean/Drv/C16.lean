import DmrVerif.Driver.Loop
import DmrVerif.Driver.Tms
import DmrVerif.Driver.TranslArs
import DmrVerif.Driver.TranslTms

/-! model driver for property C16 (Motorola TMS / ARS) -/

def main : IO Unit := Dmr.Driver.runMain [Dmr.Driver.tmsOp, Dmr.Driver.arsOp, Dmr.Driver.translArsOp, Dmr.Driver.translTmsOp]
