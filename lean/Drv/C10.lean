import DmrVerif.Driver.Loop
import DmrVerif.Driver.Trellis

/-! model driver for property C10 (rate ¾ trellis) -/

def main : IO Unit := Dmr.Driver.runMain [Dmr.Driver.trellisOp]
