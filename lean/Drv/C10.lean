import DmrVerif.Driver.Loop
import DmrVerif.Driver.Trellis

/-! model driver for property C10 (rate ¾ trellis): the stateless `tr.*` operations plus the object
history (`hs.*` operations thread a `Store` through the lines of one run) -/

def main : IO Unit := Dmr.Driver.runMainS Dmr.Driver.trellisStep Dmr.Trellis.Store.empty
