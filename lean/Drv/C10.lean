import DmrVerif.Driver.Loop
import DmrVerif.Driver.Trellis
import DmrVerif.Driver.TranslTrellis

/-! model driver for property C10 (rate ¾ trellis): the stateless `tr.*` operations plus the object
history (`hs.*` operations thread a `Store` through the lines of one run); `t.tr.*`: the definitions translated from the
source (`Gen/TranslTrellis.lean`), stateless -/

def step (s : Dmr.Trellis.Store) (op : String) (args : List String) : Dmr.Trellis.Store × String :=
  match Dmr.Driver.translTrellisOp op args with
  | some out => (s, out)
  | none => Dmr.Driver.trellisStep s op args

def main : IO Unit := Dmr.Driver.runMainS step Dmr.Trellis.Store.empty
