import DmrVerif.Driver.Loop
import DmrVerif.Driver.Purity

/-! model driver for property C19 (stateful: the hidden state is threaded through the lines) -/

def main : IO Unit := Dmr.Driver.runMainS Dmr.Driver.Purity.stepLine Dmr.Purity.init
