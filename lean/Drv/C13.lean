import DmrVerif.Driver.Loop
import DmrVerif.Driver.Ipsc

/-! model driver for property C13 (Hytera IPSC frames): the stateless codec operations plus the object
history (`h.*` operations thread a `Heap` of decoded `HyteraIPSC` objects through the lines of one run) -/

def main : IO Unit := Dmr.Driver.runMainS Dmr.Driver.ipscStep Dmr.Ipsc.Heap.empty
