import DmrVerif.Driver.Loop
import DmrVerif.Driver.Ipsc

/-! model driver for property C13 (Hytera IPSC frames) -/

def main : IO Unit := Dmr.Driver.runMain [Dmr.Driver.ipscOp]
