import DmrVerif.Driver.Loop
import DmrVerif.Driver.Ipsc
import DmrVerif.Driver.TranslIpsc
import DmrVerif.Driver.TranslBitsBytes

/-! model driver for property C13 (Hytera IPSC frames): the stateless codec operations plus the object
history (`h.*` operations thread a `Heap` of decoded `HyteraIPSC` objects through the lines of one run); `t.ip.*`, `t.bb.*`: the
definitions translated from the source (`Gen/TranslIpsc.lean`, `Gen/TranslBitsBytes.lean`), stateless -/

def step (s : Dmr.Ipsc.Heap) (op : String) (args : List String) : Dmr.Ipsc.Heap × String :=
  match (Dmr.Driver.translIpscOp op args).orElse (fun _ => Dmr.Driver.translBitsBytesOp op args) with
  | some out => (s, out)
  | none => Dmr.Driver.ipscStep s op args

def main : IO Unit := Dmr.Driver.runMainS step Dmr.Ipsc.Heap.empty
