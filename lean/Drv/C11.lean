import DmrVerif.Driver.Loop
import DmrVerif.Driver.Rs

/-! model driver for property C11 -/

def main : IO Unit := Dmr.Driver.runMain [Dmr.Driver.rsOp]
