import DmrVerif.Driver.Loop
import DmrVerif.Driver.Rs
import DmrVerif.Driver.TranslRs

/-! model driver for property C11 (`t.rs.*`: the definitions translated from the source, `Gen/TranslRs.lean`) -/

def main : IO Unit := Dmr.Driver.runMain [Dmr.Driver.rsOp, Dmr.Driver.translRsOp]
