import DmrVerif.Driver.Loop
import DmrVerif.Driver.Vbptc

/-! model driver for property C09: the stateless entry points (`vb.*`) and histories of calls over the
objects the caller holds (`vh.*` operations thread a `Vbptc.Store` through the lines of one run) -/

def main : IO Unit := Dmr.Driver.runMainS Dmr.Driver.vbptcStep Dmr.Vbptc.Store.empty
