import DmrVerif.Driver.Loop
import DmrVerif.Driver.Vbptc

/-! model driver for property C09 -/

def main : IO Unit := Dmr.Driver.runMain [Dmr.Driver.vbptcOp]
