import DmrVerif.Driver.Loop
import DmrVerif.Driver.Tracker

/-! model driver for property C08: the transmission tracker, one terminal threaded through the lines -/

def main : IO Unit := Dmr.Driver.runMainS Dmr.Driver.trackerStep none
