import DmrVerif.Driver.Loop
import DmrVerif.Driver.Crc
import DmrVerif.Driver.CrcStream
import DmrVerif.Driver.CrcConfigs
import DmrVerif.Driver.TranslBitsBytes

/-! model driver for property C05 (`t.bb.*`: the byte-order helpers of the CRC-32 front end translated from the source,
`Gen/TranslBitsBytes.lean`) -/

def main : IO Unit := Dmr.Driver.runMain [Dmr.Driver.crcOp, Dmr.Driver.crcStreamOp, Dmr.Driver.crcConfigsOp, Dmr.Driver.translBitsBytesOp]
