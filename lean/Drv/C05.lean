import DmrVerif.Driver.Loop
import DmrVerif.Driver.Crc
import DmrVerif.Driver.CrcStream
import DmrVerif.Driver.CrcConfigs

/-! model driver for property C05 -/

def main : IO Unit := Dmr.Driver.runMain [Dmr.Driver.crcOp, Dmr.Driver.crcStreamOp, Dmr.Driver.crcConfigsOp]
