import DmrVerif.Driver.Loop
import DmrVerif.Driver.Crc

/-! model driver for property C05 -/

def main : IO Unit := Dmr.Driver.runMain [Dmr.Driver.crcOp]
