import DmrVerif.Driver.Loop
import DmrVerif.Driver.HstrpHandler

/-! model driver for property C17 (HSTRP/RRS handler) -/

def main : IO Unit := Dmr.Driver.runMainS Dmr.Driver.HstrpHandler.handlerStep Dmr.Driver.HstrpHandler.dinit
