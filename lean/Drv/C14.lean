import DmrVerif.Driver.Loop
import DmrVerif.Driver.Mbxml
import DmrVerif.Driver.MbxmlX

/-! model driver for property C14 -/

def main : IO Unit := Dmr.Driver.runMain [Dmr.Driver.mbxmlOp, Dmr.Driver.mbxmlXOp]
