import DmrVerif.Driver.Loop
import DmrVerif.Driver.Mbxml

/-! model driver for property C14 -/

def main : IO Unit := Dmr.Driver.runMain [Dmr.Driver.mbxmlOp]
