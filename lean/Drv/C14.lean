import DmrVerif.Driver.Loop
import DmrVerif.Driver.Mbxml
import DmrVerif.Driver.MbxmlX
import DmrVerif.Driver.TranslMbxml

/-! model driver for property C14 (`t.mb.*`: the readers translated from the source, `Gen/TranslMbxml.lean`) -/

def main : IO Unit := Dmr.Driver.runMain [Dmr.Driver.mbxmlOp, Dmr.Driver.mbxmlXOp, Dmr.Driver.translMbxmlOp]
