import DmrVerif.Driver.Loop

/-! model driver for property C15 (stub: no operations registered yet) -/

def main : IO Unit := Dmr.Driver.runMain []
