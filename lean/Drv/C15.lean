import DmrVerif.Driver.Loop
import DmrVerif.Driver.Lrrp

/-! model driver for property C15 -/

def main : IO Unit := Dmr.Driver.runMain [Dmr.Driver.lrrpOp, Dmr.Driver.mbxmlOp]
