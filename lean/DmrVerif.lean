-- Root of the `DmrVerif` library: importing it builds every model, lemma and property module.
import DmrVerif.Props.C06
import DmrVerif.Driver.Codes
