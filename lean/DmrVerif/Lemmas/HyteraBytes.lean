import DmrVerif.Model.Hdap

/-!
Byte-level lemmas for the Hytera PDUs (C12): fixed-width integers, slices of concatenations, enum
look-ups, the HDAP frame and its checksum.  Core Lean only.
-/

namespace Dmr.Hytera
open Dmr Dmr.Gen.Hytera

deriving instance DecidableEq for Except

/-! ### fixed-width integers -/

@[simp] theorem ofBe_nil : ofBe [] = 0 := rfl
@[simp] theorem ofLe_nil : ofLe [] = 0 := rfl

theorem ofBe2' (v : Nat) : ofBe [v / 256 % 256, v % 256] = v % 65536 := by
  simp [ofBe]; omega
theorem ofBe3' (v : Nat) : ofBe [v / 65536 % 256, v / 256 % 256, v % 256] = v % 16777216 := by
  simp [ofBe]; omega
theorem ofBe4' (v : Nat) :
    ofBe [v / 16777216 % 256, v / 65536 % 256, v / 256 % 256, v % 256] = v % 4294967296 := by
  simp [ofBe]; omega
theorem ofLe2' (v : Nat) : ofLe [v % 256, v / 256 % 256] = v % 65536 := by
  simp [ofLe]; omega
theorem ofLe4' (v : Nat) :
    ofLe [v % 256, v / 256 % 256, v / 65536 % 256, v / 16777216 % 256] = v % 4294967296 := by
  simp [ofLe]; omega

theorem ofBe_be2 {v : Nat} (h : v < 65536) : ofBe (be2 v) = v := by
  rw [be2, ofBe2', Nat.mod_eq_of_lt h]
theorem ofBe_be3 {v : Nat} (h : v < 16777216) : ofBe (be3 v) = v := by
  rw [be3, ofBe3', Nat.mod_eq_of_lt h]
theorem ofBe_be4 {v : Nat} (h : v < 4294967296) : ofBe (be4 v) = v := by
  rw [be4, ofBe4', Nat.mod_eq_of_lt h]
theorem ofLe_le2 {v : Nat} (h : v < 65536) : ofLe (le2 v) = v := by
  rw [le2, ofLe2', Nat.mod_eq_of_lt h]
theorem ofLe_le4 {v : Nat} (h : v < 4294967296) : ofLe (le4 v) = v := by
  rw [le4, ofLe4', Nat.mod_eq_of_lt h]

@[simp] theorem be2_length (v : Nat) : (be2 v).length = 2 := rfl
@[simp] theorem be3_length (v : Nat) : (be3 v).length = 3 := rfl
@[simp] theorem be4_length (v : Nat) : (be4 v).length = 4 := rfl
@[simp] theorem le2_length (v : Nat) : (le2 v).length = 2 := rfl
@[simp] theorem le4_length (v : Nat) : (le4 v).length = 4 := rfl
@[simp] theorem len16_length (l : Bool) (v : Nat) : (len16 l v).length = 2 := by
  cases l <;> rfl

/-- the length field read back in the protocol's byte order -/
theorem ofLen16 {l : Bool} {n : Nat} (h : n < 65536) :
    (if l then ofLe (len16 l n) else ofBe (len16 l n)) = n := by
  cases l
  · simpa [len16] using ofBe_be2 h
  · simpa [len16] using ofLe_le2 h

/-! ### enum look-ups -/

theorem enumOf_mem {vals : List Nat} {v : Nat} (h : v ∈ vals) : enumOf vals v = .ok v := by
  simp [enumOf, h, pure, Except.pure]

theorem enumFold_mem {vals : List Nat} {m v : Nat} (h : v ∈ vals) : enumFold vals m v = v := by
  simp [enumFold, h]

/-! ### slices -/

theorem sl_cons_succ {α : Type} (x : α) (l : List α) (a b : Nat) :
    sl (x :: l) (a + 1) (b + 1) = sl l a b := by
  simp [sl]

theorem sl_zero {α : Type} (l : List α) (b : Nat) : sl l 0 b = l.take b := by simp [sl]

theorem sl_append_left {α : Type} (l r : List α) (a b : Nat) (h : b ≤ l.length) :
    sl (l ++ r) a b = sl l a b := by
  simp [sl, List.take_append_of_le_length h]

theorem sl_append_right {α : Type} (l r : List α) (a b : Nat) (h : l.length ≤ a) :
    sl (l ++ r) a b = sl r (a - l.length) (b - l.length) := by
  unfold sl
  rw [List.take_append, List.drop_append]
  have : List.drop a (List.take b l) = [] := by
    apply List.drop_eq_nil_of_le
    simp only [List.length_take]; omega
  rw [this, List.nil_append, List.length_take]
  by_cases hb : b ≤ l.length
  · have h1 : b - l.length = 0 := by omega
    simp [h1]
  · have : min b l.length = l.length := by omega
    rw [this]

/-- the middle piece of a three-part concatenation -/
theorem sl_mid {α : Type} (l m r : List α) : sl (l ++ (m ++ r)) l.length (l.length + m.length) = m := by
  rw [sl_append_right _ _ _ _ (Nat.le_refl _)]
  simp [sl]

theorem sl_mid' {α : Type} (l m r : List α) (a b : Nat) (ha : a = l.length) (hb : b = l.length + m.length) :
    sl (l ++ (m ++ r)) a b = m := by
  subst ha hb; exact sl_mid l m r

theorem sl_all {α : Type} (l : List α) (b : Nat) (h : l.length ≤ b) : sl l 0 b = l := by
  simp [sl, List.take_of_length_le h]

theorem normIdx_nat (n k : Nat) : normIdx n (k : Int) = min k n := by
  unfold normIdx
  have : ¬ ((k : Int) < 0) := by omega
  simp [this]

/-! ### bit operations on the service / option octets -/

theorem lor128_and127 : ∀ s, s < 128 → (s ||| 128) &&& 127 = s := by decide
theorem lor128_and128 : ∀ s, s < 128 → (s ||| 128) &&& 128 = 128 := by decide
theorem lor0 (s : Nat) : s ||| 0 = s := by simp
theorem and127_lt128 : ∀ s, s < 128 → s &&& 127 = s := by decide
theorem and128_lt128 : ∀ s, s < 128 → s &&& 128 = 0 := by decide
theorem lor128_pos : ∀ s, s < 128 → 0 < s ||| 128 := by decide

/-- `get_reliable_and_service` of the first octet `as_bytes` writes -/
theorem reliableAndService_first {s : Nat} (rel : Bool) (hs : s ∈ svcValues) :
    reliableAndService (s ||| (if rel then 0x80 else 0)) = .ok (rel, some s) := by
  have hlt : s < 128 ∧ 0 < s := by
    simp only [svcValues, List.mem_cons, List.not_mem_nil, or_false] at hs
    omega
  cases rel
  · have h1 : s &&& 127 = s := and127_lt128 s hlt.1
    have h2 : s &&& 128 = 0 := and128_lt128 s hlt.1
    simp [reliableAndService, hlt.2, h1, h2, enumOf_mem hs, bind, Except.bind, pure, Except.pure]
  · have h1 := lor128_and127 s hlt.1
    have h2 := lor128_and128 s hlt.1
    have h3 := lor128_pos s hlt.1
    simp only [if_true] at *
    simp [reliableAndService, h3, h1, h2, enumOf_mem hs, bind, Except.bind, pure, Except.pure]

/-! ### the HDAP frame -/

theorem xor255 : ∀ x, x < 256 → x ^^^ 255 = 255 - x := by decide +kernel

theorem cksum_fold (l : Bytes) (c : Nat) :
    l.foldl (fun c b => (c + b) &&& 0xFF) c = if l = [] then c else (c + l.sum) % 256 := by
  induction l generalizing c with
  | nil => simp
  | cons x xs ih =>
    rw [List.foldl_cons, ih]
    have hm : (c + x) &&& 0xFF = (c + x) % 256 := Nat.and_two_pow_sub_one_eq_mod (c + x) 8
    by_cases hx : xs = []
    · subst hx; simp [hm]
    · simp only [hx, if_false, List.sum_cons, reduceCtorEq]
      rw [hm]; omega

/-- the checksum is the independent formula `((255 - Σ mod 256) + 0x33) mod 256` -/
theorem hdapChecksum_spec (bs : Bytes) :
    hdapChecksum bs = ((255 - (bs.sum % 256)) + 0x33) % 256 := by
  unfold hdapChecksum
  rw [cksum_fold]
  have hm : ∀ x, x &&& 0xFF = x % 256 := fun x => Nat.and_two_pow_sub_one_eq_mod x 8
  rw [hm]
  by_cases h : bs = []
  · subst h; simp
  · simp only [h, if_false, Nat.zero_add]
    rw [xor255 _ (Nat.mod_lt _ (by decide))]

theorem frame_length (f : Frame) (ho : f.opcode.length = 2) :
    f.asBytes.length = 7 + f.payload.length := by
  simp [Frame.asBytes, Frame.checked, hdapMsgEnd, ho]; omega

/-- shape of the serialisation of a frame whose opcode has two octets -/
theorem frame_cons (f : Frame) {o1 o2 : Nat} (ho : f.opcode = [o1, o2]) :
    ∃ x y, len16 f.little f.payload.length = [x, y] ∧
      f.asBytes = (f.service ||| (if f.reliable then 0x80 else 0)) :: o1 :: o2 :: x :: y ::
        (f.payload ++ [hdapChecksum f.checked, 3]) := by
  refine ⟨(len16 f.little f.payload.length)[0]!, (len16 f.little f.payload.length)[1]!, ?_, ?_⟩
  · cases f.little <;> simp [len16, be2, le2]
  · cases hl : f.little <;> simp [Frame.asBytes, Frame.checked, ho, hdapMsgEnd, len16, be2, le2, hl]

end Dmr.Hytera
