import DmrVerif.Lemmas.Burst
import DmrVerif.Lemmas.PduCsbk
import DmrVerif.Lemmas.PduDataHeader
import DmrVerif.Lemmas.PduFullLc
import DmrVerif.Lemmas.PduShort
import DmrVerif.Lemmas.PduRate
import DmrVerif.Props.C02
import DmrVerif.Props.C10

/-!
# Burst: data bursts assembled from a payload parse back and re-serialise identically

`roundtrip_core` is the composition for an arbitrary payload: framing (`frame_split`), sync resolution,
slot type round trip, then whatever the payload FEC and the PDU codec contribute, given as three
hypotheses (`interleave` ok with 196 bits, `deinterleave` gives bits from which `extractData` returns a
payload with the same serialisation).  The eight supported kinds discharge them with C02
(`decode_encode`: BPTC), C10 (`decode_encode`: trellis), the rate-1 gap, and the C03 round trips.
-/

set_option linter.unusedSimpArgs false

namespace Dmr
open Dmr.Gen Dmr.Gen.Burst

namespace Burst

theorem data_not_voice {s : Nat} (h : s ∈ dataSyncs) : voiceSyncs.contains s = false := by
  cases hv : voiceSyncs.contains s with
  | false => rfl
  | true =>
    have := voice_not_data (by simpa using hv)
    have hd : dataSyncs.contains s = true := by simpa using h
    rw [hd] at this; exact absurd this (by simp)

/-- what the burst parser returns for payload `p`: `p'` with the same slot data type and the same bits -/
theorem roundtrip_core (c : Crcs) (p p' : Payload) (cc : Nat) (hcc : cc < 16) (s : Nat) (hs : s ∈ dataSyncs)
    (bt : BurstType) (hdt : eDataTypes.defined p.dataType = true)
    (dbi deint : Bits) (hi : interleave p.dataType p.bits = .ok dbi) (hlen : dbi.length = 196)
    (hd : deinterleave dbi p.dataType = .ok deint) (hex : extractData c p.dataType deint = .ok (some p'))
    (hb : p'.bits = p.bits) :
    let st : SlotType := ⟨cc, p.dataType, SlotType.genParity cc p.dataType⟩
    let x := frame dbi st.enc (natToBits 48 s)
    ∃ b q, build p cc s = .ok b ∧ serialise b = .ok x ∧ x.length = 264
      ∧ parse c x bt = .ok q ∧ q.isDataOrControl = true ∧ q.hasEmb = false ∧ q.slotType = some st
      ∧ q.sync = .pattern s ∧ q.data = some p' ∧ serialise q = .ok x := by
  intro st x
  have hp := data_is_pattern hs
  have hlt := pattern_lt hp
  have hnv := data_not_voice hs
  have hds : dataSyncs.contains s = true := by simpa using hs
  have hsl : st.enc.length = 20 := SlotType.enc_length st
  have hxl : x.length = 264 := frame_length dbi st.enc _ hlen hsl (natToBits_length 48 s)
  obtain ⟨f1, f2, f3, f4, f5⟩ := frame_split dbi st.enc (natToBits 48 s) hlen hsl (natToBits_length 48 s)
  have hbuild : build p cc s = .ok ⟨.pattern s, zeros 32, zeros 216, false, false, true, false, none, some st, some p⟩ := by
    unfold build; rw [SlotType.init_gen cc p.dataType hcc hdt]
  have hser : ∀ (b : Burst), b.isDataOrControl = true → b.hasEmb = false → b.slotType = some st →
      b.sync = .pattern s → (∃ d, b.data = some d ∧ d.bits = p.bits) → serialise b = .ok x := by
    intro b h1 h2 h3 h4 ⟨d, h5, h6⟩
    unfold serialise
    simp only [h1, h2, h3, h4, h5, h6, syncBits, ↓reduceIte, Bool.false_eq_true]
    rw [show interleave st.dataType p.bits = .ok dbi from hi]
    rfl
  have hparse : parse c x bt = .ok ⟨.pattern s, slice (natToBits 48 s) 8 32, x.take 108 ++ x.drop 156, false, false,
      true, false, none, some st, some p'⟩ := by
    unfold parse
    rw [if_neg (by simp [hxl])]
    simp only [x, f1, f2, f3, f4, bitsToNat_natToBits 48 s hlt, resolve_pattern s hp, hnv, hds]
    have hsd := SlotType.dec_enc cc p.dataType hcc hdt
    simp only [show st.enc = SlotType.enc ⟨cc, p.dataType, SlotType.genParity cc p.dataType⟩ from rfl, hsd, hd, hex]
    cases bt <;> simp <;> rfl
  exact ⟨_, _, hbuild, hser _ rfl rfl rfl rfl ⟨p, rfl, rfl⟩, hxl, hparse, rfl, rfl, rfl, rfl, rfl,
    hser _ rfl rfl rfl rfl ⟨p', rfl, hb⟩⟩

/-! ## the three payload codings -/

/-- BPTC(196,96): any 96 payload bits survive `interleave` / `deinterleave` (C02) -/
theorem bptc_path (dt : Nat) (h34 : dt ≠ dtRate34Data) (h1 : dt ≠ dtRate1Data) (hr : dt ≠ dtReserved)
    (m : Bits) (hm : m.length = 96) :
    ∃ dbi, interleave dt m = .ok dbi ∧ dbi.length = 196 ∧ deinterleave dbi dt = .ok m := by
  obtain ⟨cw, h1', h2'⟩ := C02.decode_encode m hm true
  obtain ⟨cw', h3', h4'⟩ := C02.encode_length m hm
  rw [h1'] at h3'
  cases h3'
  refine ⟨cw, ?_, h4', ?_⟩
  · simp [interleave, h34, h1, hr, h1', ofBptc]
  · simp [deinterleave, h34, h1, hr, h2', ofBptc]

/-- rate ¾ trellis: any 144 payload bits survive (C10) -/
theorem trellis_path (m : Bits) (hm : m.length = 144) :
    ∃ dbi, interleave dtRate34Data m = .ok dbi ∧ dbi.length = 196 ∧ deinterleave dbi dtRate34Data = .ok m := by
  obtain ⟨cw, h1, h2⟩ := C10.encode_length m hm
  have h3 := C10.decode_encode m hm
  rw [h1] at h3
  refine ⟨cw, ?_, h2, ?_⟩
  · simp [interleave, h1, ofTrellis]
  · have : Trellis.decode cw = .ok m := h3
    simp [deinterleave, this, ofTrellis]

/-- rate 1: 96 + 4 padding + 96 bits, the padding is skipped again -/
theorem rate1_path (m : Bits) (hm : m.length = 192) :
    ∃ dbi, interleave dtRate1Data m = .ok dbi ∧ dbi.length = 196 ∧ deinterleave dbi dtRate1Data = .ok m := by
  have hne : dtRate1Data ≠ dtRate34Data := by decide
  refine ⟨m.take 96 ++ ([false, false, false, false] ++ m.drop 96), ?_, ?_, ?_⟩
  · simp [interleave, hne]
  · simp [hm]
  · have h96 : (m.take 96).length = 96 := by simp [hm]
    simp only [deinterleave, hne, ↓reduceIte]
    rw [List.take_left' h96, drop_append_skip _ _ 100 (by simp [h96])]
    simp only [h96, Nat.reduceSub]
    rw [drop_append_skip _ _ 4 (by simp)]
    simp

/-! ## the supported payloads -/

/-- the payload objects the library builds (constructor applied to in-range field values) -/
def Built (c : Crcs) : Payload → Prop
  | .piHeader p => p.WF c.pi
  | .voiceLcHeader p => p.WF ∧ p.crc.length = 24
  | .terminatorWithLc p => p.WF ∧ p.crc.length = 24
  | .csbk p => p.WF ∧ Csbk.init c.csbk p = p
  | .dataHeader p => p.WF ∧ DataHeader.init c.dh p = p
  | .rate12 p => ∃ t a, RateData.WF rate12 t a ∧ RateData.init rate12 c.r12 t a = .ok p
  | .rate34 p => ∃ t a, RateData.WF rate34 t a ∧ RateData.init rate34 c.r34 t a = .ok p
  | .rate1 p => ∃ t a, RateData.WF rate1 t a ∧ RateData.init rate1 c.r1 t a = .ok p

/-- what the burst parser holds as `data` for payload `p`: the same object, except for rate-coded
blocks, which are parsed untyped (the parser cannot know whether a block is confirmed): the object
whose data octets are the whole block -/
def parsedView (c : Crcs) : Payload → Payload
  | .rate12 p => .rate12 ⟨bitsToBytes (RateData.enc rate12 p), 0, c.r12 (bitsToBytes (RateData.enc rate12 p)) 0 0, 0⟩
  | .rate34 p => .rate34 ⟨bitsToBytes (RateData.enc rate34 p), 0, c.r34 (bitsToBytes (RateData.enc rate34 p)) 0 0, 0⟩
  | .rate1 p => .rate1 ⟨bitsToBytes (RateData.enc rate1 p), 0, c.r1 (bitsToBytes (RateData.enc rate1 p)) 0 0, 0⟩
  | p => p

theorem rate_enc_len (cfg : RateCfg) (hc : cfg = rate12 ∨ cfg = rate34 ∨ cfg = rate1) (f9 : Bytes → Nat → Nat → Nat)
    (p : RateData) (h : ∃ t a, RateData.WF cfg t a ∧ RateData.init cfg f9 t a = .ok p) :
    (RateData.enc cfg p).length = 8 * cfg.total := by
  obtain ⟨t, a, hw, hi⟩ := h
  rw [RateData.init_ok cfg hc f9 t a hw.2.1] at hi
  cases hi
  exact RateData.enc_length cfg hc t _ hw.1 hw.2.1

theorem rate_view (cfg : RateCfg) (hc : cfg = rate12 ∨ cfg = rate34 ∨ cfg = rate1) (f9 : Bytes → Nat → Nat → Nat)
    (bs : Bits) (hl : bs.length = 8 * cfg.total) :
    RateData.dec cfg f9 .undefined bs = .ok ⟨bitsToBytes bs, 0, f9 (bitsToBytes bs) 0 0, 0⟩
    ∧ RateData.enc cfg ⟨bitsToBytes bs, 0, f9 (bitsToBytes bs) 0 0, 0⟩ = bs := by
  have hb : (bitsToBytes bs).length = RateData.lenOf cfg .unconfirmed := by
    rw [(RateData.lenOf_vals cfg hc).1]; exact bitsToBytes_length _ _ hl
  constructor
  · rw [RateData.dec_undefined cfg hc f9 bs hl]
    unfold RateData.dec
    rw [if_neg (by simp [hl])]
    simp only
    rw [RateData.init_ok cfg hc f9 .unconfirmed _ hb]
    rfl
  · unfold RateData.enc
    simp only [hb, RateData.typeOfLen_lenOf cfg hc]
    exact bytesToBits_bitsToBytes _ _ hl

/-- the statement of the data burst round trip -/
def RoundTrip (c : Crcs) (p : Payload) (cc s : Nat) (bt : BurstType) : Prop :=
  ∃ b x q, build p cc s = .ok b ∧ serialise b = .ok x ∧ x.length = 264
    ∧ parse c x bt = .ok q ∧ q.isDataOrControl = true ∧ q.hasEmb = false
    ∧ q.slotType = some ⟨cc, p.dataType, SlotType.genParity cc p.dataType⟩
    ∧ q.sync = .pattern s ∧ q.data = some (parsedView c p) ∧ (parsedView c p).bits = p.bits
    ∧ serialise q = .ok x

/-- **data burst round trip** for every supported payload kind, colour code, data sync pattern and
whatever burst type the caller announces -/
theorem data_roundtrip (c : Crcs) (p : Payload) (hp : Built c p) (cc : Nat) (hcc : cc < 16) (s : Nat)
    (hs : s ∈ dataSyncs) (bt : BurstType) : RoundTrip c p cc s bt := by
  have key : ∀ (p' : Payload) (dbi deint : Bits), eDataTypes.defined p.dataType = true →
      interleave p.dataType p.bits = .ok dbi → dbi.length = 196 → deinterleave dbi p.dataType = .ok deint →
      extractData c p.dataType deint = .ok (some p') → p' = parsedView c p → p'.bits = p.bits →
      RoundTrip c p cc s bt :=
    fun p' dbi deint h1 h2 h3 h4 h5 h6 h7 => by
      obtain ⟨b, q, g1, g2, g3, g4, g5, g6, g7, g8, g9, g10⟩ :=
        roundtrip_core c p p' cc hcc s hs bt h1 dbi deint h2 h3 h4 h5 h7
      exact ⟨b, _, q, g1, g2, g3, g4, g5, g6, g7, g8, h6 ▸ g9, h6 ▸ h7, g10⟩
  cases p with
  | piHeader p =>
    have hl : (PiHeader.enc p).length = 96 := PiHeader.enc_length c.pi p hp
    obtain ⟨dbi, i1, i2, i3⟩ := bptc_path dtPIHeader (by decide) (by decide) (by decide) _ hl
    have hpe : p = PiHeader.init c.pi p.data := by
      cases p with | mk d cr => simp only [PiHeader.init, PiHeader.mk.injEq, true_and]; exact hp.2.2
    refine key _ dbi _ (show eDataTypes.defined dtPIHeader = true by decide) i1 i2 i3 ?_ rfl rfl
    have hd : PiHeader.dec c.pi p.enc = .ok p := by
      conv => lhs; rw [hpe]
      rw [PiHeader.dec_enc c.pi _ hp.2.1, ← hpe]
    simp (config := { decide := true }) only [Payload.dataType, Payload.bits, extractData, ↓reduceIte, hd]
    rfl
  | voiceLcHeader p =>
    have hl : (FullLc.enc p).length = 96 := by rw [FullLc.enc_length p hp.1, hp.2]
    obtain ⟨dbi, i1, i2, i3⟩ := bptc_path dtVoiceLCHeader (by decide) (by decide) (by decide) _ hl
    refine key _ dbi _ (show eDataTypes.defined dtVoiceLCHeader = true by decide) i1 i2 i3 ?_ rfl rfl
    simp (config := { decide := true }) only [Payload.dataType, Payload.bits, extractData, ↓reduceIte,
      FullLc.dec_enc p hp.1]
    rfl
  | terminatorWithLc p =>
    have hl : (FullLc.enc p).length = 96 := by rw [FullLc.enc_length p hp.1, hp.2]
    obtain ⟨dbi, i1, i2, i3⟩ := bptc_path dtTerminatorWithLC (by decide) (by decide) (by decide) _ hl
    refine key _ dbi _ (show eDataTypes.defined dtTerminatorWithLC = true by decide) i1 i2 i3 ?_ rfl rfl
    simp (config := { decide := true }) only [Payload.dataType, Payload.bits, extractData, ↓reduceIte,
      FullLc.dec_enc p hp.1]
    rfl
  | csbk p =>
    have hl : (Csbk.enc p).length = 96 := Csbk.enc_length p hp.1
    obtain ⟨dbi, i1, i2, i3⟩ := bptc_path dtCSBK (by decide) (by decide) (by decide) _ hl
    refine key _ dbi _ (show eDataTypes.defined dtCSBK = true by decide) i1 i2 i3 ?_ rfl rfl
    simp (config := { decide := true }) only [Payload.dataType, Payload.bits, extractData, ↓reduceIte,
      Csbk.dec_enc c.csbk p hp.1, hp.2]
    rfl
  | dataHeader p =>
    have hl : (DataHeader.enc p).length = 96 := DataHeader.enc_length p hp.1
    obtain ⟨dbi, i1, i2, i3⟩ := bptc_path dtDataHeader (by decide) (by decide) (by decide) _ hl
    refine key _ dbi _ (show eDataTypes.defined dtDataHeader = true by decide) i1 i2 i3 ?_ rfl rfl
    simp (config := { decide := true }) only [Payload.dataType, Payload.bits, extractData, ↓reduceIte,
      DataHeader.dec_enc c.dh p hp.1, hp.2]
    rfl
  | rate12 p =>
    have hl : (RateData.enc rate12 p).length = 96 := rate_enc_len rate12 (by simp) c.r12 p hp
    obtain ⟨dbi, i1, i2, i3⟩ := bptc_path dtOfRate12 (by decide) (by decide) (by decide) _ hl
    obtain ⟨v1, v2⟩ := rate_view rate12 (by simp) c.r12 _ hl
    refine key _ dbi _ (show eDataTypes.defined dtOfRate12 = true by decide) i1 i2 i3 ?_ rfl v2
    simp (config := { decide := true }) only [Payload.dataType, Payload.bits, extractData, ↓reduceIte, v1]
    rfl
  | rate34 p =>
    have hl : (RateData.enc rate34 p).length = 144 := rate_enc_len rate34 (by simp) c.r34 p hp
    obtain ⟨dbi, i1, i2, i3⟩ := trellis_path _ hl
    obtain ⟨v1, v2⟩ := rate_view rate34 (by simp) c.r34 _ hl
    refine key _ dbi _ (show eDataTypes.defined dtOfRate34 = true by decide) i1 i2 i3 ?_ rfl v2
    simp (config := { decide := true }) only [Payload.dataType, Payload.bits, extractData, ↓reduceIte, v1]
    rfl
  | rate1 p =>
    have hl : (RateData.enc rate1 p).length = 192 := rate_enc_len rate1 (by simp) c.r1 p hp
    obtain ⟨dbi, i1, i2, i3⟩ := rate1_path _ hl
    obtain ⟨v1, v2⟩ := rate_view rate1 (by simp) c.r1 _ hl
    refine key _ dbi _ (show eDataTypes.defined dtOfRate1 = true by decide) i1 i2 i3 ?_ rfl v2
    simp (config := { decide := true }) only [Payload.dataType, Payload.bits, extractData, ↓reduceIte, v1]
    rfl

/-- the fields of a rate-coded block are recovered from the parsed view by `convert(original type)` -/
theorem rate_convert (cfg : RateCfg) (hc : cfg = rate12 ∨ cfg = rate34 ∨ cfg = rate1) (f9 : Bytes → Nat → Nat → Nat)
    (hf : ∀ d s x, f9 d s x < 2 ^ 9) (t : RateType) (a p : RateData) (hw : RateData.WF cfg t a)
    (hi : RateData.init cfg f9 t a = .ok p) :
    RateData.convert cfg f9 ⟨bitsToBytes (RateData.enc cfg p), 0, f9 (bitsToBytes (RateData.enc cfg p)) 0 0, 0⟩ t
      = .ok p := by
  have hl := rate_enc_len cfg hc f9 p ⟨t, a, hw, hi⟩
  unfold RateData.convert
  rw [(rate_view cfg hc f9 _ hl).2]
  exact RateData.dec_enc cfg hc f9 hf t a p hw hi

end Burst
end Dmr
