import DmrVerif.Lemmas.Crc

/-!
Error detection of the CRC register on the code-word level, core Lean only.

`feed p e` is the zero register after the *whole* word `e` (data followed by check bits) went through
it.  A word whose check bits are the CRC of its data part feeds to zero (`codeword_feed`), so a
pattern `e` with `feed p e ≠ 0` can never turn one valid (data, CRC) pair into another
(`codeword_detect`).  Two classes of patterns are shown to feed to non-zero:

* bursts no longer than the register (`burst_feed`) — structural, needs only that the polynomial has
  constant term 1 (shifting in a zero is then injective on the register);
* patterns of weight `1..k` over `n` positions (`weight_detect`) — by a kernel-checkable enumeration
  `wdetTop k (rtab p n)` over the table of the `n` unit-vector syndromes, packed as `Nat`s.
-/

namespace Dmr
namespace Crc

/-- the zero register after the word `e` went through it -/
def feed (p : Bits) (e : Bits) : Bits := procBits p (zeros p.length) e

theorem feed_length (p e : Bits) : (feed p e).length = p.length := by
  unfold feed
  rw [procBits_length _ _ _ (by simp)]; simp

theorem feed_xor (p a b : Bits) (h : a.length = b.length) :
    feed p (xorBits a b) = xorBits (feed p a) (feed p b) := by
  unfold feed
  have hz : zeros p.length = xorBits (zeros p.length) (zeros p.length) := by
    rw [xorBits_self]; simp
  conv => lhs; rw [hz]
  exact procBits_xor p _ _ a b (by simp) rfl h

theorem feed_zeros (p : Bits) (n : Nat) : feed p (zeros n) = zeros p.length := procBits_zeros _ _ _

/-- a word whose last `w` bits are the CRC of the bits before feeds to zero -/
theorem codeword_feed (p d : Bits) : feed p (d ++ feed p d) = zeros p.length := by
  unfold feed
  rw [procBits_append]
  have hl : (procBits p (zeros p.length) d).length = p.length := feed_length p d
  have := procBits_top p (procBits p (zeros p.length) d) [] (procBits p (zeros p.length) d) rfl
    (by simp [hl])
  rw [List.append_nil] at this
  rw [this, xorBits_self, procBits_zeros, hl]
  simp [xorBits_self]

/-- **Code-word level detection.**  If the difference between a valid word `d ++ crc d` and a received
word `d' ++ c'` feeds to non-zero, the received word is not valid. -/
theorem codeword_detect (p d d' c' : Bits) (hd : d.length = d'.length)
    (h : feed p (xorBits (d ++ feed p d) (d' ++ c')) ≠ zeros p.length) : feed p d' ≠ c' := by
  intro heq
  apply h
  rw [← heq, xorBits_append _ _ _ _ hd, ← feed_xor p d d' hd]
  exact codeword_feed p _

/-! ### shifting in zeros keeps a non-zero register non-zero (constant term 1) -/

theorem zeros_succ_append (n : Nat) : zeros (n + 1) = zeros n ++ [false] := by
  simp only [zeros]; exact List.replicate_succ'

theorem stepBit_false_ne_zero (p r : Bits) (hp : p.length = r.length)
    (hlast : p.getLast? = some true) (hr : r ≠ zeros r.length) :
    stepBit p r false ≠ zeros r.length := by
  obtain ⟨p', rfl⟩ := List.getLast?_eq_some_iff.mp hlast
  cases r with
  | nil => exact absurd rfl hr
  | cons x r' =>
    have hl : p'.length = r'.length := by simpa using hp
    rw [stepBit_eq _ _ _ hp, shl_one_cons]
    cases x with
    | false =>
      have hb : ((false :: r').headD false != false) = false := rfl
      rw [hb, show sel false (p' ++ [true]) = zeros (p' ++ [true]).length from rfl,
        xorBits_zeros_right' _ _ (by simp [hl])]
      intro h
      apply hr
      rw [List.length_cons, zeros_succ_append] at h
      have := (List.append_inj h (by simp)).1
      rw [List.length_cons, zeros_succ, ← this]
    | true =>
      have hb : ((true :: r').headD false != false) = true := rfl
      rw [hb, show sel true (p' ++ [true]) = p' ++ [true] from rfl, xorBits_append _ _ _ _ hl.symm]
      intro h
      rw [List.length_cons, zeros_succ_append] at h
      have := (List.append_inj h (by simp [hl])).2
      simp at this

theorem procBits_zeros_ne_zero (p r : Bits) (j : Nat) (hp : p.length = r.length)
    (hlast : p.getLast? = some true) (hr : r ≠ zeros r.length) :
    procBits p r (zeros j) ≠ zeros r.length := by
  induction j generalizing r with
  | zero => simpa using hr
  | succ j ih =>
    rw [zeros_succ, procBits_cons]
    have hl := stepBit_length p r false hp
    have := ih (stepBit p r false) (by rw [hl, hp]) (by rw [hl]; exact stepBit_false_ne_zero p r hp hlast hr)
    rwa [hl] at this

/-- **Bursts.**  A non-zero pattern confined to a window of at most `w` bits, anywhere in a word of any
length, feeds to non-zero. -/
theorem burst_feed (p : Bits) (hlast : p.getLast? = some true) (i j : Nat) (b : Bits)
    (hb : b.length ≤ p.length) (hne : b ≠ zeros b.length) :
    feed p (zeros i ++ b ++ zeros j) ≠ zeros p.length := by
  unfold feed
  rw [procBits_append, procBits_zeros_append]
  have hh := procBits_high p b (p.length - b.length) (by omega)
  have hl : (procBits p (zeros p.length) b).length = p.length := feed_length p b
  have hne' : b ++ zeros (p.length - b.length) ≠ zeros (b ++ zeros (p.length - b.length)).length := by
    intro h
    apply hne
    have hz : zeros (b ++ zeros (p.length - b.length)).length = zeros b.length ++ zeros (p.length - b.length) := by
      simp [zeros, List.replicate_append_replicate]
    rw [hz] at h
    exact (List.append_inj h (by simp)).1
  have h1 := procBits_zeros_ne_zero p (b ++ zeros (p.length - b.length)) b.length
    (by simp; omega) hlast hne'
  rw [hh] at h1
  have hlen : (b ++ zeros (p.length - b.length)).length = p.length := by simp; omega
  rw [hlen] at h1
  have := procBits_zeros_ne_zero p (procBits p (zeros p.length) b) j hl.symm hlast (by rw [hl]; exact h1)
  rwa [hl] at this

/-! ### patterns of bounded weight: unit-vector syndromes and their enumeration -/

/-- `rz p m = feed p (1 followed by m zeros)`, i.e. `x^(m+w) mod G` -/
def rz (p : Bits) : Nat → Bits
  | 0 => p
  | m + 1 => stepBit p (rz p m) false

theorem rz_length (p : Bits) (m : Nat) : (rz p m).length = p.length := by
  induction m with
  | zero => rfl
  | succ m ih => rw [rz, stepBit_length _ _ _ ih.symm, ih]

theorem feed_unit (p : Bits) (m : Nat) : feed p (true :: zeros m) = rz p m := by
  induction m with
  | zero =>
    unfold feed
    rw [zeros_zero, procBits_cons, procBits_nil, stepBit_eq _ _ _ (by simp), shl_one_zeros,
      xorBits_zeros_left _ _ (sel_length _ _)]
    cases hpl : p.length with
    | zero => simp [sel, rz, List.eq_nil_of_length_eq_zero hpl]
    | succ n => simp [sel, rz]
  | succ m ih =>
    unfold feed at ih ⊢
    rw [zeros_succ_append, ← List.cons_append, procBits_append, ih]
    rfl

theorem weight_cons_false (e : Bits) : weight (false :: e) = weight e := by simp [weight]
theorem weight_cons_true (e : Bits) : weight (true :: e) = weight e + 1 := by simp [weight]

theorem feed_cons (p : Bits) (b : Bool) (e : Bits) :
    feed p (b :: e) = xorBits (sel b (rz p e.length)) (feed p e) := by
  have hsplit : b :: e = xorBits (b :: zeros e.length) (false :: e) := by
    rw [xorBits_cons_cons, xorBits_zeros_left _ _ rfl]; simp
  conv => lhs; rw [hsplit, feed_xor _ _ _ (by simp)]
  congr 1
  · cases b with
    | true => rw [feed_unit]; rfl
    | false =>
      have : (false :: zeros e.length) = zeros (e.length + 1) := by simp
      rw [this, feed_zeros]; simp [sel, rz_length]
  · unfold feed
    rw [procBits_cons, stepBit_zeros_false]

/-- the unit-vector syndromes of an `n`-bit word, first position first, packed -/
def rtab (p : Bits) : Nat → List Nat
  | 0 => []
  | m + 1 => packLE (rz p m) :: rtab p m

/-- the same table computed in one pass (what the kernel evaluates) -/
def rtabAux (p : Bits) : Nat → Bits × List Nat
  | 0 => (p, [])
  | m + 1 => ((stepBit p (rtabAux p m).1 false), packLE (rtabAux p m).1 :: (rtabAux p m).2)

theorem rtabAux_eq (p : Bits) (m : Nat) : rtabAux p m = (rz p m, rtab p m) := by
  induction m with
  | zero => rfl
  | succ m ih => simp [rtabAux, ih, rz, rtab]

/-- xor of the table entries selected by the set bits of `e`, onto `acc` -/
def synT : Bits → List Nat → Nat → Nat
  | b :: e, t :: T, acc => synT e T (if b then Nat.xor acc t else acc)
  | _, _, acc => acc

theorem synT_eq (p : Bits) (e : Bits) (A : Bits) (hA : A.length = p.length) :
    synT e (rtab p e.length) (packLE A) = packLE (xorBits A (feed p e)) := by
  induction e generalizing A with
  | nil =>
    simp only [synT, feed, procBits_nil]
    rw [xorBits_zeros_right' _ _ hA]
  | cons b e ih =>
    simp only [List.length_cons, rtab, synT]
    rw [feed_cons, ← xorBits_assoc]
    cases b with
    | false =>
      simp only [Bool.false_eq_true, ↓reduceIte, sel]
      rw [ih A hA, rz_length, xorBits_zeros_right' _ _ hA]
    | true =>
      simp only [↓reduceIte, sel]
      rw [← packLE_xorBits _ _ (by rw [hA, rz_length]), ih _ (by simp [hA, rz_length])]

/-- every pattern of weight `≤ k` over the table `T` xors onto `acc` to something non-zero -/
def wdet : Nat → List Nat → Nat → Bool
  | _, [], acc => !(Nat.beq acc 0)
  | 0, _ :: _, acc => !(Nat.beq acc 0)
  | k + 1, t :: T, acc => wdet (k + 1) T acc && wdet k T (Nat.xor acc t)

/-- every pattern of weight `1..k` over the table `T` xors to something non-zero -/
def wdetTop : Nat → List Nat → Bool
  | _, [] => true
  | 0, _ :: _ => true
  | k + 1, t :: T => wdetTop (k + 1) T && wdet k T t

theorem synT_weight_zero (e : Bits) (T : List Nat) (acc : Nat) (h : weight e = 0) :
    synT e T acc = acc := by
  induction e generalizing T with
  | nil => cases T <;> rfl
  | cons b e ih =>
    cases b with
    | true => rw [weight_cons_true] at h; omega
    | false =>
      rw [weight_cons_false] at h
      cases T with
      | nil => rfl
      | cons t T => simp only [synT, Bool.false_eq_true, ↓reduceIte]; exact ih T h

theorem beq_zero_false {x : Nat} (h : (!(Nat.beq x 0)) = true) : x ≠ 0 := by
  intro hx; subst hx; simp at h

theorem wdet_sound (k : Nat) (T : List Nat) (acc : Nat) (h : wdet k T acc = true) (e : Bits)
    (he : e.length = T.length) (hw : weight e ≤ k) : synT e T acc ≠ 0 := by
  induction T generalizing k acc e with
  | nil =>
    have : e = [] := List.eq_nil_of_length_eq_zero he
    subst this
    have hs : synT [] [] acc = acc := rfl
    rw [hs]
    cases k <;> exact beq_zero_false (by simpa [wdet] using h)
  | cons t T ih =>
    cases k with
    | zero =>
      rw [synT_weight_zero e _ _ (by omega)]
      exact beq_zero_false (by simpa [wdet] using h)
    | succ k =>
      simp only [wdet, Bool.and_eq_true] at h
      cases e with
      | nil => simp at he
      | cons b e =>
        have he' : e.length = T.length := by simpa using he
        cases b with
        | false =>
          rw [weight_cons_false] at hw
          simp only [synT, Bool.false_eq_true, ↓reduceIte]
          exact ih (k + 1) acc h.1 e he' hw
        | true =>
          rw [weight_cons_true] at hw
          simp only [synT, ↓reduceIte]
          exact ih k _ h.2 e he' (by omega)

theorem wdetTop_sound (k : Nat) (T : List Nat) (h : wdetTop k T = true) (e : Bits)
    (he : e.length = T.length) (h1 : 1 ≤ weight e) (hw : weight e ≤ k) : synT e T 0 ≠ 0 := by
  induction T generalizing k e with
  | nil =>
    have : e = [] := List.eq_nil_of_length_eq_zero he
    subst this
    simp [weight] at h1
  | cons t T ih =>
    cases k with
    | zero => omega
    | succ k =>
      simp only [wdetTop, Bool.and_eq_true] at h
      cases e with
      | nil => simp at he
      | cons b e =>
        have he' : e.length = T.length := by simpa using he
        cases b with
        | false =>
          rw [weight_cons_false] at hw h1
          simp only [synT, Bool.false_eq_true, ↓reduceIte]
          exact ih (k + 1) h.1 e he' h1 hw
        | true =>
          rw [weight_cons_true] at hw
          simp only [synT, ↓reduceIte]
          have hx : Nat.xor 0 t = t := Nat.zero_xor t
          rw [hx]
          exact wdet_sound k T t h.2 e he' (by omega)

theorem rtab_length (p : Bits) (n : Nat) : (rtab p n).length = n := by
  induction n with
  | zero => rfl
  | succ n ih => simp [rtab, ih]

/-- **Bounded weight.**  If the enumeration over the unit-vector syndromes succeeds, every pattern of
weight `1..k` over `n` positions feeds to non-zero. -/
theorem weight_detect (p : Bits) (n k : Nat) (hchk : wdetTop k (rtabAux p n).2 = true) (e : Bits)
    (he : e.length = n) (h1 : 1 ≤ weight e) (hk : weight e ≤ k) : feed p e ≠ zeros p.length := by
  rw [rtabAux_eq] at hchk
  have hs := wdetTop_sound k (rtab p n) hchk e (by rw [rtab_length, he]) h1 hk
  have := synT_eq p e (zeros p.length) (by simp)
  rw [he, packLE_zeros] at this
  rw [this, xorBits_zeros_left _ _ (feed_length p e)] at hs
  intro h
  apply hs
  rw [h, packLE_zeros]

end Crc
end Dmr
