import DmrVerif.Model.PduDataHeader
import DmrVerif.Lemmas.Layout
import DmrVerif.Lemmas.Elem

/-!
# Data header (five formats): encode–decode round trip, fixed point, totality
-/

set_option linter.unusedSimpArgs false

namespace Dmr
open Dmr.Gen

theorem poc_lt (b : Bool) (bs : Bits) (off : Nat) : b2n b * 16 + getField bs off 4 < 2 ^ 5 := by
  have h1 := getField_lt bs off 4
  have h2 := b2n_lt' b
  omega

macro_rules | `(tactic| wf_field) => `(tactic| first
  | exact Elem.defined_of_dec_mem (by assumption) (by simp [allElems])
  | exact poc_lt _ _ _)

/-- facts about a defined member `v` of the extracted element `E` (of width `w`): it decodes to
itself and fits the width -/
theorem Elem.facts {E : Elem} (hm : E ∈ allElems) {v : Nat} (h : E.defined v = true) :
    E.dec v = .ok v ∧ v < 2 ^ E.w :=
  ⟨Elem.dec_defined (Elem.total_of_mem hm) h, Elem.lt_of_defined (Elem.total_of_mem hm) h⟩

namespace DataHeader

theorem body_length (pl : DhPayload) (h : DhPayload.WF pl) : (body pl).length = 80 := by
  cases pl <;> simp only [DhPayload.WF] at h <;> simp (config := { decide := true }) [body, h]

theorem enc_length (p : DataHeader) (h : p.WF) : (enc p).length = 96 := by
  simp [enc, body_length _ h.2, h.1]

theorem dec_enc (f : Bits → Nat) (p : DataHeader) (h : p.WF) : dec f (enc p) = .ok (init f p) := by
  obtain ⟨crc, pl⟩ := p
  obtain ⟨hcrc, hpl⟩ := h
  simp only at hcrc hpl
  cases pl with
  | confirmed g a poc sap dst src fmf btf rsf ns fsn =>
    obtain ⟨hpoc, hsap, hdst, hsrc, hfmf, hbtf, hrsf, hns, hfsn⟩ := hpl
    have hd : eDataPacketFormats.dec 3 = .ok 3 := rfl
    obtain ⟨h1, h1l⟩ := Elem.facts (by simp [allElems]) hsap
    obtain ⟨h2, h2l⟩ := Elem.facts (by simp [allElems]) hfmf
    obtain ⟨h3, h3l⟩ := Elem.facts (by simp [allElems]) hrsf
    obtain ⟨h4, h4l⟩ := Elem.facts (by simp [allElems]) hfsn
    change sap < 2 ^ 4 at h1l; change fmf < 2 ^ 1 at h2l; change rsf < 2 ^ 1 at h3l; change fsn < 2 ^ 4 at h4l
    unfold dec
    simp only [enc, body, dpfConfirmed, dpfResponse, dpfShortDataDefined, dpfUnconfirmed, dpfUdt, List.append_assoc]
    layout_simp [hd, hcrc, hpoc, hdst, hsrc, hbtf, hns, h1, h1l, h2, h2l, h3, h3l, h4, h4l]
  | unconfirmed g a poc sap dst src fmf btf fsn =>
    obtain ⟨hpoc, hsap, hdst, hsrc, hfmf, hbtf, hfsn⟩ := hpl
    have hd : eDataPacketFormats.dec 2 = .ok 2 := rfl
    obtain ⟨h1, h1l⟩ := Elem.facts (by simp [allElems]) hsap
    obtain ⟨h2, h2l⟩ := Elem.facts (by simp [allElems]) hfmf
    obtain ⟨h4, h4l⟩ := Elem.facts (by simp [allElems]) hfsn
    change sap < 2 ^ 4 at h1l; change fmf < 2 ^ 1 at h2l; change fsn < 2 ^ 4 at h4l
    unfold dec
    simp only [enc, body, dpfConfirmed, dpfResponse, dpfShortDataDefined, dpfUnconfirmed, dpfUdt, List.append_assoc]
    layout_simp [hd, hcrc, hpoc, hdst, hsrc, hbtf, h1, h1l, h2, h2l, h4, h4l]
  | response a sap dst src fmf btf cls typ status =>
    obtain ⟨hsap, hdst, hsrc, hfmf, hbtf, hcls, htyp, hstatus⟩ := hpl
    have hd : eDataPacketFormats.dec 1 = .ok 1 := rfl
    obtain ⟨h1, h1l⟩ := Elem.facts (by simp [allElems]) hsap
    obtain ⟨h2, h2l⟩ := Elem.facts (by simp [allElems]) hfmf
    change sap < 2 ^ 4 at h1l; change fmf < 2 ^ 1 at h2l
    unfold dec
    simp only [enc, body, dpfConfirmed, dpfResponse, dpfShortDataDefined, dpfUnconfirmed, dpfUdt, List.append_assoc]
    layout_simp [hd, hcrc, hdst, hsrc, hbtf, hcls, htyp, hstatus, h1, h1l, h2, h2l]
  | shortDataDefined g a ab sap dst src ddf sarq fmf pad =>
    obtain ⟨hab, hsap, hdst, hsrc, hddf, hsarq, hfmf, hpad⟩ := hpl
    have hd : eDataPacketFormats.dec 13 = .ok 13 := rfl
    obtain ⟨h1, h1l⟩ := Elem.facts (by simp [allElems]) hsap
    obtain ⟨h2, h2l⟩ := Elem.facts (by simp [allElems]) hfmf
    obtain ⟨h3, h3l⟩ := Elem.facts (by simp [allElems]) hddf
    obtain ⟨h4, h4l⟩ := Elem.facts (by simp [allElems]) hsarq
    change sap < 2 ^ 4 at h1l; change fmf < 2 ^ 1 at h2l; change ddf < 2 ^ 6 at h3l; change sarq < 2 ^ 1 at h4l
    unfold dec
    simp only [enc, body, dpfConfirmed, dpfResponse, dpfShortDataDefined, dpfUnconfirmed, dpfUdt, List.append_assoc]
    layout_simp [hd, hcrc, hab, hdst, hsrc, hpad, h1, h1l, h2, h2l, h3, h3l, h4, h4l]
  | udt g a e of sap fmt dst src pn ab sf op =>
    obtain ⟨hof, hsap, hfmt, hdst, hsrc, hpn, hab, hsf, hop⟩ := hpl
    have hd : eDataPacketFormats.dec 0 = .ok 0 := rfl
    obtain ⟨h1, h1l⟩ := Elem.facts (by simp [allElems]) hsap
    obtain ⟨h2, h2l⟩ := Elem.facts (by simp [allElems]) hof
    obtain ⟨h3, h3l⟩ := Elem.facts (by simp [allElems]) hfmt
    obtain ⟨h4, h4l⟩ := Elem.facts (by simp [allElems]) hsf
    obtain ⟨h5, h5l⟩ := Elem.facts (by simp [allElems]) hop
    change sap < 2 ^ 4 at h1l; change of < 2 ^ 1 at h2l; change fmt < 2 ^ 4 at h3l; change sf < 2 ^ 1 at h4l
    change op < 2 ^ 6 at h5l
    unfold dec
    simp only [enc, body, dpfConfirmed, dpfResponse, dpfShortDataDefined, dpfUnconfirmed, dpfUdt, List.append_assoc]
    layout_simp [hd, hcrc, hdst, hsrc, hpn, hab, h1, h1l, h2, h2l, h3, h3l, h4, h4l, h5, h5l]

theorem take_enc (p : DataHeader) (h : p.crc.length = 16) :
    (enc p).take ((enc p).length - 16) = body p.payload := by
  simp [enc, h]

theorem init_wf (f : Bits → Nat) (p : DataHeader) (h : p.WF) : (init f p).WF := by
  unfold init
  split
  · exact ⟨by simp, h.2⟩
  · exact h

theorem init_payload (f : Bits → Nat) (p : DataHeader) : (init f p).payload = p.payload := by
  unfold init; split <;> rfl

/-- the constructor's CRC rule is idempotent -/
theorem init_idem (f : Bits → Nat) (p : DataHeader) (h : p.WF) : init f (init f p) = init f p := by
  by_cases hc : p.crc.length ≠ 16 ∨ allZero p.crc = true
  · have h1 : init f p = { p with crc := natToBits 16 (f (body p.payload)) } := by
      unfold init; rw [if_pos hc, take_enc p h.1]
    rw [h1]
    unfold init
    split
    · rw [take_enc _ (by simp)]
    · rfl
  · have h1 : init f p = p := by unfold init; rw [if_neg hc]
    rw [h1, h1]

/-- whatever `from_bits` returns is the constructor applied to in-range field values -/
theorem dec_spec (f : Bits → Nat) (bs : Bits) (hl : bs.length = 96) (p : DataHeader)
    (h : dec f bs = .ok p) : ∃ q : DataHeader, q.WF ∧ p = init f q := by
  unfold dec at h
  simp only [hl, Nat.lt_irrefl, ↓reduceIte] at h
  repeat' split at h
  all_goals cases h
  all_goals refine ⟨_, ?_, rfl⟩
  all_goals (unfold WF DhPayload.WF; and_intros)
  all_goals wf_field

theorem dec_wf (f : Bits → Nat) (bs : Bits) (hl : bs.length = 96) (p : DataHeader)
    (h : dec f bs = .ok p) : p.WF := by
  obtain ⟨q, hq, rfl⟩ := dec_spec f bs hl p h
  exact init_wf f q hq

theorem fixpoint (f : Bits → Nat) (bs : Bits) (hl : bs.length = 96) (p : DataHeader)
    (h : dec f bs = .ok p) : dec f (enc p) = .ok p ∧ (enc p).length = 96 := by
  obtain ⟨q, hq, rfl⟩ := dec_spec f bs hl p h
  have hw := init_wf f q hq
  exact ⟨by rw [dec_enc f _ hw, init_idem f q hq], enc_length _ hw⟩

/-- a 96-bit string is decoded, or raises `NotImplementedError` (reserved / raw short data /
proprietary format) or `ValueError` (undefined UDT opcode); nothing else -/
theorem dec_errors (f : Bits → Nat) (bs : Bits) (hl : bs.length = 96) (e : Err)
    (h : dec f bs = .error e) : e = .valueError ∨ e = .notImplemented := by
  unfold dec at h
  simp only [hl, Nat.lt_irrefl, ↓reduceIte] at h
  repeat' split at h
  all_goals first
    | (cases h; done)
    | (cases h; right; rfl)
    | (cases h; left; exact Elem.err_valueError_mem (by assumption) (by simp [allElems]))

end DataHeader
end Dmr
