import DmrVerif.Model.Layout
import DmrVerif.Lemmas.Gf2

/-!
# Field-layout lemmas

The facts that turn an encode–decode round trip of a fixed bit layout into a list of offset
computations:

* `int2ba` / `ba2int` are inverse on in-range values (`bitsToNat_natToBits`, `natToBits_bitsToNat`);
* a slice of an append chain is found by skipping the segments in front of it
  (`slice_append_right`, `slice_append_left`, `slice_exact`), same for single bits;
* octet strings ↔ bit strings (`bitsToBytes_bytesToBits`, `bytesToBits_bitsToBytes`);
* two's complement fields (`fromSigned_toSigned`, `toSigned_fromSigned`).
-/

namespace Dmr

/-! ## `natToBits` / `bitsToNat` -/

@[simp] theorem natToBits_length (w v : Nat) : (natToBits w v).length = w := by
  induction w with
  | zero => rfl
  | succ w ih => simp [natToBits, ih]

theorem bitsToNat_foldl (bs : Bits) (acc : Nat) :
    bs.foldl (fun acc b => 2 * acc + b.toNat) acc = acc * 2 ^ bs.length + bitsToNat bs := by
  induction bs generalizing acc with
  | nil => simp [bitsToNat]
  | cons b bs ih =>
    simp only [List.foldl_cons, List.length_cons, bitsToNat]
    rw [ih, ih (2 * 0 + b.toNat)]
    rw [Nat.pow_succ]
    have : (2 * acc + b.toNat) * 2 ^ bs.length = acc * (2 ^ bs.length * 2) + (2 * 0 + b.toNat) * 2 ^ bs.length := by
      simp only [Nat.mul_zero, Nat.zero_add, Nat.add_mul]
      congr 1
      rw [Nat.mul_comm 2 acc, Nat.mul_assoc, Nat.mul_comm 2]
    omega

@[simp] theorem bitsToNat_nil : bitsToNat [] = 0 := rfl

theorem bitsToNat_cons (b : Bool) (bs : Bits) :
    bitsToNat (b :: bs) = b.toNat * 2 ^ bs.length + bitsToNat bs := by
  show List.foldl _ 0 (b :: bs) = _
  rw [List.foldl_cons, bitsToNat_foldl]
  simp

theorem bitsToNat_append (a b : Bits) : bitsToNat (a ++ b) = bitsToNat a * 2 ^ b.length + bitsToNat b := by
  simp only [bitsToNat, List.foldl_append]
  rw [bitsToNat_foldl]
  rfl

theorem bitsToNat_lt (bs : Bits) : bitsToNat bs < 2 ^ bs.length := by
  induction bs with
  | nil => simp
  | cons b bs ih =>
    rw [bitsToNat_cons, List.length_cons, Nat.pow_succ]
    cases b <;> simp <;> omega

theorem bitsToNat_lt' (bs : Bits) (w : Nat) (h : bs.length = w) : bitsToNat bs < 2 ^ w := h ▸ bitsToNat_lt bs

theorem bitsToNat_natToBits_mod (w v : Nat) : bitsToNat (natToBits w v) = v % 2 ^ w := by
  induction w with
  | zero => simp [natToBits, Nat.mod_one]
  | succ w ih =>
    simp only [natToBits]
    rw [bitsToNat_cons, ih, natToBits_length]
    have h2 : v / 2 ^ w % 2 < 2 := Nat.mod_lt _ (by omega)
    have hb : (v / 2 ^ w % 2 == 1).toNat = v / 2 ^ w % 2 := by
      rcases Nat.lt_succ_iff_lt_or_eq.mp h2 with h | h
      · have : v / 2 ^ w % 2 = 0 := by omega
        simp [this]
      · simp [h]
    rw [hb, Nat.pow_succ]
    have hpos : 0 < 2 ^ w := Nat.pos_of_ne_zero (by simp)
    -- v % (2^w * 2) = v % 2^w + 2^w * (v / 2^w % 2)
    rw [Nat.mod_mul]
    rw [Nat.add_comm, Nat.mul_comm]

@[simp] theorem bitsToNat_natToBits (w v : Nat) (h : v < 2 ^ w) : bitsToNat (natToBits w v) = v := by
  rw [bitsToNat_natToBits_mod, Nat.mod_eq_of_lt h]

theorem natToBits_mod (w v : Nat) : natToBits w (v % 2 ^ w) = natToBits w v := by
  induction w generalizing v with
  | zero => rfl
  | succ w ih =>
    simp only [natToBits]
    have hpos : 0 < 2 ^ w := Nat.pos_of_ne_zero (by simp)
    congr 1
    · rw [Nat.pow_succ, Nat.mod_mul_right_div_self]
      simp
    · rw [← ih (v % 2 ^ (w + 1)), ← ih v]
      congr 1
      rw [Nat.pow_succ]
      exact Nat.mod_mul_right_mod v (2 ^ w) 2

theorem natToBits_bitsToNat (bs : Bits) : natToBits bs.length (bitsToNat bs) = bs := by
  induction bs with
  | nil => rfl
  | cons b bs ih =>
    simp only [List.length_cons, natToBits]
    rw [bitsToNat_cons]
    have hlt := bitsToNat_lt bs
    have hpos : 0 < 2 ^ bs.length := Nat.pos_of_ne_zero (by simp)
    congr 1
    · rw [Nat.add_comm, Nat.add_mul_div_right _ _ hpos, Nat.div_eq_of_lt hlt]
      cases b <;> simp
    · rw [← natToBits_mod, Nat.add_comm, Nat.add_mul_mod_self_right, Nat.mod_eq_of_lt hlt, ih]

theorem natToBits_bitsToNat' (bs : Bits) (w : Nat) (h : bs.length = w) : natToBits w (bitsToNat bs) = bs := by
  subst h; exact natToBits_bitsToNat bs

theorem natToBits_zero (w : Nat) : natToBits w 0 = zeros w := by
  induction w with
  | zero => rfl
  | succ w ih => simp [natToBits, ih]

@[simp] theorem bitsToNat_zeros (n : Nat) : bitsToNat (zeros n) = 0 := by
  rw [← natToBits_zero, bitsToNat_natToBits_mod]; simp

theorem natToBits_injective (w a b : Nat) (ha : a < 2 ^ w) (hb : b < 2 ^ w)
    (h : natToBits w a = natToBits w b) : a = b := by
  have := congrArg bitsToNat h
  rwa [bitsToNat_natToBits _ _ ha, bitsToNat_natToBits _ _ hb] at this

theorem allZero_iff (bs : Bits) : allZero bs = true ↔ bitsToNat bs = 0 := by
  induction bs with
  | nil => simp [allZero]
  | cons b bs ih =>
    rw [bitsToNat_cons]
    have hpos : 0 < 2 ^ bs.length := Nat.pos_of_ne_zero (by simp)
    simp only [allZero, List.all_cons] at ih ⊢
    cases b
    · simpa using ih
    · simp

/-! ## slices of append chains -/

@[simp] theorem slice_length_le (bs : Bits) (off w : Nat) (h : off + w ≤ bs.length) :
    (slice bs off w).length = w := by
  simp [slice]; omega

theorem slice_append_right (a b : Bits) (off w : Nat) (h : a.length ≤ off) :
    slice (a ++ b) off w = slice b (off - a.length) w := by
  simp only [slice]
  rw [List.drop_append, List.drop_eq_nil_of_le h, List.nil_append]

theorem drop_append_skip (a b : Bits) (n : Nat) (h : a.length ≤ n) : (a ++ b).drop n = b.drop (n - a.length) := by
  rw [List.drop_append, List.drop_eq_nil_of_le h, List.nil_append]

theorem slice_append_left (a b : Bits) (off w : Nat) (h : off + w ≤ a.length) :
    slice (a ++ b) off w = slice a off w := by
  simp only [slice]
  rw [List.drop_append_of_le_length (by omega), List.take_append_of_le_length (by simp; omega)]

theorem slice_exact (a : Bits) (w : Nat) (h : a.length = w) : slice a 0 w = a := by
  simp [slice, ← h]

theorem slice_append_exact (a b : Bits) (w : Nat) (h : a.length = w) : slice (a ++ b) 0 w = a := by
  rw [slice_append_left _ _ _ _ (by omega), slice_exact _ _ h]

theorem slice_cons_succ (x : Bool) (a : Bits) (off w : Nat) : slice (x :: a) (off + 1) w = slice a off w := by
  simp [slice]

theorem slice_all (a : Bits) (off : Nat) (w : Nat) (h : a.length ≤ off + w) : slice a off w = a.drop off := by
  simp only [slice]
  exact List.take_of_length_le (by simp; omega)

theorem getBit_append_right' (a b : Bits) (i : Nat) (h : a.length ≤ i) :
    getBit (a ++ b) i = getBit b (i - a.length) := by
  have : i = a.length + (i - a.length) := by omega
  rw [this, getBit_append_right]; simp

theorem getBit_natToBits_one (v : Nat) (h : v < 2) : getBit (natToBits 1 v) 0 = (v == 1) := by
  have : v = 0 ∨ v = 1 := by omega
  rcases this with rfl | rfl <;> rfl

/-- `bits[i]` as a one-bit field -/
theorem getField_one (bs : Bits) (i : Nat) (h : i < bs.length) : getField bs i 1 = b2n (getBit bs i) := by
  simp only [getField, slice, getBit]
  rw [List.take_one, List.head?_drop]
  simp [List.getD, h, bitsToNat, b2n]
  cases bs[i] <;> rfl

/-! ## `take` / `drop` of an `int2ba` -/

theorem natToBits_add (a b v : Nat) :
    natToBits (a + b) v = natToBits a (v / 2 ^ b) ++ natToBits b v := by
  induction a with
  | zero => simp [natToBits]
  | succ a ih =>
    rw [show a + 1 + b = (a + b) + 1 by omega]
    simp only [natToBits, List.cons_append]
    congr 1
    · rw [Nat.div_div_eq_div_mul, ← Nat.pow_add, Nat.add_comm b a]

theorem natToBits_take (a b v : Nat) : (natToBits (a + b) v).take a = natToBits a (v / 2 ^ b) := by
  rw [natToBits_add, List.take_left' (natToBits_length _ _)]

theorem natToBits_drop (a b v : Nat) : (natToBits (a + b) v).drop a = natToBits b v := by
  rw [natToBits_add, List.drop_left' (natToBits_length _ _)]

/-! ## flags -/

@[simp] theorem n2b_b2n (b : Bool) : n2b (b2n b) = b := by cases b <;> rfl
@[simp] theorem b2n_lt (b : Bool) : b2n b < 2 := by cases b <;> decide
theorem b2n_n2b (n : Nat) (h : n < 2) : b2n (n2b n) = n := by
  have : n = 0 ∨ n = 1 := by omega
  rcases this with rfl | rfl <;> rfl
@[simp] theorem natToBits_one_b2n (b : Bool) : natToBits 1 (b2n b) = [b] := by cases b <;> rfl
@[simp] theorem bitsToNat_singleton (b : Bool) : bitsToNat [b] = b2n b := by cases b <;> rfl

/-! ## octets -/

theorem bytesToBits_length (d : Bytes) : (bytesToBits d).length = 8 * d.length := by
  induction d with
  | nil => rfl
  | cons x xs ih =>
    simp only [bytesToBits, List.flatMap_cons, List.length_append, natToBits_length, List.length_cons] at ih ⊢
    omega

theorem bytesToBits_cons (x : Nat) (xs : Bytes) : bytesToBits (x :: xs) = natToBits 8 x ++ bytesToBits xs := by
  simp [bytesToBits]

theorem chunks_append_exact (n : Nat) (a : List Bool) (b : List Bool) (hn : 0 < n) (ha : a.length = n) :
    chunks n (a ++ b) = a :: chunks n b := by
  rw [chunks]
  have h1 : ¬ (n = 0 ∨ a ++ b = []) := by
    intro h; rcases h with h | h
    · omega
    · have := congrArg List.length h
      simp only [List.length_append, List.length_nil] at this; omega
  rw [dif_neg h1]
  congr 1
  · exact List.take_left' ha
  · rw [List.drop_left' ha]

theorem chunks_nil (n : Nat) : chunks n ([] : List Bool) = [] := by
  rw [chunks]; simp

theorem bitsToBytes_bytesToBits (d : Bytes) (h : isBytes d = true) : bitsToBytes (bytesToBits d) = d := by
  induction d with
  | nil => simp [bytesToBits, bitsToBytes, chunks_nil]
  | cons x xs ih =>
    simp only [isBytes, List.all_cons, Bool.and_eq_true, decide_eq_true_eq] at h
    have ih' := ih (by simpa [isBytes] using h.2)
    rw [bytesToBits_cons]
    simp only [bitsToBytes] at ih' ⊢
    rw [chunks_append_exact 8 _ _ (by omega) (natToBits_length 8 x)]
    simp only [List.map_cons, natToBits_length, Nat.sub_self, zeros_zero, List.append_nil]
    rw [ih', bitsToNat_natToBits 8 x (by omega)]

theorem bitsToBytes_length (n : Nat) (bs : Bits) (h : bs.length = 8 * n) : (bitsToBytes bs).length = n := by
  induction n generalizing bs with
  | zero =>
    have : bs = [] := List.eq_nil_of_length_eq_zero (by omega)
    subst this; simp [bitsToBytes, chunks_nil]
  | succ n ih =>
    have hsplit : bs = bs.take 8 ++ bs.drop 8 := (List.take_append_drop 8 bs).symm
    have ht : (bs.take 8).length = 8 := by simp; omega
    rw [hsplit]
    simp only [bitsToBytes] at ih ⊢
    rw [chunks_append_exact 8 _ _ (by omega) ht]
    simp only [List.map_cons, List.length_cons]
    rw [ih (bs.drop 8) (by simp; omega)]

theorem bytesToBits_bitsToBytes (n : Nat) (bs : Bits) (h : bs.length = 8 * n) :
    bytesToBits (bitsToBytes bs) = bs := by
  induction n generalizing bs with
  | zero =>
    have : bs = [] := List.eq_nil_of_length_eq_zero (by omega)
    subst this; simp [bitsToBytes, chunks_nil, bytesToBits]
  | succ n ih =>
    have hsplit : bs = bs.take 8 ++ bs.drop 8 := (List.take_append_drop 8 bs).symm
    have ht : (bs.take 8).length = 8 := by simp; omega
    have ih' := ih (bs.drop 8) (by simp; omega)
    conv => rhs; rw [hsplit]
    rw [hsplit]
    simp only [bitsToBytes] at ih' ⊢
    rw [chunks_append_exact 8 _ _ (by omega) ht]
    simp only [List.map_cons]
    rw [bytesToBits_cons, ih']
    simp only [ht, Nat.sub_self, zeros_zero, List.append_nil]
    rw [natToBits_bitsToNat' _ 8 ht]
    simp

theorem isBytes_bitsToBytes (n : Nat) (bs : Bits) (h : bs.length = 8 * n) : isBytes (bitsToBytes bs) = true := by
  induction n generalizing bs with
  | zero =>
    have : bs = [] := List.eq_nil_of_length_eq_zero (by omega)
    subst this; simp [bitsToBytes, chunks_nil, isBytes]
  | succ n ih =>
    have hsplit : bs = bs.take 8 ++ bs.drop 8 := (List.take_append_drop 8 bs).symm
    have ht : (bs.take 8).length = 8 := by simp; omega
    have ih' := ih (bs.drop 8) (by simp; omega)
    rw [hsplit]
    simp only [bitsToBytes, isBytes] at ih' ⊢
    rw [chunks_append_exact 8 _ _ (by omega) ht]
    simp only [List.map_cons, List.all_cons, Bool.and_eq_true, decide_eq_true_eq]
    refine ⟨?_, ih'⟩
    simp only [ht, Nat.sub_self, zeros_zero, List.append_nil]
    exact bitsToNat_lt' _ 8 ht

/-! ## two's complement fields -/

theorem two_pow_pred (w : Nat) (hw : 0 < w) : (2 : Nat) ^ w = 2 * 2 ^ (w - 1) := by
  cases w with
  | zero => omega
  | succ w => simp [Nat.pow_succ, Nat.mul_comm]

theorem fromSigned_toSigned (w u : Nat) (hw : 0 < w) (hu : u < 2 ^ w) : fromSigned w (toSigned w u) = u := by
  unfold fromSigned toSigned
  have hp := two_pow_pred w hw
  split
  · rw [Int.emod_eq_of_lt (by omega) (by omega)]; simp
  · rw [Int.sub_emod_right, Int.emod_eq_of_lt (by omega) (by omega)]; simp

theorem toSigned_fromSigned (w : Nat) (n : Int) (hw : 0 < w) (h : signedInRange w n) :
    toSigned w (fromSigned w n) = n := by
  obtain ⟨h1, h2⟩ := h
  have hp := two_pow_pred w hw
  unfold fromSigned toSigned
  by_cases hn : 0 ≤ n
  · rw [Int.emod_eq_of_lt hn (by omega)]
    have : n.toNat < 2 ^ (w - 1) := by omega
    rw [if_pos this]; omega
  · have hm : n % ((2 ^ w : Nat) : Int) = n + ((2 ^ w : Nat) : Int) := by
      rw [← Int.add_emod_right]
      exact Int.emod_eq_of_lt (by omega) (by omega)
    rw [hm]
    have : ¬ (n + ((2 ^ w : Nat) : Int)).toNat < 2 ^ (w - 1) := by omega
    rw [if_neg this]; omega

theorem fromSigned_lt (w : Nat) (n : Int) : fromSigned w n < 2 ^ w := by
  unfold fromSigned
  have hpos : (0 : Int) < ((2 ^ w : Nat) : Int) := by
    have : 0 < 2 ^ w := Nat.pos_of_ne_zero (by simp)
    omega
  have h1 := Int.emod_lt_of_pos n hpos
  have h0 := Int.emod_nonneg n (Int.ne_of_gt hpos)
  omega

theorem signedInRange_toSigned (w u : Nat) (hw : 0 < w) (hu : u < 2 ^ w) : signedInRange w (toSigned w u) := by
  have hp := two_pow_pred w hw
  unfold signedInRange toSigned
  split <;> omega

theorem b2n_beq_one (v : Nat) (h : v < 2 ^ 1) : b2n (v == 1) = v := by
  have : v = 0 ∨ v = 1 := by omega
  rcases this with rfl | rfl <;> rfl

theorem getBit_natToBits_one' (v : Nat) (h : v < 2 ^ 1) : getBit (natToBits 1 v) 0 = (v == 1) :=
  getBit_natToBits_one v (by omega)

theorem bitsToNat_two_bits (v : Nat) (h : v < 2 ^ 2) :
    bitsToNat [getBit (natToBits 2 v) 0, getBit (natToBits 2 v) 1] = v := by
  have : v = 0 ∨ v = 1 ∨ v = 2 ∨ v = 3 := by omega
  rcases this with rfl | rfl | rfl | rfl <;> rfl

theorem poc_split (v : Nat) (h : v < 2 ^ 5) :
    b2n (getBit (natToBits 5 v) 0) * 16 + bitsToNat ((natToBits 5 v).drop 1) = v := by
  revert v; decide

theorem ab_split (v : Nat) (h : v < 2 ^ 6) :
    bitsToNat ([getBit (natToBits 6 v) 0, getBit (natToBits 6 v) 1] ++ (natToBits 6 v).drop 2) = v := by
  revert v; decide

theorem slice_split (bs : Bits) (a b : Nat) (h : bs.length = a + b) : slice bs 0 a ++ slice bs a b = bs := by
  simp only [slice, List.drop_zero]
  rw [List.take_of_length_le (l := bs.drop a) (by simp; omega)]
  exact List.take_append_drop a bs

theorem isBytes_bitsToBytes' (bs : Bits) (h : bs.length % 8 = 0) : isBytes (bitsToBytes bs) = true :=
  isBytes_bitsToBytes (bs.length / 8) bs (by omega)

theorem bitsToNat_lt_of_le (bs : Bits) (w : Nat) (h : bs.length ≤ w) : bitsToNat bs < 2 ^ w :=
  Nat.lt_of_lt_of_le (bitsToNat_lt bs) (Nat.pow_le_pow_right (by omega) h)

theorem slice_length (bs : Bits) (off w : Nat) : (slice bs off w).length = min w (bs.length - off) := by
  simp [slice]

theorem getField_lt (bs : Bits) (off w : Nat) : getField bs off w < 2 ^ w :=
  bitsToNat_lt_of_le _ _ (by simp [slice_length]; omega)

theorem b2n_lt' (b : Bool) : b2n b < 2 ^ 1 := by cases b <;> decide

/-! ## the simp set that evaluates reads of an append chain -/

theorem getBit_singleton_zero (x : Bool) : getBit [x] 0 = x := rfl

open Lean.Parser.Tactic in
/-- `layout_simp [extra lemmas / hypotheses]`: resolve `slice` / `getField` / `getBit` of a
right-nested append chain of segments of known length, then `ba2int (int2ba v) = v` for in-range `v` -/
macro "layout_simp" "[" ts:simpLemma,* "]" : tactic =>
  `(tactic| simp (config := { decide := true }) only [getField, slice_append_right, slice_append_left,
      slice_append_exact, slice_exact, slice_cons_succ, drop_append_skip, List.drop_zero, List.length_drop, poc_split, ab_split, getBit_append_left, getBit_append_right', getBit_cons_zero,
      getBit_cons_succ, natToBits_length, zeros_length, bytesToBits_length, slice_length_le, List.length_cons,
      List.length_nil, List.length_append, bitsToNat_natToBits, n2b_b2n, bitsToNat_singleton, Bool.not_not, b2n_beq_one, getBit_natToBits_one',
      bitsToNat_two_bits,
      ↓reduceIte, Nat.reduceAdd, Nat.reduceSub, Nat.reduceMul, Nat.zero_add, Nat.reduceLeDiff,
      Nat.reduceLT, Nat.reducePow, Nat.lt_irrefl, Nat.reduceEqDiff, $ts,*])

/-- closes one conjunct of a well-formedness goal about a field read from an arbitrary bit string
(extended by `macro_rules` in the PDU lemma files) -/
syntax "wf_field" : tactic
macro_rules | `(tactic| wf_field) => `(tactic| first
  | exact getField_lt _ _ _
  | exact b2n_lt' _
  | exact fromSigned_lt _ _
  | (apply bitsToNat_lt_of_le; simp (config := { decide := true }) [slice_length, *]; done)
  | (apply bitsToBytes_length; simp (config := { decide := true }) [slice_length, *]; done)
  | (apply isBytes_bitsToBytes'; simp (config := { decide := true }) [slice_length, *]; done)
  | (simp (config := { decide := true }) [slice_length, *]; done))

end Dmr
