import DmrVerif.Lemmas.Integrity

/-!
C04, CRC-protected PDUs (core Lean): each indicator read as "the check field of the received word is
the (masked, inverted) CRC of its data bits in code order", and detection by `Crc.affine_detect`.
-/

namespace Dmr
namespace Integrity
open Dmr.Crc Dmr.Gen Dmr.Gen.Integrity

/-! ### the front-end verdicts as the library forms them -/

theorem int_beq_natCast (a b : Nat) : ((a : Int) == (b : Int)) = decide (a = b) := by
  rw [Bool.eq_iff_iff, beq_iff_eq, decide_eq_true_iff]
  exact Int.ofNat_inj

theorem crc8Check_eq (data : Bits) (v : Nat) (hv : v ≤ 255) :
    crc8Check false data v = .ok (decide (bitsToNat (feed p8 data) = v)) := by
  unfold crc8Check crc8CheckWith
  rw [if_neg (by omega)]
  have := crc8_feed data
  unfold Crc.crc8 at this
  rw [this]
  simp only [Except.map, int_beq_natCast]

theorem crc16Check_eq (data : Bytes) (v mask : Nat) (hv : v ≤ 65535) :
    crc16Check data v mask
      = .ok (decide (Nat.xor (bitsToNat (inv (feed p16 (bytesToBits data)))) mask = v)) := by
  unfold crc16Check crc16CheckWith
  rw [if_neg (by omega)]
  have := crc16_feed data mask
  unfold Crc.crc16 at this
  rw [this]
  simp only [Except.map, int_beq_natCast]

/-! ### short LC -/

/-- a 36-bit word whose CRC field (sent least significant bit first) is the CRC-8 of its 28 data bits -/
def slcValid (r : Bits) : Prop := feed p8 (sl r 0 28) = (sl r 28 36).reverse

instance (r : Bits) : Decidable (slcValid r) := by unfold slcValid; exact inferInstance

/-- the word in the order in which the CRC covers it: data, then the check bits most significant first -/
def slcOrder (e : Bits) : Bits := sl e 0 28 ++ (sl e 28 36).reverse

theorem slcDec_ok (r : Bits) (hl : r.length = 36) (hz : bitsToNat (sl r 28 36) ≠ 0) (q : SlcObj)
    (h : slcDec r = .ok q) : q.ok = decide (slcValid r) := by
  have hfl : (sl r 28 36).reverse.length = 8 := by simp [sl_length, hl]
  have hfl' : (feed p8 (sl r 0 28)).length = 8 := by rw [feed_length, p8_length]
  have hv : bitsToNat (sl r 28 36).reverse ≤ 255 := by
    have := bitsToNat_lt (sl r 28 36).reverse; rw [hfl] at this; omega
  unfold slcDec at h
  rw [if_neg (by omega)] at h
  split at h
  · exact absurd h (by simp)
  · rename_i o ho
    rw [if_pos hz, crc8Check_eq _ _ hv] at h
    simp only [ofCrc] at h
    injection h with h
    subst h
    simp only [slcValid]
    congr 1
    apply propext
    constructor
    · intro he; exact bitsToNat_injective _ _ (by rw [hfl, hfl']) he
    · intro he; rw [he]

/-- **Short LC detection.**  A valid word hit by an error whose code-order form feeds to non-zero,
received with a non-zero CRC field: a decode error or `crc_ok = false`. -/
theorem slc_detect (s e : Bits) (hs : s.length = 36) (he : e.length = 36) (hv : slcValid s)
    (hfeed : feed p8 (slcOrder e) ≠ zeros 8) (hz : bitsToNat (sl (xorBits s e) 28 36) ≠ 0)
    (q : SlcObj) (h : slcDec (xorBits s e) = .ok q) : q.ok = false := by
  have hl : (xorBits s e).length = 36 := by simp [hs, he]
  rw [slcDec_ok _ hl hz q h, decide_eq_false_iff_not]
  unfold slcValid at hv ⊢
  rw [sl_xor, sl_xor, xorBits_reverse _ _ (by simp [sl_length, hs, he])]
  have h28 : (sl s 0 28).length = (sl e 0 28).length := by simp [sl_length, hs, he]
  have h8 : (sl s 28 36).reverse.length = (sl e 28 36).reverse.length := by simp [sl_length, hs, he]
  have hK : xorBits (feed p8 (sl s 0 28)) (zeros 8) = (sl s 28 36).reverse := by
    rw [xorBits_zeros_right' _ _ (by rw [feed_length, p8_length])]; exact hv
  have := affine_detect p8 (zeros 8) (sl s 0 28) (sl s 28 36).reverse
    (xorBits (sl s 0 28) (sl e 0 28)) (xorBits (sl s 28 36).reverse (sl e 28 36).reverse)
    (by simp [sl_length, hs, he]) (by simp [p8_length]) hK
    (by
      rw [xorBits_append _ _ _ _ (by simp [sl_length, hs, he]), ← xorBits_assoc, xorBits_self,
        ← xorBits_assoc, xorBits_self, p8_length]
      rw [xorBits_zeros_left _ _ (by simp [sl_length, hs, he]),
        xorBits_zeros_left _ _ (by simp [sl_length, hs, he])]
      exact hfeed)
  rw [xorBits_zeros_right' _ _ (by rw [feed_length, p8_length])] at this
  exact this


/-! ### data header and PI header (CRC-CCITT over 80 data bits) -/

/-- a 96-bit word whose last 16 bits are the inverted, masked CRC-CCITT of its first 80 -/
def ccittValid (mask : Nat) (r : Bits) : Prop :=
  xorBits (feed p16 (sl r 0 80)) (affK 16 mask) = sl r 80 96

instance (mask : Nat) (r : Bits) : Decidable (ccittValid mask r) := by
  unfold ccittValid; exact inferInstance

theorem ccitt_check_iff (mask : Nat) (hm : mask < 65536) (r : Bits) (hl : r.length = 96) :
    decide (Nat.xor (bitsToNat (inv (feed p16 (bytesToBits (bitsToBytes (sl r 0 80)))))) mask
        = bitsToNat (sl r 80 96)) = decide (ccittValid mask r) := by
  have h80 : (sl r 0 80).length = 8 * 10 := by simp [sl_length, hl]
  rw [bytesToBits_bitsToBytes _ 10 h80]
  have hfl : (feed p16 (sl r 0 80)).length = 16 := by rw [feed_length, p16_length]
  have := masked_field_iff (feed p16 (sl r 0 80)) (sl r 80 96) mask (by rw [hfl]; exact hm)
    (by rw [hfl]; simp [sl_length, hl])
  rw [hfl] at this
  unfold ccittValid
  congr 1
  exact propext this

theorem maskDataHeader_lt : maskDataHeader < 65536 := by decide
theorem maskPiHeader_lt : maskPiHeader < 65536 := by decide

theorem dhDec_ok (r : Bits) (hl : r.length = 96) (hz : bitsToNat (sl r 80 96) ≠ 0) :
    dhDec r false = .ok (decide (ccittValid maskDataHeader r)) := by
  have hv : bitsToNat (sl r 80 96) ≤ 65535 := by
    have := bitsToNat_lt (sl r 80 96)
    rw [show (sl r 80 96).length = 16 by simp [sl_length, hl]] at this; omega
  unfold dhDec
  rw [if_neg (by simp), if_pos ⟨by omega, by omega⟩, crc16Check_eq _ _ _ hv,
    ccitt_check_iff _ maskDataHeader_lt r hl]
  rfl

theorem dhDec_fail (r : Bits) : dhDec r true = .error .valueError := by
  unfold dhDec; rfl

theorem piDec_ok (r : Bits) (hl : r.length = 96) :
    ∃ q, piDec r = .ok q ∧ q.ok = decide (ccittValid maskPiHeader r) := by
  unfold piDec piInit
  rw [if_neg (by omega), hl, crc16_feed]
  refine ⟨_, rfl, ?_⟩
  have h1 : r.take (96 - 16) = sl r 0 80 := by simp [sl]
  have h2 : r.drop (96 - 16) = sl r 80 96 := by
    rw [sl_full _ _ _ (by omega)]
  simp only [h1, h2]
  have := ccitt_check_iff maskPiHeader maskPiHeader_lt r hl
  rw [← this]
  rfl

/-- **CRC-CCITT detection** for a 96-bit word: valid word, error that feeds to non-zero -/
theorem ccitt_detect (mask : Nat) (s e : Bits) (hs : s.length = 96) (he : e.length = 96)
    (hv : ccittValid mask s) (hfeed : feed p16 e ≠ zeros 16) : ¬ ccittValid mask (xorBits s e) := by
  unfold ccittValid at hv ⊢
  rw [sl_xor, sl_xor]
  refine affine_detect p16 (affK 16 mask) (sl s 0 80) (sl s 80 96) _ _
    (by simp [sl_length, hs, he]) (by rw [affK_length, p16_length]) hv ?_
  rw [xorBits_append _ _ _ _ (by simp [sl_length, hs, he]), ← xorBits_assoc, xorBits_self,
    ← xorBits_assoc, xorBits_self, p16_length,
    xorBits_zeros_left _ _ (by simp [sl_length, hs, he]),
    xorBits_zeros_left _ _ (by simp [sl_length, hs, he]),
    sl_append_sl e 0 80 96 (by omega) (by omega), ← he, sl_self]
  exact hfeed

/-- the serialisation of a header the library built from 80 field bits is valid -/
theorem dhEnc_valid (body s : Bits) (hb : body.length = 80) (h : dhEnc body = .ok s) :
    s.length = 96 ∧ ccittValid maskDataHeader s := by
  unfold dhEnc at h
  rw [crc16_feed] at h
  simp only [ofCrc, bind, Except.bind, pure, Except.pure] at h
  split at h
  · exact absurd h (by simp [throw, throwThe, MonadExceptOf.throw])
  · rename_i hc
    injection h with h
    subst h
    have hbb : bytesToBits (bitsToBytes body) = body := bytesToBits_bitsToBytes _ 10 (by omega)
    rw [hbb] at hc ⊢
    have hfl : (feed p16 body).length = 16 := by rw [feed_length, p16_length]
    refine ⟨by simp [natToBits_length, hb], ?_⟩
    unfold ccittValid
    have h1 : sl (body ++ natToBits 16 (Nat.xor (bitsToNat (inv (feed p16 body))) maskDataHeader)) 0 80
        = body := by
      rw [sl_append_left _ _ _ _ (by omega), ← hb, sl_self]
    have h2 : sl (body ++ natToBits 16 (Nat.xor (bitsToNat (inv (feed p16 body))) maskDataHeader)) 80 96
        = natToBits 16 (Nat.xor (bitsToNat (inv (feed p16 body))) maskDataHeader) := by
      rw [sl_append_right _ _ _ _ (by omega), hb]
      have := sl_self (natToBits 16 (Nat.xor (bitsToNat (inv (feed p16 body))) maskDataHeader))
      rw [natToBits_length] at this
      exact this
    rw [h1, h2]
    have := masked_field_iff (feed p16 body)
      (natToBits 16 (Nat.xor (bitsToNat (inv (feed p16 body))) maskDataHeader)) maskDataHeader
      (by rw [hfl]; exact maskDataHeader_lt) (by rw [hfl, natToBits_length])
    rw [hfl] at this
    exact this.mp (by rw [bitsToNat_natToBits _ _ (by omega)])


/-! ### confirmed data blocks (CRC-9 over data ‖ [CRC-32] ‖ serial number) -/

theorem crc9_int_feed (data : Bytes) (dbsn c32 mask : Nat) (hd : dbsn < 128) (hc : c32 < 4294967296) :
    Crc.crc9 data dbsn mask (.int c32)
      = .ok (Nat.xor (bitsToNat (inv (feed p9 (bytesToBits data
          ++ (if c32 = 0 then [] else natToBits 32 c32) ++ natToBits 7 dbsn)))) mask) := by
  have h1 : ¬ ((dbsn : Int) < 0 ∨ 127 < (dbsn : Int)) := by omega
  have h2 : ¬ ((c32 : Int) < 0 ∨ 4294967295 < (c32 : Int)) := by omega
  unfold Crc.crc9 crc9With crc9Source
  by_cases h0 : c32 = 0
  · subst h0
    simp only [Int.toNat_natCast, Int.natCast_eq_zero, ↓reduceIte, bind, Except.bind, pure, Except.pure, h1,
      List.append_nil]
    exact crc9Bits_feed _ _
  · have h0' : ¬ ((c32 : Int) = 0) := by omega
    simp only [Int.toNat_natCast, h0, h0', ↓reduceIte, bind, Except.bind, pure, Except.pure, h1, h2]
    exact crc9Bits_feed _ _

/-- the bits the CRC-9 covers, in its order: data (and CRC-32), then the serial number -/
def rateSrc (r : Bits) (n : Nat) : Bits := sl r 16 n ++ sl r 0 7

/-- a block whose CRC-9 field (sent least significant bit first) is the inverted, masked CRC-9 -/
def rateValid (c : RateCfg) (r : Bits) : Prop :=
  xorBits (feed p9 (rateSrc r c.total)) (affK 9 c.mask) = (sl r 7 16).reverse

instance (c : RateCfg) (r : Bits) : Decidable (rateValid c r) := by
  unfold rateValid; exact inferInstance

/-- the word in the order in which the CRC-9 covers it -/
def rateOrder (e : Bits) (n : Nat) : Bits := rateSrc e n ++ (sl e 7 16).reverse

/-- what the three block families have in common (decided on the extracted tables) -/
structure RateOk (c : RateCfg) (k kl : Nat) : Prop where
  total : c.total = 16 + 8 * k
  totalL : c.total = 48 + 8 * kl
  len1 : c.lens.getD 1 0 = k
  len3 : c.lens.getD 3 0 = kl
  mem1 : c.members.contains k = true
  mem3 : c.members.contains kl = true
  k0 : k ≠ 0
  kl0 : kl ≠ 0
  mask : c.mask < 512

theorem rate12_ok : RateOk rate12 10 6 := by constructor <;> decide
theorem rate34_ok : RateOk rate34 16 12 := by constructor <;> decide
theorem rate1_ok : RateOk rate1 22 18 := by constructor <;> decide

theorem rateInit_ok (c : RateCfg) (typeLen : Nat) (dataBits dbsnBits crc9Bits : Bits) (c32 : Nat)
    (k : Nat) (hk : dataBits.length = 8 * k) (ht : typeLen = k)
    (hmem : c.members.contains k = true) (hd : dbsnBits.length = 7) (h9 : crc9Bits.length = 9)
    (hc : c32 < 4294967296) (hmask : c.mask < 512) (hz : bitsToNat crc9Bits.reverse ≠ 0) (q : RateObj)
    (h : rateInit c typeLen dataBits dbsnBits crc9Bits c32 = .ok q) :
    q.ok = decide (xorBits (feed p9 (dataBits ++ (if c32 = 0 then [] else natToBits 32 c32) ++ dbsnBits))
      (affK 9 c.mask) = crc9Bits.reverse) := by
  have hlen : (bitsToBytes dataBits).length = k := bitsToBytes_length _ k hk
  have hdb : bitsToNat dbsnBits < 128 := by
    have := bitsToNat_lt dbsnBits; rw [hd] at this; omega
  unfold rateInit at h
  simp only [hlen, ht, ne_eq, not_true_eq_false, and_false, ↓reduceIte, hmem, Bool.not_true,
    Bool.false_eq_true, crc9_int_feed _ _ _ _ hdb hc, ofCrc] at h
  rw [if_neg (by omega)] at h
  injection h with h
  subst h
  simp only [bytesToBits_bitsToBytes _ k hk]
  have hnd := natToBits_bitsToNat dbsnBits
  rw [hd] at hnd
  rw [hnd]
  generalize dataBits ++ (if c32 = 0 then [] else natToBits 32 c32) ++ dbsnBits = src
  have hfl : (feed p9 src).length = 9 := by rw [feed_length, p9_length]
  have := masked_field_iff (feed p9 src) crc9Bits.reverse c.mask (by rw [hfl]; exact hmask)
    (by rw [hfl]; simp [h9])
  rw [hfl] at this
  rw [Bool.eq_iff_iff, beq_iff_eq, decide_eq_true_iff]
  constructor
  · intro he; exact this.mp he.symm
  · intro he; exact (this.mpr he).symm


theorem rateDec_ok (c : RateCfg) (k kl : Nat) (hc : RateOk c k kl) (last : Bool) (r : Bits)
    (hl : r.length = c.total) (hz : bitsToNat (sl r 7 16).reverse ≠ 0)
    (hz32 : last = true → bitsToNat (sl r (c.total - 32) c.total) ≠ 0) (q : RateObj)
    (h : rateDec c last r = .ok q) : q.ok = decide (rateValid c r) := by
  have ht := hc.total
  have htl := hc.totalL
  unfold rateDec at h
  rw [if_neg (by omega)] at h
  cases last with
  | false =>
    simp only [Bool.false_eq_true, ↓reduceIte] at h
    have := rateInit_ok c _ (sl r 16 c.total) (sl r 0 7) (sl r 7 16) 0 k
      (by simp [sl_length, hl]; omega) hc.len1 hc.mem1 (by simp [sl_length, hl]; omega)
      (by simp [sl_length, hl]; omega) (by omega) hc.mask hz q h
    rw [this]
    simp only [↓reduceIte, List.append_nil]
    rfl
  | true =>
    simp only [↓reduceIte] at h
    have h32 : (sl r (c.total - 32) c.total).length = 32 := by simp [sl_length, hl]; omega
    have hlt : bitsToNat (sl r (c.total - 32) c.total) < 4294967296 := by
      have := bitsToNat_lt (sl r (c.total - 32) c.total); rw [h32] at this; exact this
    have := rateInit_ok c _ (sl r 16 (c.total - 32)) (sl r 0 7) (sl r 7 16)
      (bitsToNat (sl r (c.total - 32) c.total)) kl
      (by simp [sl_length, hl]; omega) hc.len3 hc.mem3 (by simp [sl_length, hl]; omega)
      (by simp [sl_length, hl]; omega) hlt hc.mask hz q h
    rw [this, if_neg (hz32 rfl)]
    have hnb := natToBits_bitsToNat (sl r (c.total - 32) c.total)
    rw [h32] at hnb
    rw [hnb, sl_append_sl r 16 (c.total - 32) c.total (by omega) (by omega)]
    rfl

theorem rateSrc_xor (s e : Bits) (n : Nat) (h : s.length = e.length) :
    rateSrc (xorBits s e) n = xorBits (rateSrc s n) (rateSrc e n) := by
  unfold rateSrc
  rw [sl_xor, sl_xor, xorBits_append _ _ _ _ (by simp [sl_length, h])]

/-- **CRC-9 detection**: valid block, error whose code-order form feeds to non-zero -/
theorem rate_detect (c : RateCfg) (s e : Bits) (hs : s.length = c.total) (he : e.length = c.total)
    (hv : rateValid c s) (hfeed : feed p9 (rateOrder e c.total) ≠ zeros 9) :
    ¬ rateValid c (xorBits s e) := by
  unfold rateValid at hv ⊢
  rw [rateSrc_xor _ _ _ (by rw [hs, he]), sl_xor, xorBits_reverse _ _ (by simp [sl_length, hs, he])]
  have hsrc : (rateSrc s c.total).length = (rateSrc e c.total).length := by
    simp [rateSrc, sl_length, hs, he]
  refine affine_detect p9 (affK 9 c.mask) (rateSrc s c.total) (sl s 7 16).reverse _ _
    (by simp [hsrc]) (by rw [affK_length, p9_length]) hv ?_
  rw [xorBits_append _ _ _ _ (by simp [hsrc]), ← xorBits_assoc, xorBits_self,
    ← xorBits_assoc, xorBits_self, p9_length,
    xorBits_zeros_left _ _ hsrc.symm,
    xorBits_zeros_left _ _ (by simp [sl_length, hs, he])]
  exact hfeed

end Integrity
end Dmr
