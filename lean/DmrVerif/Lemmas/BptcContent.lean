import DmrVerif.Lemmas.BptcMain
import DmrVerif.Model.BptcHist

/-!
Content independence of the BPTC(196,96) repair (round 4): what `repair_if_necessary` does to a received word
depends on the ERROR pattern only, never on the message.  For every 96-bit message `m` and EVERY 196-bit word `w`
(any weight, not only the correctable ones) the repair of `encode m ⊕ w` is `encode m ⊕ repair w`, and the decoder
returns `m ⊕ (what it returns for w alone)`.  So no structure of the message in the payload table — empty rows,
rows with a single set bit, equal or one-bit-off neighbouring rows, periodic rows, rows that are code words, the
same for columns — can make a difference, whichever bits the errors hit.
-/

namespace Dmr.Bptc
open Dmr Dmr.Code Dmr.Gen Dmr.Gen.Bptc19696

set_option maxRecDepth 100000

theorem repairCore_xor_encode (ok : TablesOk) (m w : Bits) (hw : w.length = 196) :
    repairCore (xorBits (encodeCore infoMap m) w) = xorBits (encodeCore infoMap m) (repairCore w) := by
  generalize hcdef : encodeCore infoMap m = c
  have hc : c.length = 196 := by rw [← hcdef]; exact encodeCore_length _ _
  have hcw : (xorBits c w).length = 196 := by
    rw [xorBits_length, hc, hw]; exact Nat.min_self 196
  have hE : (realize symCell w).length = 195 := by
    have h1 := ok.cellLen
    simp only [chkCellLen, beq_iff_eq] at h1
    rw [realize_length]; exact h1
  generalize hTdef : product (fillCore infoMap m) = T
  have hT : T.length = 195 := by rw [← hTdef]; exact product_length _
  have hP : IsProduct T := by rw [← hTdef]; exact isProduct_product ok _
  have hcell : realize symCell c = T := by rw [← hcdef, ← hTdef]; exact cell_encode ok m
  have hclean : realize symRepOut (c ++ T) = c := by
    have h1 := repairCore_eq ok c hc
    rw [hcell, ← hTdef, repairTable_product ok, hTdef] at h1
    rw [← h1, ← hcdef]
    exact repair_encode ok m
  generalize hRdef : repairTable (realize symCell w) = R
  have hR : R.length = 195 := by rw [← hRdef]; exact mapCols_length _ _
  have h2 : realize symCell (xorBits c w) = xorBits T (realize symCell w) := by
    rw [realize_xor _ _ _ (by rw [hc, hw]), hcell]
  have h3 : repairTable (xorBits T (realize symCell w)) = xorBits T R := by
    rw [repairTable_xor ok.idx _ _ hP hE, hRdef]
  have h4 : xorBits c w ++ xorBits T R = xorBits (c ++ T) (w ++ R) :=
    (xorBits_append c T w R (by rw [hc, hw])).symm
  have h5 : (c ++ T).length = (w ++ R).length := by
    rw [List.length_append, List.length_append, hc, hw, hT, hR]
  have h6 : repairCore w = realize symRepOut (w ++ R) := by
    rw [repairCore_eq ok w hw, hRdef]
  rw [repairCore_eq ok _ hcw, h2, h3, h4, realize_xor _ _ _ h5, hclean, h6]

theorem dataCore_xor (a b : Bits) (h : a.length = b.length) :
    dataCore (xorBits a b) = xorBits (dataCore a) (dataCore b) := by
  rw [dataCore_eq, dataCore_eq, dataCore_eq, realize_xor _ _ _ h]

theorem repairCore_length (w : Bits) : (repairCore w).length = 196 := by
  simp only [repairCore, scatter_length, deinterleaveAllCore]
  decide +kernel

/-- the decoder with repair: the message comes out XORed with what the decoder makes of the error word alone -/
theorem data_repair_xor_encode (ok : TablesOk) (m w : Bits) (hm : m.length = 96) (hw : w.length = 196) :
    dataCore (repairCore (xorBits (encodeCore infoMap m) w)) = xorBits m (dataCore (repairCore w)) := by
  rw [repairCore_xor_encode ok m w hw,
    dataCore_xor _ _ (by rw [encodeCore_length, repairCore_length]), data_encode ok m hm]

/-- the decoder without repair -/
theorem data_xor_encode (ok : TablesOk) (m w : Bits) (hm : m.length = 96) (hw : w.length = 196) :
    dataCore (xorBits (encodeCore infoMap m) w) = xorBits m (dataCore w) := by
  rw [dataCore_xor _ _ (by rw [encodeCore_length, hw]), data_encode ok m hm]

/-! ### the structure of the message IS the structure of the table the repair works on -/

/-- the payload block of the table `repair_if_necessary` builds from the code word of `m` is the block of rows `m`
was laid out in: a row / column structure of the message is a structure of the received table, cell by cell -/
theorem payloadBlock_cell_encode (ok : TablesOk) (m : Bits) :
    payloadBlock (fillCore fullDeinterleavingMap (deinterleaveAllCore (encodeCore infoMap m)))
      = payloadBlock (fillCore infoMap m) := by
  rw [cell_eq, cell_encode ok]
  unfold payloadBlock
  apply List.map_congr_left
  intro r hr
  apply List.map_congr_left
  intro c hc
  exact product_data ok.h15 ok.h13 _ r c (List.mem_range.mp hr) (List.mem_range.mp hc)

end Dmr.Bptc
