import DmrVerif.Lemmas.HyteraBytes
import DmrVerif.Lemmas.HyteraSpec

/-! LP (location protocol) and its GPS record of ten fixed-width ASCII fields: serialise-then-parse
(C12).  Core Lean only. -/

namespace Dmr.Hytera
open Dmr Dmr.Gen.Hytera

/-! ### decimal digits -/

@[simp] theorem isDigit_dig (v p : Nat) : isDigit (dig v p) = true := by
  have h : v / p % 10 < 10 := Nat.mod_lt _ (by decide)
  unfold isDigit dig
  generalize v / p % 10 = r at h
  simp; omega
@[simp] theorem modelled_dig (v p : Nat) : modelled (dig v p) = true := by simp [modelled]
theorem isDigit_46 : isDigit 46 = false := by decide
theorem modelled_46 : modelled 46 = true := by decide
@[simp] theorem dig_sub (v p : Nat) : dig v p - 48 = v / p % 10 := by simp [dig]
@[simp] theorem dig_ne_zero (v p : Nat) : (dig v p == 0) = false := by simp [dig]

theorem pyInt2 (v : Nat) (h : v < 100) : pyInt (d2 v) = .ok v := by
  simp [pyInt, d2, digitsVal, pure, Except.pure]; omega

theorem pyInt3 (v : Nat) : pyInt [dig v 100, dig v 10, dig v 1] = .ok (v % 1000) := by
  simp [pyInt, digitsVal, pure, Except.pure]; omega

/-! ### the ten fields -/

theorem time_field (t : Option (Nat × Nat × Nat)) (h : timeOk t) :
    ∃ a b c d e f, timeBytes t = [a, b, c, d, e, f] ∧ parseTime [a, b, c, d, e, f] = .ok t := by
  match t, h with
  | none, _ => exact ⟨0, 0, 0, 0, 0, 0, rfl, by simp [parseTime, allNul, pure, Except.pure]⟩
  | some (hh, m, s), ⟨h1, h2, h3⟩ =>
    refine ⟨_, _, _, _, _, _, rfl, ?_⟩
    have e1 := pyInt2 hh (by omega)
    have e2 := pyInt2 m (by omega)
    have e3 := pyInt2 s (by omega)
    simp only [d2] at e1 e2 e3
    simp [parseTime, allNul, sl, e1, e2, e3, h1, h2, h3, bind, Except.bind, pure, Except.pure]

theorem date_field (t : Option (Nat × Nat × Nat)) (h : dateOk t) :
    ∃ a b c d e f, dateBytes t = [a, b, c, d, e, f] ∧ parseDate [a, b, c, d, e, f] = .ok t := by
  match t, h with
  | none, _ => exact ⟨0, 0, 0, 0, 0, 0, rfl, by simp [parseDate, allNul, pure, Except.pure]⟩
  | some (dd, m, y), ⟨h1, h2, h3, h4, h5⟩ =>
    refine ⟨_, _, _, _, _, _, rfl, ?_⟩
    have hd : dd < 100 := by
      have : daysInMonth m y ≤ 31 := by unfold daysInMonth; split <;> (try split) <;> omega
      omega
    have e1 := pyInt2 dd hd
    have e2 := pyInt2 m (by omega)
    have e3 := pyInt2 y h5
    simp only [d2] at e1 e2 e3
    simp [parseDate, allNul, sl, e1, e2, e3, h1, h2, h3, h4, bind, Except.bind, pure, Except.pure]

theorem lat_field (v : Nat) (h : v < 100000000) :
    ∃ a0 a1 a2 a3 a4 a5 a6 a7 a8, fmtLat v = [a0, a1, a2, a3, a4, a5, a6, a7, a8] ∧
      parseCoord [a0, a1, a2, a3, a4, a5, a6, a7, a8] = .ok v := by
  refine ⟨_, _, _, _, _, _, _, _, _, by simp only [fmtLat, h, if_true]; rfl, ?_⟩
  simp [parseCoord, pyFloat, List.takeWhile, List.dropWhile, isDigit_46, modelled_46, digitsVal, Dec.toFixed4, bind,
    Except.bind, pure, Except.pure]
  omega

theorem lon_field (v : Nat) (h : v < 1000000000) :
    ∃ a0 a1 a2 a3 a4 a5 a6 a7 a8 a9, fmtLon v = [a0, a1, a2, a3, a4, a5, a6, a7, a8, a9] ∧
      parseCoord [a0, a1, a2, a3, a4, a5, a6, a7, a8, a9] = .ok v := by
  refine ⟨_, _, _, _, _, _, _, _, _, _, by simp only [fmtLon, h, if_true]; rfl, ?_⟩
  simp [parseCoord, pyFloat, List.takeWhile, List.dropWhile, isDigit_46, modelled_46, digitsVal, Dec.toFixed4, bind,
    Except.bind, pure, Except.pure]
  omega

theorem dir_field (v : Nat) (h : v < 1000) :
    ∃ a b c, fmtDir v = [a, b, c] ∧ parseDir [a, b, c] = .ok v := by
  by_cases h0 : v = 0
  · subst h0; exact ⟨0, 0, 0, rfl, by simp [parseDir, allNul, pure, Except.pure]⟩
  · refine ⟨_, _, _, by simp only [fmtDir, h0, h, if_false, if_true]; rfl, ?_⟩
    simp [parseDir, allNul, pyInt3, Nat.mod_eq_of_lt h]

theorem Dec.norm_single (i f : Nat) : Dec.norm ⟨i, [f]⟩ = ⟨i, [f]⟩ := by
  by_cases h : f = 0 <;> simp [Dec.norm, stripTrailingZeros, List.dropWhile, h]

theorem speed_field (s : Dec) (h : s.fits) :
    ∃ a b c, fmtSpeed s = [a, b, c] ∧ parseSpeed [a, b, c] = .ok s := by
  rcases h with rfl | ⟨h1, h2, h3, h4⟩
  · exact ⟨0, 0, 0, rfl, by simp [parseSpeed, allNul, pure, Except.pure]⟩
  · obtain ⟨i, fr⟩ := s
    match fr, h2 with
    | [f], _ =>
      have hf : f < 10 := h3 f (by simp)
      simp only at h1
      refine ⟨48 + i, 46, 48 + f, by simp [fmtSpeed, h4, h1], ?_⟩
      have d1 : isDigit (48 + i) = true := by simp [isDigit]; omega
      have d2 : isDigit (48 + f) = true := by simp [isDigit]; omega
      have n1 : (48 + i == 0) = false := by simp
      have m1 : modelled (48 + i) = true := by simp [modelled, d1]
      have m2 : modelled (48 + f) = true := by simp [modelled, d2]
      simp [parseSpeed, allNul, pyFloat, List.takeWhile, List.dropWhile, d1, d2, m1, m2, isDigit_46, modelled_46, digitsVal,
        Functor.map, Except.map, pure, Except.pure, Dec.norm_single]

/-! ### the 40-octet record -/

theorem gps_slices (v t0 t1 t2 t3 t4 t5 d0 d1 d2 d3 d4 d5 n a0 a1 a2 a3 a4 a5 a6 a7 a8 e
    o0 o1 o2 o3 o4 o5 o6 o7 o8 o9 s0 s1 s2 r0 r1 r2 : Nat) :
    Gps.fromBytes (v :: ([t0, t1, t2, t3, t4, t5] ++ ([d0, d1, d2, d3, d4, d5] ++ (n ::
      ([a0, a1, a2, a3, a4, a5, a6, a7, a8] ++ (e :: ([o0, o1, o2, o3, o4, o5, o6, o7, o8, o9] ++
        ([s0, s1, s2] ++ [r0, r1, r2])))))))) = (do
        let time ← parseTime [t0, t1, t2, t3, t4, t5]
        let date ← parseDate [d0, d1, d2, d3, d4, d5]
        let lat ← parseCoord [a0, a1, a2, a3, a4, a5, a6, a7, a8]
        let lon ← parseCoord [o0, o1, o2, o3, o4, o5, o6, o7, o8, o9]
        let speed ← parseSpeed [s0, s1, s2]
        let dir ← parseDir [r0, r1, r2]
        pure ⟨[v] == [65], time, date, [n] == [78], lat, [e] == [69], lon, speed, dir⟩) := by
  simp [Gps.fromBytes, sl]

theorem gps_roundtrip (g : Gps) (h : g.WF) (hs : g.speedFits) :
    g.asBytes.length = 40 ∧ Gps.fromBytes g.asBytes = .ok g := by
  obtain ⟨valid, time, date, north, lat, east, lon, speed, dir⟩ := g
  obtain ⟨ht, hd, hla, hlo, hdi⟩ := h
  simp only at ht hd hla hlo hdi
  obtain ⟨t0, t1, t2, t3, t4, t5, et, pt⟩ := time_field time ht
  obtain ⟨d0, d1, d2, d3, d4, d5, ed, pd⟩ := date_field date hd
  obtain ⟨a0, a1, a2, a3, a4, a5, a6, a7, a8, ea, pa⟩ := lat_field lat hla
  obtain ⟨o0, o1, o2, o3, o4, o5, o6, o7, o8, o9, eo, po⟩ := lon_field lon hlo
  obtain ⟨s0, s1, s2, es, ps⟩ := speed_field speed hs
  obtain ⟨r0, r1, r2, er, pr⟩ := dir_field dir hdi
  have hb : Gps.asBytes ⟨valid, time, date, north, lat, east, lon, speed, dir⟩ =
      (if valid then 65 else 86) :: ([t0, t1, t2, t3, t4, t5] ++ ([d0, d1, d2, d3, d4, d5] ++
       ((if north then 78 else 83) :: ([a0, a1, a2, a3, a4, a5, a6, a7, a8] ++ ((if east then 69 else 87) ::
       ([o0, o1, o2, o3, o4, o5, o6, o7, o8, o9] ++ ([s0, s1, s2] ++ [r0, r1, r2]))))))) := by
    simp [Gps.asBytes, et, ed, ea, eo, es, er]
  rw [hb, gps_slices, pt, pd, pa, po, ps, pr]
  refine ⟨by simp, ?_⟩
  cases valid <;> cases north <;> cases east <;> rfl

end Dmr.Hytera

namespace Dmr.Hytera
open Dmr Dmr.Gen.Hytera

theorem lp_parse_serialise (p : Lp) (h : p.WF) (hs : p.opcode = lpStandardReport → p.gps.speedFits) :
    ∃ f, p.frame = .ok f ∧ f.payload.length < 65536 ∧ f.opcode = be2 p.opcode ∧ f.service = svcLP
      ∧ Lp.fromBytes f.asBytes = .ok p.norm := by
  obtain ⟨rel, op, rid, ⟨sn, id⟩, res, gps⟩ := p
  obtain ⟨hop, hrid, ⟨hsn, hid⟩, hrep⟩ := h
  simp only at hop hrid hsn hid hrep hs
  have h3 := Nat.mod_eq_of_lt hid
  have h4 := Nat.mod_eq_of_lt hrid
  have e0 : enumOf lpResultValues 0 = .ok 0 := enumOf_mem (by decide)
  have hne : lpStandardRequest ≠ lpStandardReport := by decide
  have hm1 : lpStandardRequest % 65536 = lpStandardRequest := by decide
  have hm2 : lpStandardReport % 65536 = lpStandardReport := by decide
  have em1 : enumOf lpValues lpStandardRequest = .ok lpStandardRequest := enumOf_mem (by decide)
  have em2 : enumOf lpValues lpStandardReport = .ok lpStandardReport := enumOf_mem (by decide)
  have sv : svcLP = 8 := rfl
  rcases hop with rfl | rfl
  · -- StandardRequest
    cases rel <;>
    simp [Lp.frame, Lp.payload, Frame.asBytes, Frame.checked, len16, be2, be4, be3, RadioIp.asBytes,
      Lp.fromBytes, sl, reliableAndServiceB, reliableAndService, sv,
      enumOf_mem, svcValues, hdapMsgEnd, RadioIp.fromBytes, bind, Except.bind, pure, Except.pure,
      ofBe2', ofBe3', ofBe4', h3, h4, e0, Lp.norm, lpResultOK, throw, throwThe, MonadExceptOf.throw,
      hne, hm1, em1]
  · -- StandardReport
    obtain ⟨hres, hg⟩ := hrep rfl
    obtain ⟨hlen, hparse⟩ := gps_roundtrip gps hg (hs rfl)
    have hr2 : res < 65536 := by
      simp only [lpResultValues, List.mem_cons, List.not_mem_nil, or_false] at hres; omega
    have h2 := Nat.mod_eq_of_lt hr2
    have er := enumOf_mem hres
    have ht : ∀ t : Bytes, List.take 40 (gps.asBytes ++ t) = gps.asBytes := fun t => by
      rw [← hlen]; exact List.take_left' rfl
    cases rel <;>
    simp [Lp.frame, Lp.payload, Frame.asBytes, Frame.checked, len16, be2, be4, be3, RadioIp.asBytes,
      Lp.fromBytes, sl, reliableAndServiceB, reliableAndService, sv,
      enumOf_mem, svcValues, hdapMsgEnd, RadioIp.fromBytes, bind, Except.bind, pure, Except.pure,
      ofBe2', ofBe3', ofBe4', h2, h3, h4, er, Lp.norm, hlen, ht, hparse, throw, throwThe, MonadExceptOf.throw,
      hm2, em2]
    all_goals omega

end Dmr.Hytera

namespace Dmr.Hytera
open Dmr Dmr.Gen.Hytera

/-! ### exact characterisation of the speeds that overflow the three-octet field -/

/-- what the digits of `repr(v)` of a non-negative float in positional notation look like: at least
one fraction digit, decimal digits, and zero is written `0.0` -/
def Dec.canonical (s : Dec) : Prop :=
  s.frac ≠ [] ∧ (∀ f ∈ s.frac, f < 10) ∧ (s.isZero = true → s = Dec.zero)
instance (s : Dec) : Decidable s.canonical := by unfold Dec.canonical; infer_instance

theorem natDigits_length_ge_two {n : Nat} (h : 10 ≤ n) : 2 ≤ (natDigits n).length := by
  have hiff := Nat.length_toDigits_le_iff (b := 10) (n := n) (k := 1) (by decide) (by decide)
  simp only [natDigits, List.length_map]
  by_cases hl : (Nat.toDigits 10 n).length ≤ 1
  · have := hiff.mp hl
    omega
  · omega

theorem fmtSpeed_length_iff (s : Dec) (hc : s.canonical) : (fmtSpeed s).length = 3 ↔ s.fits := by
  obtain ⟨hne, hd, hz⟩ := hc
  by_cases h0 : s.isZero = true
  · have := hz h0
    subst this
    exact ⟨fun _ => Or.inl rfl, fun _ => rfl⟩
  · have h0' : s.isZero = false := by simpa using h0
    have hnz : s ≠ Dec.zero := by
      intro h; rw [h] at h0; exact h0 (by decide)
    have hfl : 0 < s.frac.length := List.length_pos_iff.mpr hne
    have hlen : (fmtSpeed s).length
        = (if s.ip < 10 then 1 else (natDigits s.ip).length) + 1 + s.frac.length := by
      unfold fmtSpeed
      rw [if_neg h0]
      by_cases hi : s.ip < 10 <;> simp [hi] <;> omega
    rw [hlen]
    unfold Dec.fits
    by_cases hi : s.ip < 10
    · rw [if_pos hi]
      constructor
      · intro h; exact Or.inr ⟨hi, by omega, hd, h0'⟩
      · rintro (h | ⟨_, h, _⟩)
        · exact absurd h hnz
        · omega
    · rw [if_neg hi]
      have := natDigits_length_ge_two (n := s.ip) (by omega)
      constructor
      · intro h; omega
      · rintro (h | ⟨h, _⟩)
        · exact absurd h hnz
        · exact absurd h hi

/-- the record has its 40 octets exactly when the speed fits -/
theorem gps_length (g : Gps) (h : g.WF) : g.asBytes.length = 37 + (fmtSpeed g.speed).length := by
  obtain ⟨valid, time, date, north, lat, east, lon, speed, dir⟩ := g
  obtain ⟨ht, hd, hla, hlo, hdi⟩ := h
  simp only at ht hd hla hlo hdi
  obtain ⟨t0, t1, t2, t3, t4, t5, et, _⟩ := time_field time ht
  obtain ⟨d0, d1, d2, d3, d4, d5, ed, _⟩ := date_field date hd
  obtain ⟨a0, a1, a2, a3, a4, a5, a6, a7, a8, ea, _⟩ := lat_field lat hla
  obtain ⟨o0, o1, o2, o3, o4, o5, o6, o7, o8, o9, eo, _⟩ := lon_field lon hlo
  obtain ⟨r0, r1, r2, er, _⟩ := dir_field dir hdi
  simp [Gps.asBytes, et, ed, ea, eo, er]
  omega

end Dmr.Hytera
