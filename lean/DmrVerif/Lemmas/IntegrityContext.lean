import DmrVerif.Lemmas.IntegrityCrc
import DmrVerif.Lemmas.IntegrityHrnp

/-!
C04 (core Lean), two input classes added when the check was hardened:

* **the PDU embedded in a longer buffer** — the parsers whose contract accepts a longer buffer (data
  header `len(bits) >= 96`, short LC `len(bits) >= 36`, HRNP `len(data) >= announced length`) give the
  verdict of the exact-length buffer whatever follows; the exact-length parsers reject;
* **special check-field values** — a received word that carries the data bits of a valid word and *any*
  other non-zero check field (all-ones, the bare mask, another kind's mask, a single bit, the complement
  of the right value, …) is never accepted: validity determines the check field from the data bits.
-/

namespace Dmr
namespace Integrity
open Dmr.Crc Dmr.Gen Dmr.Gen.Integrity

/-! ### trailing context -/

theorem dhDec_append (w t : Bits) (ff : Bool) (hw : 96 ≤ w.length) : dhDec (w ++ t) ff = dhDec w ff := by
  unfold dhDec
  rw [sl_append_left w t 80 96 hw, sl_append_left w t 0 80 (by omega)]
  have h1 : (w ++ t).length ≥ 96 := by simp; omega
  simp only [h1, hw, true_and]

theorem slcFields_append (w t : Bits) (hw : 36 ≤ w.length) : slcFields (w ++ t) = slcFields w := by
  unfold slcFields
  rw [sl_append_left w t 0 4 (by omega), sl_append_left w t 4 8 (by omega),
    sl_append_left w t 8 12 (by omega), sl_append_left w t 12 20 (by omega),
    sl_append_left w t 20 28 (by omega), sl_append_left w t 28 36 hw]

theorem slcDec_append (w t : Bits) (hw : 36 ≤ w.length) : slcDec (w ++ t) = slcDec w := by
  unfold slcDec
  rw [slcFields_append w t hw, sl_append_left w t 28 36 hw, sl_append_left w t 0 28 (by omega)]
  have h1 : ¬ (w ++ t).length < 36 := by simp; omega
  have h2 : ¬ w.length < 36 := by omega
  rw [if_neg h1, if_neg h2]

theorem hrnpDecOld_append (d t : Bytes) (hf : Bool) (h12 : 12 ≤ d.length)
    (hl : be16 ((d.take 10).drop 8) ≤ d.length) : hrnpDecOld (d ++ t) hf = hrnpDecOld d hf := by
  have t10 : (d ++ t).take 10 = d.take 10 := List.take_append_of_le_length (by omega)
  have t12 : (d ++ t).take 12 = d.take 12 := List.take_append_of_le_length h12
  have tP : (d ++ t).take (be16 ((d.take 10).drop 8)) = d.take (be16 ((d.take 10).drop 8)) :=
    List.take_append_of_le_length hl
  have g3 : (d ++ t).getD 3 0 = d.getD 3 0 := getD_append_left' _ _ _ (by omega)
  unfold hrnpDecOld
  simp only [t10, t12, tP, g3]
  have h1 : ¬ (d ++ t).length < 12 := by simp; omega
  have h2 : ¬ d.length < 12 := by omega
  have h3 : ¬ (d ++ t).length < be16 ((d.take 10).drop 8) := by simp; omega
  have h4 : ¬ d.length < be16 ((d.take 10).drop 8) := by omega
  simp only [h1, h2, h3, h4, ↓reduceIte]

/-- a buffer the parser accepted satisfies the two length conditions -/
theorem hrnpDecOld_append_of_ok (d t : Bytes) (hf hf' : Bool) (b : Bool) (h : hrnpDecOld d hf' = .ok b) :
    hrnpDecOld (d ++ t) hf = hrnpDecOld d hf := by
  have hlen : 12 ≤ d.length ∧ be16 ((d.take 10).drop 8) ≤ d.length := by
    unfold hrnpDecOld at h
    simp only [bind, Except.bind, pure, Except.pure] at h
    split at h
    · exact absurd h (by simp [throw, throwThe, MonadExceptOf.throw])
    · split at h
      · exact absurd h (by simp [throw, throwThe, MonadExceptOf.throw])
      · exact ⟨by omega, by omega⟩
  exact hrnpDecOld_append d t hf hlen.1 hlen.2

/-! ### a wrong check value over the data bits of a valid word -/

theorem dh_wrong_check (s r : Bits) (hr : r.length = 96) (hv : ccittValid maskDataHeader s)
    (hd : sl r 0 80 = sl s 0 80) (hne : sl r 80 96 ≠ sl s 80 96) (hz : bitsToNat (sl r 80 96) ≠ 0)
    (ff : Bool) : dhDec r ff ≠ .ok true := by
  cases ff with
  | true => rw [dhDec_fail]; simp
  | false =>
    rw [dhDec_ok r hr hz]
    have : ¬ ccittValid maskDataHeader r := by
      intro hvr
      unfold ccittValid at hv hvr
      rw [hd, hv] at hvr
      exact hne hvr.symm
    simp [this]

theorem pi_wrong_check (s r : Bits) (hr : r.length = 96) (hv : ccittValid maskPiHeader s)
    (hd : sl r 0 80 = sl s 0 80) (hne : sl r 80 96 ≠ sl s 80 96) :
    ∃ q, piDec r = .ok q ∧ q.ok = false := by
  obtain ⟨q, hq, hok⟩ := piDec_ok r hr
  refine ⟨q, hq, ?_⟩
  rw [hok, decide_eq_false_iff_not]
  intro hvr
  unfold ccittValid at hv hvr
  rw [hd, hv] at hvr
  exact hne hvr.symm

theorem slc_wrong_check (s r : Bits) (hr : r.length = 36) (hv : slcValid s)
    (hd : sl r 0 28 = sl s 0 28) (hne : sl r 28 36 ≠ sl s 28 36) (hz : bitsToNat (sl r 28 36) ≠ 0)
    (q : SlcObj) (h : slcDec r = .ok q) : q.ok = false := by
  rw [slcDec_ok r hr hz q h, decide_eq_false_iff_not]
  intro hvr
  unfold slcValid at hv hvr
  rw [hd, hv] at hvr
  exact hne (List.reverse_inj.mp hvr).symm

theorem rate_wrong_check (c : RateCfg) (k kl : Nat) (hc : RateOk c k kl) (last : Bool) (s r : Bits)
    (hr : r.length = c.total) (hv : rateValid c s)
    (hd : sl r 16 c.total = sl s 16 c.total) (hsn : sl r 0 7 = sl s 0 7)
    (hne : sl r 7 16 ≠ sl s 7 16) (hz : bitsToNat (sl r 7 16).reverse ≠ 0)
    (hz32 : last = true → bitsToNat (sl r (c.total - 32) c.total) ≠ 0)
    (q : RateObj) (h : rateDec c last r = .ok q) : q.ok = false := by
  rw [rateDec_ok c k kl hc last r hr hz hz32 q h, decide_eq_false_iff_not]
  intro hvr
  unfold rateValid rateSrc at hv hvr
  rw [hd, hsn, hv] at hvr
  exact hne (List.reverse_inj.mp hvr).symm

/-- HRNP: the two checksum octets replaced, everything else as received -/
theorem hrnp_wrong_check (d : Bytes) (hd : hrnpDecOld d false = .ok true) (a b : Nat)
    (hne : be16 [a, b] ≠ be16 ((d.take 12).drop 10)) (hf : Bool) :
    hrnpDecOld ((d.set 10 a).set 11 b) hf ≠ .ok true := by
  obtain ⟨h12, hP, hsum⟩ := hrnpDecOld_true d false hd
  intro hcontra
  obtain ⟨_, _, hsum'⟩ := hrnpDecOld_true _ hf hcontra
  have t10 : ((d.set 10 a).set 11 b).take 10 = d.take 10 := by
    rw [List.take_set, List.take_set, List.set_eq_of_length_le (by simp; omega), List.set_eq_of_length_le (by simp; omega)]
  have hcov : hrnpCovered ((d.set 10 a).set 11 b) = hrnpCovered d := by
    unfold hrnpCovered
    rw [t10]
    congr 1
    have e1 := slice_set (d.set 10 a) 11 b (be16 ((d.take 10).drop 8)) 12
    rw [if_neg (by omega)] at e1
    have e2 := slice_set d 10 a (be16 ((d.take 10).drop 8)) 12
    rw [if_neg (by omega)] at e2
    rw [e1, e2]
  have hfld : (((d.set 10 a).set 11 b).take 12).drop 10 = [a, b] := by
    have hl : ((d.take 12).drop 10).length = 2 := by simp; omega
    have e1 := slice_set (d.set 10 a) 11 b 12 10
    rw [if_pos ⟨by omega, by omega⟩] at e1
    have e2 := slice_set d 10 a 12 10
    rw [if_pos ⟨by omega, by omega⟩] at e2
    rw [e1, e2]
    match hx : (d.take 12).drop 10, hl with
    | [x, y], _ => simp
  rw [hcov, hfld, hsum] at hsum'
  exact hne hsum'.symm

end Integrity
end Dmr
