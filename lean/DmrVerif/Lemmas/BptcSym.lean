import DmrVerif.Lemmas.Gf2
import DmrVerif.Model.Bptc

/-!
Symbolic execution of the `dst[i] = src[n]` loops of `bptc_196_96.py`.

A loop that only moves bits is independent of the data, so it can be run once on *indices*:
`realize sym src` reads `src` through a list `sym` of optional source positions (`none` = the constant
`0` the buffer was initialised with).  `scatter_realize` says that running a loop on a realised buffer
is realising the symbolically executed loop; compositions of realisations are computed on the index
lists (`symComp`).  All index lists that occur are closed terms over the generated tables, so the
remaining facts about them are decided by the kernel in `Props/C02.lean`.
-/

namespace Dmr.Bptc
open Dmr

/-- read one bit through an optional position -/
def look (src : Bits) : Option Nat → Bool
  | none => false
  | some n => getBit src n

def realize (sym : List (Option Nat)) (src : Bits) : Bits := sym.map (look src)

/-- the loop `for i, n in pairs: out[i] = src[n]` executed on positions -/
def scatterSym (pairs : List (Nat × Nat)) (sym : List (Option Nat)) : List (Option Nat) :=
  pairs.foldl (fun o p => o.set p.1 (some p.2)) sym

@[simp] theorem realize_length (sym : List (Option Nat)) (src : Bits) :
    (realize sym src).length = sym.length := by simp [realize]

theorem scatter_realize (pairs : List (Nat × Nat)) (src : Bits) (sym : List (Option Nat)) :
    scatter pairs src (realize sym src) = realize (scatterSym pairs sym) src := by
  induction pairs generalizing sym with
  | nil => rfl
  | cons p ps ih =>
    simp only [scatter, scatterSym, List.foldl_cons] at ih ⊢
    rw [← ih]
    congr 1
    simp [realize, List.map_set, look]

theorem zeros_eq_realize (n : Nat) (src : Bits) : zeros n = realize (List.replicate n none) src := by
  simp [realize, zeros, look]

theorem realize_some (l : List Nat) (src : Bits) : realize (l.map some) src = gather l src := by
  simp [realize, gather, List.map_map, Function.comp_def, look]

theorem look_xor (a b : Bits) (h : a.length = b.length) (o : Option Nat) :
    look (xorBits a b) o = Bool.xor (look a o) (look b o) := by
  cases o with
  | none => rfl
  | some n => exact getBit_xorBits a b n h

theorem realize_xor (sym : List (Option Nat)) (a b : Bits) (h : a.length = b.length) :
    realize sym (xorBits a b) = xorBits (realize sym a) (realize sym b) := by
  unfold realize
  rw [xorBits_map_map']
  apply List.map_congr_left
  intro o _
  exact look_xor a b h o
where
  xorBits_map_map' {α : Type} (l : List α) (f g : α → Bool) :
      xorBits (l.map f) (l.map g) = l.map (fun x => Bool.xor (f x) (g x)) := by
    induction l with
    | nil => simp
    | cons x xs ih => simp [ih]

/-- composition of two realisations, computed on positions -/
def symComp (s2 s1 : List (Option Nat)) : List (Option Nat) :=
  s2.map (fun o => match o with
    | none => none
    | some i => s1.getD i none)

theorem getBit_realize (s1 : List (Option Nat)) (src : Bits) (i : Nat) :
    getBit (realize s1 src) i = look src (s1.getD i none) := by
  simp only [getBit, realize, List.getD_eq_getElem?_getD, List.getElem?_map]
  cases h : s1[i]? <;> simp [look]

theorem realize_realize (s2 s1 : List (Option Nat)) (src : Bits) :
    realize s2 (realize s1 src) = realize (symComp s2 s1) src := by
  unfold symComp
  simp only [realize, List.map_map]
  apply List.map_congr_left
  intro o _
  cases o with
  | none => rfl
  | some i => simp only [Function.comp, look]; exact getBit_realize s1 src i

theorem gather_realize (l : List Nat) (s1 : List (Option Nat)) (src : Bits) :
    gather l (realize s1 src) = realize (symComp (l.map some) s1) src := by
  rw [← realize_some, realize_realize]

/-- all positions of `sym` are below `n` -/
def symBelow (n : Nat) (sym : List (Option Nat)) : Bool :=
  sym.all (fun o => match o with
    | none => true
    | some i => decide (i < n))

/-- all positions of `sym` are at least `n` (and none is the constant) -/
def symFrom (n : Nat) (sym : List (Option Nat)) : Bool :=
  sym.all (fun o => match o with
    | none => false
    | some i => decide (n ≤ i))

theorem realize_append_left (sym : List (Option Nat)) (a b : Bits) (h : symBelow a.length sym = true) :
    realize sym (a ++ b) = realize sym a := by
  unfold realize
  apply List.map_congr_left
  intro o ho
  simp only [symBelow, List.all_eq_true] at h
  have := h o ho
  cases o with
  | none => rfl
  | some i =>
    simp only [decide_eq_true_eq] at this
    exact getBit_append_left a b i this

theorem realize_append_right (sym : List (Option Nat)) (a b : Bits) (h : symFrom a.length sym = true) :
    realize sym (a ++ b) = gather (sym.map (fun o => o.getD 0 - a.length)) b := by
  unfold realize gather
  rw [List.map_map]
  apply List.map_congr_left
  intro o ho
  simp only [symFrom, List.all_eq_true] at h
  have := h o ho
  cases o with
  | none => simp at this
  | some i =>
    simp only [decide_eq_true_eq] at this
    simp only [Function.comp, look, Option.getD_some]
    have : i = a.length + (i - a.length) := by omega
    rw [this, getBit_append_right]
    congr 1
    omega

/-- reading the table `t` is reading the second half of `a ++ t` -/
theorem scatter_shift (pairs : List (Nat × Nat)) (a t out : Bits) :
    scatter pairs t out = scatter (pairs.map (fun p => (p.1, a.length + p.2))) (a ++ t) out := by
  induction pairs generalizing out with
  | nil => rfl
  | cons p ps ih =>
    simp only [scatter, List.map_cons, List.foldl_cons] at ih ⊢
    rw [getBit_append_right]
    exact ih _

theorem gather_range (a : Bits) : gather (List.range a.length) a = a := by
  apply List.ext_getElem
  · simp
  · intro i h1 h2
    simp [gather, getBit_eq_getElem a i h2]

theorem gather_append (l1 l2 : List Nat) (a : Bits) : gather (l1 ++ l2) a = gather l1 a ++ gather l2 a := by
  simp [gather]

theorem gather_flatten (ls : List (List Nat)) (a : Bits) :
    gather ls.flatten a = ls.flatMap (fun l => gather l a) := by
  simp [gather, List.map_flatten, List.flatMap_def]

theorem gather_zeros (l : List Nat) (n : Nat) : gather l (zeros n) = zeros l.length := by
  induction l with
  | nil => rfl
  | cons x xs ih =>
    simp only [gather, List.map_cons, List.length_cons, zeros_succ] at ih ⊢
    rw [ih, getBit_zeros]

end Dmr.Bptc
