import DmrVerif.Lemmas.HyteraBytes
import DmrVerif.Lemmas.HyteraSpec

/-! HRNP: the end-around-carry fold, the ones-complement identity of the checksum, and the wrap /
unwrap round trip around any HDAP PDU that itself round-trips (C12).  Core Lean only. -/

set_option linter.unusedSimpArgs false

namespace Dmr.Hytera
open Dmr Dmr.Gen.Hytera

/-! ### `while check >> 16: check = (check & 0xFFFF) + (check >> 16)` -/

theorem fold16Go_spec (f c : Nat) (h : c ≤ f) :
    fold16Go f c < 65536 ∧ fold16Go f c % 65535 = c % 65535 ∧ (fold16Go f c = 0 ↔ c = 0) := by
  induction f generalizing c with
  | zero =>
    have : c = 0 := by omega
    subst this; simp [fold16Go]
  | succ f ih =>
    unfold fold16Go
    by_cases hc : c / 65536 = 0
    · rw [if_pos hc]
      exact ⟨by omega, rfl, Iff.rfl⟩
    · rw [if_neg hc]
      have hlt : c % 65536 + c / 65536 ≤ f := by omega
      obtain ⟨h1, h2, h3⟩ := ih (c % 65536 + c / 65536) hlt
      refine ⟨h1, by rw [h2]; omega, ?_⟩
      rw [h3]; omega

/-- the fold is the residue modulo 65535 with representative 65535 for the non-zero multiples -/
theorem fold16_spec (c : Nat) :
    fold16 c < 65536 ∧ fold16 c % 65535 = c % 65535 ∧ (fold16 c = 0 ↔ c = 0) :=
  fold16Go_spec c c (Nat.le_refl c)

/-- adding the complement of the folded sum makes the folded total `0xFFFF` -/
theorem fold16_complement (S : Nat) : fold16 (S + (0xFFFF - fold16 S)) = 0xFFFF := by
  obtain ⟨a1, a2, a3⟩ := fold16_spec S
  obtain ⟨b1, b2, b3⟩ := fold16_spec (S + (0xFFFF - fold16 S))
  generalize fold16 (S + (0xFFFF - fold16 S)) = r at *
  generalize fold16 S = s at *
  omega

theorem hrnpCheck_lt (d : Bytes) : hrnpCheck d < 65536 := by unfold hrnpCheck; omega

/-! ### the packet -/

/-- the serialisation `HRNP.as_bytes` assembles around inner bytes `bs` -/
def hrnpPacket (h v block opcode src dst pn : Nat) (bs : Bytes) : Bytes :=
  let len := 12 + bs.length
  hrnpHead [h] [v] block opcode src dst pn len
    ++ be2 (hrnpCheck (hrnpHead [h] [v] block opcode src dst pn len ++ bs)) ++ bs

theorem hrnpPacket_length (h v block opcode src dst pn : Nat) (bs : Bytes) :
    (hrnpPacket h v block opcode src dst pn bs).length = 12 + bs.length := by
  simp [hrnpPacket, hrnpHead]; omega

/-- the ones-complement sum over the whole packet (checksum field included, odd tail padded) folds
to `0xFFFF` -/
theorem hrnp_ones_complement (h v block opcode src dst pn : Nat) (bs : Bytes) :
    fold16 (words16 (hrnpPacket h v block opcode src dst pn bs)).sum = 0xFFFF := by
  have hck := hrnpCheck_lt (hrnpHead [h] [v] block opcode src dst pn (12 + bs.length) ++ bs)
  have key : (words16 (hrnpPacket h v block opcode src dst pn bs)).sum
      = (words16 (hrnpHead [h] [v] block opcode src dst pn (12 + bs.length) ++ bs)).sum
        + hrnpCheck (hrnpHead [h] [v] block opcode src dst pn (12 + bs.length) ++ bs) := by
    generalize hg : hrnpCheck _ = ck at hck
    simp only [hrnpPacket, hg]
    simp only [hrnpHead, be2, List.cons_append, List.nil_append, words16, List.sum_cons]
    omega
  rw [key]
  exact fold16_complement _

/-- `HRNP.from_bytes ∘ HRNP.as_bytes` around any PDU whose own serialisation `bs` parses back to a
PDU `p'` that serialises to `bs` again -/
theorem hrnp_roundtrip (p p' : Pdu) (bs : Bytes) (h v block src dst pn : Nat)
    (hb : p.asBytes = .ok bs) (hl : p.len = .ok bs.length)
    (hrt : Hdap.fromBytes bs = .ok (some p')) (hb' : p'.asBytes = .ok bs) (hl' : p'.len = .ok bs.length)
    (hfl : bs.length = 7 + (if p'.little then ofLe (sl bs 3 5) else ofBe (sl bs 3 5)))
    (hpn : pn < 65536) (hlen : 12 + bs.length < 65536) :
    let b := hrnpPacket h v block hrnpDATA src dst pn bs
    let ck := hrnpCheck (hrnpHead [h] [v] block hrnpDATA src dst pn (12 + bs.length) ++ bs)
    Hrnp.init (some p) hrnpDATA src dst block pn 0 [h] [v]
        = .ok ⟨[h], [v], block, hrnpDATA, src, dst, pn, some p, ck, ck == 0⟩
    ∧ Hrnp.asBytes ⟨[h], [v], block, hrnpDATA, src, dst, pn, some p, ck, ck == 0⟩ = .ok b
    ∧ Hrnp.len ⟨[h], [v], block, hrnpDATA, src, dst, pn, some p, ck, ck == 0⟩ = .ok b.length
    ∧ Hrnp.fromBytes b = .ok ⟨[h], [v], block, hrnpDATA, src, dst, pn, some p', ck, true⟩
    ∧ Hrnp.asBytes ⟨[h], [v], block, hrnpDATA, src, dst, pn, some p', ck, true⟩ = .ok b := by
  intro b ck
  have hckl : ck < 65536 := hrnpCheck_lt _
  have hver : ∀ (q : Pdu) (c : Nat), q.asBytes = .ok bs → q.len = .ok bs.length →
      hrnpVerify [h] [v] block hrnpDATA src dst pn (some q) c = .ok (ck == c, ck) := by
    intro q c h1 h2
    simp [hrnpVerify, hrnpLen, h1, h2, bind, Except.bind, pure, Except.pure, Functor.map, Except.map, ck]
  have hasb : ∀ (q : Pdu) (c : Nat) (cc : Bool), q.asBytes = .ok bs → q.len = .ok bs.length →
      Hrnp.asBytes ⟨[h], [v], block, hrnpDATA, src, dst, pn, some q, c, cc⟩ = .ok b := by
    intro q c cc h1 h2
    simp [Hrnp.asBytes, Hrnp.len, hrnpLen, hver q c h1 h2, h1, h2, bind, Except.bind, pure, Except.pure,
      Functor.map, Except.map, b, hrnpPacket, ck]
  refine ⟨?_, hasb p _ _ hb hl, ?_, ?_, hasb p' _ _ hb' hl'⟩
  · simp [Hrnp.init, hver p 0 hb hl, bind, Except.bind, pure, Except.pure]
  · simp [Hrnp.len, hrnpLen, hl, Functor.map, Except.map, b, hrnpPacket_length]
  · -- parsing
    have e2 := Nat.mod_eq_of_lt hpn
    have e3 := Nat.mod_eq_of_lt hlen
    have e4 := Nat.mod_eq_of_lt hckl
    have hd : enumOf hrnpValues hrnpDATA = .ok hrnpDATA := enumOf_mem (by decide)
    have hbe : b = [h, v, block, hrnpDATA, src, dst, pn / 256 % 256, pn % 256, (12 + bs.length) / 256 % 256,
        (12 + bs.length) % 256, ck / 256 % 256, ck % 256] ++ bs := by
      simp [b, hrnpPacket, hrnpHead, be2, ck]
    have hinner : sl b 12 (12 + bs.length) = bs := by
      rw [hbe, sl_append_right _ _ _ _ (by simp)]
      simp [sl]
    have hlenb : b.length = 12 + bs.length := hrnpPacket_length ..
    have s1 : sl b 8 10 = [(12 + bs.length) / 256 % 256, (12 + bs.length) % 256] := by rw [hbe]; simp [sl]
    have s2 : sl b 6 8 = [pn / 256 % 256, pn % 256] := by rw [hbe]; simp [sl]
    have s3 : sl b 10 12 = [ck / 256 % 256, ck % 256] := by rw [hbe]; simp [sl]
    have s4 : sl b 0 1 = [h] := by rw [hbe]; simp [sl]
    have s5 : sl b 1 2 = [v] := by rw [hbe]; simp [sl]
    have i2 : idx b 2 = .ok block := by rw [hbe]; simp [idx, pure, Except.pure]
    have i3 : idx b 3 = .ok hrnpDATA := by rw [hbe]; simp [idx, pure, Except.pure]
    have i4 : idx b 4 = .ok src := by rw [hbe]; simp [idx, pure, Except.pure]
    have i5 : idx b 5 = .ok dst := by rw [hbe]; simp [idx, pure, Except.pure]
    have nl1 : ¬ b.length < 12 := by omega
    have nl2 : ¬ b.length < 12 + bs.length := by omega
    have s010 : sl b 0 10 = hrnpHead [h] [v] block hrnpDATA src dst pn (12 + bs.length) := by
      rw [hbe]; simp [sl, hrnpHead, be2]
    have s1517 : sl b 15 17 = sl bs 3 5 := by
      rw [hbe, sl_append_right _ _ _ _ (by simp)]
      rfl
    simp only [Hrnp.fromBytes, s1, s2, s3, s4, s5, i2, i3, i4, i5, ofBe2', e2, e3, e4, hd, hinner, hrt, nl1, nl2,
      if_false, bind, Except.bind, pure, Except.pure, Hrnp.init, hver p' ck hb' hl', s010, s1517]
    have hfl' : (12 + bs.length == 12 + 7 + (if p'.little then ofLe (sl bs 3 5) else ofBe (sl bs 3 5))) = true := by
      rw [beq_iff_eq]; omega
    simp [be2, ck, hfl']

/-- packets without data (connect, accept, reject, close, close-ack, data-ack) -/
theorem hrnp_nodata_roundtrip (h v block opcode src dst pn : Nat) (hop : opcode ∈ hrnpValues)
    (hnd : opcode ≠ hrnpDATA) (hpn : pn < 65536) :
    let b := hrnpPacket h v block opcode src dst pn []
    let ck := hrnpCheck (hrnpHead [h] [v] block opcode src dst pn 12)
    Hrnp.init none opcode src dst block pn 0 [h] [v]
        = .ok ⟨[h], [v], block, opcode, src, dst, pn, none, ck, ck == 0⟩
    ∧ Hrnp.asBytes ⟨[h], [v], block, opcode, src, dst, pn, none, ck, ck == 0⟩ = .ok b
    ∧ b.length = 12 ∧ ofBe (sl b 8 10) = 12
    ∧ Hrnp.fromBytes b = .ok ⟨[h], [v], block, opcode, src, dst, pn, none, ck, true⟩
    ∧ Hrnp.asBytes ⟨[h], [v], block, opcode, src, dst, pn, none, ck, true⟩ = .ok b := by
  intro b ck
  have hckl : ck < 65536 := hrnpCheck_lt _
  have hver : ∀ c : Nat, hrnpVerify [h] [v] block opcode src dst pn none c = .ok (ck == c, ck) := by
    intro c
    simp [hrnpVerify, hrnpLen, hnd, bind, Except.bind, pure, Except.pure, ck]
  have hasb : ∀ (c : Nat) (cc : Bool),
      Hrnp.asBytes ⟨[h], [v], block, opcode, src, dst, pn, none, c, cc⟩ = .ok b := by
    intro c cc
    simp [Hrnp.asBytes, Hrnp.len, hrnpLen, hver c, hnd, bind, Except.bind, pure, Except.pure, b, hrnpPacket, ck]
  have e2 := Nat.mod_eq_of_lt hpn
  have e4 := Nat.mod_eq_of_lt hckl
  have hd := enumOf_mem hop
  have hbe : b = [h, v, block, opcode, src, dst, pn / 256 % 256, pn % 256, 0, 12, ck / 256 % 256, ck % 256] := by
    simp [b, hrnpPacket, hrnpHead, be2, ck]
  refine ⟨?_, hasb _ _, by rw [hbe]; rfl, by rw [hbe]; simp [sl, ofBe], ?_, hasb _ _⟩
  · simp [Hrnp.init, hver 0, bind, Except.bind, pure, Except.pure]
  · rw [hbe]
    simp [Hrnp.fromBytes, sl, idx, ofBe2', e2, e4, hd, Hdap.fromBytes, Hrnp.init, hver ck, bind, Except.bind, pure,
      Except.pure, show ofBe [0, 12] = 12 by rfl, be2, hnd]
    simp [ck, hrnpHead, be2]

/-- the payload-length field of an HDAP frame, read the way `HRNP.from_bytes` reads it -/
theorem frame_len_field (f : Frame) (ho : f.opcode.length = 2) (hfit : f.payload.length < 65536) :
    f.asBytes.length = 7 + (if f.little then ofLe (sl f.asBytes 3 5) else ofBe (sl f.asBytes 3 5)) := by
  obtain ⟨svc, rel, op, little, pl⟩ := f
  simp only at ho hfit
  match op, ho with
  | [o1, o2], _ =>
    have e := Nat.mod_eq_of_lt hfit
    cases little <;>
      simp [Frame.asBytes, Frame.checked, len16, le2, be2, sl, ofLe, ofBe, hdapMsgEnd] <;> omega

theorem pdu_frame_little (p : Pdu) (f : Frame) (hf : p.frame = .ok f) : f.little = p.little := by
  cases p with
  | rrs q =>
    simp only [Pdu.frame, Rrs.frame, bind, Except.bind] at hf
    split at hf
    · cases hf
    · simp [pure, Except.pure] at hf; subst hf; rfl
  | lp q =>
    simp only [Pdu.frame, Lp.frame, bind, Except.bind] at hf
    split at hf
    · cases hf
    · simp [pure, Except.pure] at hf; subst hf; rfl
  | tmp q =>
    simp only [Pdu.frame, Tmp.frame, bind, Except.bind] at hf
    split at hf
    · cases hf
    · simp [pure, Except.pure] at hf; subst hf; rfl
  | rcp q =>
    simp only [Pdu.frame, Rcp.frame, bind, Except.bind] at hf
    split at hf
    · cases hf
    · simp [pure, Except.pure] at hf; subst hf; rfl

end Dmr.Hytera
