import DmrVerif.Lemmas.LrrpPart

/-!
# Lemmas for C15 (3): one canonical document, and the document loop
-/

namespace Dmr.Lrrp
open Dmr Dmr.Mbxml

/-- the constant-table condition of `docOk` -/
def cdtCond (prev : Option Doc) (di : DocId) (d : Doc) : Bool :=
  if di.ncdt then d.cdtDefault && !d.cdtInherited
  else if d.cdtInherited then
    (match prev with
     | some p => d.cdt == p.cdt && d.cdtDefault == p.cdtDefault
     | none => d.cdt == [] && d.cdtDefault)
  else !d.cdtDefault && d.cdt.length != 1 && decide (d.cdt.length ≤ UINTVAR_MAX)

theorem docOk_unfold {prev : Option Doc} {d : Doc} (h : docOk prev d = true) :
    ∃ di cfg, configOf d.id = .ok (di, cfg) ∧ d.id ≤ UINTVAR_MAX
      ∧ d.parts.all (partOk cfg.etbl cfg.atbl) = true ∧ cdtCond prev di d = true
      ∧ ∃ b, bodyOf d = .ok b ∧ b.length ≤ UINTVAR_MAX := by
  unfold docOk at h
  cases hc : configOf d.id with
  | error e => simp [hc] at h
  | ok x =>
    obtain ⟨di, cfg⟩ := x
    simp only [hc, Bool.and_eq_true, decide_eq_true_eq] at h
    obtain ⟨⟨⟨hid, hp⟩, hcdt⟩, hb⟩ := h
    refine ⟨di, cfg, rfl, hid, hp, hcdt, ?_⟩
    cases hbo : bodyOf d with
    | error e => simp [hbo] at hb
    | ok b => exact ⟨b, rfl, by simpa [hbo] using hb⟩

/-- the constant table part: what `as_bytes` writes, `read_document` reads back (with the predecessor) -/
theorem readCdt_writeCdt (prev : Option Doc) (di : DocId) (cfg : Config) (d : Doc)
    (h : cdtCond prev di d = true) :
    ∃ c, writeCdt d = .ok c ∧ ∀ rest, readCdt di cfg (c ++ rest) prev
      = .ok ((if di.ncdt then buildConstants cfg.consts else d.cdt), d.cdtDefault, d.cdtInherited, rest) := by
  unfold cdtCond at h
  by_cases hn : di.ncdt = true
  · simp only [hn, if_true, Bool.and_eq_true, Bool.not_eq_true'] at h
    refine ⟨[], by simp [writeCdt, h.1, h.2], fun rest => ?_⟩
    simp [readCdt, hn, h.1, h.2]
  · have hn' : di.ncdt = false := by simpa using hn
    simp only [hn', Bool.false_eq_true, if_false] at h
    by_cases hi : d.cdtInherited = true
    · simp only [hi, if_true] at h
      have h1 : (1 : Nat) ≤ UINTVAR_MAX := by decide
      refine ⟨writeURaw 1, by simp [writeCdt, hi, writeU_ok h1], fun rest => ?_⟩
      cases prev with
      | none =>
        simp only [Bool.and_eq_true, beq_iff_eq] at h
        simp [readCdt, hn', readUL_writeURaw, h.1, h.2, hi]
      | some p =>
        simp only [Bool.and_eq_true, beq_iff_eq] at h
        simp [readCdt, hn', readUL_writeURaw, h.1, h.2, hi]
    · have hi' : d.cdtInherited = false := by simpa using hi
      simp only [hi', Bool.false_eq_true, if_false, Bool.and_eq_true, Bool.not_eq_true', bne_iff_ne, ne_eq,
        decide_eq_true_eq] at h
      obtain ⟨⟨hd, hl1⟩, hl⟩ := h
      refine ⟨writeURaw d.cdt.length ++ d.cdt, by simp [writeCdt, hi', hd, writeU_ok hl], fun rest => ?_⟩
      simp [readCdt, hn', readUL_writeURaw, hl1, takeL_append, hd, hi']

/-- a canonical document: shape of `as_bytes`, and `read_document` on its body gives the document back
(an NCDT document with the default constant table filled in) -/
theorem readDocument_asBytes {prev : Option Doc} {d : Doc} (h : docOk prev d = true) :
    ∃ body, asBytes d = .ok (writeURaw d.id ++ (writeURaw body.length ++ body))
      ∧ body.length ≤ UINTVAR_MAX ∧ readDocument d.id body prev = .ok (normDoc d) := by
  obtain ⟨di, cfg, hcfg, hid, hp, hcdt, b, hb, hbl⟩ := docOk_unfold h
  obtain ⟨c, hwc, hrc⟩ := readCdt_writeCdt prev di cfg d hcdt
  obtain ⟨ps, hwp, hrp⟩ := readTokens_writeParts cfg.etbl cfg.atbl d.parts hp
  have hbody : b = c ++ ps := by
    simp [bodyOf, hwc, hwp] at hb; exact hb.symm
  subst hbody
  refine ⟨c ++ ps, ?_, hbl, ?_⟩
  · have hbl' : c.length + ps.length ≤ UINTVAR_MAX := by simpa using hbl
    simp [asBytes, writeU_ok hid, hwc, hwp, writeU_ok hbl']
  · simp only [readDocument, hcfg, hrc ps, hrp ps.length (Nat.le_refl _)]
    simp only [normDoc, hcfg]
    by_cases hn : di.ncdt = true
    · simp [hn]
    · have hn' : di.ncdt = false := by simpa using hn
      simp [hn']

/-- `as_bytes` does not look at the constant table of an NCDT document -/
theorem asBytes_normDoc {prev : Option Doc} {d : Doc} (h : docOk prev d = true) :
    asBytes (normDoc d) = asBytes d := by
  obtain ⟨di, cfg, hcfg, hid, hp, hcdt, b, hb, hbl⟩ := docOk_unfold h
  simp only [normDoc, hcfg]
  by_cases hn : di.ncdt = true
  · unfold cdtCond at hcdt
    simp only [hn, if_true, Bool.and_eq_true, Bool.not_eq_true'] at hcdt
    simp [hn, asBytes, writeCdt, hcdt.1, hcdt.2]
  · have hn' : di.ncdt = false := by simpa using hn
    simp [hn']


theorem writeURaw_length_pos (v : Nat) : 1 ≤ (writeURaw v).length := by
  cases h : writeURaw v with
  | nil => exact absurd h (writeURaw_ne_nil v)
  | cons a t => simp

/-- one step of the document loop on a canonical document followed by `more` -/
theorem parseDocs_step {prev : Option Doc} {d : Doc} (h : docOk prev d = true) :
    ∃ seg, asBytes d = .ok seg ∧ 2 ≤ seg.length ∧ ∀ (f : Nat) (more : Bytes),
      parseDocs (f + 1) (seg ++ more) prev
        = if more.isEmpty then .ok [normDoc d]
          else match parseDocs f more (some (normDoc d)) with
            | .error e => .error e
            | .ok ds => .ok (normDoc d :: ds) := by
  obtain ⟨body, hab, hbl, hrd⟩ := readDocument_asBytes h
  refine ⟨_, hab, ?_, fun f more => ?_⟩
  · have := writeURaw_length_pos d.id
    have := writeURaw_length_pos body.length
    simp only [List.length_append]; omega
  · have ht : (body ++ more).take body.length = body := by simp
    have hd : (body ++ more).drop body.length = more := by simp
    have hl : ¬ ((body ++ more).length < body.length) := by simp
    simp only [parseDocs, List.append_assoc, readUL_writeURaw, ht, hd, hrd, hl, if_false]
    by_cases hm : more.isEmpty = true
    · simp only [hm, if_true]
    · simp only [hm]
      cases parseDocs f more (some (normDoc d)) <;> rfl

/-- the document loop on the serialisation of canonical documents -/
theorem parseDocs_ser : ∀ (ds : List Doc) (prev : Option Doc), ds ≠ [] → docsOk prev ds = true →
    ∃ x, asBytesAll ds = .ok x ∧ x ≠ [] ∧
      ∀ fuel, x.length + 1 ≤ fuel → parseDocs fuel x prev = .ok (ds.map normDoc) := by
  intro ds
  induction ds with
  | nil => intro _ h; exact absurd rfl h
  | cons d ds ih =>
    intro prev _ hok
    simp only [docsOk, Bool.and_eq_true] at hok
    obtain ⟨seg, hseg, hlen, hstep⟩ := parseDocs_step hok.1
    have hsegne : seg ≠ [] := by intro h0; rw [h0] at hlen; simp at hlen
    by_cases hds : ds = []
    · subst hds
      refine ⟨seg ++ [], by simp [asBytesAll, hseg], by simpa using hsegne, fun fuel hf => ?_⟩
      cases fuel with
      | zero => omega
      | succ f => rw [hstep f []]; rfl
    · obtain ⟨x', hx', hne', hp'⟩ := ih (some (normDoc d)) hds hok.2
      refine ⟨seg ++ x', by simp [asBytesAll, hseg, hx'], by simp [hsegne], fun fuel hf => ?_⟩
      cases fuel with
      | zero => omega
      | succ f =>
        rw [hstep f x']
        have hemp : x'.isEmpty = false := by
          cases x' with
          | nil => exact absurd rfl hne'
          | cons a t => rfl
        simp only [List.length_append] at hf
        simp only [hemp, Bool.false_eq_true, if_false, hp' f (by omega), List.map_cons]

/-- every parsed (normalised) document serialises to the octets of the original document -/
theorem asBytesAll_map_normDoc : ∀ (ds : List Doc) (prev : Option Doc), docsOk prev ds = true →
    asBytesAll (ds.map normDoc) = asBytesAll ds := by
  intro ds
  induction ds with
  | nil => intro _ _; rfl
  | cons d ds ih =>
    intro prev hok
    simp only [docsOk, Bool.and_eq_true] at hok
    simp only [List.map_cons, asBytesAll, asBytes_normDoc hok.1, ih _ hok.2]

end Dmr.Lrrp
