import DmrVerif.Lemmas.FragmentRx

/-!
# From `feed` to the terminal, and the generated transmission as a whole (C07)
-/

namespace Dmr.Fragment
open Dmr Dmr.Tracker

theorem events_append' (a b : List Act) : events (a ++ b) = events a ++ events b := by
  simp [events, List.filterMap_append]

theorem events_map_append {α : Type} (l : List α) (f : α → Block) :
    events (l.map fun x => .append (f x)) = [] := by
  induction l with
  | nil => rfl
  | cons x r ih => simpa [events, Act.event?] using ih

theorem Slot.process_of_pp (s : Slot) (o : Nat) (b : AbsBurst) (m : M) (l : VB)
    (h : processPacket { tx := s.tx, oracle := o } b.payload = .ok (m, l)) :
    ∃ s' out, s.process o b = .ok (s', m.oracle, out) ∧ s'.tx = m.tx ∧ out.acts = m.acts := by
  unfold Tracker.Slot.process
  simp only [h]
  split <;> exact ⟨_, _, rfl, rfl, rfl⟩

/-- a history on one time slot is `feed` on that slot's transmission -/
theorem run_feed (two : Bool) : ∀ (bursts : List AbsBurst) (t : Terminal) (tx' : Tx) (o' : Nat)
    (acts : List Act),
    feed (t.slot two).tx t.oracle (bursts.map (·.payload)) = .ok (tx', o', acts) →
    ∃ t' recs, run t (bursts.map fun b => (two, b)) = .ok (t', recs)
      ∧ (t'.slot two).tx = tx' ∧ t'.oracle = o' ∧ allEvents recs = events acts
      ∧ actsOf two recs = acts ∧ actsOf (!two) recs = [] := by
  intro bursts
  induction bursts with
  | nil =>
    intro t tx' o' acts h
    simp only [List.map_nil, feed, Except.ok.injEq, Prod.mk.injEq] at h
    obtain ⟨h1, h2, h3⟩ := h
    exact ⟨t, [], rfl, h1, h2, by simp [allEvents, ← h3, events], by simp [actsOf, outsOf, ← h3],
      by simp [actsOf, outsOf]⟩
  | cons b rest ih =>
    intro t tx' o' acts h
    simp only [List.map_cons, feed] at h
    cases hp : processPacket { tx := (t.slot two).tx, oracle := t.oracle } b.payload with
    | error e => simp [hp] at h
    | ok r =>
      obtain ⟨m, l⟩ := r
      simp only [hp] at h
      cases hf : feed m.tx m.oracle (rest.map (·.payload)) with
      | error e => simp [hf] at h
      | ok r2 =>
        obtain ⟨tx2, o2, acts2⟩ := r2
        simp only [hf, Except.ok.injEq, Prod.mk.injEq] at h
        obtain ⟨h1, h2, h3⟩ := h
        obtain ⟨s', out, hs, hstx, hacts⟩ := Slot.process_of_pp (t.slot two) t.oracle b m l hp
        let t1 : Terminal := { (t.setSlot two s') with oracle := m.oracle, obs := deliver t.obs out.acts }
        have hstep : t.step (two, b) = .ok (t1, out) := by simp only [Terminal.step, hs, t1]
        have hslot : t1.slot two = s' := by cases two <;> simp [t1, Terminal.slot, Terminal.setSlot]
        have hf' : feed (t1.slot two).tx t1.oracle (rest.map (·.payload)) = .ok (tx2, o2, acts2) := by
          rw [hslot, hstx]; exact hf
        obtain ⟨t2, recs, hr, e1, e2, e3, e4, e5⟩ := ih t1 tx2 o2 acts2 hf'
        refine ⟨t2, { two := two, burst := b, out := out } :: recs, ?_, by rw [e1, h1], by rw [e2, h2], ?_, ?_, ?_⟩
        · simp only [List.map_cons, run, hstep, hr]
        · simp only [allEvents, List.flatMap_cons] at e3 ⊢
          rw [e3, ← h3, hacts, events_append']
        · simp only [actsOf, outsOf, List.filter_cons, beq_self_eq_true, ↓reduceIte, List.map_cons,
            List.flatMap_cons] at e4 ⊢
          rw [e4, hacts, h3]
        · have : (two == !two) = false := by cases two <;> rfl
          simp only [actsOf, outsOf, List.filter_cons, this, Bool.false_eq_true, ↓reduceIte] at e5 ⊢
          exact e5

end Dmr.Fragment

namespace Dmr.Fragment
open Dmr Dmr.Tracker

/-! ## the generated transmission -/

/-- number of data blocks, pad octets, padded payload and the blocks of `generate_data_bursts` -/
def nBlocks (r : Rate) (conf : Bool) (payload : Bytes) : Nat :=
  numBlocks (octets r conf).1 (octets r conf).2 payload.length
def padOf (r : Rate) (conf : Bool) (payload : Bytes) : Nat :=
  padCount (octets r conf).1 (octets r conf).2 payload.length
def dataOf (r : Rate) (conf : Bool) (payload : Bytes) : Bytes :=
  padded (octets r conf).1 (octets r conf).2 payload
def gens (C : Crc) (r : Rate) (conf : Bool) (payload : Bytes) : List GenBlock :=
  (List.range (nBlocks r conf payload)).map
    (blockAt C r conf (nBlocks r conf payload) (octets r conf).1 (dataOf r conf payload)
      (C.crc32 (dataOf r conf payload)))

theorem gens_length (C : Crc) (r : Rate) (conf : Bool) (payload : Bytes) :
    (gens C r conf payload).length = nBlocks r conf payload := by simp [gens]

theorem nBlocks_pos (r : Rate) (conf : Bool) (payload : Bytes) : 1 ≤ nBlocks r conf payload :=
  numBlocks_pos _ _ _

theorem preambleBtfs_succ (k m : Nat) : preambleBtfs (k + 1) m = (k + m) :: preambleBtfs k m := by
  simp [preambleBtfs, List.range_succ, List.map_append, List.reverse_append]

theorem preambleBtfs_length (k m : Nat) : (preambleBtfs k m).length = k := by simp [preambleBtfs]

/-- the count-down: preamble `j` (0-based) of `k` announces `m + (k - 1 - j)` blocks to follow -/
theorem preambleBtfs_get (k m j : Nat) (hj : j < k) : (preambleBtfs k m)[j]? = some (m + (k - 1 - j)) := by
  induction k generalizing j with
  | zero => omega
  | succ k ih =>
    rw [preambleBtfs_succ]
    cases j with
    | zero => simp; omega
    | succ j =>
      simp only [List.getElem?_cons_succ]
      rw [ih j (by omega)]
      congr 1
      omega

theorem generate_ok (C : Crc) (raw : CsbkRaw) (r : Rate) (payload : Bytes) (gh : GenHeader) (k cc : Nat)
    (hpoc : gh.poc = padOf r gh.hdr.a payload) :
    generate C raw r payload gh k cc =
      .ok ((preambleBtfs k (nBlocks r gh.hdr.a payload + 1)).map
              (fun btf => (⟨.csbk true btf (raw btf), some cc⟩ : AbsBurst))
            ++ [⟨.dataHeader gh.hdr, some 5⟩]
            ++ (gens C r gh.hdr.a payload).map (fun b => (⟨.rate r b.asBits, some cc⟩ : AbsBurst))) := by
  unfold generate
  rw [genBlocks_ok]
  simp only [hpoc, padOf, bne_self_eq_false, Bool.false_eq_true, ↓reduceIte, List.length_map,
    List.length_range, gens, nBlocks, dataOf]

/-- facts about every generated block -/
theorem gens_facts (C : Crc) (r : Rate) (conf : Bool) (payload : Bytes) (hbytes : ∀ b ∈ payload, b < 256) :
    ∀ g ∈ gens C r conf payload,
      g.rate = r ∧ g.dbsn = 0 ∧ g.data.length = dataOctets g.rate g.ptype ∧ (∀ x ∈ g.data, x < 256)
        ∧ g.crc9 = C.crc9 r g.data 0 g.crc32
        ∧ g.crc32 = (if g.ptype.isLast then C.crc32 (dataOf r conf payload) else 0) := by
  intro g hg
  simp only [gens, List.mem_map, List.mem_range] at hg
  obtain ⟨i, hi, rfl⟩ := hg
  obtain ⟨h0, hle, hper, hlast⟩ := octets_facts r conf
  have hlen := padded_length r conf payload
  have hdata : ∀ x ∈ dataOf r conf payload, x < 256 := by
    intro x hx
    simp only [dataOf, padded, List.mem_append, List.mem_replicate] at hx
    rcases hx with hx | hx
    · exact hbytes x hx
    · omega
  refine ⟨rfl, rfl, ?_, ?_, rfl, ?_⟩
  · simp only [blockAt]
    by_cases hl : i = nBlocks r conf payload - 1
    · subst hl
      simp only [beq_self_eq_true, ← hlast]
      exact slice_length_last _ _ _ _ hlen hle
    · have : (i == nBlocks r conf payload - 1) = false := by simpa using hl
      simp only [this, ← hper]
      exact slice_length_inner _ _ _ _ _ hlen (by unfold nBlocks at hi hl; omega)
  · intro x hx
    simp only [blockAt, slice] at hx
    exact hdata x (List.mem_of_mem_drop (List.mem_of_mem_take hx))
  · simp only [blockAt]
    by_cases hl : i = nBlocks r conf payload - 1
    · have h1 : (resolve conf true).isLast = true := by cases conf <;> rfl
      simp [hl, h1]
    · have : (i == nBlocks r conf payload - 1) = false := by simpa using hl
      have h1 : (resolve conf false).isLast = false := by cases conf <;> rfl
      simp [this, h1]

theorem gens_wellTyped (C : Crc) (r : Rate) (conf : Bool) (payload : Bytes) :
    WellTyped conf (gens C r conf payload) := by
  unfold gens
  rw [List.range_eq_range']
  exact wellTyped_range' C r conf _ _ _ _ _ 0 (by omega)

theorem gens_data (C : Crc) (r : Rate) (conf : Bool) (payload : Bytes) :
    (gens C r conf payload).flatMap (·.data) = dataOf r conf payload := by
  obtain ⟨h0, hle, _, _⟩ := octets_facts r conf
  have hlen := padded_length r conf payload
  have hn := nBlocks_pos r conf payload
  simp only [gens, List.flatMap_map, blockAt]
  apply flatMap_slices
  unfold dataOf nBlocks at *
  rw [hlen]
  have : (numBlocks (octets r conf).1 (octets r conf).2 payload.length - 1) * (octets r conf).1
      + (octets r conf).1 = numBlocks (octets r conf).1 (octets r conf).2 payload.length * (octets r conf).1 := by
    rw [← Nat.succ_mul]; congr 1; omega
  omega

/-- the receiver's view of the whole transmission, on the level of one `Transmission` -/
theorem feed_generated (C : Crc) (raw : CsbkRaw) (r : Rate) (payload : Bytes) (h : DataHdr) (k sn o : Nat)
    (hbtf : h.btf = some (nBlocks r h.a payload)) (hbytes : ∀ b ∈ payload, b < 256) :
    feed (idleTx sn) o
        ((preambleBtfs k (nBlocks r h.a payload + 1)).map (fun btf => Payload.csbk true btf (raw btf))
          ++ [.dataHeader h] ++ (gens C r h.a payload).map (fun b => Payload.rate r b.asBits)) =
      .ok (idleTx (o + 1), o + 2,
        [.ev (.started .data)]
          ++ (preambleBtfs k (nBlocks r h.a payload + 1)).map (fun b => .append (.csbk (raw b)))
          ++ [.setHeader (.data h), .append (.hdr h)]
          ++ (gens C r h.a payload).map (fun g => .append (typed g))
          ++ [.ev (.dataEnded (.data h)
                ((preambleBtfs k (nBlocks r h.a payload + 1)).map (fun b => .csbk (raw b)) ++ [.hdr h]
                  ++ (gens C r h.a payload).map typed))]) := by
  have hn := nBlocks_pos r h.a payload
  have hne : gens C r h.a payload ≠ [] := by
    intro h0
    have := gens_length C r h.a payload
    rw [h0] at this
    simp at this
    omega
  have hall : ∀ g ∈ gens C r h.a payload, g.rate = r ∧ g.asBits.length = r.infoBits := by
    intro g hg
    obtain ⟨h1, _, h3, _⟩ := gens_facts C r h.a payload hbytes g hg
    exact ⟨h1, by rw [← h1]; exact asBits_length g h3⟩
  have hblocks := fun sn' o' r' bl => feed_blocks r h.a (.data h) (gens C r h.a payload) sn' o' r' bl hne
    (gens_wellTyped C r h.a payload) hall
  rw [gens_length] at hblocks
  rw [List.append_assoc, feed_append]
  cases k with
  | zero =>
    simp only [preambleBtfs, List.range_zero, List.map_nil, List.reverse_nil, feed, List.nil_append]
    rw [feed_append]
    simp only [feed, pp_header_idle sn o _ h hbtf (by omega)]
    have := hblocks o (o + 1) 1 [.hdr h]
    rw [Nat.add_comm 1] at this
    rw [this]
    simp
  | succ k =>
    rw [preambleBtfs_succ]
    simp only [List.map_cons, feed,
      pp_preamble_idle sn o (k + (nBlocks r h.a payload + 1)) (raw _) (by omega)]
    rw [feed_preambles raw _ o (o + 1) _ 1 false none _ (by omega)
      (by rw [preambleBtfs_length]; omega)]
    simp only [preambleBtfs_length]
    rw [feed_append]
    simp only [feed]
    rw [pp_header o (o + 1) _ (1 + k) _ false none _ h hbtf (by omega) (by omega)]
    simp only
    have := hblocks o (o + 1) (1 + k + 1) ([Block.csbk (raw (k + (nBlocks r h.a payload + 1)))] ++
      (preambleBtfs k (nBlocks r h.a payload + 1)).map (fun b => .csbk (raw b)) ++ [.hdr h])
    have he : k + (nBlocks r h.a payload + 1) + 1 = 1 + k + 1 + nBlocks r h.a payload := by omega
    rw [he, this]
    simp [List.append_assoc]

end Dmr.Fragment

namespace Dmr.Fragment
open Dmr Dmr.Tracker

/-! ## what the receiver reads from the blocks it was handed -/

theorem flatMap_congr' {α β : Type} (l : List α) (f g : α → List β) (h : ∀ x ∈ l, f x = g x) :
    l.flatMap f = l.flatMap g := by
  induction l with
  | nil => rfl
  | cons x r ih =>
    simp only [List.flatMap_cons, h x (by simp), ih (fun y hy => h y (by simp [hy]))]

theorem userData_typed (gs : List GenBlock) :
    userData (gs.map typed) = gs.flatMap (fun g => blockData g.rate g.ptype g.asBits) := by
  simp [userData, typed, List.flatMap_map]

/-- the data blocks concatenate to the payload followed by the pad octets -/
theorem userData_gens (C : Crc) (r : Rate) (conf : Bool) (payload : Bytes) (hbytes : ∀ b ∈ payload, b < 256) :
    userData ((gens C r conf payload).map typed)
      = payload ++ List.replicate (padOf r conf payload) 0 := by
  rw [userData_typed, flatMap_congr' _ _ (·.data), gens_data]
  · rfl
  · intro g hg
    obtain ⟨_, _, h3, h4, _⟩ := gens_facts C r conf payload hbytes g hg
    exact view_data g h3 h4

/-- the receiver accepts the CRC-9 of every block: the field it reads is the CRC-9 of exactly what it
recalculates it from (data, serial number, and — last block only — the CRC-32) -/
theorem crc9Ok_gens (C : Crc) (r : Rate) (conf : Bool) (payload : Bytes) (hbytes : ∀ b ∈ payload, b < 256)
    (hcrc32 : ∀ d, C.crc32 d < 2 ^ 32) (hcrc9 : ∀ r d s c, C.crc9 r d s c < 2 ^ 9) :
    ∀ g ∈ gens C r conf payload, crc9Ok C g.rate g.ptype g.asBits = true := by
  intro g hg
  obtain ⟨h1, h2, h3, h4, h5, h6⟩ := gens_facts C r conf payload hbytes g hg
  have hc32 : g.crc32 < 2 ^ 32 := by rw [h6]; split <;> first | exact hcrc32 _ | omega
  have hc9 : g.crc9 < 2 ^ 9 := by rw [h5]; exact hcrc9 _ _ _ _
  unfold crc9Ok
  simp only [view_data g h3 h4, view_dbsn g (by rw [h2]; omega), view_crc32 g h3 hc32, view_crc9 g hc9, h2]
  have e1 : (if g.ptype.isConfirmed = true then 0 else 0) = 0 := by split <;> rfl
  have e2 : (if g.ptype.isLast = true then g.crc32 else 0) = g.crc32 := by
    split
    · rfl
    · rename_i hl; rw [h6]; simp [hl]
  rw [e1, e2, h1, ← h5]
  split <;> simp

/-- the last block carries the CRC-32 of the padded payload; it and only it is typed "last" -/
theorem last_gens (C : Crc) (r : Rate) (conf : Bool) (payload : Bytes) (hbytes : ∀ b ∈ payload, b < 256)
    (hcrc32 : ∀ d, C.crc32 d < 2 ^ 32) :
    ∃ g, (gens C r conf payload).getLast? = some g ∧ g.ptype.isLast = true
      ∧ blockCrc32 g.rate g.ptype g.asBits = C.crc32 (payload ++ List.replicate (padOf r conf payload) 0)
      ∧ ∀ g' ∈ (gens C r conf payload).dropLast, g'.ptype.isLast = false := by
  have hn := nBlocks_pos r conf payload
  have hlen := gens_length C r conf payload
  cases hgl : (gens C r conf payload).getLast? with
  | none =>
    rw [List.getLast?_eq_none_iff] at hgl
    rw [hgl] at hlen; simp at hlen; omega
  | some g =>
    have hg : g ∈ gens C r conf payload := List.mem_of_getLast? hgl
    obtain ⟨_, _, h3, _, _, h6⟩ := gens_facts C r conf payload hbytes g hg
    have hwt := gens_wellTyped C r conf payload
    -- in a well-typed list the final block is "last", all others are not
    have key : ∀ (l : List GenBlock) (x : GenBlock), WellTyped conf l → l.getLast? = some x →
        x.ptype.isLast = true ∧ ∀ y ∈ l.dropLast, y.ptype.isLast = false := by
      intro l
      induction l with
      | nil => intro x _ h; simp at h
      | cons a rest ih =>
        intro x hw hx
        cases rest with
        | nil =>
          simp only [List.getLast?_singleton, Option.some.injEq] at hx
          subst hx
          have : a.ptype = resolve conf true := hw
          exact ⟨by rw [this]; cases conf <;> rfl, by simp⟩
        | cons b rest' =>
          obtain ⟨ha, hw'⟩ := hw
          have hx' : (b :: rest').getLast? = some x := by simpa [List.getLast?_cons_cons] using hx
          obtain ⟨i1, i2⟩ := ih x hw' hx'
          refine ⟨i1, ?_⟩
          intro y hy
          simp only [List.dropLast_cons_cons, List.mem_cons] at hy
          rcases hy with hy | hy
          · rw [hy, ha]; cases conf <;> rfl
          · exact i2 y hy
    obtain ⟨k1, k2⟩ := key _ g hwt hgl
    refine ⟨g, rfl, k1, ?_, k2⟩
    have hc32 : g.crc32 < 2 ^ 32 := by rw [h6]; split <;> first | exact hcrc32 _ | omega
    rw [view_crc32 g h3 hc32, h6]
    simp only [k1, ↓reduceIte]
    rfl

end Dmr.Fragment
