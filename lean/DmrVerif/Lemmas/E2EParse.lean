import DmrVerif.Lemmas.E2EChannel

/-!
# End to end (C07a): what the abstraction `absOf` reads from *any* parsed burst

The real tracker (and `alpha` of the harness) reads a rate-coded block from `burst.info_bits_deinterleaved`
(rate ¾ / 1) or from its own BPTC de-interleave of `full_bits[:98] + full_bits[166:]` (rate ½), and a CSBK /
data header from `from_bits` of those bits.  The burst model of C01 has no such attributes; `absOf` reads the
parsed payload object instead.  `absOf_reads_info_bits` shows that this is the same thing for every burst the
parser accepts: the payload object is `extractData` of the de-interleaved information bits, and for the three
rate-coded data types the bits `absOf` hands to the tracker *are* the de-interleaved information bits.
-/

namespace Dmr.E2E
open Dmr Dmr.Gen Dmr.Gen.Burst
open Dmr.Tracker (Rate AbsBurst)

/-- a successfully parsed burst with a slot type: its payload is `extractData` of the de-interleaved
information bits (bits 0…97 and 166…263 of the burst) -/
theorem parse_data (c : Crcs) (x : Bits) (bt : BurstType) (q : Dmr.Burst) (hq : Burst.parse c x bt = .ok q)
    (st : SlotType) (hst : q.slotType = some st) :
    ∃ deint, Burst.deinterleave (x.take 98 ++ x.drop 166) st.dataType = .ok deint
      ∧ Burst.extractData c st.dataType deint = .ok q.data := by
  unfold Burst.parse at hq
  by_cases hl : x.length ≠ 264
  · rw [if_pos hl] at hq; cases hq
  rw [if_neg hl] at hq
  have key : ∀ (start isds : Bool) (sync : Sync) (bt' : BurstType),
      (match (if (sync == .embedded && !start) = true then
              (Emb.dec (slice x 108 8 ++ slice x 148 8)).map some else .ok none) with
        | .error e => .error e
        | .ok emb =>
          if (!(bt' == .dataAndControl || isds)) = true then
            .ok ⟨sync, slice x 116 32, x.take 108 ++ x.drop 156, start,
              (start || bt' == .vocoder) && !isds, false,
              sync == .embedded && !start, emb, none, none⟩
          else
          match SlotType.dec (slice x 98 10 ++ slice x 156 10) with
          | .error e => .error e
          | .ok st =>
          match Burst.deinterleave (x.take 98 ++ x.drop 166) st.dataType with
          | .error e => .error e
          | .ok deint =>
          match Burst.extractData c st.dataType deint with
          | .error e => .error e
          | .ok data => .ok ⟨sync, slice x 116 32, x.take 108 ++ x.drop 156, start,
              (start || bt' == .vocoder) && !isds, true,
              sync == .embedded && !start, emb, some st, data⟩) = Except.ok q →
      ∃ deint, Burst.deinterleave (x.take 98 ++ x.drop 166) st.dataType = .ok deint
        ∧ Burst.extractData c st.dataType deint = .ok q.data := by
    intro start isds sync bt' h
    split at h
    · cases h
    · split at h
      · cases h; cases hst
      · split at h
        · cases h
        · split at h
          · cases h
          · split at h
            · cases h
            · cases h
              cases hst
              exact ⟨_, by assumption, by assumption⟩
  exact key _ _ _ _ hq

/-- the untyped decode keeps all bits -/
theorem dec_undefined_bits (cfg : RateCfg) (hc : cfg = rate12 ∨ cfg = rate34 ∨ cfg = rate1)
    (f9 : Bytes → Nat → Nat → Nat) (bs : Bits) (p : RateData) (h : RateData.dec cfg f9 .undefined bs = .ok p) :
    RateData.enc cfg p = bs := by
  by_cases hl : bs.length = 8 * cfg.total
  · obtain ⟨v1, v2⟩ := Burst.rate_view cfg hc f9 bs hl
    rw [v1] at h; cases h; exact v2
  · unfold RateData.dec at h; rw [if_pos hl] at h; cases h

/-- the rate the slot data type announces -/
def rateOfDt (dt : Nat) : Option Rate :=
  if dt = dtRate12Data then some .r12 else if dt = dtRate34Data then some .r34
  else if dt = dtRate1Data then some .r1 else none

/-- **what the abstraction reads.**  For every bit string the burst parser accepts as a burst with a slot type:
the colour code the tracker is handed is the slot type's; the payload object is `extractData` of the
de-interleaved information bits; and if the slot data type is rate ½ / ¾ / 1 data, the tracker is handed exactly
those de-interleaved information bits (= `info_bits_deinterleaved`, for rate ½ = the tracker's own BPTC
de-interleave of the same 196 bits). -/
theorem absOf_reads_info_bits (c : Crcs) (x : Bits) (bt : BurstType) (q : Dmr.Burst)
    (hq : Burst.parse c x bt = .ok q) (st : SlotType) (hst : q.slotType = some st) :
    (absOf q).cc = some st.colourCode
    ∧ ∃ deint, Burst.deinterleave (x.take 98 ++ x.drop 166) st.dataType = .ok deint
        ∧ Burst.extractData c st.dataType deint = .ok q.data
        ∧ ∀ r, rateOfDt st.dataType = some r → (absOf q).payload = .rate r deint := by
  obtain ⟨deint, hd, he⟩ := parse_data c x bt q hq st hst
  refine ⟨by simp only [absOf, hst], deint, hd, he, ?_⟩
  intro r hr
  unfold rateOfDt at hr
  unfold Burst.extractData at he
  split at hr
  · rename_i h12
    cases hr
    rw [h12] at he
    simp (config := { decide := true }) only [↓reduceIte] at he
    cases hdec : RateData.dec rate12 c.r12 .undefined deint with
    | error e => rw [hdec] at he; cases he
    | ok p =>
      rw [hdec] at he
      have hdata : q.data = some (.rate12 p) := (Except.ok.inj he).symm
      simp only [absOf, hst, hdata, payloadAbs, dec_undefined_bits rate12 (by simp) c.r12 deint p hdec]
  · split at hr
    · rename_i h34
      cases hr
      rw [h34] at he
      simp (config := { decide := true }) only [↓reduceIte] at he
      cases hdec : RateData.dec rate34 c.r34 .undefined deint with
      | error e => rw [hdec] at he; cases he
      | ok p =>
        rw [hdec] at he
        have hdata : q.data = some (.rate34 p) := (Except.ok.inj he).symm
        simp only [absOf, hst, hdata, payloadAbs, dec_undefined_bits rate34 (by simp) c.r34 deint p hdec]
    · split at hr
      · rename_i h1
        cases hr
        rw [h1] at he
        simp (config := { decide := true }) only [↓reduceIte] at he
        cases hdec : RateData.dec rate1 c.r1 .undefined deint with
        | error e => rw [hdec] at he; cases he
        | ok p =>
          rw [hdec] at he
          have hdata : q.data = some (.rate1 p) := (Except.ok.inj he).symm
          simp only [absOf, hst, hdata, payloadAbs, dec_undefined_bits rate1 (by simp) c.r1 deint p hdec]
      · cases hr

end Dmr.E2E
