import DmrVerif.Lemmas.RsBase

/-! C11: `log_multiply` against carry-less multiplication modulo 0x11D — quarter C of the 65,536
operand pairs (pair `(n / 256, n % 256)` for `32768 ≤ n < 32768 + 16384`), kernel enumeration. -/

namespace Dmr.Rs

theorem mulEnumC : allBin mulCase 14 32768 = true := by decide +kernel

end Dmr.Rs
