import DmrVerif.Model.PduShort
import DmrVerif.Lemmas.PduDataHeader

/-!
# Short LC (two SLCOs) and PI header: round trip, fixed point, totality
-/

set_option linter.unusedSimpArgs false

namespace Dmr
open Dmr.Gen

namespace ShortLc

theorem body_length (pl : SlcPayload) (h : SlcPayload.WF pl) : (body pl).length = 28 := by
  cases pl <;> simp only [SlcPayload.WF] at h <;> simp (config := { decide := true }) [body, h]

theorem enc_length (p : ShortLc) (h : p.WF) : (enc p).length = 36 := by
  simp [enc, body_length _ h.2, h.1]

theorem dec_enc (g : Bits → Bits) (p : ShortLc) (h : p.WF) : dec g (enc p) = .ok (init g p) := by
  obtain ⟨crc, pl⟩ := p
  obtain ⟨hcrc, hpl⟩ := h
  simp only at hcrc hpl
  cases pl with
  | null =>
    have ho : eSLCOs.dec 0 = .ok 0 := rfl
    unfold dec
    simp only [enc, body, slcoNull, slcoActivity, List.append_assoc]
    layout_simp [ho, hcrc]
  | activity t1 t2 a1 a2 =>
    obtain ⟨ht1, ht2, ha1, ha2⟩ := hpl
    have ho : eSLCOs.dec 1 = .ok 1 := rfl
    obtain ⟨h1, h1l⟩ := Elem.facts (by simp [allElems]) ht1
    obtain ⟨h2, h2l⟩ := Elem.facts (by simp [allElems]) ht2
    change t1 < 2 ^ 4 at h1l; change t2 < 2 ^ 4 at h2l
    unfold dec
    simp only [enc, body, slcoNull, slcoActivity, List.append_assoc]
    layout_simp [ho, hcrc, h1, h1l, h2, h2l, ha1, ha2]

theorem slice_enc (p : ShortLc) (h : p.WF) : slice (enc p) 0 28 = body p.payload := by
  unfold enc; exact slice_append_exact _ _ _ (body_length _ h.2)

theorem init_wf (g : Bits → Bits) (hg : ∀ x, (g x).length = 8) (p : ShortLc) (h : p.WF) : (init g p).WF := by
  unfold init
  split
  · exact ⟨hg _, h.2⟩
  · exact h

theorem init_idem (g : Bits → Bits) (hg : ∀ x, (g x).length = 8) (p : ShortLc) (h : p.WF) :
    init g (init g p) = init g p := by
  by_cases hc : allZero p.crc = true
  · have h1 : init g p = { p with crc := g (body p.payload) } := by
      unfold init; rw [if_pos hc, slice_enc p h]
    rw [h1]
    unfold init
    split
    · rw [slice_enc (⟨g (body p.payload), p.payload⟩ : ShortLc) ⟨hg _, h.2⟩]
    · rfl
  · have h1 : init g p = p := by unfold init; rw [if_neg hc]
    rw [h1, h1]

theorem dec_spec (g : Bits → Bits) (bs : Bits) (hl : bs.length = 36) (p : ShortLc)
    (h : dec g bs = .ok p) : ∃ q : ShortLc, q.WF ∧ p = init g q := by
  unfold dec at h
  simp only [hl, Nat.lt_irrefl, ↓reduceIte] at h
  repeat' split at h
  all_goals cases h
  all_goals refine ⟨_, ?_, rfl⟩
  all_goals (unfold WF SlcPayload.WF; and_intros)
  all_goals first | wf_field | trivial

theorem fixpoint (g : Bits → Bits) (hg : ∀ x, (g x).length = 8) (bs : Bits) (hl : bs.length = 36)
    (p : ShortLc) (h : dec g bs = .ok p) : dec g (enc p) = .ok p ∧ (enc p).length = 36 := by
  obtain ⟨q, hq, rfl⟩ := dec_spec g bs hl p h
  have hw := init_wf g hg q hq
  exact ⟨by rw [dec_enc g _ hw, init_idem g hg q hq], enc_length _ hw⟩

/-- a 36-bit string is decoded, or raises `KeyError` (an SLCO without layout); `ValueError` only if an
element raised it (none does on the current tables) -/
theorem dec_errors (g : Bits → Bits) (bs : Bits) (hl : bs.length = 36) (e : Err)
    (h : dec g bs = .error e) : e = .valueError ∨ e = .keyError := by
  unfold dec at h
  simp only [hl, Nat.lt_irrefl, ↓reduceIte] at h
  repeat' split at h
  all_goals first
    | (cases h; done)
    | (cases h; right; rfl)
    | (cases h; left; exact Elem.err_valueError_mem (by assumption) (by simp [allElems]))

end ShortLc

namespace PiHeader

theorem enc_length (f : Bits → Nat) (p : PiHeader) (h : p.WF f) : (enc p).length = 96 := by
  simp [enc, bytesToBits_length, h.1]

theorem take_enc (p : PiHeader) : (enc p).take ((enc p).length - 16) = bytesToBits p.data := by
  simp [enc]

/-- for any octet string (not only 10 octets) the object the constructor builds is read back -/
theorem dec_enc (f : Bits → Nat) (data : Bytes) (hb : isBytes data = true) :
    dec f (enc (init f data)) = .ok (init f data) := by
  unfold dec
  rw [take_enc]
  have : (enc (init f data)).length ≠ 0 := by simp [enc]
  simp only [this, ↓reduceIte]
  simp [init, bitsToBytes_bytesToBits data hb]

theorem dec_wf (f : Bits → Nat) (bs : Bits) (hl : bs.length = 96) (p : PiHeader) (h : dec f bs = .ok p) :
    p.WF f := by
  unfold dec at h
  simp only [hl] at h
  cases h
  have h80 : (bs.take (96 - 16)).length = 8 * 10 := by simp [hl]
  exact ⟨bitsToBytes_length 10 _ h80, isBytes_bitsToBytes 10 _ h80, rfl⟩

theorem fixpoint (f : Bits → Nat) (bs : Bits) (hl : bs.length = 96) (p : PiHeader) (h : dec f bs = .ok p) :
    dec f (enc p) = .ok p ∧ (enc p).length = 96 := by
  have hw := dec_wf f bs hl p h
  have hp : p = init f p.data := by
    cases p with | mk d c => simp only [init, PiHeader.mk.injEq, true_and]; exact hw.2.2
  exact ⟨by rw [hp]; exact dec_enc f _ hw.2.1, enc_length f p hw⟩

theorem dec_total (f : Bits → Nat) (bs : Bits) (hl : bs.length = 96) : ∃ p, dec f bs = .ok p := by
  simp [dec, hl]

end PiHeader
end Dmr
