import DmrVerif.Lemmas.TrackerRun

/-!
# Observers, stream ids after an end, voice labels (C08)
-/

namespace Dmr.Tracker

/-! ## observer fan-out -/

theorem fanout_eq (obs : List Obs) (e : Event) :
    fanout obs e = obs.map (fun o => { o with log := o.log ++ [e] }) := by
  induction obs with
  | nil => rfl
  | cons o r ih => simp [fanout, Obs.call, ih]

theorem foldl_fanout (evs : List Event) : ∀ obs : List Obs,
    evs.foldl fanout obs = obs.map (fun o => { o with log := o.log ++ evs }) := by
  induction evs with
  | nil => intro obs; simp
  | cons e r ih =>
    intro obs
    simp only [List.foldl_cons, ih, fanout_eq, List.map_map]
    apply List.map_congr_left
    intro o _
    simp

theorem deliver_eq (obs : List Obs) (acts : List Act) :
    deliver obs acts = obs.map (fun o => { o with log := o.log ++ events acts }) :=
  foldl_fanout _ _

theorem step_withObs (t : Terminal) (obs : List Obs) (inp : Bool × AbsBurst) :
    ({ t with obs := obs } : Terminal).step inp =
      match t.step inp with
      | .error e => .error e
      | .ok (t', out) => .ok ({ t' with obs := deliver obs out.acts }, out) := by
  obtain ⟨two, b⟩ := inp
  cases two with
  | false =>
    simp only [Terminal.step, Terminal.slot, Bool.false_eq_true, ↓reduceIte]
    cases t.s1.process t.oracle b with
    | error e => rfl
    | ok r => rfl
  | true =>
    simp only [Terminal.step, Terminal.slot, ↓reduceIte]
    cases t.s2.process t.oracle b with
    | error e => rfl
    | ok r => rfl

/-- what the slots do never depends on the observers; every observer's log grows by every event -/
theorem run_withObs (h : List (Bool × AbsBurst)) : ∀ (t : Terminal) (obs : List Obs),
    run { t with obs := obs } h =
      match run t h with
      | .error e => .error e
      | .ok (t', recs) =>
        .ok ({ t' with obs := obs.map (fun o => { o with log := o.log ++ allEvents recs }) }, recs) := by
  induction h with
  | nil => intro t obs; simp [run, allEvents]
  | cons inp rest ih =>
    intro t obs
    simp only [run, step_withObs]
    cases t.step inp with
    | error e => rfl
    | ok r =>
      obtain ⟨t1, out⟩ := r
      simp only [ih t1 (deliver obs out.acts)]
      cases run t1 rest with
      | error e => rfl
      | ok r2 =>
        obtain ⟨t2, recs⟩ := r2
        simp [deliver_eq, allEvents, List.map_map, Function.comp_def, List.append_assoc]

/-! ## after an end: idle, fresh stream id -/

/-- if the last callback so far was an `ended`, the tracker is in the state `new_transmission(Idle)` leaves
and its stream id is the last value drawn from the oracle -/
def LI (m : M) : Prop :=
  ∀ e, (events m.acts).getLast? = some e → e.isEnded = true →
    m.tx.isIdleFresh = true ∧ m.tx.streamNo + 1 = m.oracle

/-- `o` = the oracle before the burst: once an `ended` was delivered the stream id was drawn after `o` -/
def EF (o : Nat) (m : M) : Prop :=
  o ≤ m.oracle ∧ ((events m.acts).any Event.isEnded = true → o ≤ m.tx.streamNo)

theorem newTx_idle (m : M) : newTx m .idle = resetTx m .idle := by simp [newTx]

theorem LI.resetIdle (m : M) : LI (resetTx m .idle) := by
  intro e _ _
  simp [resetTx, Tx.isIdleFresh]

theorem LI.of_noEvents {m : M} (h : events m.acts = []) : LI m := by
  intro e he; simp [h] at he

theorem LI.endData {m : M} (h : LI m) : LI (endData m) := by
  unfold Tracker.endData; split
  · exact h
  · split
    · exact h
    · exact LI.resetIdle _

theorem LI.endVoice {m : M} (h : LI m) : LI (endVoice m) := by
  unfold Tracker.endVoice; split
  · exact h
  · split <;> (rw [newTx_idle]; exact LI.resetIdle _)

theorem LI.endTransmissions {m : M} (h : LI m) : LI (endTransmissions m) := by
  unfold Tracker.endTransmissions; split
  · exact h.endData
  · exact h.endVoice
  · exact h

theorem LI.trailing {m : M} (h : LI m) : LI (trailing m) := by
  unfold Tracker.trailing; split
  · exact h.endTransmissions
  · exact h

attribute [local simp] events_append events_cons_ev events_cons_append events_cons_setHeader

theorem events_concat_ev (acts : List Act) (e : Event) : events (acts ++ [.ev e]) = events acts ++ [e] := by
  simp [events_append, events_cons_ev]
theorem events_concat_append (acts : List Act) (b : Block) : events (acts ++ [.append b]) = events acts := by
  simp [events_append, events_cons_append]
theorem events_concat_setHeader (acts : List Act) (h : Hdr) :
    events (acts ++ [.setHeader h]) = events acts := by
  simp [events_append, events_cons_setHeader]

/-- from an empty action list `ensure_transmission(t)` emits nothing or ends with `started t` -/
theorem ensureTx_events (m : M) (t : TxType) (ht : t ≠ .idle) (h0 : m.acts = []) :
    events (ensureTx m t).acts = [] ∨ (events (ensureTx m t).acts).getLast? = some (.started t) := by
  unfold ensureTx
  split
  · right
    unfold newTx
    simp only [bne_iff_ne, ne_eq, ht, not_false_eq_true, ↓reduceIte, resetTx_acts, emit_acts,
      events_concat_ev, List.getLast?_concat]
  · left; simp [h0]

theorem LI.after_ensure {m1 : M} {t : TxType}
    (h : events m1.acts = [] ∨ (events m1.acts).getLast? = some (.started t)) (m' : M)
    (hev : events m'.acts = events m1.acts) : LI m' := by
  intro e he hen
  rw [hev] at he
  rcases h with h | h
  · simp [h] at he
  · rw [h] at he; cases he; simp [Event.isEnded] at hen

theorem dispatch_LI {m m' : M} {p : Payload} (h0 : m.acts = []) (h : dispatch m p = .ok m') : LI m' := by
  cases p with
  | voiceHeader raw =>
    cases h
    exact LI.after_ensure (ensureTx_events m .voice (by simp) h0) _
      (by simp [processVoiceHeader, events_concat_setHeader])
  | dataHeader dh =>
    cases h
    exact LI.after_ensure (ensureTx_events m .data (by simp) h0) _
      (by simp [processDataHeader, events_concat_setHeader, events_concat_append])
  | csbk pre btf raw =>
    cases h
    exact LI.after_ensure (ensureTx_events m .data (by simp) h0) _
      (by simp [processCsbk, events_concat_append])
  | terminator raw =>
    cases h
    exact LI.endVoice (LI.of_noEvents (by simp [h0]))
  | voice s => cases h; exact LI.of_noEvents (by simp [h0])
  | other => cases h; exact LI.of_noEvents (by simp [h0])
  | rate r bits =>
    simp only [dispatch] at h
    split at h
    · cases h
    · cases h
      unfold processData
      split
      · exact LI.endData (LI.of_noEvents (by simp [h0, events_concat_append]))
      · exact LI.of_noEvents (by simp [h0, events_concat_append])

theorem EF.of_ge {o : Nat} {m : M} (h1 : o ≤ m.oracle) (h2 : o ≤ m.tx.streamNo) : EF o m :=
  ⟨h1, fun _ => h2⟩

theorem EF.reset {o : Nat} {m : M} (h : o ≤ m.oracle) (t : TxType) : EF o (resetTx m t) :=
  EF.of_ge (by simp [resetTx]; omega) (by simpa [resetTx] using h)

theorem EF.endData {o : Nat} {m : M} (h : EF o m) : EF o (endData m) := by
  unfold Tracker.endData; split
  · exact h
  · split
    · exact h
    · exact EF.reset (by simpa using h.1) _

theorem EF.newTx {o : Nat} {m : M} (h : EF o m) (t : TxType) : EF o (newTx m t) := by
  unfold Tracker.newTx
  have h1 : EF o (if (t != .idle && m.tx.type == .data) = true then Tracker.endData m else m) := by
    split
    · exact h.endData
    · exact h
  generalize (if (t != .idle && m.tx.type == .data) = true then Tracker.endData m else m) = m1 at h1
  have h2 := EF.reset h1.1 t
  split
  · exact EF.of_ge (by simpa using h2.1) (by simpa [resetTx] using h1.1)
  · exact h2

theorem EF.ensureTx {o : Nat} {m : M} (h : EF o m) (t : TxType) : EF o (ensureTx m t) := by
  unfold Tracker.ensureTx; split
  · exact h.newTx t
  · exact h

theorem EF.endVoice {o : Nat} {m : M} (h : EF o m) : EF o (endVoice m) := by
  unfold Tracker.endVoice; split
  · exact h
  · split <;> (rw [newTx_idle]; exact EF.reset (by simpa using h.1) _)

theorem EF.endTransmissions {o : Nat} {m : M} (h : EF o m) : EF o (endTransmissions m) := by
  unfold Tracker.endTransmissions; split
  · exact h.endData
  · exact h.endVoice
  · exact h

theorem EF.trailing {o : Nat} {m : M} (h : EF o m) : EF o (trailing m) := by
  unfold Tracker.trailing; split
  · exact h.endTransmissions
  · exact h

/-- updates that draw no token and deliver no callback keep `EF` -/
theorem EF.quiet {o : Nat} {m m' : M} (h : EF o m) (h1 : m'.oracle = m.oracle)
    (h2 : m'.tx.streamNo = m.tx.streamNo) (h3 : events m'.acts = events m.acts) : EF o m' :=
  ⟨by rw [h1]; exact h.1, by rw [h2, h3]; exact h.2⟩

theorem dispatch_EF {o : Nat} {m m' : M} {p : Payload} (h : EF o m) (hd : dispatch m p = .ok m') :
    EF o m' := by
  cases p with
  | voiceHeader raw =>
    cases hd
    exact (h.ensureTx .voice).quiet rfl rfl (by simp [processVoiceHeader, events_concat_setHeader])
  | dataHeader dh =>
    cases hd
    exact (h.ensureTx .data).quiet rfl rfl
      (by simp [processDataHeader, events_concat_setHeader, events_concat_append])
  | csbk pre btf raw =>
    cases hd
    exact (h.ensureTx .data).quiet rfl rfl (by simp [processCsbk, events_concat_append])
  | terminator raw =>
    cases hd
    exact EF.endVoice (h.quiet rfl rfl rfl)
  | voice s => cases hd; exact h
  | other => cases hd; exact h
  | rate r bits =>
    simp only [dispatch] at hd
    split at hd
    · cases hd
    · cases hd
      rename_i blk _
      have h1 : EF o { (m.emit (.append blk)) with
          tx := { m.tx with received := m.tx.received + 1, blocks := m.tx.blocks ++ [blk] } } :=
        h.quiet rfl rfl (by simp [events_concat_append])
      unfold processData
      split
      · exact h1.endData
      · exact h1

/-- one burst on one slot: idle with a fresh stream id after an end -/
theorem Slot.process_end {s s' : Slot} {o o' : Nat} {b : AbsBurst} {out : Out}
    (hp : s.process o b = .ok (s', o', out)) :
    out.stream = s'.tx.streamNo
      ∧ (out.deliveredEnd = true → o ≤ s'.tx.streamNo)
      ∧ (∀ e, (events out.acts).getLast? = some e → e.isEnded = true →
          s'.tx.isIdleFresh = true ∧ s'.tx.streamNo + 1 = o') := by
  cases hpp : processPacket { tx := s.tx, oracle := o } b.payload with
  | error e => simp [Slot.process, hpp] at hp
  | ok r =>
    obtain ⟨m, l⟩ := r
    rw [processPacket_eq] at hpp
    split at hpp
    · cases hpp
    · rename_i tx lbl hf
      split at hpp
      · cases hpp
      · rename_i m1 hd
        cases hpp
        have hef : EF o (trailing m1) :=
          (dispatch_EF (m := { tx := tx, oracle := o }) ⟨Nat.le_refl _, by simp⟩ hd).trailing
        have hli : LI (trailing m1) :=
          (dispatch_LI (m := { tx := tx, oracle := o }) rfl hd).trailing
        have hpp' : processPacket { tx := s.tx, oracle := o } b.payload = .ok (trailing m1, l) := by
          rw [processPacket_eq, hf]; simp only [hd]
        simp only [Slot.process, hpp', Except.ok.injEq, Prod.mk.injEq] at hp
        obtain ⟨hs, ho, hout⟩ := hp
        subst hs ho hout
        refine ⟨?_, ?_, ?_⟩
        · split <;> rfl
        · intro hde
          have := hef.2 (by simpa [Out.deliveredEnd] using hde)
          split <;> simpa using this
        · intro e he hen
          have := hli e he hen
          split <;> simpa using this

end Dmr.Tracker
