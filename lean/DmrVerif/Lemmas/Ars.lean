import DmrVerif.Model.Ars
import DmrVerif.Lemmas.Tms

/-!
# ARS (C16): specification predicates (`wf`, `norm`) and the lemmas behind `Props/C16.lean`
-/

namespace Dmr.Ars
open Dmr Dmr.Tms

/-! ## the property's range and the listed normal form -/

/-- an identifier / password field: absent, or at most 255 octets of well-formed UTF-8 (what
`str.encode("utf-8")` produces) -/
def okId : Option Bytes → Bool
  | none => true
  | some d => decide (d.length ≤ 255) && validUtf8 d

/-- the second header of an acknowledgement as the property builds it: bound to the message's own
first header (`context`), carrying a failure reason when the acknowledged flag (= failure) is set,
a refresh time 1..127 otherwise (the other attribute is unrestricted) -/
def okRsh (ack : Bool) (r : Rsh) : Bool :=
  r.ctx == some ack &&
  (if ack then r.failure.isSome
   else match r.refresh with
     | some rt => decide (1 ≤ rt) && decide (rt ≤ 127)
     | none => false)

/-- the messages of the property: the five implemented PDU types; any flags; registration requests
carry a registration header when `has_more_headers` is set and three `okId` fields; responses carry an
`okRsh` second header when `has_more_headers` is set; CSBK trailer or not.  Attributes a PDU type does
not carry are unrestricted. -/
def wf (p : Msg) : Bool :=
  match p.header.ptype with
  | .devReg | .userReg =>
    (!p.header.more || p.rrh.isSome) && okId p.device && okId p.user && okId p.password
  | .response =>
    !p.header.more || (match p.rsh with
      | some r => okRsh p.header.ack r
      | none => false)
  | .query | .devDereg => true
  | .userDereg | .userRegResp => false

/-- `None` and `""` are the same zero-length field -/
def normId (x : Option Bytes) : Option Bytes := some (x.getD [])

/-- the parser fills *both* attributes of the second header from the one octet on the wire: the
attribute selected by the acknowledged flag is the field, the other one is derived from it -/
def normRsh (ack : Bool) (r : Rsh) : Rsh :=
  if ack then
    match r.failure with
    | some f => ⟨some f, some (f.val % 128), some ack⟩
    | none => r
  else
    match r.refresh with
    | some rt => ⟨Failure.ofCode rt, some rt, some ack⟩
    | none => r

/-- what `from_bytes (as_bytes p)` returns.  The first header (all four flags and the type) and the
CSBK flag are unchanged.  Differences to `p`:
* identifiers / password `None` become `""` (registration requests), and are `None` elsewhere,
* the registration header exists only in registration requests with `has_more_headers`,
* the response second header exists only in responses with `has_more_headers`; see `normRsh`. -/
def norm (p : Msg) : Msg :=
  match p.header.ptype with
  | .devReg | .userReg =>
    { header := p.header, rrh := if p.header.more then p.rrh else none, rsh := none,
      device := normId p.device, user := normId p.user, password := normId p.password, csbk := p.csbk }
  | .response =>
    { header := p.header, rrh := none,
      rsh := if p.header.more then p.rsh.map (normRsh p.header.ack) else none,
      device := none, user := none, password := none, csbk := p.csbk }
  | _ =>
    { header := p.header, rrh := none, rsh := none, device := none, user := none, password := none,
      csbk := p.csbk }

/-! ## facts about the extracted enumerations -/

theorem ptype_count : Gen.Ars.pduTypeCount = 7 := by decide
theorem event_count : Gen.Ars.eventCount = 3 := by decide
theorem enc_count : Gen.Ars.encodingCount = 1 := by decide
theorem failure_count : Gen.Ars.failureCount = 4 := by decide

theorem ptype_code (t : PduType) : t.val < 16 ∧ PduType.ofCode t.val = some t := by
  cases t <;> decide

theorem event_code (e : Event) : e.val < 4 ∧ Event.ofCode e.val = some e := by
  cases e <;> decide

theorem enc_code (e : Enc) : e.val < 32 ∧ Enc.ofCode e.val = some e := by
  cases e <;> decide

theorem failure_code (f : Failure) : f.val < 256 ∧ Failure.ofCode (f.val % 128) = some f := by
  cases f <;> decide

theorem failure_total : ∀ v, v < 128 → (Failure.ofCode v).isSome = true := by decide

theorem csbk_val : Gen.Ars.csbkEnd = [16, 128] := by decide

/-- the response type's code is not 0, so a response's first header octet is never 0x10 -/
theorem response_code : PduType.response.val % 16 ≠ 0 := by decide

/-! ## well-formed UTF-8 never ends in the CSBK trailer -/

/-- every continuation octet (0x80..0xBF) is preceded by an octet ≥ 0x80 -/
def pairsOk : Nat → Bytes → Bool
  | _, [] => true
  | prev, y :: r => (!isCont y || decide (0x80 ≤ prev)) && pairsOk y r

theorem isCont_ge {b : Nat} (h : isCont b = true) : 0x80 ≤ b := by
  simp [isCont] at h; omega

theorem valid_pairs (bs : Bytes) (h : validUtf8 bs = true) : ∀ prev, pairsOk prev bs = true := by
  fun_induction validUtf8 bs with
  | case1 => intro prev; rfl
  | case2 b0 rest hlt ih =>
    intro prev
    simp only [pairsOk, Bool.and_eq_true]
    exact ⟨by simp [isCont]; omega, ih h b0⟩
  | case3 b0 h1 h2 b1 r ih =>
    intro prev
    simp only [Bool.and_eq_true] at h
    simp only [pairsOk, Bool.and_eq_true]
    exact ⟨by simp [isCont]; omega, by simp; omega, ih h.2 b1⟩
  | case4 => simp at h
  | case5 b0 h1 h2 h3 b1 b2 r ih =>
    intro prev
    simp only [Bool.and_eq_true] at h
    obtain ⟨⟨hb1, hb2⟩, hr⟩ := h
    have g1 : 0x80 ≤ b1 := by
      split at hb1
      · simp at hb1; omega
      · split at hb1
        · simp at hb1; omega
        · exact isCont_ge hb1
    simp only [pairsOk, Bool.and_eq_true]
    exact ⟨by simp [isCont]; omega, by simp; omega, by simp; omega, ih hr b2⟩
  | case6 => simp at h
  | case7 b0 h1 h2 h3 h4 b1 b2 b3 r ih =>
    intro prev
    simp only [Bool.and_eq_true] at h
    obtain ⟨⟨⟨hb1, hb2⟩, hb3⟩, hr⟩ := h
    have g1 : 0x80 ≤ b1 := by
      split at hb1
      · simp at hb1; omega
      · split at hb1
        · simp at hb1; omega
        · exact isCont_ge hb1
    have g2 := isCont_ge hb2
    simp only [pairsOk, Bool.and_eq_true]
    exact ⟨by simp [isCont]; omega, by simp; omega, by simp; omega, by simp; omega, ih hr b3⟩
  | case8 => simp at h
  | case9 => simp at h

theorem pairs_tail (pre : Bytes) (a : Nat) : ∀ prev, pairsOk prev (pre ++ [a, 128]) = true → 0x80 ≤ a := by
  induction pre with
  | nil =>
    intro prev h
    simp [pairsOk, isCont] at h
    exact h.2
  | cons x xs ih =>
    intro prev h
    simp only [List.cons_append, pairsOk, Bool.and_eq_true] at h
    exact ih x h.2

/-- a well-formed UTF-8 string never ends in the octets `10 80` (the CSBK trailer) -/
theorem valid_not_csbk (pre : Bytes) (h : validUtf8 (pre ++ [16, 128]) = true) : False := by
  have := pairs_tail pre 16 0 (valid_pairs _ h 0)
  omega


/-! ## headers and len-value fields -/

theorem header_roundtrip (h : FirstHeader) :
    ∃ b, headerByte h = .ok b ∧ headerOfByte b = .ok h ∧ b < 256 ∧ b % 16 = h.ptype.val := by
  obtain ⟨hlt, hcode⟩ := ptype_code h.ptype
  refine ⟨128 * h.more.toNat + 64 * h.ack.toNat + 32 * h.priority.toNat + 16 * h.ctl.toNat + h.ptype.val, ?_, ?_, ?_, ?_⟩
  · unfold headerByte; rw [if_neg (by omega)]
  · have h1 := Bool.toNat_le h.more
    have h2 := Bool.toNat_le h.ack
    have h3 := Bool.toNat_le h.priority
    have h4 := Bool.toNat_le h.ctl
    generalize hb : 128 * h.more.toNat + 64 * h.ack.toNat + 32 * h.priority.toNat + 16 * h.ctl.toNat + h.ptype.val = b
    have e1 : b / 128 % 2 = h.more.toNat := by omega
    have e2 : b / 64 % 2 = h.ack.toNat := by omega
    have e3 : b / 32 % 2 = h.priority.toNat := by omega
    have e4 : b / 16 % 2 = h.ctl.toNat := by omega
    have e5 : b % 16 = h.ptype.val := by omega
    unfold headerOfByte
    rw [e1, e2, e3, e4, e5, toNat_beq_one, toNat_beq_one, toNat_beq_one, toNat_beq_one, hcode]
  · have h1 := Bool.toNat_le h.more
    have h2 := Bool.toNat_le h.ack
    have h3 := Bool.toNat_le h.priority
    have h4 := Bool.toNat_le h.ctl
    omega
  · omega

theorem rrh_roundtrip (r : Rrh) : ∃ b, rrhBytes r = .ok [b] ∧ rrhOfByte b = .ok r := by
  obtain ⟨h1, h2⟩ := event_code r.event
  obtain ⟨h3, h4⟩ := enc_code r.enc
  refine ⟨32 * r.event.val + r.enc.val, ?_, ?_⟩
  · unfold rrhBytes; simp only []; rw [if_neg (by omega)]
  · unfold rrhOfByte
    rw [show (32 * r.event.val + r.enc.val) / 32 % 4 = r.event.val by omega,
      show (32 * r.event.val + r.enc.val) % 32 = r.enc.val by omega, h2, h4]

theorem rsh_roundtrip (ack : Bool) (r : Rsh) (h : okRsh ack r = true) :
    ∃ b, rshBytes r = .ok [b] ∧ rshOfByte b ack = .ok (normRsh ack r) := by
  obtain ⟨f, rt, c⟩ := r
  simp only [okRsh, Bool.and_eq_true, beq_iff_eq] at h
  obtain ⟨hc, h⟩ := h
  subst hc
  cases ack with
  | true =>
    cases f with
    | none => simp at h
    | some f =>
      obtain ⟨h1, h2⟩ := failure_code f
      refine ⟨f.val, ?_, ?_⟩
      · simp only [rshBytes]; rw [if_neg (by omega)]
      · simp [rshOfByte, h2, normRsh]
  | false =>
    cases rt with
    | none => simp at h
    | some rt =>
      simp at h
      have hs := failure_total rt (by omega)
      refine ⟨rt, ?_, ?_⟩
      · simp only [rshBytes]; rw [if_neg (by omega), if_neg (by omega)]
      · rw [Option.isSome_iff_exists] at hs
        obtain ⟨f', hf'⟩ := hs
        simp [rshOfByte, normRsh, Nat.mod_eq_of_lt (show rt < 128 by omega), hf']

theorem lv_spec (x : Option Bytes) (h : okId x = true) :
    lv x = .ok ((x.getD []).length :: x.getD []) ∧ (x.getD []).length ≤ 255
      ∧ validUtf8 (x.getD []) = true := by
  cases x with
  | none => exact ⟨rfl, by simp, rfl⟩
  | some d =>
    simp only [okId, Bool.and_eq_true, decide_eq_true_eq] at h
    cases d with
    | nil => exact ⟨rfl, by simp, rfl⟩
    | cons a as =>
      refine ⟨?_, h.1, h.2⟩
      simp only [lv, Option.getD_some]
      rw [if_neg (by omega)]

theorem readLv_at (pre v rest : Bytes) :
    readLv (pre ++ (v.length :: (v ++ rest))) pre.length = .ok (pre.length + 1 + v.length, v) := by
  unfold readLv
  rw [List.getElem?_append_right (Nat.le_refl _)]
  simp only [Nat.sub_self, List.getElem?_cons_zero]
  congr 2
  unfold slice
  rw [show pre ++ (v.length :: (v ++ rest)) = (pre ++ [v.length]) ++ (v ++ rest) by simp,
    show pre.length + 1 = (pre ++ [v.length]).length by simp, List.take_append, List.drop_append]
  simp

/-! ## framing, trailer detection, serialise / parse -/

theorem suffix_split (X Y w : Bytes) (a b : Nat) (h : Y ++ w = X ++ [a, b]) (hw : 2 ≤ w.length) :
    ∃ Z, w = Z ++ [a, b] := by
  rcases List.append_eq_append_iff.mp h with ⟨a', -, h2⟩ | ⟨c', -, h2⟩
  · exact ⟨a', h2⟩
  · have hl := congrArg List.length h2
    simp at hl
    have : c' = [] := List.eq_nil_of_length_eq_zero (by omega)
    subst this
    exact ⟨[], by simpa using h2.symm⟩

/-- a len-value field holding well-formed UTF-8 does not end in the CSBK trailer -/
theorem lv_not_csbk (v Y X : Bytes) (hv : validUtf8 v = true) :
    Y ++ (v.length :: v) ≠ X ++ [16, 128] := by
  intro h
  cases v with
  | nil =>
    have := congrArg List.getLast? h
    simp at this
  | cons x xs =>
    obtain ⟨Z, hZ⟩ := suffix_split X Y _ 16 128 h (by simp)
    cases Z with
    | nil =>
      simp at hZ
      obtain ⟨h1, h2, h3⟩ := hZ
      subst h3
      simp at h1
    | cons z Z' =>
      simp only [List.cons_append, List.cons.injEq] at hZ
      rw [hZ.2] at hv
      exact valid_not_csbk Z' hv


def trailer (p : Msg) : Bytes := if p.csbk then Gen.Ars.csbkEnd else []

/-- shape of every successful serialisation (no hypothesis on the message) -/
theorem asBytes_shape (p : Msg) (bs : Bytes) (h : asBytes p = .ok bs) :
    ∃ hb b, headerByte p.header = .ok hb ∧ bodyBytes p = .ok b ∧
      1 + b.length + (trailer p).length < 65536 ∧
      bs = (1 + b.length + (trailer p).length) / 256 :: (1 + b.length + (trailer p).length) % 256
            :: hb :: (b ++ trailer p) := by
  unfold asBytes payload at h
  cases hh : headerByte p.header with
  | error e => rw [hh] at h; cases h
  | ok hb =>
    cases hbody : bodyBytes p with
    | error e => rw [hh, hbody] at h; cases h
    | ok b =>
      rw [hh, hbody] at h
      simp only [] at h
      rw [show (if p.csbk = true then Gen.Ars.csbkEnd else []) = trailer p from rfl] at h
      generalize trailer p = t at h ⊢
      split at h
      · cases h
      · rename_i hlen
        injection h with h
        refine ⟨hb, b, rfl, rfl, ?_, ?_⟩
        · simp at hlen; omega
        · rw [← h]; simp; omega


/-- frame lemma: a buffer with a consistent length prefix is parsed as first header + `parseRest` with
the trailer test applied to its last two octets -/
theorem fromBytes_frame (hb : Nat) (rest : Bytes) (h : FirstHeader) (hh : headerOfByte hb = .ok h)
    (n : Nat) (hn : n = 1 + rest.length) :
    fromBytes (n / 256 :: n % 256 :: hb :: rest)
      = parseRest (n / 256 :: n % 256 :: hb :: rest) h
          ((n / 256 :: n % 256 :: hb :: rest).drop n == Gen.Ars.csbkEnd) := by
  unfold fromBytes
  have hbe : be (List.take 2 (n / 256 :: n % 256 :: hb :: rest)) = n := by
    simp [be]; omega
  simp only [hbe]
  rw [if_neg (by simp; omega)]
  simp only [List.getElem?_cons_succ, List.getElem?_cons_zero, hh]
  congr 2
  unfold slice
  rw [List.take_of_length_le (by simp; omega)]


/-- body of a registration request in the property's range -/
theorem body_reg (p : Msg) (hwf : wf p = true) (ht : p.header.ptype.isReg = true) :
    ∃ r, (if p.header.more then ∃ rr b, p.rrh = some rr ∧ r = [b] ∧ rrhOfByte b = .ok rr else r = []) ∧
      validUtf8 (p.device.getD []) = true ∧ validUtf8 (p.user.getD []) = true ∧
      validUtf8 (p.password.getD []) = true ∧
      (p.device.getD []).length ≤ 255 ∧ (p.user.getD []).length ≤ 255 ∧ (p.password.getD []).length ≤ 255 ∧
      bodyBytes p = .ok (r ++ ((p.device.getD []).length :: p.device.getD [])
        ++ ((p.user.getD []).length :: p.user.getD [])
        ++ ((p.password.getD []).length :: p.password.getD [])) := by
  obtain ⟨⟨hm, ha, hp, hc, t⟩, rrh, rsh, dev, user, pw, csbk⟩ := p
  have key : (hm = false ∨ rrh.isSome = true) ∧ okId dev = true ∧ okId user = true ∧ okId pw = true := by
    cases t <;> simp [PduType.isReg] at ht <;> simpa [wf, and_assoc] using hwf
  obtain ⟨k0, k1, k2, k3⟩ := key
  obtain ⟨d1, d2, d3⟩ := lv_spec dev k1
  obtain ⟨u1, u2, u3⟩ := lv_spec user k2
  obtain ⟨w1, w2, w3⟩ := lv_spec pw k3
  cases hm with
  | false =>
    refine ⟨[], by simp, d3, u3, w3, d2, u2, w2, ?_⟩
    cases t <;> simp [PduType.isReg] at ht <;> simp [bodyBytes, d1, u1, w1]
  | true =>
    cases rrh with
    | none => simp at k0
    | some rr =>
      obtain ⟨b, hb1, hb2⟩ := rrh_roundtrip rr
      refine ⟨[b], by simp; exact hb2, d3, u3, w3, d2, u2, w2, ?_⟩
      cases t <;> simp [PduType.isReg] at ht <;> simp [bodyBytes, d1, u1, w1, hb1]


/-- three consecutive len-value fields are read back in order -/
theorem readLv3 (pre dv uv wv t : Bytes) :
    ∃ i1 i2 i3,
      readLv (pre ++ (dv.length :: (dv ++ (uv.length :: (uv ++ (wv.length :: (wv ++ t))))))) pre.length
        = .ok (i1, dv) ∧
      readLv (pre ++ (dv.length :: (dv ++ (uv.length :: (uv ++ (wv.length :: (wv ++ t))))))) i1
        = .ok (i2, uv) ∧
      readLv (pre ++ (dv.length :: (dv ++ (uv.length :: (uv ++ (wv.length :: (wv ++ t))))))) i2
        = .ok (i3, wv) := by
  refine ⟨pre.length + 1 + dv.length, pre.length + 1 + dv.length + 1 + uv.length,
    pre.length + 1 + dv.length + 1 + uv.length + 1 + wv.length, readLv_at _ _ _, ?_, ?_⟩
  · have := readLv_at (pre ++ (dv.length :: dv)) uv (wv.length :: (wv ++ t))
    simp only [List.append_assoc, List.cons_append, List.length_append, List.length_cons] at this
    rw [show pre.length + (dv.length + 1) = pre.length + 1 + dv.length by omega] at this
    exact this
  · have := readLv_at (pre ++ (dv.length :: dv) ++ (uv.length :: uv)) wv t
    simp only [List.append_assoc, List.cons_append, List.length_append, List.length_cons] at this
    rw [show pre.length + (dv.length + (uv.length + 1) + 1) = pre.length + 1 + dv.length + 1 + uv.length by omega] at this
    exact this


theorem parseRest_reg (hm ha hp hc : Bool) (ty : PduType) (ht : ty.isReg = true) (rrh : Option Rrh)
    (r : Bytes)
    (hr : if hm then ∃ rr b, rrh = some rr ∧ r = [b] ∧ rrhOfByte b = .ok rr else r = [])
    (dv uv wv : Bytes) (v1 : validUtf8 dv = true) (v2 : validUtf8 uv = true) (v3 : validUtf8 wv = true)
    (hi lo hb : Nat) (t : Bytes) (c : Bool) :
    parseRest (hi :: lo :: hb :: ((r ++ (dv.length :: dv) ++ (uv.length :: uv) ++ (wv.length :: wv)) ++ t))
        ⟨hm, ha, hp, hc, ty⟩ c
      = .ok ⟨⟨hm, ha, hp, hc, ty⟩, if hm then rrh else none, none, some dv, some uv, some wv, c⟩ := by
  obtain ⟨i1, i2, i3, r1, r2, r3⟩ := readLv3 ([hi, lo, hb] ++ r) dv uv wv t
  have hdata : hi :: lo :: hb :: ((r ++ (dv.length :: dv) ++ (uv.length :: uv) ++ (wv.length :: wv)) ++ t)
      = ([hi, lo, hb] ++ r) ++ (dv.length :: (dv ++ (uv.length :: (uv ++ (wv.length :: (wv ++ t)))))) := by
    simp
  have h3 : ∀ b, r = [b] →
      (hi :: lo :: hb :: ((r ++ (dv.length :: dv) ++ (uv.length :: uv) ++ (wv.length :: wv)) ++ t))[3]?
        = some b := by
    intro b hb; subst hb; simp
  rw [← hdata] at r1 r2 r3
  generalize hi :: lo :: hb :: ((r ++ (dv.length :: dv) ++ (uv.length :: uv) ++ (wv.length :: wv)) ++ t)
    = data at r1 r2 r3 h3 ⊢
  cases hm with
  | false =>
    simp only [Bool.false_eq_true, if_false] at hr
    subst hr
    have r1' : readLv data 3 = .ok (i1, dv) := r1
    cases ty <;> simp [PduType.isReg] at ht <;>
      simp only [parseRest, Bool.false_eq_true, if_false, r1', r2, r3, v1, v2, v3, Bool.and_self, if_true]
  | true =>
    simp only [if_true] at hr
    obtain ⟨rr, b0, h1, h2, h4⟩ := hr
    subst h1 h2
    have r1' : readLv data 4 = .ok (i1, dv) := r1
    cases ty <;> simp [PduType.isReg] at ht <;>
      simp only [parseRest, if_true, h3 b0 rfl, h4, Except.map, r1', r2, r3, v1, v2, v3, Bool.and_self]

/-- after the first header, the parser reads an in-range message's body back as its normal form -/
theorem parseRest_wf (p : Msg) (hwf : wf p = true) (b : Bytes) (hbody : bodyBytes p = .ok b)
    (hi lo hb : Nat) (t : Bytes) (c : Bool) :
    parseRest (hi :: lo :: hb :: (b ++ t)) p.header c = .ok { norm p with csbk := c } := by
  by_cases ht : p.header.ptype.isReg = true
  · obtain ⟨r, hr, v1, v2, v3, -, -, -, hb'⟩ := body_reg p hwf ht
    rw [hbody] at hb'
    injection hb' with hb'
    subst hb'
    obtain ⟨⟨hm, ha, hp, hc, ty⟩, rrh, rsh, dev, user, pw, csbk⟩ := p
    rw [parseRest_reg hm ha hp hc ty ht rrh r hr _ _ _ v1 v2 v3]
    cases ty <;> simp [PduType.isReg] at ht <;> simp [norm, normId]
  · obtain ⟨⟨hm, ha, hp, hc, ty⟩, rrh, rsh, dev, user, pw, csbk⟩ := p
    cases ty with
    | devReg => simp [PduType.isReg] at ht
    | userReg => simp [PduType.isReg] at ht
    | userDereg => simp [wf] at hwf
    | userRegResp => simp [wf] at hwf
    | query => simp [parseRest, norm]
    | devDereg => simp [parseRest, norm]
    | response =>
      cases hm with
      | false => simp [parseRest, norm]
      | true =>
        cases rsh with
        | none => simp [wf] at hwf
        | some r =>
          have hr : okRsh ha r = true := by simpa [wf] using hwf
          obtain ⟨b0, h1, h2⟩ := rsh_roundtrip ha r hr
          simp only [bodyBytes, if_true, h1] at hbody
          injection hbody with hbody
          subst hbody
          simp [parseRest, h2, norm]


/-- a message without the trailer never ends in the two trailer octets -/
theorem no_trailer (p : Msg) (hwf : wf p = true) (b : Bytes) (hbody : bodyBytes p = .ok b)
    (hb : Nat) (hh : hb % 16 = p.header.ptype.val) (hi : Nat) (X : Bytes) :
    hi :: (1 + b.length) % 256 :: hb :: b ≠ X ++ [16, 128] := by
  intro heq
  by_cases ht : p.header.ptype.isReg = true
  · obtain ⟨r, -, -, -, v3, -, -, -, hb'⟩ := body_reg p hwf ht
    rw [hbody] at hb'
    injection hb' with hb'
    subst hb'
    refine lv_not_csbk (p.password.getD []) ([hi, (1 + (r ++ ((p.device.getD []).length :: p.device.getD [])
        ++ ((p.user.getD []).length :: p.user.getD [])
        ++ ((p.password.getD []).length :: p.password.getD [])).length) % 256, hb] ++ r
        ++ ((p.device.getD []).length :: p.device.getD [])
        ++ ((p.user.getD []).length :: p.user.getD [])) X v3 ?_
    rw [← heq]
    simp
  · obtain ⟨⟨hm, ha, hp, hc, ty⟩, rrh, rsh, dev, user, pw, csbk⟩ := p
    have h0 : b = [] → False := by
      intro h; subst h
      have := congrArg List.reverse heq
      simp at this
    cases ty with
    | devReg => simp [PduType.isReg] at ht
    | userReg => simp [PduType.isReg] at ht
    | userDereg => simp [wf] at hwf
    | userRegResp => simp [wf] at hwf
    | query => exact h0 (by simpa [bodyBytes] using hbody.symm)
    | devDereg => exact h0 (by simpa [bodyBytes] using hbody.symm)
    | response =>
      cases hm with
      | false => exact h0 (by simpa [bodyBytes] using hbody.symm)
      | true =>
        cases rsh with
        | none => simp [wf] at hwf
        | some r =>
          have hr : okRsh ha r = true := by simpa [wf] using hwf
          obtain ⟨b0, h1, -⟩ := rsh_roundtrip ha r hr
          simp only [bodyBytes, if_true, h1] at hbody
          injection hbody with hbody
          subst hbody
          have := congrArg List.reverse heq
          simp at this
          have hc := response_code
          simp only at hh
          omega


theorem trailer_len (p : Msg) : (trailer p).length ≤ 2 := by
  unfold trailer; split <;> simp [csbk_val]

theorem body_len (p : Msg) (hwf : wf p = true) : ∃ b, bodyBytes p = .ok b ∧ b.length ≤ 769 := by
  by_cases ht : p.header.ptype.isReg = true
  · obtain ⟨r, hr, -, -, -, l1, l2, l3, hb⟩ := body_reg p hwf ht
    refine ⟨_, hb, ?_⟩
    have : r.length ≤ 1 := by
      split at hr
      · obtain ⟨_, _, _, h, _⟩ := hr; simp [h]
      · simp [hr]
    simp; omega
  · obtain ⟨⟨hm, ha, hp, hc, ty⟩, rrh, rsh, dev, user, pw, csbk⟩ := p
    cases ty with
    | devReg => simp [PduType.isReg] at ht
    | userReg => simp [PduType.isReg] at ht
    | userDereg => simp [wf] at hwf
    | userRegResp => simp [wf] at hwf
    | query => exact ⟨[], rfl, by simp⟩
    | devDereg => exact ⟨[], rfl, by simp⟩
    | response =>
      cases hm with
      | false => exact ⟨[], rfl, by simp⟩
      | true =>
        cases rsh with
        | none => simp [wf] at hwf
        | some r =>
          have hr : okRsh ha r = true := by simpa [wf] using hwf
          obtain ⟨b0, h1, -⟩ := rsh_roundtrip ha r hr
          exact ⟨[b0], by simp [bodyBytes, h1], by simp⟩

/-- in-range messages always serialise -/
theorem asBytes_total (p : Msg) (hwf : wf p = true) : ∃ bs, asBytes p = .ok bs := by
  obtain ⟨hb, h1, -⟩ := header_roundtrip p.header
  obtain ⟨b, h2, h3⟩ := body_len p hwf
  have h4 := trailer_len p
  unfold asBytes payload
  rw [h1, h2]
  simp only []
  rw [show (if p.csbk = true then Gen.Ars.csbkEnd else []) = trailer p from rfl, if_neg (by simp; omega)]
  exact ⟨_, rfl⟩

/-- the trailer flag is recovered exactly: no miss, no false positive -/
theorem csbk_detect (p : Msg) (hwf : wf p = true) (b : Bytes) (hbody : bodyBytes p = .ok b)
    (hb : Nat) (hh : hb % 16 = p.header.ptype.val) (n : Nat) (hn : n = 1 + b.length + (trailer p).length) :
    ((n / 256 :: n % 256 :: hb :: (b ++ trailer p)).drop n == Gen.Ars.csbkEnd) = p.csbk := by
  cases hc : p.csbk with
  | true =>
    have ht : trailer p = Gen.Ars.csbkEnd := by simp [trailer, hc]
    rw [ht] at hn ⊢
    have : n / 256 :: n % 256 :: hb :: (b ++ Gen.Ars.csbkEnd) = ([n / 256, n % 256, hb] ++ b) ++ Gen.Ars.csbkEnd := by
      simp
    rw [this, List.drop_append, List.drop_eq_nil_of_le (by simp [csbk_val] at hn ⊢; omega)]
    have : n - ([n / 256, n % 256, hb] ++ b).length = 0 := by simp [csbk_val] at hn ⊢; omega
    rw [this]
    simp
  | false =>
    have ht : trailer p = [] := by simp [trailer, hc]
    rw [ht] at hn ⊢
    simp only [List.length_nil, Nat.add_zero] at hn
    rw [List.append_nil]
    cases hd : ((n / 256 :: n % 256 :: hb :: b).drop n == Gen.Ars.csbkEnd) with
    | false => rfl
    | true =>
      exfalso
      rw [beq_iff_eq, csbk_val] at hd
      have := List.take_append_drop n (n / 256 :: n % 256 :: hb :: b)
      rw [hd, hn] at this
      exact no_trailer p hwf b hbody hb hh _ _ this.symm

/-- decode ∘ encode = norm -/
theorem dec_enc (p : Msg) (hwf : wf p = true) (bs : Bytes) (h : asBytes p = .ok bs) :
    fromBytes bs = .ok (norm p) := by
  obtain ⟨hb, b, hh, hbody, h16, rfl⟩ := asBytes_shape p bs h
  obtain ⟨hb', h1, h2, -, h4⟩ := header_roundtrip p.header
  rw [hh] at h1
  injection h1 with h1
  subst h1
  rw [fromBytes_frame _ _ _ h2 _ (by simp; omega),
    csbk_detect p hwf b hbody hb h4 _ rfl, parseRest_wf p hwf b hbody]
  obtain ⟨⟨hm, ha, hp, hc, ty⟩, rrh, rsh, dev, user, pw, csbk⟩ := p
  cases ty <;> rfl


theorem lv_normId (x : Option Bytes) : lv (normId x) = lv x := by
  cases x with
  | none => rfl
  | some d => rfl

theorem normId_idem (x : Option Bytes) : normId (normId x) = normId x := rfl

theorem normRsh_idem (ack : Bool) (r : Rsh) : normRsh ack (normRsh ack r) = normRsh ack r := by
  obtain ⟨f, rt, c⟩ := r
  cases ack <;> cases f <;> cases rt <;> simp [normRsh]

theorem rshBytes_normRsh (ack : Bool) (r : Rsh) (h : okRsh ack r = true) :
    rshBytes (normRsh ack r) = rshBytes r := by
  obtain ⟨f, rt, c⟩ := r
  simp only [okRsh, Bool.and_eq_true, beq_iff_eq] at h
  obtain ⟨hc, h⟩ := h
  subst hc
  cases ack with
  | true =>
    cases f with
    | none => simp at h
    | some f => simp [normRsh, rshBytes]
  | false =>
    cases rt with
    | none => simp at h
    | some rt => cases f <;> simp [normRsh, rshBytes]

theorem norm_idem (p : Msg) : norm (norm p) = norm p := by
  obtain ⟨⟨hm, ha, hp, hc, ty⟩, rrh, rsh, dev, user, pw, csbk⟩ := p
  cases ty <;> cases hm <;> simp [norm, normId_idem]
  cases rsh <;> simp [normRsh_idem]

/-- encode ∘ norm = encode: the normal form serialises to the same octets -/
theorem reencode (p : Msg) (hwf : wf p = true) : asBytes (norm p) = asBytes p := by
  obtain ⟨⟨hm, ha, hp, hc, ty⟩, rrh, rsh, dev, user, pw, csbk⟩ := p
  cases ty with
  | devReg => cases hm <;> simp [asBytes, payload, bodyBytes, norm, lv_normId]
  | userReg => cases hm <;> simp [asBytes, payload, bodyBytes, norm, lv_normId]
  | userDereg => simp [wf] at hwf
  | userRegResp => simp [wf] at hwf
  | query => rfl
  | devDereg => rfl
  | response =>
    cases hm with
    | false => rfl
    | true =>
      cases rsh with
      | none => simp [wf] at hwf
      | some r =>
        have hr : okRsh ha r = true := by simpa [wf] using hwf
        simp [asBytes, payload, bodyBytes, norm, rshBytes_normRsh ha r hr]


theorem okId_normId (x : Option Bytes) (h : okId x = true) : okId (normId x) = true := by
  cases x with
  | none => rfl
  | some d => exact h

theorem okRsh_normRsh (ack : Bool) (r : Rsh) (h : okRsh ack r = true) : okRsh ack (normRsh ack r) = true := by
  obtain ⟨f, rt, c⟩ := r
  simp only [okRsh, Bool.and_eq_true, beq_iff_eq] at h
  obtain ⟨hc, h⟩ := h
  subst hc
  cases ack with
  | true =>
    cases f with
    | none => simp at h
    | some f => simp [normRsh, okRsh]
  | false =>
    cases rt with
    | none => simp at h
    | some rt => simpa [normRsh, okRsh] using h

/-- the normal form is again in the property's range -/
theorem wf_norm (p : Msg) (hwf : wf p = true) : wf (norm p) = true := by
  obtain ⟨⟨hm, ha, hp, hc, ty⟩, rrh, rsh, dev, user, pw, csbk⟩ := p
  cases ty with
  | devReg =>
    simp only [wf, Bool.and_eq_true] at hwf
    obtain ⟨⟨⟨h0, h1⟩, h2⟩, h3⟩ := hwf
    cases hm <;> simp_all [wf, norm, okId_normId]
  | userReg =>
    simp only [wf, Bool.and_eq_true] at hwf
    obtain ⟨⟨⟨h0, h1⟩, h2⟩, h3⟩ := hwf
    cases hm <;> simp_all [wf, norm, okId_normId]
  | userDereg => simp [wf] at hwf
  | userRegResp => simp [wf] at hwf
  | query => rfl
  | devDereg => rfl
  | response =>
    cases hm with
    | false => rfl
    | true =>
      cases rsh with
      | none => simp [wf] at hwf
      | some r =>
        have hr : okRsh ha r = true := by simpa [wf] using hwf
        simp [wf, norm, okRsh_normRsh ha r hr]

/-! ## special tokens inside identifiers (hardening: "text with special leading characters")

Identifiers are opaque octet strings for the model, so `dec_enc` already says that a leading byte-order
mark, CR LF, NUL … comes back unchanged.  What is left to show is that putting such a token in front of,
inside or behind a value does not leave the property's range: well-formed UTF-8 is closed under
concatenation, and the tokens of the harness' dictionary are well-formed. -/

theorem validUtf8_append (a b : Bytes) (ha : validUtf8 a = true) (hb : validUtf8 b = true) :
    validUtf8 (a ++ b) = true := by
  fun_induction validUtf8 a with
  | case1 => simpa using hb
  | case2 b0 rest hlt ih =>
    have := ih ha
    rw [List.cons_append, validUtf8.eq_def]
    simp [hlt, this]
  | case3 b0 h1 h2 b1 r ih =>
    simp only [Bool.and_eq_true] at ha
    have := ih ha.2
    simp [validUtf8, h1, h2, this, ha.1]
  | case4 => simp at ha
  | case5 b0 h1 h2 h3 b1 b2 r ih =>
    simp only [Bool.and_eq_true] at ha
    have := ih ha.2
    have h4 := ha.1
    rw [List.cons_append, List.cons_append, List.cons_append, validUtf8.eq_def]
    simp [h1, h2, h3, this, h4.1, h4.2]
  | case6 => simp at ha
  | case7 b0 h1 h2 h3 h4 b1 b2 b3 r ih =>
    simp only [Bool.and_eq_true] at ha
    have := ih ha.2
    obtain ⟨⟨⟨g1, g2⟩, g3⟩, -⟩ := ha
    simp [validUtf8, h1, h2, h3, h4, this, g1, g2, g3]
  | case8 => simp at ha
  | case9 => simp at ha

/-- a token at the start (`pre = []`), in the middle or at the end (`post = []`) of a value, once or
doubled (`tok = t ++ t`), keeps an identifier in range as long as the 255-octet limit holds -/
theorem okId_decorate (pre tok post : Bytes) (h1 : validUtf8 pre = true) (h2 : validUtf8 tok = true)
    (h3 : validUtf8 post = true) (hl : pre.length + tok.length + post.length ≤ 255) :
    okId (some (pre ++ tok ++ post)) = true := by
  simp only [okId, Bool.and_eq_true, decide_eq_true_eq]
  exact ⟨by simp; omega, validUtf8_append _ _ (validUtf8_append _ _ h1 h2) h3⟩

/-- UTF-8 octets of tokens of the harness' dictionary: U+FEFF, U+FFFE, U+FFFF, U+FFFD, CR LF, LF CR, NUL,
NEL, U+2028, U+200B, combining acute, U+8010, DLE + U+0080 (the CSBK trailer as characters), U+10000,
U+10FFFF, U+D7FF, U+E000 -/
def specialTokens : List Bytes :=
  [[0xEF, 0xBB, 0xBF], [0xEF, 0xBF, 0xBE], [0xEF, 0xBF, 0xBF], [0xEF, 0xBF, 0xBD], [0x0D, 0x0A], [0x0A, 0x0D],
   [0x00], [0xC2, 0x85], [0xE2, 0x80, 0xA8], [0xE2, 0x80, 0x8B], [0xCC, 0x81], [0xE8, 0x80, 0x90],
   [0x10, 0xC2, 0x80], [0xF0, 0x90, 0x80, 0x80], [0xF4, 0x8F, 0xBF, 0xBF], [0xED, 0x9F, 0xBF], [0xEE, 0x80, 0x80]]

theorem specialTokens_valid : specialTokens.all validUtf8 = true := by decide

/-- lone surrogates (CESU-8 style `ED A0 80` … `ED BF BF`), overlong forms and values above U+10FFFF are
not UTF-8: `from_bytes` raises UnicodeDecodeError for them, and `str.encode` never produces them -/
theorem illFormed_invalid :
    ([[0xED, 0xA0, 0x80], [0xED, 0xBF, 0xBF], [0xC0, 0x80], [0xE0, 0x80, 0x80], [0xF4, 0x90, 0x80, 0x80],
      [0xF8, 0x88, 0x80, 0x80], [0xFE], [0xFF], [0x80], [0xC2], [0x10, 0x80]] : List Bytes).all
      (fun b => !validUtf8 b) = true := by decide

/-! ## the trailer octets across an item boundary (hardening: "a protocol constant straddling two items")

`valid_not_csbk` says that a len-value field never ENDS in `10 80`.  The octets can still occur inside a
serialised registration request: formed by the last octet of one item and the first octet of the next
(an identifier ending in U+0010 followed by a field of exactly 128 octets).  `hasPair a b bs` says that
`a b` occur as neighbours somewhere in `bs`; `reg_front_pairs` lists, for every ASCII octet `a` and every
continuation octet `b`, the only places where the pair can be in the part of a registration request in
front of the trailer — always across an item boundary, never inside a field — and
`reg_trailer_sites` / `other_trailer_sites` specialise this to `10 80`: four places in registration
requests, none in the other PDU types.  `dec_enc` holds there like everywhere else (`Props/C16.lean`
states the instance). -/

/-- the octets `a b` occur somewhere in `bs` as neighbours -/
def hasPair (a b : Nat) : Bytes → Bool
  | x :: y :: r => (x == a && y == b) || hasPair a b (y :: r)
  | _ => false

theorem hasPair_cons (a b x : Nat) (Y : Bytes) :
    hasPair a b (x :: Y) = ((x == a && Y.head? == some b) || hasPair a b Y) := by
  cases Y with
  | nil => simp [hasPair]
  | cons y r => simp [hasPair]

theorem hasPair_append (a b : Nat) (X Y : Bytes) :
    hasPair a b (X ++ Y)
      = (hasPair a b X || (X.getLast? == some a && Y.head? == some b) || hasPair a b Y) := by
  induction X with
  | nil => simp [hasPair]
  | cons x xs ih =>
    rw [List.cons_append, hasPair_cons, hasPair_cons, ih]
    cases xs with
    | nil => simp [hasPair]
    | cons z zs => simp [List.getLast?_cons_cons, Bool.or_assoc]

/-- a continuation octet never follows an ASCII octet inside well-formed UTF-8 -/
theorem pairs_noPair (a b : Nat) (ha : a < 0x80) (hb : isCont b = true) (v : Bytes) :
    ∀ prev, pairsOk prev v = true → hasPair a b v = false := by
  induction v with
  | nil => intro _ _; rfl
  | cons x xs ih =>
    intro prev h
    rw [hasPair_cons]
    simp only [pairsOk, Bool.and_eq_true] at h
    rw [ih x h.2, Bool.or_false]
    cases xs with
    | nil => simp
    | cons y r =>
      simp only [pairsOk, Bool.and_eq_true] at h
      have h1 := h.2.1
      simp only [List.head?_cons]
      by_cases hx : x = a
      · by_cases hy : y = b
        · subst hx hy
          simp [hb] at h1
          omega
        · simp [hy]
      · simp [hx]

theorem valid_noPair (a b : Nat) (ha : a < 0x80) (hb : isCont b = true) (v : Bytes)
    (hv : validUtf8 v = true) : hasPair a b v = false :=
  pairs_noPair a b ha hb v 0 (valid_pairs v hv 0)

/-- well-formed UTF-8 does not start with a continuation octet -/
theorem valid_head (b : Nat) (hb : isCont b = true) (v : Bytes) (hv : validUtf8 v = true) :
    (v.head? == some b) = false := by
  cases v with
  | nil => rfl
  | cons x xs =>
    simp only [List.head?_cons]
    by_cases hx : x = b
    · subst hx
      have := isCont_ge hb
      have h2 : x ≤ 0xBF := by simp [isCont] at hb; omega
      have : validUtf8 (x :: xs) = false := by
        rw [validUtf8.eq_def]
        simp only []
        rw [if_neg (by omega), if_neg (by omega), if_neg (by omega), if_neg (by omega)]
      rw [this] at hv
      cases hv
    · simp [hx]

/-- the last octet of the len-value item of `v`: the last octet of `v`, or the length octet 0 -/
def lastOf (v : Bytes) : Nat := v.getLast?.getD 0

theorem lv_getLast (v : Bytes) : (v.length :: v).getLast? = some (lastOf v) := by
  cases v with
  | nil => rfl
  | cons x xs =>
    simp only [lastOf, List.length_cons]
    cases xs with
    | nil => rfl
    | cons y ys =>
      rw [List.getLast?_cons_cons]
      cases h : (y :: ys).getLast? with
      | none => simp at h
      | some z => rfl

/-- inside one len-value item holding well-formed UTF-8 an ASCII octet is never followed by a
continuation octet -/
theorem lv_noPair (a b : Nat) (ha : a < 0x80) (hb : isCont b = true) (v : Bytes)
    (hv : validUtf8 v = true) : hasPair a b (v.length :: v) = false := by
  rw [hasPair_cons, valid_noPair a b ha hb v hv, valid_head b hb v hv]
  simp


theorem reg_front_pairs (a b : Nat) (ha : a < 0x80) (hb : isCont b = true) (r d u w : Bytes)
    (hi lo hbyte : Nat) (hr : r.length ≤ 1) (vd : validUtf8 d = true) (vu : validUtf8 u = true)
    (vw : validUtf8 w = true) :
    hasPair a b (hi :: lo :: hbyte :: (r ++ (d.length :: d) ++ (u.length :: u) ++ (w.length :: w)))
      = ((hi == a && lo == b) || (lo == a && hbyte == b)
          || (hbyte == a && (r ++ [d.length]).head? == some b)
          || (r.getLast? == some a && d.length == b)
          || (lastOf d == a && u.length == b) || (lastOf u == a && w.length == b)) := by
  have nd := lv_noPair a b ha hb d vd
  have nu := lv_noPair a b ha hb u vu
  have nw := lv_noPair a b ha hb w vw
  have ld := lv_getLast d
  have lu := lv_getLast u
  match r, hr with
  | [], _ =>
    simp only [List.nil_append]
    rw [hasPair_cons, hasPair_cons, hasPair_cons, hasPair_append, hasPair_append, nd, nu, nw,
      List.getLast?_append, lu, ld]
    simp [Bool.or_assoc]
  | [rb], _ =>
    rw [hasPair_cons, hasPair_cons, hasPair_cons, hasPair_append, hasPair_append, hasPair_append, nd, nu, nw,
      List.getLast?_append, List.getLast?_append, lu, ld]
    simp [Bool.or_assoc, hasPair]


theorem lastOf_eq (v : Bytes) (a : Nat) (ha : a ≠ 0) : (lastOf v == a) = (v.getLast? == some a) := by
  unfold lastOf
  cases v.getLast? with
  | none => simp; omega
  | some x => simp

theorem rrh_not_dle : ∀ rr, rrhOfByte 16 ≠ .ok rr := by
  intro rr h
  have : rrhOfByte 16 = .error .value := by rfl
  rw [this] at h
  cases h

/-- where the octets `10 80` can occur in a serialised registration request, the trailer set aside -/
theorem reg_trailer_sites (p : Msg) (hwf : wf p = true) (ht : p.header.ptype.isReg = true) (bs : Bytes)
    (h : asBytes p = .ok bs) :
    ∃ hb front, headerByte p.header = .ok hb ∧ bs = front ++ trailer p ∧
      (hasPair 16 128 front = true ↔
        ((bs.length - 2) % 256 = 16 ∧ hb = 128) ∨
        (hb = 16 ∧ (p.device.getD []).length = 128) ∨
        ((p.device.getD []).getLast? = some 16 ∧ (p.user.getD []).length = 128) ∨
        ((p.user.getD []).getLast? = some 16 ∧ (p.password.getD []).length = 128)) := by
  obtain ⟨hb, b, hh, hbody, h16, rfl⟩ := asBytes_shape p bs h
  obtain ⟨r, hr, v1, v2, v3, l1, l2, l3, hb'⟩ := body_reg p hwf ht
  rw [hbody] at hb'
  injection hb' with hb'
  subst hb'
  have tl := trailer_len p
  generalize trailer p = t at *
  generalize hd : p.device.getD [] = d at *
  generalize hu : p.user.getD [] = u at *
  generalize hw : p.password.getD [] = w at *
  have hrl : r.length ≤ 1 := by
    split at hr
    · obtain ⟨_, _, _, h, _⟩ := hr; simp [h]
    · simp [hr]
  have hn : 1 + (r ++ d.length :: d ++ u.length :: u ++ w.length :: w).length + t.length
      = r.length + d.length + u.length + w.length + t.length + 4 := by
    simp only [List.length_append, List.length_cons]; omega
  rw [hn] at h16 ⊢
  clear hn h hbody
  generalize hnn : r.length + d.length + u.length + w.length + t.length + 4 = n at *
  refine ⟨hb, n / 256 :: n % 256 :: hb :: (r ++ (d.length :: d) ++ (u.length :: u) ++ (w.length :: w)), hh,
    by simp, ?_⟩
  have hlen : (n / 256 :: n % 256 :: hb :: (r ++ d.length :: d ++ u.length :: u ++ w.length :: w ++ t)).length - 2
      = n := by
    simp only [List.length_append, List.length_cons]; omega
  rw [hlen]
  rw [reg_front_pairs 16 128 (by omega) (by decide) r d u w _ _ hb hrl v1 v2 v3,
    lastOf_eq d 16 (by omega), lastOf_eq u 16 (by omega)]
  -- the header octet
  have hbv : hb = 128 * p.header.more.toNat + 64 * p.header.ack.toNat + 32 * p.header.priority.toNat
      + 16 * p.header.ctl.toNat + p.header.ptype.val := by
    unfold headerByte at hh
    split at hh
    · cases hh
    · injection hh with hh; exact hh.symm
  cases hm : p.header.more with
  | false =>
    rw [hm] at hr
    simp only [Bool.false_eq_true, if_false] at hr
    subst hr
    simp only [List.length_nil] at hnn
    have key : ¬(n / 256 = 16 ∧ n % 256 = 128) := by omega
    simp [key, or_assoc]
  | true =>
    rw [hm] at hr
    simp only [if_true] at hr
    obtain ⟨rr, rb, -, hrb, hdec⟩ := hr
    subst hrb
    have hne : rb ≠ 16 := by
      intro he; subst he; exact rrh_not_dle rr hdec
    have hge : hb ≥ 128 := by rw [hbv, hm]; simp; omega
    simp only [List.length_cons, List.length_nil] at hnn
    have key : ¬(n / 256 = 16 ∧ n % 256 = 128) := by omega
    have k2 : hb ≠ 16 := by omega
    simp [hne, key, k2, or_assoc]


/-- the other PDU types (query, de-registration, acknowledgement): `10 80` occurs nowhere but in the trailer -/
theorem other_trailer_sites (p : Msg) (hwf : wf p = true) (ht : p.header.ptype.isReg = false) (bs : Bytes)
    (h : asBytes p = .ok bs) : ∃ front, bs = front ++ trailer p ∧ hasPair 16 128 front = false := by
  obtain ⟨hb, b, hh, hbody, h16, rfl⟩ := asBytes_shape p bs h
  have tl := trailer_len p
  generalize trailer p = t at *
  refine ⟨(1 + b.length + t.length) / 256 :: (1 + b.length + t.length) % 256 :: hb :: b, by simp, ?_⟩
  obtain ⟨hb', h1, -, -, h4⟩ := header_roundtrip p.header
  rw [hh] at h1
  injection h1 with h1
  subst h1
  obtain ⟨⟨hm, ha, hp, hc, ty⟩, rrh, rsh, dev, user, pw, csbk⟩ := p
  have h0 : b = [] → hasPair 16 128 ((1 + b.length + t.length) / 256 :: (1 + b.length + t.length) % 256 :: hb :: b) = false := by
    intro hb0; subst hb0
    simp [hasPair]
    omega
  cases ty with
  | devReg => simp [PduType.isReg] at ht
  | userReg => simp [PduType.isReg] at ht
  | userDereg => simp [wf] at hwf
  | userRegResp => simp [wf] at hwf
  | query => exact h0 (by simpa [bodyBytes] using hbody.symm)
  | devDereg => exact h0 (by simpa [bodyBytes] using hbody.symm)
  | response =>
    cases hm with
    | false => exact h0 (by simpa [bodyBytes] using hbody.symm)
    | true =>
      cases rsh with
      | none => simp [wf] at hwf
      | some r =>
        have hr : okRsh ha r = true := by simpa [wf] using hwf
        obtain ⟨b0, h1, -⟩ := rsh_roundtrip ha r hr
        simp only [bodyBytes, if_true, h1] at hbody
        injection hbody with hbody
        subst hbody
        have hc := response_code
        simp only at h4
        simp [hasPair]
        omega

/-- executable check used by the kernel-checked instances: serialise, find `10 80` in front of the trailer,
parse back, compare with the normal form, re-serialise -/
def straddleChk (p : Msg) : Bool :=
  match asBytes p with
  | .error _ => false
  | .ok bs =>
    wf p && hasPair 16 128 (bs.take (bs.length - (trailer p).length)) &&
    (match fromBytes bs with
     | .error _ => false
     | .ok q => q == norm p && q.csbk == p.csbk && (asBytes q).toOption == some bs)

end Dmr.Ars
