import DmrVerif.Lemmas.RsPoly

/-!
C11 helpers, part 6: the parity map message ↦ parity octets, described by divisibility.

* the parity octets of `d` are `t`  ⇔  g divides the polynomial of `d ++ t`  (`parityBytes_eq_iff`);
* the *kernel* of the parity map: the parity is `00 00 00`  ⇔  the message polynomial itself is a
  multiple of g, i.e. the message octets are the coefficients of q(x)·g(x)  (`zero_parity_iff`);
  for these messages the generated word is the message followed by the bare mask, and these are the
  only words with a bare-mask FEC field that the checker accepts (`check_bare_mask_iff`).

Random testing reaches these 256⁶ of 256⁹ messages with probability 2⁻²⁴; the harness constructs them
(`algebraic_msgs` in `harness/props/c11.py`), the statements here say what must come out, for all of them.
-/

open Polynomial

namespace Dmr.Rs
open Dmr Dmr.Gen GF

theorem xorBytes_zero_right3 (p : Bytes) (hp : p.length = 3) : xorBytes p [0, 0, 0] = p := by
  match p, hp with
  | [a, b, c], _ => simp [xorBytes]

theorem xorBytes_zero_left3 (m : Bytes) (hm : m.length = 3) : xorBytes [0, 0, 0] m = m := by
  match m, hm with
  | [a, b, c], _ => simp [xorBytes]

theorem xorBytes_self3 (m : Bytes) (hm : m.length = 3) : xorBytes m m = [0, 0, 0] := by
  match m, hm with
  | [a, b, c], _ => simp [xorBytes]

/-- the three parity octets are the unique `t` that makes `d ++ t` a multiple of g -/
theorem parityBytes_eq_iff (d t : Bytes) (hd : d.length = 9) (ht : t.length = 3)
    (bd : isBytes d = true) (bt : isBytes t = true) :
    parityBytes d = t ↔ genPoly ∣ wordPoly (d ++ t) := by
  have hw : (d ++ t).length = 12 := by simp [hd, ht]
  have bw : isBytes (d ++ t) = true := by rw [isBytes_append, bd, bt]; rfl
  have hu : unmask [0, 0, 0] (d ++ t) = d ++ t := by
    unfold unmask
    rw [List.take_left' hd, List.drop_left' hd, xorBytes_zero_right3 t ht]
  have h1 := check_iff_syndromes (d ++ t) [0, 0, 0] hw rfl bw (by decide)
  rw [hu, syndromesZero_iff_dvd _ bw] at h1
  rw [← h1, check_eq _ _ hw]
  simp only [Option.some.injEq, decide_eq_true_eq]
  rw [List.take_left' hd]
  unfold encode
  rw [xorBytes_zero_right3 _ (parityBytes_length d)]
  exact ⟨fun h => by rw [h], fun h => List.append_cancel_left h⟩

theorem ofNat_zero : ofNat 0 = (0 : GF) := (ofNat_eq_zero (by omega)).mpr rfl

/-- appending three zero octets multiplies the polynomial by X³ -/
theorem wordPoly_append_zero3 (d : Bytes) : wordPoly (d ++ [0, 0, 0]) = wordPoly d * X ^ 3 := by
  unfold wordPoly
  rw [List.map_append, List.foldl_append]
  simp only [List.map_cons, List.map_nil, List.foldl_cons, List.foldl_nil, ofNat_zero, C_0, add_zero]
  ring

/-- X is prime to g (no root of g is zero) -/
theorem genPoly_dvd_mul_X3 (p : GF[X]) : genPoly ∣ p * X ^ 3 ↔ genPoly ∣ p := by
  rw [genPoly_dvd_iff, genPoly_dvd_iff]
  constructor
  · intro h j h1 h3
    have := h j h1 h3
    simp only [eval_mul, eval_pow, eval_X] at this
    exact (mul_eq_zero.mp this).resolve_right (pow_ne_zero _ (alpha_pow_ne_zero j))
  · intro h j h1 h3
    simp only [eval_mul, eval_pow, eval_X, h j h1 h3, zero_mul]

/-- kernel of the parity map: zero parity ⇔ the message polynomial is a multiple of g -/
theorem zero_parity_iff (d : Bytes) (hd : d.length = 9) (bd : isBytes d = true) :
    parityBytes d = [0, 0, 0] ↔ genPoly ∣ wordPoly d := by
  rw [parityBytes_eq_iff d [0, 0, 0] hd rfl bd (by decide), wordPoly_append_zero3, genPoly_dvd_mul_X3]

/-- the generated word ends in the bare mask ⇔ the parity is zero -/
theorem encode_bare_mask_iff (d mask : Bytes) (hm : mask.length = 3) :
    encode d mask = d ++ mask ↔ parityBytes d = [0, 0, 0] := by
  unfold encode
  constructor
  · intro h
    have h2 := List.append_cancel_left h
    have h3 := xorBytes_cancel (parityBytes d) mask (by simp [parityBytes_length, hm])
    rw [h2, xorBytes_self3 mask hm] at h3
    exact h3.symm
  · intro h
    rw [h, xorBytes_zero_left3 mask hm]

end Dmr.Rs
