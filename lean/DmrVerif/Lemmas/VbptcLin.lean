import DmrVerif.Lemmas.Codes
import DmrVerif.Model.Vbptc

/-!
XOR-homomorphisms over `Bits` and the linearity of the variable-length BPTC encoders.

`Lin f` says that `f` maps equally long inputs to equally long outputs and commutes with `xorBits`
on them; no widths are mentioned, so the predicate is closed under composition without side
conditions.  `lin_ext`: two such maps that agree on the zero word and on the `n` unit words agree on
every word of length `n`.  Every step of `VCode.encCore` (loops of single-bit assignments, gathers,
Hamming generation, column parity) is `Lin`, jointly in the data bits and the odd-parity flag, so the
statements of C09 about all messages reduce to the 78 / 37 / 12 basis words (`Facts`, `facts_of_basis`).
Core Lean only.
-/

namespace Dmr.Vbptc
open Dmr

/-- XOR-homomorphism (on equally long arguments) -/
def Lin (f : Bits → Bits) : Prop :=
  ∀ a b : Bits, a.length = b.length →
    (f a).length = (f b).length ∧ f (xorBits a b) = xorBits (f a) (f b)

/-- GF(2)-linear functional -/
def LinB (v : Bits → Bool) : Prop :=
  ∀ a b : Bits, a.length = b.length → v (xorBits a b) = Bool.xor (v a) (v b)

theorem set_xor (a b : Bits) (i : Nat) (u v : Bool) :
    (xorBits a b).set i (Bool.xor u v) = xorBits (a.set i u) (b.set i v) := by
  induction a generalizing b i with
  | nil => simp
  | cons x xs ih => cases b with
    | nil => simp
    | cons y ys => cases i with
      | zero => simp
      | succ i => simp [ih]

theorem foldl_xor_xor (a b : Bits) (p q : Bool) (h : a.length = b.length) :
    (xorBits a b).foldl Bool.xor (Bool.xor p q)
      = Bool.xor (a.foldl Bool.xor p) (b.foldl Bool.xor q) := by
  induction a generalizing b p q with
  | nil => cases b with
    | nil => simp
    | cons _ _ => simp at h
  | cons x xs ih => cases b with
    | nil => simp at h
    | cons y ys =>
      simp only [List.length_cons, Nat.add_right_cancel_iff] at h
      simp only [xorBits_cons_cons, List.foldl_cons]
      have : Bool.xor (Bool.xor p q) (Bool.xor x y) = Bool.xor (Bool.xor p x) (Bool.xor q y) := by
        cases p <;> cases q <;> cases x <;> cases y <;> rfl
      rw [this, ih ys _ _ h]

theorem putLoop_length (pairs : List (Nat × Nat)) (src out : Bits) :
    (putLoop pairs src out).length = out.length := by
  induction pairs generalizing out with
  | nil => simp [putLoop]
  | cons p ps ih =>
    have := ih (out.set p.1 (getBit src p.2))
    simp only [putLoop] at this
    simp [putLoop, this]

namespace LinB

theorem getBit (i : Nat) {f : Bits → Bits} (hf : Lin f) : LinB (fun x => Dmr.getBit (f x) i) :=
  fun a b h => by
    obtain ⟨hl, hx⟩ := hf a b h
    show Dmr.getBit (f (xorBits a b)) i = _
    rw [hx, getBit_xorBits _ _ _ hl]

theorem const_false : LinB (fun _ => false) := fun _ _ _ => rfl

theorem xor {u v : Bits → Bool} (hu : LinB u) (hv : LinB v) : LinB (fun x => Bool.xor (u x) (v x)) :=
  fun a b h => by
    show Bool.xor (u (xorBits a b)) (v (xorBits a b))
      = Bool.xor (Bool.xor (u a) (v a)) (Bool.xor (u b) (v b))
    rw [hu a b h, hv a b h]
    generalize u a = p, u b = q, v a = r, v b = s
    cases p <;> cases q <;> cases r <;> cases s <;> rfl

theorem xorAll {f : Bits → Bits} (hf : Lin f) : LinB (fun x => Vbptc.xorAll (f x)) :=
  fun a b h => by
    obtain ⟨hl, hx⟩ := hf a b h
    show Vbptc.xorAll (f (xorBits a b)) = _
    rw [hx]
    exact foldl_xor_xor (f a) (f b) false false hl

end LinB

namespace Lin

theorem id : Lin (fun x => x) := fun _ _ h => ⟨h, rfl⟩

theorem const (n : Nat) : Lin (fun _ => zeros n) :=
  fun _ _ _ => ⟨rfl, by rw [xorBits_self, zeros_length]⟩

theorem comp {f g : Bits → Bits} (hg : Lin g) (hf : Lin f) : Lin (fun x => g (f x)) :=
  fun a b h => by
    obtain ⟨hl, hx⟩ := hf a b h
    obtain ⟨hl', hx'⟩ := hg (f a) (f b) hl
    exact ⟨hl', by show g (f (xorBits a b)) = _; rw [hx, hx']⟩

theorem append {f g : Bits → Bits} (hf : Lin f) (hg : Lin g) : Lin (fun x => f x ++ g x) :=
  fun a b h => by
    obtain ⟨hl, hx⟩ := hf a b h
    obtain ⟨hl', hx'⟩ := hg a b h
    refine ⟨by simp [hl, hl'], ?_⟩
    show f (xorBits a b) ++ g (xorBits a b) = _
    rw [hx, hx', xorBits_append _ _ _ _ hl]

theorem take (k : Nat) {f : Bits → Bits} (hf : Lin f) : Lin (fun x => (f x).take k) :=
  fun a b h => by
    obtain ⟨hl, hx⟩ := hf a b h
    refine ⟨by simp [hl], ?_⟩
    show (f (xorBits a b)).take k = _
    rw [hx]; simp [xorBits, List.take_zipWith]

theorem drop (k : Nat) {f : Bits → Bits} (hf : Lin f) : Lin (fun x => (f x).drop k) :=
  fun a b h => by
    obtain ⟨hl, hx⟩ := hf a b h
    refine ⟨by simp [hl], ?_⟩
    show (f (xorBits a b)).drop k = _
    rw [hx]; simp [xorBits, List.drop_zipWith]

theorem gather (tbl : List Nat) {f : Bits → Bits} (hf : Lin f) :
    Lin (fun x => Dmr.gather tbl (f x)) :=
  fun a b h => by
    obtain ⟨hl, hx⟩ := hf a b h
    refine ⟨by simp, ?_⟩
    show Dmr.gather tbl (f (xorBits a b)) = _
    rw [hx, gather_xor _ _ _ hl]

theorem gen (C : Code) {f : Bits → Bits} (hf : Lin f) : Lin (fun x => C.gen (f x)) :=
  fun a b h => by
    obtain ⟨hl, hx⟩ := hf a b h
    refine ⟨by simp [Code.gen_length], ?_⟩
    show C.gen (f (xorBits a b)) = _
    rw [hx, Code.gen_xor _ _ hl]

theorem set (i : Nat) {f : Bits → Bits} {v : Bits → Bool} (hf : Lin f) (hv : LinB v) :
    Lin (fun x => (f x).set i (v x)) :=
  fun a b h => by
    obtain ⟨hl, hx⟩ := hf a b h
    refine ⟨by simp [hl], ?_⟩
    show (f (xorBits a b)).set i (v (xorBits a b)) = _
    rw [hx, hv a b h, set_xor]

theorem singleton {v : Bits → Bool} (hv : LinB v) : Lin (fun x => [v x]) :=
  fun a b h => ⟨rfl, by show [v (xorBits a b)] = _; rw [hv a b h]; simp⟩

/-- a branch on the length of a `Lin` value -/
theorem ite_len (P : Nat → Prop) [DecidablePred P] {c f g : Bits → Bits}
    (hc : Lin c) (hf : Lin f) (hg : Lin g) :
    Lin (fun x => if P (c x).length then f x else g x) :=
  fun a b h => by
    obtain ⟨hl, hx⟩ := hc a b h
    have hlab : (c (xorBits a b)).length = (c a).length := by rw [hx]; simp [hl]
    by_cases hp : P (c a).length
    · have hpb : P (c b).length := hl ▸ hp
      have hpab : P (c (xorBits a b)).length := hlab ▸ hp
      simp only [hp, hpb, hpab, if_true]
      exact hf a b h
    · have hpb : ¬ P (c b).length := hl ▸ hp
      have hpab : ¬ P (c (xorBits a b)).length := hlab ▸ hp
      simp only [hp, hpb, hpab, if_false]
      exact hg a b h

/-- `for (d, s) in pairs: dst[d] = src[s]` is linear jointly in `src` and the initial `dst` -/
theorem putLoop (pairs : List (Nat × Nat)) {s t : Bits → Bits} (hs : Lin s) (ht : Lin t) :
    Lin (fun x => Vbptc.putLoop pairs (s x) (t x)) := by
  induction pairs generalizing t with
  | nil => simpa [Vbptc.putLoop] using ht
  | cons p ps ih =>
    have := ih (t := fun x => (t x).set p.1 (Dmr.getBit (s x) p.2)) (Lin.set _ ht (LinB.getBit _ hs))
    simpa [Vbptc.putLoop] using this

/-- a loop whose body is linear jointly in the input and the loop state -/
theorem foldl {ι : Type} (l : List ι) (step : ι → Bits → Bits → Bits)
    (hstep : ∀ i (t : Bits → Bits), Lin t → Lin (fun x => step i x (t x)))
    {t : Bits → Bits} (ht : Lin t) :
    Lin (fun x => l.foldl (fun acc i => step i x acc) (t x)) := by
  induction l generalizing t with
  | nil => simpa using ht
  | cons i is ih => simpa using ih (hstep i t ht)

end Lin

/-! ### extension from the unit words -/

theorem unit_eq (n i : Nat) (h : i < n) : unit n i = zeros i ++ true :: zeros (n - i - 1) := by
  induction n generalizing i with
  | zero => omega
  | succ n ih => cases i with
    | zero => simp [unit]
    | succ i =>
      have := ih i (by omega)
      have e : n + 1 - (i + 1) - 1 = n - i - 1 := by omega
      simp only [unit, this, zeros_succ, List.cons_append, e]

theorem Lin.map_zeros {f : Bits → Bits} (hf : Lin f) (n : Nat) :
    f (zeros n) = zeros (f (zeros n)).length := by
  have := (hf (zeros n) (zeros n) rfl).2
  rw [xorBits_self, zeros_length] at this
  have h2 := xorBits_self (f (zeros n))
  rw [← this] at h2
  exact h2

/-- two XOR-homomorphisms that agree on the zero word and on the `n` unit words agree on all
`2 ^ n` words of length `n` -/
theorem lin_ext {f g : Bits → Bits} (hf : Lin f) (hg : Lin g) (n : Nat)
    (h0 : f (zeros n) = g (zeros n)) (hu : ∀ i, i < n → f (unit n i) = g (unit n i))
    (x : Bits) (hx : x.length = n) : f x = g x := by
  suffices H : ∀ (x : Bits) (pre : Nat), pre + x.length = n →
      f (zeros pre ++ x) = g (zeros pre ++ x) by
    simpa using H x 0 (by simpa using hx)
  intro x
  induction x with
  | nil =>
    intro pre hp
    have : pre = n := by simpa using hp
    subst this
    simpa using h0
  | cons b xs ih =>
    intro pre hp
    simp only [List.length_cons] at hp
    have hstep : zeros pre ++ false :: xs = zeros (pre + 1) ++ xs := by
      simp [zeros, List.replicate_succ', List.append_assoc]
    cases b with
    | false => rw [hstep]; exact ih (pre + 1) (by omega)
    | true =>
      have hunit : unit n pre = zeros pre ++ true :: zeros xs.length := by
        rw [unit_eq n pre (by omega)]
        congr 3
        omega
      have hsplit : zeros pre ++ true :: xs
          = xorBits (zeros (pre + 1) ++ xs) (unit n pre) := by
        rw [← hstep, hunit, xorBits_append _ _ _ _ rfl, xorBits_self, zeros_length]
        simp [xorBits_zeros_right]
      have hlen : (zeros (pre + 1) ++ xs).length = (unit n pre).length := by
        simp; omega
      rw [hsplit, (hf _ _ hlen).2, (hg _ _ hlen).2, ih (pre + 1) (by omega), hu pre (by omega)]

/-! ### every stage of the encoders is linear -/

namespace VCode
variable (V : VCode)

theorem fillTable_lin {m : Bits → Bits} (hm : Lin m) : Lin (fun y => V.fillTable (m y)) :=
  Lin.putLoop _ (Lin.putLoop _ hm (Lin.const _)) (Lin.const _)

theorem placeCs_lin {cs t : Bits → Bits} (hcs : Lin cs) (ht : Lin t) :
    Lin (fun y => V.placeCs (cs y) (t y)) :=
  Lin.putLoop _ hcs ht

theorem rowStep_lin (r : Nat) {t : Bits → Bits} (ht : Lin t) : Lin (fun y => V.rowStep r (t y)) :=
  Lin.putLoop _ (Lin.gen _ (Lin.gather _ ht)) ht

theorem setParityRaw_lin {col : Bits → Bits} {o : Bits → Bool} (hc : Lin col) (ho : LinB o) :
    Lin (fun y => V.setParityRaw (col y) (o y)) := by
  have hc' : Lin (fun y => if (col y).length + 1 = V.R then col y ++ [false] else col y) :=
    Lin.ite_len (fun l => l + 1 = V.R) hc (Lin.append hc (Lin.const 1)) hc
  exact Lin.set _ hc' (LinB.xor (LinB.xorAll (Lin.take _ hc')) ho)

theorem colStep_lin (c : Nat) {t : Bits → Bits} {o : Bits → Bool} (ht : Lin t) (ho : LinB o) :
    Lin (fun y => V.colStep (o y) c (t y)) :=
  Lin.putLoop _ (V.setParityRaw_lin (Lin.gather _ ht) ho) ht

theorem readOut_lin {t : Bits → Bits} (ht : Lin t) : Lin (fun y => V.readOut (t y)) :=
  Lin.putLoop _ ht (Lin.const _)

theorem dataRaw_lin {t : Bits → Bits} (ht : Lin t) : Lin (fun y => V.dataRaw (t y)) :=
  Lin.putLoop _ ht (Lin.const _)

theorem csRaw_lin {t : Bits → Bits} (ht : Lin t) : Lin (fun y => V.csRaw (t y)) :=
  Lin.putLoop _ ht (Lin.const _)

theorem allRaw_lin {t : Bits → Bits} (ht : Lin t) : Lin (fun y => V.allRaw (t y)) :=
  Lin.putLoop _ ht (Lin.const _)

theorem fromAll_lin {t : Bits → Bits} (ht : Lin t) : Lin (fun y => V.fromAll (t y)) :=
  V.dataRaw_lin (Lin.putLoop _ ht (Lin.const _))

/-- the encoder core as a function of one word `y = message ++ checksum ++ [odd]` -/
def F (y : Bits) : Bits := V.encCore (y.take (V.k + V.c)) (getBit y (V.k + V.c))

theorem F_lin : Lin V.F := by
  have hx : Lin (fun y : Bits => y.take (V.k + V.c)) := Lin.take _ Lin.id
  have ho : LinB (fun y : Bits => getBit y (V.k + V.c)) := LinB.getBit _ Lin.id
  have h0 := V.placeCs_lin (Lin.drop V.k hx) (V.fillTable_lin (Lin.take V.k hx))
  have h1 := Lin.foldl (List.range V.hrows) (fun r _ t => V.rowStep r t)
    (fun r _ ht => V.rowStep_lin r ht) h0
  have h2 := Lin.foldl (List.range V.W) (fun c y t => V.colStep (getBit y (V.k + V.c)) c t)
    (fun c _ ht => V.colStep_lin c ht ho) h1
  exact V.readOut_lin h2

/-- what C09 says about one input word of the encoder core -/
structure Facts (y : Bits) : Prop where
  /-- the data extractor returns the message -/
  data : V.dataRaw (V.F y) = y.take V.k
  /-- the checksum extractor returns the checksum bits that were put in -/
  cs : V.csRaw (V.F y) = (y.drop V.k).take V.c
  /-- every data row of the transmitted matrix is the code word of its first `k` bits -/
  rows : ∀ r, r < V.hrows → V.txRow r (V.F y) = V.H.gen ((V.txRow r (V.F y)).take V.H.k)
  /-- every column has even parity, or odd parity when the flag is set -/
  cols : ∀ c, c < V.W → xorAll (V.txCol c (V.F y)) = getBit y (V.k + V.c)
  /-- re-encoding the fully de-interleaved word starts from the same message -/
  all : V.fromAll (V.allRaw (V.F y)) = y.take V.k

theorem facts_of_basis (h0 : V.Facts (zeros (V.k + V.c + 1)))
    (hu : ∀ i, i < V.k + V.c + 1 → V.Facts (unit (V.k + V.c + 1) i))
    (y : Bits) (hy : y.length = V.k + V.c + 1) : V.Facts y := by
  have hF := V.F_lin
  refine ⟨?_, ?_, ?_, ?_, ?_⟩
  · exact lin_ext (V.dataRaw_lin hF) (Lin.take _ Lin.id) _ h0.data (fun i hi => (hu i hi).data) y hy
  · exact lin_ext (V.csRaw_lin hF) (Lin.take _ (Lin.drop _ Lin.id)) _ h0.cs
      (fun i hi => (hu i hi).cs) y hy
  · intro r hr
    have hrow : Lin (fun y => V.txRow r (V.F y)) := Lin.gather _ hF
    exact lin_ext hrow (Lin.gen _ (Lin.take _ hrow)) _ (h0.rows r hr)
      (fun i hi => (hu i hi).rows r hr) y hy
  · intro c hc
    have hcol : LinB (fun y => xorAll (V.txCol c (V.F y))) := LinB.xorAll (Lin.gather _ hF)
    have := lin_ext (Lin.singleton hcol) (Lin.singleton (LinB.getBit (V.k + V.c) Lin.id)) _
      (by rw [h0.cols c hc]) (fun i hi => by rw [(hu i hi).cols c hc]) y hy
    simpa using this
  · exact lin_ext (V.fromAll_lin (V.allRaw_lin hF)) (Lin.take _ Lin.id) _ h0.all
      (fun i hi => (hu i hi).all) y hy

end VCode
end Dmr.Vbptc
