import DmrVerif.Model.Lrrp
import DmrVerif.Lemmas.MbxmlG

/-!
# Lemmas for C15 (1): the list-based readers on what the writers produce
-/

namespace Dmr.Lrrp
open Dmr Dmr.Mbxml

theorem readUL_writeURaw (v : Nat) (rest : Bytes) : readUL (writeURaw v ++ rest) = .ok (v, rest) := by
  rw [writeURaw_eq]
  simp [readUL, readUGo_encU]

theorem writeURaw_ne_nil (v : Nat) : writeURaw v ≠ [] := by rw [writeURaw_eq]; exact encU_ne_nil v

theorem writeU_ok {v : Nat} (h : v ≤ UINTVAR_MAX) : writeU v = .ok (writeURaw v) := by
  have : ¬ (v > UINTVAR_MAX) := by omega
  simp [writeU, this]

/-- a single octet below 128 is its own uintvar -/
theorem readUL_small (b : Nat) (rest : Bytes) (h : b < 128) : readUL (b :: rest) = .ok (b, rest) := by
  have h0 : b / 128 % 2 = 0 := by omega
  have h1 : b % 128 = b := by omega
  simp [readUL, readUGo, h0, h1]

theorem takeL_append (b rest : Bytes) : takeL b.length (b ++ rest) = .ok (b, rest) := by
  simp [takeL]

theorem takeL_append' (n : Nat) (b rest : Bytes) (h : b.length = n) : takeL n (b ++ rest) = .ok (b, rest) := by
  subst h; exact takeL_append b rest

theorem readOpaqueL_ser (b rest : Bytes) :
    readOpaqueL (writeURaw b.length ++ (b ++ rest)) = .ok (b, rest) := by
  simp [readOpaqueL, readUL_writeURaw, takeL_append]

/-! ## canonical floats: one-septet fraction -/

theorem floatOf_small (r : FloatRes) (h : r.int ≤ UINTVAR_MAX) :
    floatOf r = .ok ⟨r.neg, r.int * 128 ^ r.k + r.dec, 7 * r.k⟩ := by
  have hc : UINTVAR_MAX < 2 ^ 1024 - 2 ^ 970 := by decide +kernel
  have : ¬ (r.int ≥ 2 ^ 1024 - 2 ^ 970) := Nat.not_le.mpr (Nat.lt_of_le_of_lt h hc)
  simp only [floatOf, this, if_false]

theorem writeFraction_one (f : Nat) (hf : f < 128) : writeFraction f 1 = [f] := by
  simp [writeFraction, fracSeptets, stripTrailing, flagAllButLast]
  omega

/-- `read_ufloatvar` on `uintvar(i) ++ [f]`: the double `i + f/128` -/
theorem readUFL_canonical (i f : Nat) (hi : i ≤ UINTVAR_MAX) (hf : f < 128) (rest : Bytes) :
    readUFL (writeURaw i ++ ([f] ++ rest)) = .ok (⟨false, i * 128 + f, 7⟩, rest) := by
  obtain ⟨dec, k, hr, hk1, hkp, hv⟩ := readUF_parts i f 1 (by omega) (by simpa using hf) rest
  have hk : k = 1 := by omega
  subst hk
  have hdec : dec = f := by simp at hv; omega
  subst hdec
  rw [writeFraction_one dec hf, ← writeURaw_eq, List.append_assoc] at hr
  simp only [readUFL, hr]
  rw [floatOf_small _ hi]
  simp

theorem readUFL_canonical' (i f : Nat) (hi : i ≤ UINTVAR_MAX) (hf : f < 128) (rest : Bytes) :
    readUFL (writeURaw i ++ f :: rest) = .ok (⟨false, i * 128 + f, 7⟩, rest) :=
  readUFL_canonical i f hi hf rest

theorem sintMax_le : SINTVAR_MAX ≤ UINTVAR_MAX := by decide

/-- `read_sfloatvar` on `sintvar(±i) ++ [f]`: the double `±(i + f/128)` -/
theorem readSFL_canonical (neg : Bool) (i f : Nat) (hi : i ≤ SINTVAR_MAX) (hf : f < 128) (rest : Bytes) :
    readSFL (writeSRaw i neg ++ ([f] ++ rest)) = .ok (⟨neg, i * 128 + f, 7⟩, rest) := by
  obtain ⟨dec, k, hr, hk1, hkp, hv⟩ := readSF_parts neg i f 1 (by omega) (by simpa using hf) rest
  have hk : k = 1 := by omega
  subst hk
  have hdec : dec = f := by simp at hv; omega
  subst hdec
  rw [writeFraction_one dec hf, List.append_assoc] at hr
  simp only [readSFL, hr]
  rw [floatOf_small _ (by have := sintMax_le; simpa using (by omega : i ≤ UINTVAR_MAX))]
  simp

theorem readSFL_canonical' (neg : Bool) (i f : Nat) (hi : i ≤ SINTVAR_MAX) (hf : f < 128) (rest : Bytes) :
    readSFL (writeSRaw i neg ++ f :: rest) = .ok (⟨neg, i * 128 + f, 7⟩, rest) :=
  readSFL_canonical neg i f hi hf rest

/-- `write_ufloatvar(i + f/128, 1)` -/
theorem writeUF_canonical (i f : Nat) (hi : i ≤ UINTVAR_MAX) (hf : f < 128) :
    writeUF (i * 128 + f) 7 1 = .ok (writeURaw i ++ [f]) := by
  have h1 : (i * 128 + f) / 2 ^ 7 = i := by omega
  have h2 : (i * 128 + f) % 2 ^ 7 * 128 ^ 1 / 2 ^ 7 = f := by omega
  rw [writeUF_eq _ _ _ (by omega) (by rw [h1]; exact hi), h1, h2, writeFraction_one f hf, writeURaw_eq]

/-- `write_sfloatvar(±(i + f/128), 1)`; `-0.0` is written as `+0` -/
theorem writeSF_canonical (neg : Bool) (i f : Nat) (hi : i ≤ SINTVAR_MAX) (hf : f < 128)
    (hz : ¬ (neg = true ∧ i * 128 + f = 0)) :
    writeSF neg (i * 128 + f) 7 1 = .ok (writeSRaw i neg ++ [f]) := by
  have h1 : (i * 128 + f) / 2 ^ 7 = i := by omega
  have h2 : (i * 128 + f) % 2 ^ 7 * 128 ^ 1 / 2 ^ 7 = f := by omega
  rw [writeSF_eq _ _ _ _ (by omega) (by rw [h1]; exact hi), h1, h2, writeFraction_one f hf]
  have : (neg && (i * 128 + f != 0)) = neg := by
    cases neg
    · rfl
    · have : i * 128 + f ≠ 0 := fun h => hz ⟨rfl, h⟩
      have hb : (i * 128 + f != 0) = true := bne_iff_ne.mpr this
      rw [hb]; rfl
  rw [this]

theorem writeSRaw_ne_nil (m : Nat) (neg : Bool) : writeSRaw m neg ≠ [] := by
  have h := canonicalS_writeSRaw m neg
  intro h0
  rw [h0] at h
  simp [canonicalS, wellFlagged] at h

end Dmr.Lrrp
