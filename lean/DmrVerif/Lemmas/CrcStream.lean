import DmrVerif.Lemmas.Crc
import DmrVerif.Model.CrcStream

/-!
Theory of the register objects fed in pieces (`Model/CrcStream.lean`): feeding `a ++ b` is feeding `a`
and then `b` (both register kinds, any register content), so any split of a message leaves the same
register as the message fed at once; the call sequence `init, update…, digest` returns, at every
`update`, the register of what has been fed so far.  Core Lean only.
-/

namespace Dmr
namespace Crc

/-! ### `update(a ++ b)` = `update(a); update(b)` -/

theorem updateBitwise_length (c : CrcConfig) (r bits : Bits) (h : 0 < c.fw) (hr : r.length = c.w) :
    (updateBitwise c r bits).length = c.w := by
  rw [updateBitwise_eq c r bits h, procBits_length _ _ _ (by rw [polyBits_length, hr]), hr]

theorem updateBitwise_append (c : CrcConfig) (h : 0 < c.fw) (r a b : Bits) :
    updateBitwise c r (a ++ b) = updateBitwise c (updateBitwise c r a) b := by
  rw [updateBitwise_eq c _ _ h, updateBitwise_eq c _ _ h, updateBitwise_eq c _ _ h, procBits_append]

theorem updateTable_append (c : CrcConfig) (h : TableOk c) (r a b : Bits) (hr : r.length = c.w) :
    updateTable c (lookupTable c.w c.poly) false r (a ++ b)
      = updateTable c (lookupTable c.w c.poly) false r a
          >>= fun r' => updateTable c (lookupTable c.w c.poly) false r' b := by
  rw [updateTable_eq c h r (a ++ b) hr, updateTable_eq c h r a hr]
  show _ = updateTable c (lookupTable c.w c.poly) false (procBits (polyBits c) r a) b
  rw [updateTable_eq c h _ b (by rw [procBits_length _ _ _ (by rw [polyBits_length, hr]), hr]),
    procBits_append]

/-! ### any number of pieces -/

theorem foldl_updateBitwise (c : CrcConfig) (h : 0 < c.fw) (r : Bits) (pieces : List Bits) :
    pieces.foldl (updateBitwise c) r = procBits (polyBits c) r pieces.flatten := by
  induction pieces generalizing r with
  | nil => simp
  | cons p ps ih =>
    rw [List.foldl_cons, ih, updateBitwise_eq c r p h, List.flatten_cons, procBits_append]

theorem foldlM_updateTable (c : CrcConfig) (h : TableOk c) (r : Bits) (pieces : List Bits)
    (hr : r.length = c.w) :
    pieces.foldlM (updateTable c (lookupTable c.w c.poly) false) r
      = .ok (procBits (polyBits c) r pieces.flatten) := by
  induction pieces generalizing r with
  | nil => simp; rfl
  | cons p ps ih =>
    rw [List.foldlM_cons, updateTable_eq c h r p hr]
    show List.foldlM _ (procBits (polyBits c) r p) ps = _
    rw [ih _ (by rw [procBits_length _ _ _ (by rw [polyBits_length, hr]), hr]), List.flatten_cons,
      procBits_append]

/-- the workflow on the bit-by-bit register gives the one-shot value of the concatenation -/
theorem streamBitwise_eq (c : CrcConfig) (h : 0 < c.fw) (pieces : List Bits) :
    streamBitwise c pieces = calcBitwise c pieces.flatten := by
  unfold streamBitwise
  rw [foldl_updateBitwise c h, calcBitwise_eq c h]

/-- … and so does the workflow on the table register -/
theorem streamTable_eq (c : CrcConfig) (h : TableOk c) (pieces : List Bits) :
    streamTable c false pieces = .ok (calcBitwise c pieces.flatten) := by
  unfold streamTable streamTableWith
  rw [foldlM_updateTable c h _ _ (initReg_length c), calcBitwise_eq c h.fw_pos]
  rfl

/-! ### the call sequence on a register object -/

/-- the registers after each piece, starting from the register content `r` -/
def prefixRegs (p : Bits) (r : Bits) : List Bits → List Bits
  | [] => []
  | x :: xs => procBits p r x :: prefixRegs p (procBits p r x) xs

theorem prefixRegs_length (p r : Bits) (pieces : List Bits) :
    (prefixRegs p r pieces).length = pieces.length := by
  induction pieces generalizing r with
  | nil => rfl
  | cons x xs ih => simp [prefixRegs, ih]

/-- the `i`-th value returned by `update` is the register of the first `i+1` pieces fed at once -/
theorem prefixRegs_getElem (p r : Bits) (pieces : List Bits) (i : Nat) (hi : i < pieces.length) :
    (prefixRegs p r pieces)[i]? = some (procBits p r (pieces.take (i + 1)).flatten) := by
  induction pieces generalizing r i with
  | nil => simp at hi
  | cons x xs ih =>
    cases i with
    | zero => simp [prefixRegs]
    | succ i =>
      simp only [prefixRegs, List.getElem?_cons_succ, List.take_succ_cons, List.flatten_cons]
      rw [ih _ i (by simpa using hi), procBits_append]

/-- a register kind whose `update` is the bit-by-bit register on every `w`-bit content:
a `BitCrcRegister` with a positive feed width, or a `TableBasedBitCrcRegister` holding the table of its
own width / polynomial with the derived feed width -/
structure RegOk (k : RegKind) : Prop where
  fw_pos : 0 < k.c.fw
  tab : k.table = true → TableOk k.c ∧ k.tbl = lookupTable k.c.w k.c.poly

theorem regKind_ok (c : CrcConfig) (table : Bool) (h : TableOk c) : RegOk (regKind c table) :=
  ⟨h.fw_pos, fun ht => ⟨h, by
    have : table = true := ht
    subst this
    rfl⟩⟩

theorem regUpdate_eq (k : RegKind) (hk : RegOk k) (r bits : Bits) (hr : r.length = k.c.w) :
    regUpdate k false r bits = .ok (procBits (polyBits k.c) r bits) := by
  unfold regUpdate
  by_cases ht : k.table = true
  · rw [if_pos ht, (hk.tab ht).2, updateTable_eq k.c (hk.tab ht).1 r bits hr]
  · rw [if_neg ht, updateBitwise_eq k.c r bits hk.fw_pos]

/-- `update(p₁), …, update(pₙ), digest()` from any `w`-bit register content -/
theorem regRun_updates (k : RegKind) (hk : RegOk k) (r : Bits) (hr : r.length = k.c.w)
    (pieces : List Bits) :
    regRun k r (pieces.map (.update false) ++ [.digest])
      = (prefixRegs (polyBits k.c) r pieces
          ++ [digest k.c (procBits (polyBits k.c) r pieces.flatten)], none) := by
  induction pieces generalizing r with
  | nil => simp [regRun, regStep, prefixRegs]
  | cons p ps ih =>
    have hl : (procBits (polyBits k.c) r p).length = k.c.w := by
      rw [procBits_length _ _ _ (by rw [polyBits_length, hr]), hr]
    simp only [List.map_cons, List.cons_append, regRun, regStep, regUpdate_eq k hk r p hr, Except.map]
    rw [ih _ hl]
    simp [prefixRegs, procBits_append]

/-- **the documented workflow** `init(); update(p₁); …; update(pₙ); digest()` on a register object in
any state: no exception, every `update` returns the register of the pieces fed so far, `digest`
returns the one-shot check sum of the concatenation -/
theorem regRun_workflow (k : RegKind) (hk : RegOk k) (r : Bits) (pieces : List Bits) :
    regRun k r (workflow false pieces)
      = (prefixRegs (polyBits k.c) (initReg k.c) pieces ++ [calcBitwise k.c pieces.flatten], none) := by
  unfold workflow
  simp only [regRun, regStep]
  rw [regRun_updates k hk _ (initReg_length k.c), calcBitwise_eq k.c hk.fw_pos]

end Crc
end Dmr
