import DmrVerif.Lemmas.HyteraBytes
import DmrVerif.Lemmas.HyteraSpec

/-! HSTRP: packet type octet, the option TLV chain (induction over the option list, continuation
bit = "more options follow"), and the wrap / unwrap round trip (C12).  Core Lean only. -/

set_option linter.unusedSimpArgs false

namespace Dmr.Hytera
open Dmr Dmr.Gen.Hytera

/-- all 64 packet types survive their octet -/
theorem pktType_roundtrip (t : PktType) : PktType.ofByte t.asByte = t := by
  obtain ⟨a, b, c, d, e, f⟩ := t
  cases a <;> cases b <;> cases c <;> cases d <;> cases e <;> cases f <;> rfl

theorem pktType_byte_lt (t : PktType) : t.asByte < 64 := by
  obtain ⟨a, b, c, d, e, f⟩ := t
  cases a <;> cases b <;> cases c <;> cases d <;> cases e <;> cases f <;> decide

theorem optionsLen_eq (os : Opts) : optionsLen os = (optionsBytes os).length := by
  induction os with
  | nil => rfl
  | cons o tl ih =>
    obtain ⟨c, d⟩ := o
    cases tl with
    | nil => simp [optionsLen, optionsBytes]; omega
    | cons x xs => simp [optionsLen, optionsBytes] at ih ⊢; omega

theorem optionsBytes_ne_nil {os : Opts} (h : os ≠ []) : optionsBytes os ≠ [] := by
  match os, h with
  | [(c, d)], _ => simp [optionsBytes]
  | (c, d) :: x :: xs, _ => simp [optionsBytes]

theorem option_cmd_lt {c : Nat} (h : c ∈ hstrpOptionValues) : c < 128 := by
  simp only [hstrpOptionValues, List.mem_cons, List.not_mem_nil, or_false] at h; omega

/-- the octets of options that stand in front of another option: the continuation bit on every one -/
def optionsCont (pre : Opts) : Bytes := pre.flatMap fun o => [o.1 ||| 0x80, o.2.length] ++ o.2

/-- the chain splits at any position: what stands in front of a non-empty rest is written with the
continuation bit, whatever the rest holds (in particular: whether or not an equal option follows) -/
theorem optionsBytes_append (pre os : Opts) (h : os ≠ []) :
    optionsBytes (pre ++ os) = optionsCont pre ++ optionsBytes os := by
  induction pre with
  | nil => simp [optionsCont]
  | cons o tl ih =>
    obtain ⟨c, d⟩ := o
    have hne : tl ++ os ≠ [] := by simp [h]
    obtain ⟨x, xs, hx⟩ := List.exists_cons_of_ne_nil hne
    have : optionsBytes ((c, d) :: (tl ++ os)) = [c ||| 0x80, d.length] ++ d ++ optionsBytes (tl ++ os) := by
      rw [hx]; rfl
    simp only [List.cons_append, this, ih, optionsCont, List.flatMap_cons, List.append_assoc]

/-- the parser loop reads back any non-empty option list, whatever follows it -/
theorem parseOptionsGo_roundtrip (os : Opts) (hne : os ≠ []) (hwf : optsWF os) (rest : Bytes) (fuel : Nat)
    (hf : os.length ≤ fuel) : parseOptionsGo fuel (optionsBytes os ++ rest) = .ok os := by
  induction os generalizing fuel with
  | nil => exact absurd rfl hne
  | cons o tl ih =>
    obtain ⟨c, d⟩ := o
    have hc := (hwf (c, d) (by simp)).1
    have hlt := option_cmd_lt hc
    have em := enumOf_mem hc
    match fuel, hf with
    | f + 1, hf =>
    cases tl with
    | nil =>
      have b1 : c &&& 127 = c := and127_lt128 c hlt
      have b2 : c &&& 128 = 0 := and128_lt128 c hlt
      have hsl : sl (c :: d.length :: (d ++ rest)) 2 (2 + d.length) = d := by
        simpa using sl_mid [c, d.length] d rest
      simp [optionsBytes, parseOptionsGo, idx, b1, b2, em, hsl, bind, Except.bind, pure, Except.pure]
    | cons x xs =>
      have b1 := lor128_and127 c hlt
      have b2 := lor128_and128 c hlt
      have hwf' : optsWF (x :: xs) := fun o ho => hwf o (by simp [ho])
      have hrec := ih (by simp) hwf' f (by simp at hf ⊢; omega)
      have hsl : sl ((c ||| 128) :: d.length :: (d ++ (optionsBytes (x :: xs) ++ rest))) 2 (2 + d.length) = d := by
        simpa using sl_mid [c ||| 128, d.length] d (optionsBytes (x :: xs) ++ rest)
      have hdrop : List.drop (2 + d.length) ((c ||| 128) :: d.length :: (d ++ (optionsBytes (x :: xs) ++ rest)))
          = optionsBytes (x :: xs) ++ rest := by
        have : (2 + d.length) = ([c ||| 128, d.length] ++ d).length := by simp; omega
        rw [show (c ||| 128) :: d.length :: (d ++ (optionsBytes (x :: xs) ++ rest))
            = ([c ||| 128, d.length] ++ d) ++ (optionsBytes (x :: xs) ++ rest) by simp, this]
        exact List.drop_left' rfl
      simp only [optionsBytes, List.cons_append, List.nil_append, List.append_assoc, parseOptionsGo, idx,
        List.getElem?_cons_zero, List.getElem?_cons_succ, b1, b2, em, hsl, hdrop, hrec, bind, Except.bind, pure,
        Except.pure, beq_self_eq_true, if_true]

theorem parseOptions_roundtrip (os : Opts) (hwf : optsWF os) (rest : Bytes) (h : os = [] → rest = []) :
    parseOptions (optionsBytes os ++ rest) = .ok os := by
  by_cases hne : os = []
  · subst hne; simp [h rfl, parseOptions, optionsBytes, pure, Except.pure]
  · have hb := optionsBytes_ne_nil hne
    have hpos : (optionsBytes os ++ rest).length > 0 := by
      cases hob : optionsBytes os with
      | nil => exact absurd hob hb
      | cons a l => simp
    unfold parseOptions
    rw [if_pos hpos]
    apply parseOptionsGo_roundtrip os hne hwf rest
    -- every option occupies at least two octets
    have : os.length ≤ (optionsBytes os).length := by
      rw [← optionsLen_eq]
      clear hb hpos hne hwf h
      induction os with
      | nil => simp
      | cons o tl ih => obtain ⟨c, d⟩ := o; simp [optionsLen]; omega
    simp; omega

/-- `HSTRP.from_bytes ∘ HSTRP.as_bytes`; `pb` are the payload's bytes and `pl'` what `HDAP.from_bytes`
makes of them -/
theorem hstrp_roundtrip (ver sn : Nat) (t : PktType) (os : Opts) (pl pl' : Option Pdu) (pb : Bytes)
    (hpb : (match pl with | none => pure [] | some p => p.asBytes) = .ok pb)
    (hparse : Hdap.fromBytes pb = .ok pl')
    (hnone : pl = none → pl' = none) (hsome : pl ≠ none → pb ≠ [])
    (hsn : sn < 65536) (hc : Consistent t os pl) :
    ∃ b, Hstrp.asBytes ⟨ver, t, sn, os, pl⟩ = .ok b ∧ b.length = 6 + (optionsBytes os).length + pb.length
      ∧ Hstrp.fromBytes b = .ok (some ⟨ver, t, sn, os, pl'⟩) := by
  obtain ⟨hc1, hc2, hwf⟩ := hc
  refine ⟨[50, 66, ver, t.asByte, sn / 256 % 256, sn % 256] ++ (optionsBytes os ++ pb), ?_, ?_, ?_⟩
  · cases pl with
    | none =>
      have : pb = [] := by simpa [pure, Except.pure] using hpb.symm
      subst this
      simp [Hstrp.asBytes, hstrpHeader, be2, bind, Except.bind, pure, Except.pure]
    | some p =>
      simp only at hpb
      simp [Hstrp.asBytes, hpb, hstrpHeader, be2, bind, Except.bind, pure, Except.pure]
  · simp; omega
  · have e2 := Nat.mod_eq_of_lt hsn
    have hpl0 : pl = none → pb = [] := by
      intro h; subst h; simpa [pure, Except.pure] using hpb.symm
    generalize hD : [50, 66, ver, t.asByte, sn / 256 % 256, sn % 256] ++ (optionsBytes os ++ pb) = D
    have hd6 : D.drop 6 = optionsBytes os ++ pb := by rw [← hD]; rfl
    -- options
    have hopts : Hstrp.parseOpts t D = .ok os := by
      unfold Hstrp.parseOpts
      rw [hd6]
      by_cases hne : os = []
      · subst hne
        cases hho : t.hasOptions with
        | false => simp [pure, Except.pure]
        | true =>
          have := hpl0 (hc2 rfl hho)
          subst this
          simp [parseOptions, optionsBytes, pure, Except.pure]
      · rw [hc1 hne, if_pos rfl]
        exact parseOptions_roundtrip os hwf pb (fun h => absurd h hne)
    have hdrop : List.drop (6 + optionsLen os) D = pb := by
      rw [← hD, optionsLen_eq, ← List.append_assoc]
      exact List.drop_left' (by simp; omega)
    have hDlen : D.length = 6 + (optionsBytes os).length + pb.length := by rw [← hD]; simp; omega
    have hpay : Hstrp.parsePayload t D (optionsLen os) = .ok pl' := by
      unfold Hstrp.parsePayload
      rw [hdrop]
      by_cases hp : pl = none
      · have := hpl0 hp
        subst this
        rw [hnone hp] at hparse ⊢
        split
        · exact hparse
        · rfl
      · have hne := hsome hp
        have : D.length > 6 + optionsLen os := by
          rw [optionsLen_eq, hDlen]
          have : 0 < pb.length := List.length_pos_iff.mpr hne
          omega
        rw [if_pos (Or.inr this)]
        exact hparse
    have hl : ¬ D.length < 6 := by omega
    have s02 : sl D 0 2 = hstrpHeader := by rw [← hD]; rfl
    have s46 : sl D 4 6 = [sn / 256 % 256, sn % 256] := by rw [← hD]; rfl
    have i3 : idx D 3 = .ok t.asByte := by rw [← hD]; rfl
    have i2 : idx D 2 = .ok ver := by rw [← hD]; rfl
    simp only [Hstrp.fromBytes, hl, if_false, s02, s46, i2, i3, ne_eq, not_true_eq_false, bind, Except.bind, pure,
      Except.pure, pktType_roundtrip, hopts, hpay, ofBe2', e2]

end Dmr.Hytera
