import DmrVerif.Lemmas.RsMulA
import DmrVerif.Lemmas.RsMulB
import DmrVerif.Lemmas.RsMulC
import DmrVerif.Lemmas.RsMulD

/-! C11: the four enumerated quarters put together, and what follows from the table facts alone. -/

namespace Dmr.Rs
open Dmr Dmr.Gen

/-- `log_multiply` is multiplication in GF(2)[x]/(x^8+x^4+x^3+x^2+1), all 65,536 operand pairs -/
theorem logMultiply_eq_clmulMod (a b : Nat) (ha : a < 256) (hb : b < 256) :
    logMultiply a b = clmulMod fieldPoly a b := by
  apply mulCase_spec a b ha hb
  have hn : 256 * a + b < 65536 := by omega
  by_cases h1 : 256 * a + b < 16384
  · exact allBin_spec _ _ _ mulEnumA _ (Nat.zero_le _) (by simpa using h1)
  by_cases h2 : 256 * a + b < 32768
  · exact allBin_spec _ _ _ mulEnumB _ (by omega) (by simp; omega)
  by_cases h3 : 256 * a + b < 49152
  · exact allBin_spec _ _ _ mulEnumC _ (by omega) (by simp; omega)
  · exact allBin_spec _ _ _ mulEnumD _ (by omega) (by simp; omega)

theorem getElem?_eq_getD (l : List Nat) (i : Nat) (h : i < l.length) : l[i]? = some (l.getD i 0) := by
  simp [List.getD_eq_getElem?_getD, List.getElem?_eq_getElem h]

/-- in range, no table access of `log_multiply` can raise: the model's `getD` never defaults -/
theorem logMultiplyE_eq (a b : Nat) (ha : a < 256) (hb : b < 256) :
    logMultiplyE a b = some (logMultiply a b) := by
  unfold logMultiplyE logMultiply
  by_cases h : a = 0 ∨ b = 0
  · simp [h]
  · simp only [not_or] at h
    have la := (log_facts a h.1 ha).1
    have lb := (log_facts b h.2 hb).1
    have h1 : rsLog[a]? = some (logAt a) := by
      exact getElem?_eq_getD _ _ (by rw [log_length]; exact ha)
    have h2 : rsLog[b]? = some (logAt b) := by
      exact getElem?_eq_getD _ _ (by rw [log_length]; exact hb)
    have h3 : rsExp[logAt a + logAt b]? = some (expAt (logAt a + logAt b)) := by
      exact getElem?_eq_getD _ _ (by rw [exp_length]; omega)
    simp [h.1, h.2, h1, h2, h3]

end Dmr.Rs
