import DmrVerif.Lemmas.Codes

/-!
Counting: the checker accepts exactly `2^k` of the `2^n` words.  `allBits n` has no duplicates, the
accepted words are its sub-list `filter check`, the code words are `(allBits k).map gen`; both are
duplicate-free with the same members, hence permutations of each other.
-/

namespace Dmr

theorem allBits_length_of_mem {n : Nat} {w : Bits} (h : w ∈ allBits n) : w.length = n := by
  induction n generalizing w with
  | zero => simp [allBits] at h; simp [h]
  | succ n ih =>
    simp only [allBits, List.mem_flatMap, List.mem_cons, List.not_mem_nil, or_false] at h
    obtain ⟨t, ht, h | h⟩ := h <;> simp [h, ih ht]

theorem allBits_nodup (n : Nat) : (allBits n).Nodup := by
  induction n with
  | zero => simp [allBits]
  | succ n ih =>
    simp only [allBits]
    generalize allBits n = l at ih
    induction l with
    | nil => simp
    | cons t ts iht =>
      rw [List.nodup_cons] at ih
      simp only [List.flatMap_cons]
      rw [List.Nodup, List.pairwise_append]
      refine ⟨by simp, iht ih.2, ?_⟩
      intro a ha b hb
      simp only [List.mem_cons, List.not_mem_nil, or_false] at ha
      simp only [List.mem_flatMap, List.mem_cons, List.not_mem_nil, or_false] at hb
      obtain ⟨u, hu, hb⟩ := hb
      have : t ≠ u := fun e => ih.1 (e ▸ hu)
      rcases ha with rfl | rfl <;> rcases hb with rfl | rfl <;> simp [this]

theorem allBits_length (k : Nat) : (allBits k).length = 2 ^ k := by
  induction k with
  | zero => simp [allBits]
  | succ k ih =>
    have : ∀ l : List Bits, (l.flatMap (fun t => [false :: t, true :: t])).length = 2 * l.length := by
      intro l; induction l with
      | nil => simp
      | cons x xs ih => simp [List.flatMap_cons, ih]; omega
    simp only [allBits, this, ih]; omega

namespace Code

/-- among all `2^n` words exactly `2^k` pass the checker -/
theorem accepted_count {C : Code} (h : C.WFProp) :
    ((allBits C.n).filter C.check).length = 2 ^ C.k := by
  have hperm : ((allBits C.n).filter C.check).Perm ((allBits C.k).map C.gen) := by
    rw [List.perm_ext_iff_of_nodup]
    · intro w
      simp only [List.mem_filter, List.mem_map]
      constructor
      · rintro ⟨hw, hc⟩
        have hl := allBits_length_of_mem hw
        refine ⟨w.take C.k, ?_, ((check_iff h w hl).mp hc).symm⟩
        have hk : (w.take C.k).length = C.k := by simp [hl, h.kn]
        have hm := mem_allBits (w.take C.k)
        rw [hk] at hm
        exact hm
      · rintro ⟨m, hm, rfl⟩
        have hl := allBits_length_of_mem hm
        have hm' := mem_allBits (C.gen m)
        rw [gen_length] at hm'
        exact ⟨hm', check_gen h m hl⟩
    · exact (allBits_nodup C.n).sublist List.filter_sublist
    · rw [List.Nodup, List.pairwise_map]
      apply List.Pairwise.imp_of_mem _ (allBits_nodup C.k)
      intro a b ha hb hne he
      exact hne (gen_injective h a b (allBits_length_of_mem ha) (allBits_length_of_mem hb) he)
  rw [hperm.length_eq, List.length_map, allBits_length]

end Code
end Dmr
