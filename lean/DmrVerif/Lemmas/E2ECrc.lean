import DmrVerif.Lemmas.E2EDefs
import DmrVerif.Props.C05

/-!
# End to end (C07a): the CRC parameters of C07 / C01 instantiated by the front ends of C05

The range side conditions of `C07.generated_received` (`crc32 < 2^32`, `crc9 < 2^9`) and of the PDU
constructors (`crc16 < 2^16`) are discharged from `C05.crc32_front`, `C05.crc9_front` / `crc9_parts`,
`C05.crc16_front`; the same theorems say that the front ends never raise on the arguments that occur
(so `okOr0` never falls back) and what the values are (`C05.bitwise_eq_rem`: polynomial remainders).
-/

namespace Dmr.E2E
open Dmr Dmr.Crc Polynomial
open Dmr.Tracker (Rate)

/-! ## octet reversal -/

theorem rev4_lt (v : Nat) : rev4 v < 2 ^ 32 := by
  unfold rev4; omega

theorem rev4_digits (a b c d : Nat) (ha : a < 256) (hb : b < 256) (hc : c < 256) (hd : d < 256) :
    rev4 (a + 256 * b + 65536 * c + 16777216 * d) = d + 256 * c + 65536 * b + 16777216 * a := by
  unfold rev4; omega

theorem rev4_rev4 (v : Nat) (h : v < 2 ^ 32) : rev4 (rev4 v) = v := by
  obtain ⟨a, b, c, d, ha, hb, hc, hd, rfl⟩ : ∃ a b c d, a < 256 ∧ b < 256 ∧ c < 256 ∧ d < 256
      ∧ v = a + 256 * b + 65536 * c + 16777216 * d :=
    ⟨v % 256, v / 256 % 256, v / 65536 % 256, v / 16777216 % 256, by omega, by omega, by omega, by omega,
      by omega⟩
  rw [rev4_digits a b c d ha hb hc hd, rev4_digits d c b a hd hc hb ha]

theorem bitsToNat_lt_len (bs : Bits) (w : Nat) (h : bs.length = w) : bitsToNat bs < 2 ^ w :=
  h ▸ bitsToNat_lt bs

theorem natToBits_bitsToNat_len (bs : Bits) (w : Nat) (h : bs.length = w) : natToBits w (bitsToNat bs) = bs :=
  h ▸ natToBits_bitsToNat bs

/-! ## masks -/

/-- the three CRC-9 masks are the entries of the extracted `CrcMasks` table, ETSI TS 102 361-1 B.3.12 -/
theorem mask9_etsi :
    mask9 .r12 = 0x0F0 ∧ mask9 .r34 = 0x1FF ∧ mask9 .r1 = 0x10F
    ∧ ("Rate12DataContinuation", mask9 .r12) ∈ Gen.crcMasks
    ∧ ("Rate34DataContinuation", mask9 .r34) ∈ Gen.crcMasks
    ∧ ("Rate1DataContinuation", mask9 .r1) ∈ Gen.crcMasks
    ∧ ("CSBK", Gen.maskCSBK) ∈ Gen.crcMasks ∧ ("DataHeader", Gen.maskDataHeader) ∈ Gen.crcMasks
    ∧ ("PiHeader", Gen.maskPiHeader) ∈ Gen.crcMasks := by decide

theorem mask9_lt (r : Rate) : mask9 r < 2 ^ 9 := by cases r <;> decide

/-! ## CRC-32 -/

/-- the CRC-32 remainder of the pairwise swapped octets, as a number (`C05.crc32_front`) -/
def crc32v (d : Bytes) : Nat := bitsToNat (C05.crcBits Gen.crc32 (bytesToBits (byteswap d)))

theorem crc32v_lt (d : Bytes) : crc32v d < 2 ^ 32 := by
  unfold crc32v
  exact bitsToNat_lt_len _ 32 (by rw [calcBitwise_length]; decide)

/-- `CRC32.calculate` never raises (so `okOr0` does not fall back) … -/
theorem crc32_ok (d : Bytes) : Crc.crc32 d = .ok (crc32v d) := C05.crc32_front d

/-- … its 32 bits are the remainder of `swapped(d)(x)·x^32` modulo the CRC-32 generator … -/
theorem crc32v_rem (d : Bytes) :
    toPoly (natToBits 32 (crc32v d))
      = (toPoly (bytesToBits (byteswap d)) * X ^ 32) %ₘ genPoly Gen.crc32 := by
  have hok := C05.ok (c := Gen.crc32) (by simp [C05.configs])
  obtain ⟨h1, h2⟩ := C05.bitwise_eq_rem Gen.crc32 hok.fw_pos hok.plain (bytesToBits (byteswap d))
  have hw : Gen.crc32.w = 32 := by decide
  unfold crc32v C05.crcBits
  rw [natToBits_bitsToNat_len _ 32 (by rw [h2, hw]), h1, hw]

/-- … and the block attribute is that value with its four octets reversed -/
theorem crc32c_eq (d : Bytes) : crc32c d = rev4 (crc32v d) := by
  unfold crc32c
  rw [crc32_ok]; rfl

theorem crc32c_lt (d : Bytes) : crc32c d < 2 ^ 32 := rev4_lt _

/-- the receiver's check (`CRC32.check(data, int.from_bytes(crc32.to_bytes(4, "big"), "little"))`) accepts
the attribute -/
theorem crc32Check_ok (d : Bytes) : crc32Check d (rev4 (crc32c d) : Nat) = .ok true := by
  rw [crc32c_eq, rev4_rev4 _ (crc32v_lt d)]
  have hv : crc32v d ≤ 4294967295 := by have := crc32v_lt d; omega
  obtain ⟨b, hb, hiff⟩ := (C05.check_iff d [] 0 (crc32v d)).2.2.1 hv
  rw [hb, hiff.2 (crc32_ok d)]

/-! ## CRC-9 -/

/-- the bit string `calculate_from_parts` assembles for an integer CRC-32 argument -/
def crc9Src (d : Bytes) (dbsn c : Nat) : Bits :=
  bytesToBits d ++ (if c = 0 then [] else natToBits 32 c) ++ natToBits 7 dbsn

/-- the masked, inverted CRC-9 remainder of that string -/
def crc9v (r : Rate) (d : Bytes) (dbsn c : Nat) : Nat :=
  Nat.xor (bitsToNat (inv (C05.crcBits Gen.crc9 (crc9Src d dbsn c)))) (mask9 r)

theorem xor_inv_lt (bits : Bits) (w mask : Nat) (hl : bits.length = w) (hm : mask < 2 ^ w) :
    Nat.xor (bitsToNat (inv bits)) mask < 2 ^ w :=
  Nat.xor_lt_two_pow (bitsToNat_lt_len _ w (by rw [inv_length, hl])) hm

theorem crc9Source_int (d : Bytes) (dbsn c : Nat) (hs : dbsn < 128) (hc : c < 2 ^ 32) :
    crc9Source d (dbsn : Int) (.int (c : Int)) = .ok (crc9Src d dbsn c) := by
  obtain ⟨_, h0, hv, _⟩ := C05.crc9_parts d dbsn hs
  unfold crc9Src
  by_cases hz : c = 0
  · subst hz
    simpa using h0
  · rw [if_neg hz]
    exact hv c (by omega) hc

/-- `CRC9.calculate_from_parts` never raises on a serial number < 128 and a CRC-32 argument < 2^32 -/
theorem crc9_ok (r : Rate) (d : Bytes) (dbsn c : Nat) (hs : dbsn < 128) (hc : c < 2 ^ 32) :
    Crc.crc9 d (dbsn : Int) (mask9 r) (.int (c : Int)) = .ok (crc9v r d dbsn c) :=
  C05.crc9_front d dbsn (mask9 r) (.int c) _ (crc9Source_int d dbsn c hs hc)

theorem crc9c_eq (r : Rate) (d : Bytes) (dbsn c : Nat) (hs : dbsn < 128) (hc : c < 2 ^ 32) :
    crc9c r d dbsn c = crc9v r d dbsn c := by
  unfold crc9c
  rw [crc9_ok r d dbsn c hs hc]; rfl

/-- range, for all arguments (the side condition of C07) -/
theorem crc9c_lt (r : Rate) (d : Bytes) (dbsn c : Nat) : crc9c r d dbsn c < 2 ^ 9 := by
  unfold crc9c
  cases hsrc : crc9Source d (dbsn : Int) (.int (c : Int)) with
  | error e =>
    have : Crc.crc9 d (dbsn : Int) (mask9 r) (.int (c : Int)) = .error e := by
      unfold Crc.crc9 crc9With
      rw [hsrc]; rfl
    rw [this]; show (0 : Nat) < 2 ^ 9; decide
  | ok src =>
    rw [C05.crc9_front d dbsn (mask9 r) (.int c) src hsrc]
    exact xor_inv_lt _ 9 _ (by rw [calcBitwise_length]; decide) (mask9_lt r)

/-- `CRC9.check` on fields in range accepts exactly the calculated value -/
theorem crc9Check_ok (r : Rate) (d : Bytes) (dbsn c : Nat) (hs : dbsn < 128) (hc : c < 2 ^ 32) :
    crc9Check d (dbsn : Int) (crc9c r d dbsn c : Nat) (mask9 r) (.int (c : Int)) = .ok true := by
  have hlt := crc9c_lt r d dbsn c
  have h := (C05.crc9_check_iff d dbsn (mask9 r) (.int c) (crc9c r d dbsn c) (crc9v r d dbsn c)
    (crc9_ok r d dbsn c hs hc)).1 (by omega)
  rw [h, crc9c_eq r d dbsn c hs hc]
  simp

/-! ## CRC-CCITT (the PDU constructors of the preamble CSBKs and of the header) -/

theorem crc16_ok (data : Bytes) (mask : Nat) :
    Crc.crc16 data mask
      = .ok (Nat.xor (bitsToNat (inv (C05.crcBits Gen.crc16 (bytesToBits data)))) mask) :=
  C05.crc16_front data mask

theorem crc16c_lt (mask : Nat) (hm : mask < 2 ^ 16) (bits : Bits) : crc16c mask bits < 2 ^ 16 := by
  unfold crc16c
  rw [crc16_ok]
  exact xor_inv_lt _ 16 _ (by rw [calcBitwise_length]; decide) hm

theorem crcsC_csbk_lt (bits : Bits) : crcsC.csbk bits < 2 ^ 16 := crc16c_lt _ (by decide) bits
theorem crcsC_dh_lt (bits : Bits) : crcsC.dh bits < 2 ^ 16 := crc16c_lt _ (by decide) bits

/-! ## the instantiation of C07's abstract `Crc` -/

/-- the side conditions of `C07.generated_received` hold for the concrete functions -/
theorem crcC_ranges : (∀ d, crcC.crc32 d < 2 ^ 32) ∧ (∀ r d s c, crcC.crc9 r d s c < 2 ^ 9) :=
  ⟨crc32c_lt, crc9c_lt⟩

end Dmr.E2E
