import DmrVerif.Lemmas.LrrpDoc

/-!
# Lemmas for C15 (4): parsing terminates — the recursion budget of the model is never exhausted — and the
document loop consumes exactly the announced lengths

`NF r` says that `r` is not the model's own out-of-fuel error.  Every reader either fails with a Python
exception class or returns a remainder that is no longer than what it was given; reading a token id or
a document header consumes at least one octet, so a budget of "octets left" always suffices.
-/

namespace Dmr.Lrrp
open Dmr Dmr.Mbxml

/-- "not the model's own out-of-fuel error" -/
def NF {α : Type} (r : R α) : Prop := ∀ e, r = .error e → e ≠ .fuel

theorem readUGo_nf : ∀ (l : Bytes) (acc : Nat), NF (readUGo l acc) := by
  intro l
  induction l with
  | nil => intro acc e h; simp [readUGo] at h; subst h; decide
  | cons b t ih =>
    intro acc e h
    simp only [readUGo] at h
    split at h
    · simp at h
    · cases hq : readUGo t (acc * 128 + b % 128) with
      | error e' => rw [hq] at h; simp [bump] at h; subst h; exact ih _ _ hq
      | ok p => rw [hq] at h; simp [bump] at h

theorem readUGo_count : ∀ (l : Bytes) (acc v n : Nat), readUGo l acc = .ok (v, n) → 1 ≤ n ∧ n ≤ l.length := by
  intro l
  induction l with
  | nil => intro acc v n h; simp [readUGo] at h
  | cons b t ih =>
    intro acc v n h
    simp only [readUGo] at h
    split at h
    · simp at h; simp [← h.2]
    · cases hq : readUGo t (acc * 128 + b % 128) with
      | error e' => rw [hq] at h; simp [bump] at h
      | ok p =>
        obtain ⟨v', n'⟩ := p
        rw [hq] at h; simp [bump] at h
        have := ih _ _ _ hq
        simp only [List.length_cons]; omega

theorem readUL_nf (rest : Bytes) : NF (readUL rest) := by
  intro e h
  unfold readUL at h
  cases hq : readUGo rest 0 with
  | error e' => rw [hq] at h; simp at h; subst h; exact readUGo_nf _ _ _ hq
  | ok p => rw [hq] at h; simp at h

theorem readUL_shrinks (rest r : Bytes) (v : Nat) (h : readUL rest = .ok (v, r)) : r.length < rest.length := by
  unfold readUL at h
  cases hq : readUGo rest 0 with
  | error e' => rw [hq] at h; simp at h
  | ok p =>
    obtain ⟨v', n⟩ := p
    rw [hq] at h; simp at h
    have := readUGo_count _ _ _ _ hq
    rw [← h.2]; simp; omega

theorem readUL_nf' {rest : Bytes} {e : Err} (h : readUL rest = .error e) : e ≠ .fuel := readUL_nf rest e h

theorem takeL_nf' {n : Nat} {rest : Bytes} {e : Err} (h : takeL n rest = .error e) : e ≠ .fuel := by
  unfold takeL at h; split at h <;> simp at h; subst h; decide

theorem takeL_le {n : Nat} {rest b r : Bytes} (h : takeL n rest = .ok (b, r)) : r.length ≤ rest.length := by
  unfold takeL at h; split at h <;> simp at h; rw [← h.2]; simp

theorem readOpaqueL_nf' {rest : Bytes} {e : Err} (h : readOpaqueL rest = .error e) : e ≠ .fuel := by
  unfold readOpaqueL at h
  split at h
  · simp at h; subst h; exact readUL_nf' ‹_›
  · exact takeL_nf' h

theorem readOpaqueL_le {rest b r : Bytes} (h : readOpaqueL rest = .ok (b, r)) : r.length ≤ rest.length := by
  unfold readOpaqueL at h
  split at h
  · simp at h
  · have := readUL_shrinks _ _ _ ‹_›
    have := takeL_le h
    omega

theorem floatOf_nf' {r : FloatRes} {e : Err} (h : floatOf r = .error e) : e ≠ .fuel := by
  unfold floatOf at h; split at h <;> simp at h; subst h; decide

theorem shift_nf {idx : Nat} {r : R (Nat × Nat)} (h : NF r) : NF (shift idx r) := by
  intro e he
  cases r with
  | error e' => simp [shift] at he; subst he; exact h _ rfl
  | ok p => simp [shift] at he

theorem readU_nf' {data : Bytes} {idx : Nat} {e : Err} (h : readU data idx = .error e) : e ≠ .fuel :=
  shift_nf (readUGo_nf _ _) e h

theorem readS_nf' {data : Bytes} {idx : Nat} {e : Err} (h : readS data idx = .error e) : e ≠ .fuel := by
  unfold readS at h
  split at h
  · simp at h; subst h; decide
  · simp only [] at h
    split at h
    · simp at h
    · cases hq : readUGo ‹Bytes› (‹Nat› % 64) with
      | error e' => rw [hq] at h; simp [readSRest] at h; subst h; exact readUGo_nf _ _ _ hq
      | ok p => rw [hq] at h; simp [readSRest] at h

theorem readUF_nf' {data : Bytes} {idx : Nat} {e : Err} (h : readUF data idx = .error e) : e ≠ .fuel := by
  unfold readUF at h
  split at h
  · simp at h; subst h; exact readU_nf' ‹_›
  · split at h
    · simp at h; subst h; exact readU_nf' ‹_›
    · simp at h

theorem readSF_nf' {data : Bytes} {idx : Nat} {e : Err} (h : readSF data idx = .error e) : e ≠ .fuel := by
  unfold readSF at h
  split at h
  · simp at h; subst h; exact readS_nf' ‹_›
  · split at h
    · simp at h; subst h; exact readU_nf' ‹_›
    · simp at h

theorem readUFL_nf' {rest : Bytes} {e : Err} (h : readUFL rest = .error e) : e ≠ .fuel := by
  unfold readUFL at h
  split at h
  · simp at h; subst h; exact readUF_nf' ‹_›
  · split at h
    · simp at h; subst h; exact floatOf_nf' ‹_›
    · simp at h

theorem readUFL_le {rest r : Bytes} {d : Dy} (h : readUFL rest = .ok (d, r)) : r.length ≤ rest.length := by
  unfold readUFL at h
  split at h
  · simp at h
  · split at h
    · simp at h
    · simp at h; rw [← h.2]; simp

theorem readSFL_nf' {rest : Bytes} {e : Err} (h : readSFL rest = .error e) : e ≠ .fuel := by
  unfold readSFL at h
  split at h
  · simp at h; subst h; exact readSF_nf' ‹_›
  · split at h
    · simp at h; subst h; exact floatOf_nf' ‹_›
    · simp at h

theorem readSFL_le {rest r : Bytes} {d : Dy} (h : readSFL rest = .ok (d, r)) : r.length ≤ rest.length := by
  unfold readSFL at h
  split at h
  · simp at h
  · split at h
    · simp at h
    · simp at h; rw [← h.2]; simp

theorem readAttrs_nf' (atbl : List AttrTok) : ∀ (ids : List Nat) (rest : Bytes) (e : Err),
    readAttrs atbl ids rest = .error e → e ≠ .fuel := by
  intro ids
  induction ids with
  | nil => intro rest e h; simp [readAttrs] at h
  | cons a as ih =>
    intro rest e h
    simp only [readAttrs] at h
    split at h
    · simp at h; subst h; decide
    · split at h
      · simp at h; subst h; exact readUL_nf' ‹_›
      · split at h
        · simp at h; subst h; exact ih _ _ ‹_›
        · simp at h

theorem readAttrs_le (atbl : List AttrTok) : ∀ (ids : List Nat) (rest r : Bytes) (l : List AttrRef),
    readAttrs atbl ids rest = .ok (l, r) → r.length ≤ rest.length := by
  intro ids
  induction ids with
  | nil => intro rest r l h; simp [readAttrs] at h; rw [h.2]; exact Nat.le_refl _
  | cons a as ih =>
    intro rest r l h
    simp only [readAttrs] at h
    split at h
    · simp at h
    · split at h
      · simp at h
      · split at h
        · simp at h
        · simp at h
          have h1 := readUL_shrinks _ _ _ ‹_›
          have h2 := ih _ _ _ ‹_›
          rw [← h.2]; omega

theorem readValue_nf' {atbl : List AttrTok} {tc : ElemTok} {rest : Bytes} {e : Err}
    (h : readValue atbl tc rest = .error e) : e ≠ .fuel := by
  unfold readValue at h
  simp only [] at h
  repeat' split at h
  all_goals first
    | (simp at h; done)
    | (simp at h; subst h; decide)
    | (simp at h; subst h; first
        | exact takeL_nf' ‹_› | exact readOpaqueL_nf' ‹_› | exact readUL_nf' ‹_› | exact readUFL_nf' ‹_›
        | exact readSFL_nf' ‹_› | exact readAttrs_nf' _ _ _ _ ‹_›)


theorem readValue_le {atbl : List AttrTok} {tc : ElemTok} {rest r : Bytes} {as : List AttrRef} {v : Val}
    (h : readValue atbl tc rest = .ok (as, v, r)) : r.length ≤ rest.length := by
  unfold readValue at h
  simp only [] at h
  repeat' split at h
  all_goals first
    | (simp at h; done)
    | (simp at h
       obtain ⟨_, _, h3⟩ := h
       subst h3
       first
        | exact Nat.le_refl _
        | (simp; done)
        | exact takeL_le ‹_›
        | exact readOpaqueL_le ‹_›
        | exact Nat.le_of_lt (readUL_shrinks _ _ _ ‹_›)
        | exact readUFL_le ‹_›
        | exact readSFL_le ‹_›
        | exact Nat.le_trans (readOpaqueL_le ‹_›) (readAttrs_le _ _ _ _ _ ‹_›)
        | exact Nat.le_trans (takeL_le ‹_›) (takeL_le ‹_›)
        | exact Nat.le_trans (readUFL_le ‹_›) (Nat.le_trans (takeL_le ‹_›) (takeL_le ‹_›))
        | exact Nat.le_trans (readSFL_le ‹_›) (Nat.le_trans (takeL_le ‹_›) (takeL_le ‹_›)))


theorem readToken_nf' {etbl : List ElemTok} {atbl : List AttrTok} {rest : Bytes} {e : Err}
    (h : readToken etbl atbl rest = .error e) : e ≠ .fuel := by
  unfold readToken at h
  split at h
  · simp at h; subst h; exact readUL_nf' ‹_›
  · split at h
    · simp at h; subst h; decide
    · split at h
      · simp at h; subst h; exact readValue_nf' ‹_›
      · simp at h

/-- every iteration of the token loop consumes at least one octet -/
theorem readToken_shrinks {etbl : List ElemTok} {atbl : List AttrTok} {rest r : Bytes} {p : Part}
    (h : readToken etbl atbl rest = .ok (p, r)) : r.length < rest.length := by
  unfold readToken at h
  split at h
  · simp at h
  · split at h
    · simp at h
    · split at h
      · simp at h
      · simp at h
        have h1 := readUL_shrinks _ _ _ ‹_›
        have h2 := readValue_le ‹_›
        rw [← h.2]; omega

/-- the token loop never exhausts a budget of "octets left" -/
theorem readTokens_nf (etbl : List ElemTok) (atbl : List AttrTok) : ∀ (fuel : Nat) (rest : Bytes),
    rest.length ≤ fuel → NF (readTokens etbl atbl fuel rest) := by
  intro fuel
  induction fuel with
  | zero =>
    intro rest hl e h
    have : rest = [] := List.eq_nil_of_length_eq_zero (by omega)
    subst this
    simp [readTokens] at h
  | succ f ih =>
    intro rest hl e h
    cases rest with
    | nil => simp [readTokens] at h
    | cons b t =>
      simp only [readTokens] at h
      split at h
      · simp at h; subst h; exact readToken_nf' ‹_›
      · have hs := readToken_shrinks ‹_›
        split at h
        · simp at h; subst h
          refine ih _ ?_ _ ‹_›
          simp only [List.length_cons] at hl hs; omega
        · simp at h

theorem configOf_nf' {docId : Nat} {e : Err} (h : configOf docId = .error e) : e ≠ .fuel := by
  unfold configOf at h
  repeat' split at h
  all_goals first
    | (simp at h; done)
    | (simp at h; subst h; decide)

theorem readCdt_nf' {d : DocId} {cfg : Config} {body : Bytes} {prev : Option Doc} {e : Err}
    (h : readCdt d cfg body prev = .error e) : e ≠ .fuel := by
  unfold readCdt at h
  repeat' split at h
  all_goals first
    | (simp at h; done)
    | (simp at h; subst h; first | exact readUL_nf' ‹_› | exact takeL_nf' ‹_›)

theorem readDocument_nf' {docId : Nat} {body : Bytes} {prev : Option Doc} {e : Err}
    (h : readDocument docId body prev = .error e) : e ≠ .fuel := by
  unfold readDocument at h
  split at h
  · simp at h; subst h; exact configOf_nf' ‹_›
  · split at h
    · simp at h; subst h; exact readCdt_nf' ‹_›
    · split at h
      · simp at h; subst h
        exact readTokens_nf _ _ _ _ (Nat.le_refl _) _ ‹_›
      · simp at h

/-- the document loop never exhausts a budget of "octets left + 1" -/
theorem parseDocs_nf : ∀ (fuel : Nat) (x : Bytes) (prev : Option Doc),
    x.length + 1 ≤ fuel → NF (parseDocs fuel x prev) := by
  intro fuel
  induction fuel with
  | zero => intro x prev hl; omega
  | succ f ih =>
    intro x prev hl e h
    simp only [parseDocs] at h
    split at h
    · simp at h; subst h; exact readUL_nf' ‹_›
    · have h1 := readUL_shrinks _ _ _ ‹_›
      split at h
      · simp at h; subst h; exact readUL_nf' ‹_›
      · have h2 := readUL_shrinks _ _ _ ‹_›
        split at h
        · simp at h; subst h; exact readDocument_nf' ‹_›
        · split at h
          · simp at h; subst h; decide
          · split at h
            · simp at h
            · split at h
              · simp at h; subst h
                refine ih _ _ ?_ _ ‹_›
                simp only [List.length_drop]; omega
              · simp at h


/-- `x` holds the documents `ds` one after the other: every header announces exactly the octets of its
document, the next document starts right behind them, the last one ends with the buffer -/
inductive Consumed : Bytes → Option Doc → List Doc → Prop
  | last (x r1 body : Bytes) (prev : Option Doc) (id : Nat) (d : Doc) :
      readUL x = .ok (id, r1) → readUL r1 = .ok (body.length, body) →
      readDocument id body prev = .ok d → Consumed x prev [d]
  | more (x r1 body rest : Bytes) (prev : Option Doc) (id : Nat) (d : Doc) (ds : List Doc) :
      readUL x = .ok (id, r1) → readUL r1 = .ok (body.length, body ++ rest) → rest ≠ [] →
      readDocument id body prev = .ok d → Consumed rest (some d) ds → Consumed x prev (d :: ds)

theorem parseDocs_consumed : ∀ (fuel : Nat) (x : Bytes) (prev : Option Doc) (ds : List Doc),
    parseDocs fuel x prev = .ok ds → Consumed x prev ds := by
  intro fuel
  induction fuel with
  | zero => intro x prev ds h; simp [parseDocs] at h
  | succ f ih =>
    intro x prev ds h
    simp only [parseDocs] at h
    split at h
    · simp at h
    · rename_i docId r1 hr1
      split at h
      · simp at h
      · rename_i docLen r2 hr2
        split at h
        · simp at h
        · rename_i doc hdoc
          split at h
          · simp at h
          · rename_i hlen
            have hl : docLen ≤ r2.length := by omega
            have hbody : (r2.take docLen).length = docLen := by simp [List.length_take]; omega
            have hsplit : r2.take docLen ++ r2.drop docLen = r2 := List.take_append_drop _ _
            split at h
            · rename_i hemp
              simp at h; subst h
              have hd : r2.drop docLen = [] := by simpa using hemp
              rw [hd, List.append_nil] at hsplit
              refine Consumed.last x r1 (r2.take docLen) prev docId doc hr1 ?_ hdoc
              rw [hbody, hsplit]; exact hr2
            · rename_i hemp
              split at h
              · simp at h
              · rename_i ds' hds'
                simp at h; subst h
                have hne : r2.drop docLen ≠ [] := by
                  intro h0; apply hemp; simp [h0]
                refine Consumed.more x r1 (r2.take docLen) (r2.drop docLen) prev docId doc ds' hr1 ?_ hne hdoc
                  (ih _ _ _ hds')
                rw [hbody, hsplit]; exact hr2

end Dmr.Lrrp
