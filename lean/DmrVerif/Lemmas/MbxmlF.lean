import DmrVerif.Lemmas.MbxmlS

/-!
# Lemmas for C14: fraction septets and the float writers / readers
-/

namespace Dmr.Mbxml

/-! ## write_fraction -/

theorem all_zero_eq_replicate : ∀ t : List Nat, t.all (· == 0) = true → t = List.replicate t.length 0 := by
  intro t
  induction t with
  | nil => intro _; rfl
  | cons x t ih =>
    intro h
    simp only [List.all_cons, Bool.and_eq_true, beq_iff_eq] at h
    rw [List.length_cons, List.replicate_succ, ← ih h.2, h.1]

theorem stripTrailing_spec : ∀ l : List Nat,
    ∃ j, l = stripTrailing l ++ List.replicate j 0 ∧ (l ≠ [] → stripTrailing l ≠ []) := by
  intro l
  induction l with
  | nil => exact ⟨0, rfl, fun h => absurd rfl h⟩
  | cons x t ih =>
    unfold stripTrailing
    by_cases hz : t.all (· == 0) = true
    · refine ⟨t.length, ?_, fun _ => by simp [hz]⟩
      rw [if_pos hz, List.singleton_append, ← all_zero_eq_replicate t hz]
    · obtain ⟨j, hj, _⟩ := ih
      refine ⟨j, ?_, fun _ => by simp [hz]⟩
      rw [if_neg hz, List.cons_append, ← hj]

theorem stripTrailing_mem (l : List Nat) : ∀ x ∈ stripTrailing l, x ∈ l := by
  obtain ⟨j, hj, _⟩ := stripTrailing_spec l
  intro x hx
  rw [hj]; exact List.mem_append_left _ hx

theorem fracSeptets_length (d : Nat) : ∀ p, (fracSeptets d p).length = p := by
  intro p; induction p with
  | zero => rfl
  | succ p ih => simp [fracSeptets, ih]

theorem fracSeptets_lt (d : Nat) : ∀ p, ∀ x ∈ fracSeptets d p, x < 128 := by
  intro p; induction p with
  | zero => intro x hx; simp [fracSeptets] at hx
  | succ p ih =>
    intro x hx
    simp only [fracSeptets, List.mem_cons] at hx
    rcases hx with hx | hx
    · subst hx; exact Nat.mod_lt _ (by omega)
    · exact ih x hx

theorem decGo_small : ∀ (l : List Nat) (acc : Nat), (∀ x ∈ l, x < 128) →
    decGo l acc = l.foldl (fun a b => a * 128 + b) acc := by
  intro l
  induction l with
  | nil => intro acc _; rfl
  | cons x t ih =>
    intro acc h
    have hx := h x (by simp)
    have : x % 128 = x := Nat.mod_eq_of_lt hx
    simp only [decGo, List.foldl_cons, this]
    exact ih _ (fun y hy => h y (by simp [hy]))

/-- the septets of `d` (most significant first) read as `d mod 128^p` -/
theorem decGo_fracSeptets (d : Nat) : ∀ (p acc : Nat),
    decGo (fracSeptets d p) acc = acc * 128 ^ p + d % 128 ^ p := by
  intro p
  induction p with
  | zero => intro acc; simp [fracSeptets, decGo, Nat.mod_one]
  | succ p ih =>
    intro acc
    rw [fracSeptets, decGo_cons, ih]
    have h1 : d / 128 ^ p % 128 % 128 = d / 128 ^ p % 128 := Nat.mod_mod _ _
    rw [h1, Nat.pow_succ, Nat.mod_mul, Nat.add_mul]
    have e1 : acc * 128 * 128 ^ p = acc * (128 ^ p * 128) := by
      rw [Nat.mul_assoc, Nat.mul_comm 128]
    have e2 : d / 128 ^ p % 128 * 128 ^ p = 128 ^ p * (d / 128 ^ p % 128) := Nat.mul_comm _ _
    rw [e1, e2]
    omega

theorem decGo_replicate_zero (l : List Nat) (acc : Nat) : ∀ j,
    decGo (l ++ List.replicate j 0) acc = decGo l acc * 128 ^ j := by
  intro j
  induction j with
  | zero => simp
  | succ j ih =>
    rw [List.replicate_succ', ← List.append_assoc, decGo_snoc, ih, Nat.pow_succ, Nat.mul_assoc]
    rfl

theorem lor_flag' (x : Nat) (h : x < 128) : Nat.lor x 128 = x + 128 := lor_flag x h

/-- the reader on the flagged septets `l` (all below 128), whatever follows -/
theorem readUGo_flagAll : ∀ (l : List Nat) (rest : Bytes) (acc : Nat), l ≠ [] → (∀ x ∈ l, x < 128) →
    readUGo (flagAllButLast l ++ rest) acc = .ok (decGo l acc, l.length) := by
  intro l
  induction l with
  | nil => intro _ _ h; exact absurd rfl h
  | cons s t ih =>
    intro rest acc _ hl
    have hs := hl s (by simp)
    cases t with
    | nil =>
      simp only [flagAllButLast, List.cons_append, List.nil_append]
      rw [readUGo_cons_last s rest acc hs]; rfl
    | cons s' t' =>
      simp only [flagAllButLast, List.cons_append, lor_flag' s hs]
      rw [readUGo_cons_flag (s + 128) _ acc (by omega)]
      have := ih rest (acc * 128 + (s + 128) % 128) (by simp) (fun y hy => hl y (by simp [hy]))
      rw [this]
      have e : (s + 128) % 128 = s % 128 := by omega
      simp [bump, decGo_cons, e]

theorem flagAllButLast_length : ∀ l : List Nat, (flagAllButLast l).length = l.length := by
  intro l
  induction l with
  | nil => rfl
  | cons s t ih =>
    cases t with
    | nil => rfl
    | cons s' t' => simp only [flagAllButLast, List.length_cons] at ih ⊢; omega

/-- `write_fraction(d, p)` read back: `dec` over `k` septets with `dec / 128^k = d / 128^p`, and at
most `p` septets, none of them a trailing zero septet -/
theorem readUGo_writeFraction (d p : Nat) (hp : 1 ≤ p) (hd : d < 128 ^ p) (rest : Bytes) :
    ∃ dec k, readUGo (writeFraction d p ++ rest) 0 = .ok (dec, k) ∧ k = (writeFraction d p).length
      ∧ 1 ≤ k ∧ k ≤ p ∧ dec * 128 ^ p = d * 128 ^ k := by
  obtain ⟨j, hj, hne⟩ := stripTrailing_spec (fracSeptets d p)
  have hl : (fracSeptets d p) ≠ [] := by
    intro h; have := fracSeptets_length d p; rw [h] at this; simp at this; omega
  have hlt : ∀ x ∈ stripTrailing (fracSeptets d p), x < 128 :=
    fun x hx => fracSeptets_lt d p x (stripTrailing_mem _ x hx)
  have hread := readUGo_flagAll _ rest 0 (hne hl) hlt
  have hlen : (stripTrailing (fracSeptets d p)).length + j = p := by
    have := congrArg List.length hj
    simp only [fracSeptets_length, List.length_append, List.length_replicate] at this
    omega
  have hval : decGo (stripTrailing (fracSeptets d p)) 0 * 128 ^ j = d := by
    have h1 := decGo_replicate_zero (stripTrailing (fracSeptets d p)) 0 j
    rw [← hj, decGo_fracSeptets, Nat.mod_eq_of_lt hd] at h1
    omega
  have hk : 1 ≤ (stripTrailing (fracSeptets d p)).length := by
    cases hq : stripTrailing (fracSeptets d p) with
    | nil => exact absurd hq (hne hl)
    | cons a b => simp
  refine ⟨_, _, hread, ?_, hk, by omega, ?_⟩
  · simp [writeFraction, flagAllButLast_length]
  · generalize (stripTrailing (fracSeptets d p)).length = k at hlen
    generalize decGo (stripTrailing (fracSeptets d p)) 0 = dec at hval
    subst hlen
    rw [← hval, Nat.pow_add, Nat.mul_assoc, Nat.mul_comm (128 ^ k)]

/-! ## the float writers and readers -/


theorem split_grid_aux (num E P i f : Nat) (hE : 0 < E) (hP : 0 < P) (hf : f < P)
    (hval : num * P = (i * P + f) * E) : num / E = i ∧ num % E * P / E = f := by
  have hexp : num * P = i * E * P + f * E := by
    rw [hval, Nat.add_mul, Nat.mul_right_comm]
  have lo : i * E ≤ num := by
    apply Nat.le_of_mul_le_mul_right (c := P) _ hP
    omega
  have hi : num < (i + 1) * E := by
    apply Nat.lt_of_mul_lt_mul_right (a := P)
    have h1 : f * E < P * E := Nat.mul_lt_mul_of_pos_right hf hE
    have h2 : (i + 1) * E * P = i * E * P + P * E := by
      rw [Nat.add_mul, Nat.add_mul, Nat.one_mul, Nat.mul_comm E P]
    omega
  have hdiv : num / E = i := Nat.div_eq_of_lt_le lo hi
  refine ⟨hdiv, ?_⟩
  have hdm := Nat.div_add_mod num E
  rw [hdiv] at hdm
  have hr : num % E * P = f * E := by
    have h3 : (E * i + num % E) * P = i * E * P + f * E := by rw [hdm]; exact hexp
    rw [Nat.add_mul, Nat.mul_comm E i] at h3
    omega
  rw [hr, Nat.mul_div_cancel _ hE]



theorem readU_at (pre x : Bytes) : readU (pre ++ x) pre.length = shift pre.length (readUGo x 0) := by
  simp [readU]

theorem pow2_pos (e : Nat) : 0 < 2 ^ e := Nat.pow_pos (by omega)
theorem pow128_pos (p : Nat) : 0 < 128 ^ p := Nat.pow_pos (by omega)

/-- the fraction numerator the writers compute is below `128^p` -/
theorem decPart_lt (num exp p : Nat) : num % 2 ^ exp * 128 ^ p / 2 ^ exp < 128 ^ p := by
  have h := Nat.mod_lt num (pow2_pos exp)
  apply Nat.div_lt_of_lt_mul
  exact Nat.mul_lt_mul_of_pos_right h (pow128_pos p)

theorem writeUF_eq (num exp p : Nat) (hp : 1 ≤ p) (hi : num / 2 ^ exp ≤ UINTVAR_MAX) :
    writeUF num exp p
      = .ok (encU (num / 2 ^ exp) ++ writeFraction (num % 2 ^ exp * 128 ^ p / 2 ^ exp) p) := by
  have h1 : ¬ (p < 1) := by omega
  have h2 : ¬ (num / 2 ^ exp > UINTVAR_MAX) := by omega
  simp only [writeUF, h1, if_false, writeU, h2, writeURaw_eq]

/-- unsigned float: integer part and fraction septets read back -/
theorem readUF_parts (i d p : Nat) (hp : 1 ≤ p) (hd : d < 128 ^ p) (rest : Bytes) :
    ∃ dec k, readUF (encU i ++ writeFraction d p ++ rest) 0
        = .ok ⟨false, i, dec, k, (encU i ++ writeFraction d p).length⟩
      ∧ 1 ≤ k ∧ k ≤ p ∧ dec * 128 ^ p = d * 128 ^ k := by
  obtain ⟨dec, k, hr, hk, hk1, hkp, hv⟩ := readUGo_writeFraction d p hp hd rest
  refine ⟨dec, k, ?_, hk1, hkp, hv⟩
  have h1 : readU (encU i ++ writeFraction d p ++ rest) 0 = .ok (i, (encU i).length) := by
    have := readU_encU [] i (writeFraction d p ++ rest)
    simpa [List.append_assoc] using this
  have h2 : readU (encU i ++ writeFraction d p ++ rest) (encU i).length
      = .ok (dec, (encU i).length + k) := by
    rw [List.append_assoc, readU_at, hr]; rfl
  simp only [readUF, h1, h2, List.length_append, ← hk]
  congr 2
  omega

theorem writeS_eq (ip : Nat) (isNeg : Bool) (h : ip ≤ SINTVAR_MAX) :
    writeS (applySign isNeg ip) isNeg = .ok (writeSRaw ip isNeg) := by
  have habs : (applySign isNeg ip).natAbs = ip := by
    cases isNeg <;> simp [applySign]
  have h2 : ¬ (ip > SINTVAR_MAX) := by omega
  simp only [writeS, habs, h2, if_false]
  cases isNeg
  · have : decide (applySign false ip ≥ 0) = true := by simp [applySign]
    simp [this]
  · simp

theorem writeSF_eq (neg : Bool) (num exp p : Nat) (hp : 1 ≤ p) (hi : num / 2 ^ exp ≤ SINTVAR_MAX) :
    writeSF neg num exp p
      = .ok (writeSRaw (num / 2 ^ exp) (neg && num != 0)
          ++ writeFraction (num % 2 ^ exp * 128 ^ p / 2 ^ exp) p) := by
  have h1 : ¬ (p < 1) := by omega
  simp only [writeSF, h1, if_false, writeS_eq _ _ hi]

/-- signed float: sign, integer part and fraction septets read back -/
theorem readSF_parts (neg : Bool) (i d p : Nat) (hp : 1 ≤ p) (hd : d < 128 ^ p) (rest : Bytes) :
    ∃ dec k, readSF (writeSRaw i neg ++ writeFraction d p ++ rest) 0
        = .ok ⟨neg, i, dec, k, (writeSRaw i neg ++ writeFraction d p).length⟩
      ∧ 1 ≤ k ∧ k ≤ p ∧ dec * 128 ^ p = d * 128 ^ k := by
  obtain ⟨dec, k, hr, hk, hk1, hkp, hv⟩ := readUGo_writeFraction d p hp hd rest
  refine ⟨dec, k, ?_, hk1, hkp, hv⟩
  have h1 : readS (writeSRaw i neg ++ writeFraction d p ++ rest) 0
      = .ok (applySign neg i, (writeSRaw i neg).length, neg) := by
    rw [List.append_assoc]; exact readS_writeSRaw i neg _
  have h2 : readU (writeSRaw i neg ++ writeFraction d p ++ rest) (writeSRaw i neg).length
      = .ok (dec, (writeSRaw i neg).length + k) := by
    rw [List.append_assoc, readU_at, hr]; rfl
  have habs : (applySign neg i).natAbs = i := by cases neg <;> simp [applySign]
  simp only [readSF, h1, h2, List.length_append, ← hk, habs]
  congr 2
  omega

end Dmr.Mbxml
