-- FROZEN copy of Gen/Lrrp.lean as of the verified tree: the reference LRRP tables (what the tokens ARE).

import DmrVerif.Model.LrrpTypes

namespace Dmr.Ref.Lrrp
open Dmr.Lrrp

/-- every member of `MBXMLDocumentIdentifier` in definition order (`resolve` walks it) -/
def docIds : List DocId := [
  ⟨0, false, .other⟩,
  ⟨1, true, .other⟩,
  ⟨2, false, .other⟩,
  ⟨3, true, .other⟩,
  ⟨4, false, .lrrp⟩,
  ⟨5, true, .lrrp⟩,
  ⟨6, false, .lrrp⟩,
  ⟨7, true, .lrrp⟩,
  ⟨8, false, .lrrp⟩,
  ⟨9, true, .lrrp⟩,
  ⟨10, false, .lrrp⟩,
  ⟨11, true, .lrrp⟩,
  ⟨12, false, .lrrp⟩,
  ⟨13, true, .lrrp⟩,
  ⟨14, false, .lrrp⟩,
  ⟨15, true, .lrrp⟩,
  ⟨16, false, .lrrp⟩,
  ⟨17, true, .lrrp⟩,
  ⟨18, false, .lrrp⟩,
  ⟨19, true, .lrrp⟩,
  ⟨20, true, .lrrp⟩,
  ⟨21, true, .lrrp⟩,
  ⟨22, false, .arrp⟩,
  ⟨23, true, .arrp⟩,
  ⟨24, false, .arrp⟩,
  ⟨25, true, .arrp⟩,
  ⟨26, false, .arrp⟩,
  ⟨27, true, .arrp⟩,
  ⟨28, false, .arrp⟩,
  ⟨29, true, .arrp⟩,
  ⟨30, false, .arrp⟩,
  ⟨31, true, .arrp⟩,
  ⟨32, false, .arrp⟩,
  ⟨33, true, .arrp⟩,
  ⟨34, false, .arrp⟩,
  ⟨35, true, .arrp⟩,
  ⟨36, false, .arrp⟩,
  ⟨37, true, .arrp⟩,
  ⟨38, true, .arrp⟩,
  ⟨39, true, .arrp⟩]

def elements0 : List ElemTok := [⟨34, "request-id", .OPAQUE_I, none, []⟩,
    ⟨35, "request-id", .OPAQUE_I, (some 1), []⟩,
    ⟨36, "request-id", .OPAQUE_T, none, []⟩,
    ⟨49, "interval", .UINTVAR, none, []⟩,
    ⟨51, "oneshot-trigger", .NO_VALUE, none, []⟩,
    ⟨52, "periodic-trigger", .NO_VALUE, none, []⟩,
    ⟨84, "request-altitude", .NO_VALUE, none, []⟩,
    ⟨85, "request-altitude-acc", .UINTVAR, none, []⟩,
    ⟨86, "request-altitude-acc", .UFLOATVAR, none, []⟩,
    ⟨87, "request-direction-hor", .NO_VALUE, none, []⟩,
    ⟨95, "request-hor-acc", .UINTVAR, none, []⟩,
    ⟨96, "request-hor-acc", .UFLOATVAR, none, []⟩,
    ⟨97, "request-lev-conf", .UINT8, none, []⟩,
    ⟨63, "request-protocol-version", .UINTVAR, none, []⟩,
    ⟨98, "request-speed-hor", .NO_VALUE, none, []⟩,
    ⟨100, "request-speed-vrt", .NO_VALUE, none, []⟩,
    ⟨66, "require-max-info-age", .UINTVAR, none, []⟩,
    ⟨102, "require-altitude", .NO_VALUE, none, []⟩,
    ⟨103, "require-altitude-acc", .UINTVAR, none, []⟩,
    ⟨104, "require-altitude-acc", .UFLOATVAR, none, []⟩,
    ⟨105, "require-direction-hor", .NO_VALUE, none, []⟩,
    ⟨113, "require-hor-acc", .UINTVAR, none, []⟩,
    ⟨114, "require-hor-acc", .UFLOATVAR, none, []⟩,
    ⟨115, "require-lev-conf", .UINT8, none, []⟩,
    ⟨116, "require-speed-hor", .NO_VALUE, none, []⟩,
    ⟨118, "require-speed-vrt", .NO_VALUE, none, []⟩,
    ⟨80, "ret-info", .NO_VALUE, none, [80]⟩,
    ⟨81, "ret-info", .NO_VALUE, none, [81, 84]⟩,
    ⟨82, "ret-info", .NO_VALUE, none, [84]⟩,
    ⟨83, "ret-info", .NO_VALUE, none, []⟩,
    ⟨74, "trg-condition", .UINTVAR, none, []⟩]

def elements1 : List ElemTok := [⟨34, "request-id", .OPAQUE_I, none, []⟩,
    ⟨35, "request-id", .OPAQUE_I, (some 1), []⟩,
    ⟨36, "request-id", .OPAQUE_T, none, []⟩,
    ⟨81, "circle-2d", .CIRCLE_2D, none, []⟩,
    ⟨84, "circle-3d", .CIRCLE_3D, none, []⟩,
    ⟨85, "circle-3d", .CIRCLE_3D, none, []⟩,
    ⟨86, "direction-hor", .UINT8, none, []⟩,
    ⟨52, "info-time", .INFO_TIME, (some 5), []⟩,
    ⟨53, "info-time", .INFO_TIME, none, []⟩,
    ⟨101, "lev-conf", .UINT8, none, []⟩,
    ⟨102, "point-2d", .POINT_2D, none, []⟩,
    ⟨105, "point-3d", .POINT_3D, none, []⟩,
    ⟨106, "point-3d", .POINT_3D_WITH_ACC, none, []⟩,
    ⟨54, "protocol-version", .UINTVAR, none, []⟩,
    ⟨55, "result", .OPAQUE_I, (some 0), [34]⟩,
    ⟨56, "result", .OPAQUE_I, (some 0), [35]⟩,
    ⟨57, "result", .OPAQUE_I, none, [34]⟩,
    ⟨108, "speed-hor", .UFLOATVAR, none, []⟩,
    ⟨112, "speed-vrt", .SFLOATVAR, none, []⟩,
    ⟨107, "unknown-uint8", .UINT8, none, []⟩]

def elements2 : List ElemTok := [⟨34, "request-id", .OPAQUE_I, none, []⟩,
    ⟨35, "request-id", .OPAQUE_I, (some 1), []⟩,
    ⟨36, "request-id", .OPAQUE_T, none, []⟩]

/-- `get_configuration(doc)[ELEMENT_TOKEN]` (merged dict, dict order) per LRRP document id -/
def elementTable : Nat → Option (List ElemTok)
  | 4 => some elements0
  | 5 => some elements0
  | 6 => some elements1
  | 7 => some elements1
  | 8 => some elements0
  | 9 => some elements0
  | 10 => some elements2
  | 11 => some elements2
  | 12 => some elements1
  | 13 => some elements1
  | 14 => some elements0
  | 15 => some elements0
  | 16 => some elements1
  | 17 => some elements1
  | 18 => some elements1
  | 19 => some elements1
  | 20 => some elements0
  | 21 => some elements1
  | _ => none

def attributes0 : List AttrTok := [⟨34, "result-code", .UINTVAR, none, none, true⟩,
    ⟨35, "result-code", .UINTVAR, (some 0), (some 0), true⟩,
    ⟨80, "ret-info-accuracy", .STR8_ST, (some 73), none, true⟩,
    ⟨81, "ret-info-accuracy", .STR8_ST, (some 73), none, false⟩,
    ⟨82, "ret-info-no-req-id", .STR8_ST, (some 73), none, true⟩,
    ⟨83, "ret-info-no-req-id", .STR8_ST, (some 73), none, false⟩,
    ⟨84, "ret-info-time", .STR8_ST, (some 73), none, true⟩,
    ⟨85, "ret-info-time", .STR8_ST, (some 73), none, false⟩]

/-- `get_configuration(doc)[ATTRIBUTE_TOKEN]` per LRRP document id -/
def attributeTable : Nat → Option (List AttrTok)
  | 4 => some attributes0
  | 5 => some attributes0
  | 6 => some attributes0
  | 7 => some attributes0
  | 8 => some attributes0
  | 9 => some attributes0
  | 10 => some attributes0
  | 11 => some attributes0
  | 12 => some attributes0
  | 13 => some attributes0
  | 14 => some attributes0
  | 15 => some attributes0
  | 16 => some attributes0
  | 17 => some attributes0
  | 18 => some attributes0
  | 19 => some attributes0
  | 20 => some attributes0
  | 21 => some attributes0
  | _ => none

/-- values of the `STR8_I` constants, in index order -/
def constants0 : List String := ["HIGH", "NORMAL", "APCO", "IPV4", "IPV6", "PLMN", "TETRA", "USER-SPECIFIED", "http://", "http://www.", "YES", "NO", "LTD"]

/-- `MBXML.build_constants_table` for these documents, as the code computed it on this run -/
def constants0Built : List Nat := [4, 72, 73, 71, 72, 6, 78, 79, 82, 77, 65, 76, 4, 65, 80, 67, 79, 4, 73, 80, 86, 52, 4, 73,
    80, 86, 54, 4, 80, 76, 77, 78, 5, 84, 69, 84, 82, 65, 14, 85, 83, 69, 82, 45, 83, 80, 69, 67,
    73, 70, 73, 69, 68, 7, 104, 116, 116, 112, 58, 47, 47, 11, 104, 116, 116, 112, 58, 47, 47, 119, 119, 119,
    46, 3, 89, 69, 83, 2, 78, 79, 3, 76, 84, 68]

/-- `get_configuration(doc)[CONSTANT_TOKEN]` (values, built table) per LRRP document id -/
def constantTable : Nat → Option (List String × List Nat)
  | 4 => some (constants0, constants0Built)
  | 5 => some (constants0, constants0Built)
  | 6 => some (constants0, constants0Built)
  | 7 => some (constants0, constants0Built)
  | 8 => some (constants0, constants0Built)
  | 9 => some (constants0, constants0Built)
  | 10 => some (constants0, constants0Built)
  | 11 => some (constants0, constants0Built)
  | 12 => some (constants0, constants0Built)
  | 13 => some (constants0, constants0Built)
  | 14 => some (constants0, constants0Built)
  | 15 => some (constants0, constants0Built)
  | 16 => some (constants0, constants0Built)
  | 17 => some (constants0, constants0Built)
  | 18 => some (constants0, constants0Built)
  | 19 => some (constants0, constants0Built)
  | 20 => some (constants0, constants0Built)
  | 21 => some (constants0, constants0Built)
  | _ => none

/-- `LRRP.get_known_tokens(is_request=True)`: the dicts in list order, each in dict order -/
def knownTokensRequest : List (List ElemTok) := [
  [⟨34, "request-id", .OPAQUE_I, none, []⟩,
    ⟨35, "request-id", .OPAQUE_I, (some 1), []⟩,
    ⟨36, "request-id", .OPAQUE_T, none, []⟩],
  [⟨49, "interval", .UINTVAR, none, []⟩,
    ⟨51, "oneshot-trigger", .NO_VALUE, none, []⟩,
    ⟨52, "periodic-trigger", .NO_VALUE, none, []⟩,
    ⟨84, "request-altitude", .NO_VALUE, none, []⟩,
    ⟨85, "request-altitude-acc", .UINTVAR, none, []⟩,
    ⟨86, "request-altitude-acc", .UFLOATVAR, none, []⟩,
    ⟨87, "request-direction-hor", .NO_VALUE, none, []⟩,
    ⟨95, "request-hor-acc", .UINTVAR, none, []⟩,
    ⟨96, "request-hor-acc", .UFLOATVAR, none, []⟩,
    ⟨97, "request-lev-conf", .UINT8, none, []⟩,
    ⟨63, "request-protocol-version", .UINTVAR, none, []⟩,
    ⟨98, "request-speed-hor", .NO_VALUE, none, []⟩,
    ⟨100, "request-speed-vrt", .NO_VALUE, none, []⟩,
    ⟨66, "require-max-info-age", .UINTVAR, none, []⟩,
    ⟨102, "require-altitude", .NO_VALUE, none, []⟩,
    ⟨103, "require-altitude-acc", .UINTVAR, none, []⟩,
    ⟨104, "require-altitude-acc", .UFLOATVAR, none, []⟩,
    ⟨105, "require-direction-hor", .NO_VALUE, none, []⟩,
    ⟨113, "require-hor-acc", .UINTVAR, none, []⟩,
    ⟨114, "require-hor-acc", .UFLOATVAR, none, []⟩,
    ⟨115, "require-lev-conf", .UINT8, none, []⟩,
    ⟨116, "require-speed-hor", .NO_VALUE, none, []⟩,
    ⟨118, "require-speed-vrt", .NO_VALUE, none, []⟩,
    ⟨80, "ret-info", .NO_VALUE, none, [80]⟩,
    ⟨81, "ret-info", .NO_VALUE, none, [81, 84]⟩,
    ⟨82, "ret-info", .NO_VALUE, none, [84]⟩,
    ⟨83, "ret-info", .NO_VALUE, none, []⟩,
    ⟨74, "trg-condition", .UINTVAR, none, []⟩]]

/-- `LRRP.get_known_tokens(is_request=False)`: the dicts in list order, each in dict order -/
def knownTokensAnswer : List (List ElemTok) := [
  [⟨34, "request-id", .OPAQUE_I, none, []⟩,
    ⟨35, "request-id", .OPAQUE_I, (some 1), []⟩,
    ⟨36, "request-id", .OPAQUE_T, none, []⟩],
  [⟨81, "circle-2d", .CIRCLE_2D, none, []⟩,
    ⟨84, "circle-3d", .CIRCLE_3D, none, []⟩,
    ⟨85, "circle-3d", .CIRCLE_3D, none, []⟩,
    ⟨86, "direction-hor", .UINT8, none, []⟩,
    ⟨52, "info-time", .INFO_TIME, (some 5), []⟩,
    ⟨53, "info-time", .INFO_TIME, none, []⟩,
    ⟨101, "lev-conf", .UINT8, none, []⟩,
    ⟨102, "point-2d", .POINT_2D, none, []⟩,
    ⟨105, "point-3d", .POINT_3D, none, []⟩,
    ⟨106, "point-3d", .POINT_3D_WITH_ACC, none, []⟩,
    ⟨54, "protocol-version", .UINTVAR, none, []⟩,
    ⟨55, "result", .OPAQUE_I, (some 0), [34]⟩,
    ⟨56, "result", .OPAQUE_I, (some 0), [35]⟩,
    ⟨57, "result", .OPAQUE_I, none, [34]⟩,
    ⟨108, "speed-hor", .UFLOATVAR, none, []⟩,
    ⟨112, "speed-vrt", .SFLOATVAR, none, []⟩,
    ⟨107, "unknown-uint8", .UINT8, none, []⟩]]

/-- `LRRP.get_known_attributes(is_request=True)` -/
def knownAttributesRequest : List (List AttrTok) := [
  [⟨34, "result-code", .UINTVAR, none, none, true⟩,
    ⟨35, "result-code", .UINTVAR, (some 0), (some 0), true⟩,
    ⟨80, "ret-info-accuracy", .STR8_ST, (some 73), none, true⟩,
    ⟨81, "ret-info-accuracy", .STR8_ST, (some 73), none, false⟩,
    ⟨82, "ret-info-no-req-id", .STR8_ST, (some 73), none, true⟩,
    ⟨83, "ret-info-no-req-id", .STR8_ST, (some 73), none, false⟩,
    ⟨84, "ret-info-time", .STR8_ST, (some 73), none, true⟩,
    ⟨85, "ret-info-time", .STR8_ST, (some 73), none, false⟩]]

/-- `LRRP.get_known_attributes(is_request=False)` -/
def knownAttributesAnswer : List (List AttrTok) := [
  [⟨34, "result-code", .UINTVAR, none, none, true⟩,
    ⟨35, "result-code", .UINTVAR, (some 0), (some 0), true⟩,
    ⟨80, "ret-info-accuracy", .STR8_ST, (some 73), none, true⟩,
    ⟨81, "ret-info-accuracy", .STR8_ST, (some 73), none, false⟩,
    ⟨82, "ret-info-no-req-id", .STR8_ST, (some 73), none, true⟩,
    ⟨83, "ret-info-no-req-id", .STR8_ST, (some 73), none, false⟩,
    ⟨84, "ret-info-time", .STR8_ST, (some 73), none, true⟩,
    ⟨85, "ret-info-time", .STR8_ST, (some 73), none, false⟩]]

end Dmr.Ref.Lrrp
