import DmrVerif.Lemmas.TrackerStep

/-!
# Time slot, terminal and whole histories (C08)

`SlotInv` = the invariant of one time slot together with the reference bookkeeping `SG` of what that slot
has emitted; `run_inv` carries it over arbitrary finite histories on two interleaved slots.
-/

namespace Dmr.Tracker

/-! ## the entropy oracle only moves forward -/

theorem endData_oracle_le (m : M) : m.oracle ≤ (endData m).oracle := by
  unfold endData; split
  · exact Nat.le_refl _
  · split
    · exact Nat.le_refl _
    · simp [newIdle, resetTx]

theorem newTx_oracle_le (m : M) (t) : m.oracle ≤ (newTx m t).oracle := by
  unfold newTx
  have h1 : m.oracle ≤ (if (t != .idle && m.tx.type == .data) = true then endData m else m).oracle := by
    split
    · exact endData_oracle_le m
    · exact Nat.le_refl _
  generalize (if (t != .idle && m.tx.type == .data) = true then endData m else m) = m1 at h1
  split <;> simp [resetTx] <;> omega

theorem ensureTx_oracle_le (m : M) (t) : m.oracle ≤ (ensureTx m t).oracle := by
  unfold ensureTx; split
  · exact newTx_oracle_le m t
  · exact Nat.le_refl _

theorem endVoice_oracle_le (m : M) : m.oracle ≤ (endVoice m).oracle := by
  unfold endVoice; split
  · exact Nat.le_refl _
  · split
    · exact Nat.le_trans (by simp) (newTx_oracle_le _ _)
    · exact newTx_oracle_le _ _

theorem endTransmissions_oracle_le (m : M) : m.oracle ≤ (endTransmissions m).oracle := by
  unfold endTransmissions; split
  · exact endData_oracle_le m
  · exact endVoice_oracle_le m
  · exact Nat.le_refl _

theorem trailing_oracle_le (m : M) : m.oracle ≤ (trailing m).oracle := by
  unfold trailing; split
  · exact endTransmissions_oracle_le m
  · exact Nat.le_refl _

theorem dispatch_oracle_le {m m' : M} {p} (h : dispatch m p = .ok m') : m.oracle ≤ m'.oracle := by
  cases p with
  | voiceHeader raw =>
    cases h; simpa [processVoiceHeader] using ensureTx_oracle_le m .voice
  | dataHeader dh =>
    cases h; simpa [processDataHeader] using ensureTx_oracle_le m .data
  | csbk pre btf raw =>
    cases h; simpa [processCsbk] using ensureTx_oracle_le m .data
  | terminator raw =>
    cases h
    exact endVoice_oracle_le { m with tx := { m.tx with received := m.tx.received + 1 } }
  | voice s => cases h; exact Nat.le_refl _
  | other => cases h; exact Nat.le_refl _
  | rate r bits =>
    simp only [dispatch] at h
    split at h
    · cases h
    · cases h
      rename_i blk _
      unfold processData
      split
      · exact endData_oracle_le
          { (m.emit (.append blk)) with
            tx := { m.tx with received := m.tx.received + 1, blocks := m.tx.blocks ++ [blk] } }
      · exact Nat.le_refl _

theorem processPacket_oracle_le {m m' : M} {p l} (h : processPacket m p = .ok (m', l)) :
    m.oracle ≤ m'.oracle := by
  rw [processPacket_eq] at h
  split at h
  · cases h
  · rename_i tx lbl hf
    split at h
    · cases h
    · rename_i m1 hd
      cases h
      exact Nat.le_trans (dispatch_oracle_le (m := { m with tx := tx }) hd) (trailing_oracle_le m1)

/-! ## bookkeeping of one time slot -/

structure SG where
  ga : GA := {}
  /-- bursts since the burst that delivered the last end -/
  n : Nat := 0
  seqok : Bool := true

def SG.stepOut (g : SG) (o : Out) : SG :=
  { ga := o.acts.foldl GA.step g.ga
    seqok := g.seqok && o.seq == (g.n + 1) % 256
    n := if o.deliveredEnd then 0 else g.n + 1 }

def SG.run (g : SG) (outs : List Out) : SG := outs.foldl SG.stepOut g

structure SlotInv (s : Slot) (g : SG) (oracle : Nat) : Prop where
  good : MGood g.ga { tx := s.tx, oracle := oracle }
  reset : s.reset = false
  lv : s.tx.type ≠ .voice → s.tx.lastVoice = .unknown
  nolast : s.tx.type = .voice → isLastBlock s.tx false = false
  rx : s.rxSeq = g.n % 256
  seqok : g.seqok = true

theorem MGood.rebase {g0 m} (h : MGood g0 m) :
    MGood (m.acts.foldl GA.step g0) { tx := m.tx, oracle := m.oracle } :=
  ⟨h.fin, h.shape, h.ok, h.kinds, h.sync, h.fresh⟩

theorem SlotInv.mono {s g o o'} (h : SlotInv s g o) (hle : o ≤ o') : SlotInv s g o' :=
  ⟨⟨h.good.fin, h.good.shape, h.good.ok, h.good.kinds, h.good.sync,
    Nat.lt_of_lt_of_le h.good.fresh hle⟩, h.reset, h.lv, h.nolast, h.rx, h.seqok⟩

theorem Slot.process_inv {s : Slot} {g : SG} {o : Nat} (h : SlotInv s g o) (b : AbsBurst)
    (hwf : b.wf = true) :
    ∃ s' o' out, s.process o b = .ok (s', o', out) ∧ SlotInv s' (g.stepOut out) o' ∧ o ≤ o' := by
  obtain ⟨p, c⟩ := b
  obtain ⟨m', l, hp, hg, hlv, hnl⟩ := processPacket_good h.good p c hwf h.lv h.nolast
  have hle := processPacket_oracle_le hp
  simp only at hle
  unfold Slot.process
  simp only [hp, h.reset, Bool.false_or]
  by_cases he : (events m'.acts).any Event.isEnded = true
  · refine ⟨_, _, _, rfl, ?_, hle⟩
    simp only [he, ↓reduceIte]
    refine ⟨?_, rfl, hlv, hnl, ?_, ?_⟩
    · exact hg.rebase
    · simp [SG.stepOut, Out.deliveredEnd, he]
    · simp [SG.stepOut, h.seqok, h.rx]
  · refine ⟨_, _, _, rfl, ?_, hle⟩
    simp only [he, Bool.false_eq_true, ↓reduceIte]
    refine ⟨?_, rfl, hlv, hnl, ?_, ?_⟩
    · exact hg.rebase
    · simp [SG.stepOut, Out.deliveredEnd, he, h.rx]
    · simp [SG.stepOut, h.seqok, h.rx]

/-! ## terminal and histories -/

structure TInv (t : Terminal) (g1 g2 : SG) : Prop where
  i1 : SlotInv t.s1 g1 t.oracle
  i2 : SlotInv t.s2 g2 t.oracle

theorem Terminal.step_inv {t : Terminal} {g1 g2 : SG} (h : TInv t g1 g2) (inp : Bool × AbsBurst)
    (hwf : inp.2.wf = true) :
    ∃ t' out, t.step inp = .ok (t', out)
      ∧ TInv t' (if inp.1 then g1 else g1.stepOut out) (if inp.1 then g2.stepOut out else g2) := by
  obtain ⟨two, b⟩ := inp
  cases two with
  | false =>
    obtain ⟨s', o', out, hp, hi, hle⟩ := Slot.process_inv h.i1 b hwf
    refine ⟨{ (t.setSlot false s') with oracle := o', obs := deliver t.obs out.acts }, out, ?_, ?_⟩
    · simp [Terminal.step, Terminal.slot, hp]
    · exact ⟨by simpa [Terminal.setSlot] using hi, by simpa [Terminal.setSlot] using h.i2.mono hle⟩
  | true =>
    obtain ⟨s', o', out, hp, hi, hle⟩ := Slot.process_inv h.i2 b hwf
    refine ⟨{ (t.setSlot true s') with oracle := o', obs := deliver t.obs out.acts }, out, ?_, ?_⟩
    · simp [Terminal.step, Terminal.slot, hp]
    · exact ⟨by simpa [Terminal.setSlot] using h.i1.mono hle, by simpa [Terminal.setSlot] using hi⟩

theorem outsOf_cons (two : Bool) (r : Rec) (recs : List Rec) :
    outsOf two (r :: recs) = if r.two = two then r.out :: outsOf two recs else outsOf two recs := by
  unfold outsOf
  by_cases h : r.two = two <;> simp [List.filter_cons, h]

theorem run_inv (h : List (Bool × AbsBurst)) :
    ∀ (t : Terminal) (g1 g2 : SG), TInv t g1 g2 → (∀ x ∈ h, x.2.wf = true) →
      ∃ t' recs, run t h = .ok (t', recs)
        ∧ TInv t' (g1.run (outsOf false recs)) (g2.run (outsOf true recs))
        ∧ recs.map (fun r => (r.two, r.burst)) = h := by
  induction h with
  | nil => intro t g1 g2 hi _; exact ⟨t, [], rfl, hi, rfl⟩
  | cons inp rest ih =>
    intro t g1 g2 hi hwf
    obtain ⟨t1, out, hs, hi1⟩ := Terminal.step_inv hi inp (hwf inp (by simp))
    obtain ⟨t2, recs, hr, hi2, hm⟩ := ih t1 _ _ hi1 (fun x hx => hwf x (by simp [hx]))
    refine ⟨t2, { two := inp.1, burst := inp.2, out := out } :: recs, ?_, ?_, ?_⟩
    · simp [run, hs, hr]
    · cases h1 : inp.1 <;> simp [outsOf_cons, h1, SG.run] at hi2 ⊢ <;> exact hi2
    · simp [hm]

/-! ## from the combined bookkeeping to the three checkers of the specification -/

theorem SG.run_ga (outs : List Out) : ∀ g : SG,
    (g.run outs).ga = (outs.flatMap (·.acts)).foldl GA.step g.ga := by
  induction outs with
  | nil => intro g; rfl
  | cons o r ih =>
    intro g
    simp only [SG.run, List.foldl_cons, List.flatMap_cons, List.foldl_append] at ih ⊢
    rw [ih]; rfl

theorem SG.run_seqok (outs : List Out) : ∀ g : SG,
    (g.run outs).seqok = (g.seqok && seqOk g.n outs) := by
  induction outs with
  | nil => intro g; simp [SG.run, seqOk]
  | cons o r ih =>
    intro g
    simp only [SG.run, List.foldl_cons] at ih ⊢
    rw [ih]
    simp [SG.stepOut, seqOk, Bool.and_assoc]

@[simp] theorem events_nil : events [] = [] := rfl
theorem events_cons_ev (e : Event) (acts : List Act) : events (.ev e :: acts) = e :: events acts := by
  simp [events, Act.event?]
theorem events_cons_append (b : Block) (acts : List Act) : events (.append b :: acts) = events acts := by
  simp [events, List.filterMap_cons, Act.event?]
theorem events_cons_setHeader (h : Hdr) (acts : List Act) :
    events (.setHeader h :: acts) = events acts := by
  simp [events, List.filterMap_cons, Act.event?]
theorem events_append (a b : List Act) : events (a ++ b) = events a ++ events b := by
  simp [events, List.filterMap_append]

theorem ga_wb (acts : List Act) : ∀ (g : GA) (w : WB), g.open_ = w.open_ → (g.ok = true → w.ok = true) →
    (acts.foldl GA.step g).open_ = ((events acts).foldl WB.step w).open_
      ∧ ((acts.foldl GA.step g).ok = true → ((events acts).foldl WB.step w).ok = true) := by
  induction acts with
  | nil => intro g w ho hk; exact ⟨ho, hk⟩
  | cons a r ih =>
    intro g w ho hk
    cases a with
    | append b => simpa [events_cons_append, GA.step] using ih { g with acc := g.acc ++ [b] } w ho hk
    | setHeader h => simpa [events_cons_setHeader, GA.step] using ih { g with hdr := some h } w ho hk
    | ev e =>
      rw [events_cons_ev]
      simp only [List.foldl_cons]
      cases e with
      | started t => exact ih _ _ (by simp [GA.step, WB.step]) (by simpa [GA.step, WB.step] using hk)
      | dataEnded hd bl =>
        refine ih _ _ (by simp [GA.step, WB.step]) ?_
        simp only [GA.step, WB.step, Bool.and_eq_true, beq_iff_eq]
        rintro ⟨⟨⟨h1, h2⟩, _⟩, _⟩
        exact ⟨hk h1, by rw [← ho]; simpa using h2⟩
      | voiceEnded hd bl =>
        refine ih _ _ (by simp [GA.step, WB.step]) ?_
        simp only [GA.step, WB.step, Bool.and_eq_true, beq_iff_eq]
        rintro ⟨⟨⟨h1, h2⟩, _⟩, _⟩
        exact ⟨hk h1, by rw [← ho]; simpa using h2⟩

theorem ga_pl (acts : List Act) : ∀ (g : GA) (p : PL), g.hdr = p.hdr → g.acc = p.acc →
    (g.ok = true → p.ok = true) →
    ((acts.foldl GA.step g).ok = true → (acts.foldl PL.step p).ok = true) := by
  induction acts with
  | nil => intro g p _ _ hk; exact hk
  | cons a r ih =>
    intro g p hh ha hk
    simp only [List.foldl_cons]
    cases a with
    | append b => exact ih _ _ (by simp [GA.step, PL.step, hh]) (by simp [GA.step, PL.step, ha]) (by simpa [GA.step, PL.step] using hk)
    | setHeader h => exact ih _ _ (by simp [GA.step, PL.step]) (by simp [GA.step, PL.step, ha]) (by simpa [GA.step, PL.step] using hk)
    | ev e =>
      cases e with
      | started t => exact ih _ _ (by simp [GA.step, PL.step]) (by simp [GA.step, PL.step]) (by simpa [GA.step, PL.step] using hk)
      | dataEnded hd bl =>
        refine ih _ _ (by simp [GA.step, PL.step, hh]) (by simp [GA.step, PL.step, ha]) ?_
        simp only [GA.step, PL.step, Bool.and_eq_true, beq_iff_eq]
        rintro ⟨⟨⟨h1, _⟩, h3⟩, h4⟩
        exact ⟨⟨hk h1, by rw [← hh]; simpa using h3⟩, by rw [← ha]; simpa using h4⟩
      | voiceEnded hd bl =>
        refine ih _ _ (by simp [GA.step, PL.step, hh]) (by simp [GA.step, PL.step, ha]) ?_
        simp only [GA.step, PL.step, Bool.and_eq_true, beq_iff_eq]
        rintro ⟨⟨⟨h1, _⟩, h3⟩, h4⟩
        exact ⟨⟨hk h1, by rw [← hh]; simpa using h3⟩, by rw [← ha]; simpa using h4⟩

theorem ga_kinds (acts : List Act) : ∀ (g : GA), (acts.foldl GA.step g).kinds = true →
    g.kinds = true ∧ ∀ e ∈ events acts, e.headerKindOk = true := by
  induction acts with
  | nil => intro g h; exact ⟨h, by simp⟩
  | cons a r ih =>
    intro g h
    simp only [List.foldl_cons] at h
    cases a with
    | append b => simpa [events_cons_append, GA.step] using ih _ h
    | setHeader hd => simpa [events_cons_setHeader, GA.step] using ih _ h
    | ev e =>
      have := ih _ h
      rw [events_cons_ev]
      cases e with
      | started t => exact ⟨by simpa [GA.step] using this.1, by simpa [Event.headerKindOk] using this.2⟩
      | dataEnded hd bl =>
        have h1 := this.1
        simp only [GA.step, Bool.and_eq_true] at h1
        exact ⟨h1.1, by simpa [h1.2] using this.2⟩
      | voiceEnded hd bl =>
        have h1 := this.1
        simp only [GA.step, Bool.and_eq_true] at h1
        exact ⟨h1.1, by simpa [h1.2] using this.2⟩

/-! ## the initial terminal -/

theorem init_inv (raises : List Bool) : TInv (Terminal.init raises) {} {} := by
  refine ⟨⟨⟨rfl, rfl, rfl, rfl, ?_, ?_⟩, rfl, fun _ => rfl, ?_, rfl, rfl⟩,
          ⟨⟨rfl, rfl, rfl, rfl, ?_, ?_⟩, rfl, fun _ => rfl, ?_, rfl, rfl⟩⟩ <;>
    simp [Terminal.init]

end Dmr.Tracker
