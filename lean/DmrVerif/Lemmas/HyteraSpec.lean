import DmrVerif.Model.Hdap
import DmrVerif.Model.Hrnp
import DmrVerif.Model.Hstrp

/-!
The vocabulary of the C12 theorems: for every PDU kind the decidable predicate `WF` ("built from
in-range fields") and the normal form `norm` the parser returns.  `norm` only resets attributes the
PDU's opcode never serialises to the constructor defaults (they are not fields of that PDU); every
serialised attribute, the reliable / confirmed / option flags and all byte strings are left alone
(`*_norm_fields` lemmas in `Props/C12*.lean`).  No proofs here.
-/

namespace Dmr.Hytera
open Dmr Dmr.Gen.Hytera

/-! ### RRS -/

def Rrs.WF (p : Rrs) : Prop :=
  p.opcode ∈ rrsValues ∧ p.ip.WF ∧ p.result ∈ rrsResultValues ∧ (1 ≤ p.renew ∧ p.renew ≤ 0xFFFE)
    ∧ p.state ∈ rrsStateValues
instance (p : Rrs) : Decidable p.WF := by unfold Rrs.WF; infer_instance

/-- result / renew time are fields of the registration answer only, the radio state of the status
check answer only; elsewhere the parser puts the constructor defaults -/
def Rrs.norm (p : Rrs) : Rrs :=
  { p with
    result := if p.opcode = rrsRadioRegistrationAnswer then p.result else rrsResultSuccess
    renew := if p.opcode = rrsRadioRegistrationAnswer then p.renew else 1
    state := if p.opcode = rrsRegistrationStatusCheckAnswer then p.state else rrsStateOnline }

/-! ### LP -/

/-- the speed is absent (zero) or its `repr` has the form `d.d` — exactly the values whose
`format(v, "03")` has three characters -/
def Dec.fits (s : Dec) : Prop :=
  s = Dec.zero ∨ (s.ip < 10 ∧ s.frac.length = 1 ∧ (∀ f ∈ s.frac, f < 10) ∧ s.isZero = false)
instance (s : Dec) : Decidable s.fits := by unfold Dec.fits; infer_instance

def timeOk (t : Option (Nat × Nat × Nat)) : Prop :=
  match t with
  | none => True
  | some (h, m, s) => h < 24 ∧ m < 60 ∧ s < 60
instance (t : Option (Nat × Nat × Nat)) : Decidable (timeOk t) := by
  unfold timeOk; split <;> infer_instance

def dateOk (t : Option (Nat × Nat × Nat)) : Prop :=
  match t with
  | none => True
  | some (d, m, y) => 1 ≤ m ∧ m ≤ 12 ∧ 1 ≤ d ∧ d ≤ daysInMonth m y ∧ y < 100
instance (t : Option (Nat × Nat × Nat)) : Decidable (dateOk t) := by
  unfold dateOk; split <;> infer_instance

/-- GPS values of the wire format: times and dates exist (years 2000..2099), coordinates below
10^4 / 10^5 minutes on the 10^-4 grid (NMEA: up to 9000.0000 / 18000.0000), direction below 1000 -/
def Gps.WF (g : Gps) : Prop :=
  timeOk g.time ∧ dateOk g.date ∧ g.lat4 < 100000000 ∧ g.lon4 < 1000000000 ∧ g.direction < 1000
instance (g : Gps) : Decidable g.WF := by unfold Gps.WF; infer_instance

/-- the known finding: `speedFits` is what `f"{speed:03}"` needs to stay inside its three octets -/
def Gps.speedFits (g : Gps) : Prop := g.speed.fits
instance (g : Gps) : Decidable g.speedFits := by unfold Gps.speedFits; infer_instance

def Lp.WF (p : Lp) : Prop :=
  (p.opcode = lpStandardRequest ∨ p.opcode = lpStandardReport) ∧ p.requestId < 4294967296 ∧ p.ip.WF
    ∧ (p.opcode = lpStandardReport → p.result ∈ lpResultValues ∧ p.gps.WF)
instance (p : Lp) : Decidable p.WF := by unfold Lp.WF; infer_instance

/-- a request carries neither result nor GPS data -/
def Lp.norm (p : Lp) : Lp :=
  if p.opcode = lpStandardReport then p else { p with result := lpResultOK, gps := Gps.zero }

/-! ### TMP -/

/-- a present, in-range radio ip -/
def someIpWF : Option RadioIp → Prop
  | none => False
  | some ip => ip.WF
instance (o : Option RadioIp) : Decidable (someIpWF o) := by unfold someIpWF; split <;> infer_instance

def someMem (vals : List Nat) : Option Nat → Prop
  | none => False
  | some r => r ∈ vals
instance (vals : List Nat) (o : Option Nat) : Decidable (someMem vals o) := by
  unfold someMem; split <;> infer_instance

/-- the payload exists and its length fits the 16-bit length field -/
def payloadFits : R Bytes → Prop
  | .ok pl => pl.length < 65536
  | .error _ => False
instance (r : R Bytes) : Decidable (payloadFits r) := by unfold payloadFits; split <;> infer_instance

def Tmp.implemented : List Nat :=
  [tmpSendPrivateMessage, tmpSendPrivateMessageAck, tmpSendGroupMessage, tmpSendGroupMessageAck,
   tmpPrivateShortData, tmpPrivateShortDataAck, tmpGroupShortData, tmpGroupShortDataAck]

def Tmp.isAck (op : Nat) : Bool :=
  op == tmpSendPrivateMessageAck || op == tmpSendGroupMessageAck || op == tmpPrivateShortDataAck
    || op == tmpGroupShortDataAck
def Tmp.isGroupAck (op : Nat) : Bool := op == tmpSendGroupMessageAck || op == tmpGroupShortDataAck
def Tmp.isShort (op : Nat) : Bool := op == tmpPrivateShortData || op == tmpGroupShortData

/-- the variable part the opcode serialises (text or short data) -/
def Tmp.varPart (p : Tmp) : Bytes :=
  if Tmp.isMessage p.opcode then p.text else if Tmp.isShort p.opcode then p.shortData else []

def Tmp.WF (p : Tmp) : Prop :=
  p.opcode ∈ Tmp.implemented ∧ p.requestId < 4294967296
    ∧ someIpWF p.dst
    ∧ (Tmp.isGroupAck p.opcode = false → someIpWF p.src)
    ∧ (Tmp.isAck p.opcode = true → someMem tmpResultValues p.result)
    ∧ (p.hasOption = true → p.optionData.isSome = true)
    ∧ payloadFits p.payload
instance (p : Tmp) : Decidable p.WF := by unfold Tmp.WF; infer_instance

/-- attributes the opcode does not serialise are reset to the constructor defaults; option data is a
field only with the option flag -/
def Tmp.norm (p : Tmp) : Tmp :=
  { p with
    src := if Tmp.isGroupAck p.opcode then none else p.src
    text := if Tmp.isMessage p.opcode then p.text else []
    optionData := if p.hasOption then p.optionData else none
    result := if Tmp.isAck p.opcode then p.result else none
    shortData := if Tmp.isShort p.opcode then p.shortData else [] }

/-! ### RCP -/

def allBytes (b : Bytes) : Prop := ∀ x ∈ b, x < 256
instance (b : Bytes) : Decidable (allBytes b) := by unfold allBytes; infer_instance

def settingsWF (st : List (Nat × Nat)) : Prop :=
  (st.map (·.1)).Nodup ∧ (∀ e ∈ st, e.1 ∈ scnTargetValues ∧ e.2 ∈ scnSettingValues) ∧ st.length < 256
instance (st : List (Nat × Nat)) : Decidable (settingsWF st) := by unfold settingsWF; infer_instance

def RcpBody.WF : RcpBody → Prop
  | .unknown ro raw => ro.length = 2 ∧ enumFold rcpValues rcpMissing (ofLe ro) = rcpUnknownService
      ∧ raw.length < 65536
  | .callRequest ct t => ct ∈ rcpCallTypeValues ∧ ct < 256 ∧ t < 4294967296
  | .callReply r => r ∈ rcpResultValues
  | .rptBroadcastTx m st sv ct t s => m ∈ rptModeValues ∧ st ∈ rptStatusValues ∧ sv ∈ rptServiceValues
      ∧ ct ∈ rcpCallTypeValues ∧ t < 4294967296 ∧ s < 4294967296
  | .bcastMsgCfgReq bt => bt < 256
  | .bcastMsgCfgReply r => r ∈ rcpResultValues
  | .idIpQueryReq t => t ∈ rcpIdTargetValues
  | .idIpQueryReply r t raw => r ∈ rcpResultValues ∧ t ∈ rcpIdTargetValues ∧ raw.length = 4
  | .bcastStatusCfgReq raw => (match raw with | [] => False | n :: rest => rest.length = 2 * n) ∧ raw.length < 65536
  | .bcastStatusCfgReply r => r ∈ rcpResultValues
  | .talkerAliasReq ct s t f a => ct ∈ rcpCallTypeValues ∧ ct < 256 ∧ s < 4294967296 ∧ t < 4294967296
      ∧ f ∈ talkerAliasFormatValues ∧ a.length < 256
  | .talkerAliasReply r ct s t => r ∈ rcpResultValues ∧ ct ∈ rcpCallTypeValues ∧ ct < 256 ∧ s < 4294967296
      ∧ t < 4294967296
  | .zoneChanReq raw => raw.length = 5
  | .zoneChanReply raw => raw.length < 65536
  | .statusNotifyReq st => settingsWF st
  | .statusNotifyReply r => r ∈ rcpResultValues
  | .radioStatusReport t v => t ∈ scnTargetValues ∧ v < 65536

instance : (b : RcpBody) → Decidable b.WF
  | .unknown .. | .callRequest .. | .callReply .. | .rptBroadcastTx .. | .bcastMsgCfgReq .. | .bcastMsgCfgReply ..
  | .idIpQueryReq .. | .idIpQueryReply .. | .bcastStatusCfgReply .. | .talkerAliasReq ..
  | .talkerAliasReply .. | .zoneChanReq .. | .zoneChanReply .. | .statusNotifyReq .. | .statusNotifyReply ..
  | .radioStatusReport .. => by unfold RcpBody.WF; infer_instance
  | .bcastStatusCfgReq raw => by
    unfold RcpBody.WF
    cases raw <;> infer_instance

def Rcp.WF (p : Rcp) : Prop := p.body.WF
instance (p : Rcp) : Decidable p.WF := by unfold Rcp.WF; infer_instance

/-! ### any HDAP PDU -/

def Pdu.WF : Pdu → Prop
  | .rrs p => p.WF
  | .lp p => p.WF ∧ (p.opcode = lpStandardReport → p.gps.speedFits)
  | .tmp p => p.WF
  | .rcp p => p.WF

instance : (p : Pdu) → Decidable p.WF
  | .rrs _ | .lp _ | .tmp _ | .rcp _ => by unfold Pdu.WF; infer_instance

def Pdu.norm : Pdu → Pdu
  | .rrs p => .rrs p.norm
  | .lp p => .lp p.norm
  | .tmp p => .tmp p.norm
  | .rcp p => .rcp p

end Dmr.Hytera

namespace Dmr.Hytera
open Dmr Dmr.Gen.Hytera

/-! ### HSTRP -/

/-- every option has a known command and at most 255 octets of data -/
def optsWF (os : Opts) : Prop := ∀ o ∈ os, o.1 ∈ hstrpOptionValues ∧ o.2.length < 256
instance (os : Opts) : Decidable (optsWF os) := by unfold optsWF; infer_instance

/-- what `HSTRP.from_bytes` needs to find options and payload again: options are announced by the
option bit on a non-heartbeat packet (`has_options`); when that property holds although there are no
options, nothing may follow the header (the parser would read a payload as an option chain) -/
def Consistent (t : PktType) (os : Opts) (pl : Option Pdu) : Prop :=
  (os ≠ [] → t.hasOptions = true) ∧ (os = [] → t.hasOptions = true → pl = none) ∧ optsWF os
instance (t : PktType) (os : Opts) (pl : Option Pdu) : Decidable (Consistent t os pl) := by
  unfold Consistent; infer_instance

end Dmr.Hytera
