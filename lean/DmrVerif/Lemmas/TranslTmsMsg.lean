import DmrVerif.Lemmas.TranslTms

/-!
Equality of the translated `TextMessagingService.as_bytes / from_bytes` with `Model/Tms.lean`.
-/

namespace Dmr.Transl.Tms
open Dmr Dmr.Py Dmr.PyBits Dmr.PyObj
open Dmr.Transl.Ars (slice_lit_lit slice_nat toBytesBig1 toBytesBig2 isBytes_cons ofE_ok ofE_error liftE)

@[simp] theorem fhObj_ptype (h : Dmr.Tms.FirstHeader) : (fhObj h).pdu_type = some ((h.ptype.idx : Nat) : Int) := rfl
@[simp] theorem fhObj_more (h : Dmr.Tms.FirstHeader) : (fhObj h).has_more_headers = some h.more := rfl

/-- the last line of `as_bytes`: length prefix, first header with the recomputed `has_more_headers`, the data -/
theorem finish (h : Dmr.Tms.FirstHeader) (more : Bool) (d : Bytes) :
    (do
      let a ← toBytesBig ((d.length : Int) + 1) 2
      let o ← PyObj.fst (FirstHeader.set_has_more_headers modelExt (fhObj h) more)
      let hb ← FirstHeader.as_bytes modelExt o
      Except.ok ((a ++ hb) ++ d))
    = ofE id (if d.length + 1 ≥ 65536 then .error .overflow else
        match Dmr.Tms.headerByte { h with more := more } with
        | .error e => .error e
        | .ok hb => .ok ((d.length + 1) / 256 :: (d.length + 1) % 256 :: hb :: d)) := by
  have e : (d.length : Int) + 1 = ((d.length + 1 : Nat) : Int) := by push_cast; rfl
  rw [e, toBytesBig2]
  by_cases hl : d.length + 1 < 65536
  · rw [if_pos hl, if_neg (by omega)]
    simp only [ok_bind, set_more_eq, fst_ok, fh_as_bytes_eq]
    cases Dmr.Tms.headerByte { h with more := more } with
    | error x => rfl
    | ok hb => rfl
  · rw [if_neg hl, if_pos (by omega)]
    rfl

theorem as_bytes_eq (m : Dmr.Tms.Msg) :
    TextMessagingService.as_bytes modelExt (tmsObj m) = ofE id (Dmr.Tms.asBytes m) := by
  unfold TextMessagingService.as_bytes TextMessagingService.encode_address_field Dmr.Tms.asBytes
  simp only [encode_sn_eq]
  rcases m with ⟨⟨mo, ak, rs, t⟩, addr, cap, seq, enc, msg⟩
  simp only [tmsObj, attr_some, ok_bind, len_eq, toBytes_cons_ofNat, toBytes_nil]
  by_cases ha : addr.length < 256
  · have hn : ¬ addr.length > 255 := by omega
    rw [if_pos ha, if_neg hn]
    simp only [ok_bind, pure_eq_ok, fhObj_ptype, attr_some, finish, List.singleton_append]
    cases t
    · rw [if_pos (by decide)]
      cases cap with
      | none =>
        simp only [Option.map_none, truthyOpt_none, Bool.false_eq_true, ↓reduceIte]
        simp [Dmr.Tms.body]
        rfl
      | some c =>
        simp only [Option.map_some, truthyOpt_some, ↓reduceIte, unwrap_some, ok_bind, cap_as_bytes_eq, Dmr.Tms.body]
        by_cases hc : c ≥ 256
        · rw [if_pos hc, if_pos hc]; rfl
        · rw [if_neg hc, if_neg hc]
          simp only [ok_bind]
          simp
          rfl
    · -- TMS_ACKNOWLEDGEMENT
      rw [if_neg (by decide), if_neg (by decide), if_pos (by decide)]
      simp only [Dmr.Tms.body]
      cases seq with
      | some sn =>
        simp only [Option.map_some, Option.isSome_some, ↓reduceIte, ok_bind, Bool.true_or]
        cases Dmr.Tms.encodeSn (some sn) enc with
        | error e => rfl
        | ok b =>
          simp only [ofE_ok, id, ok_bind]
          simp
          rfl
      | none =>
        cases enc with
        | none =>
          simp only [Option.map_none, Option.isSome_none, Bool.false_eq_true, ↓reduceIte, ok_bind, truthyOpt_none,
            Bool.or_self]
          simp
          rfl
        | some e =>
          simp only [Option.map_none, Option.map_some, Option.isSome_none, Option.isSome_some, Bool.false_eq_true, ↓reduceIte,
            ok_bind, truthyOpt_some, Bool.or_true]
          cases Dmr.Tms.encodeSn none (some e) with
          | error x => rfl
          | ok b =>
            simp only [ofE_ok, id, ok_bind]
            simp
            rfl
    · -- SIMPLE_TEXT_MESSAGE
      rw [if_neg (by decide), if_pos (by decide)]
      simp only [Dmr.Tms.body]
      cases Dmr.Tms.encodeSn seq enc with
      | error e => rfl
      | ok b =>
        simp only [ofE_ok, id, ok_bind]
        cases msg with
        | none => rfl
        | some ms =>
          simp only [unwrapT_some, ok_bind]
          simp
          rfl
  · have hn : addr.length > 255 := by omega
    rw [if_neg ha, if_pos hn]
    rfl

/-! ### `from_bytes` -/

theorem slice_lit_nat (l : Bytes) (a b : Nat) :
    Py.slice l (some (no_index (@OfNat.ofNat Int a _))) (some (no_index (@OfNat.ofNat Int b _))) = Dmr.Tms.slice l a b :=
  slice_nat l a b

theorem slice_lit_cast (l : Bytes) (a j : Nat) :
    Py.slice l (some (no_index (@OfNat.ofNat Int a _))) (some (j : Int)) = Dmr.Tms.slice l a j :=
  slice_nat l a j

theorem foldl_be (l : Bytes) : ∀ s : Nat, l.foldl (fun a x => a * 256 + x) s = l.foldl (fun acc b => 256 * acc + b) s := by
  induction l with
  | nil => intro s; rfl
  | cons x xs ih => intro s; simp only [List.foldl_cons]; rw [Nat.mul_comm]; exact ih _

theorem fromBytesBig_be (l : Bytes) : fromBytesBig l = ((Dmr.Tms.be l : Nat) : Int) := by
  unfold fromBytesBig Dmr.Tms.be
  rw [foldl_be]
  rfl

/-- `data[i:i+1]` is the octet at `i`, if there is one -/
theorem slice_one (data : Bytes) (i : Nat) :
    Dmr.Tms.slice data i (i + 1) = match data[i]? with | none => [] | some c => [c] := by
  unfold Dmr.Tms.slice
  rw [List.drop_take]
  have : i + 1 - i = 1 := by omega
  rw [this]
  by_cases h : i < data.length
  · rw [List.getElem?_eq_getElem h, List.drop_eq_getElem_cons h]
    rfl
  · rw [List.drop_of_length_le (by omega), List.getElem?_eq_none (by omega)]
    rfl

theorem isBytes_one (data : Bytes) (hd : isBytes data) (i : Nat) :
    isBytes (match data[i]? with | none => [] | some c => [c]) := by
  cases h : data[i]? with
  | none => intro x hx; cases hx
  | some c =>
    intro x hx
    have hx' : x = c := by simpa using hx
    rw [hx']
    exact hd c (List.mem_of_getElem? h)

theorem from_bytes_eq (data : Bytes) (hd : isBytes data) :
    TextMessagingService.from_bytes modelExt data = ofE (fun m => some (tmsObj m)) (Dmr.Tms.fromBytes data) := by
  unfold TextMessagingService.from_bytes Dmr.Tms.fromBytes
  simp only [slice_lit_nat, fromBytesBig_be]
  have t02 : Dmr.Tms.slice data 0 2 = data.take 2 := rfl
  rw [t02]
  generalize Dmr.Tms.be (data.take 2) = L
  generalize hA : Dmr.Tms.be (Dmr.Tms.slice data 3 4) = A
  have e : (4 : Int) + (A : Int) = ((A + 4 : Nat) : Int) := by push_cast; omega
  have eL : (L : Int) + 2 = ((L + 2 : Nat) : Int) := by push_cast; rfl
  simp only [e, eL, slice_lit_cast]
  rw [assert_bind]
  by_cases hl : data.length < L
  · have c1 : decide (len data ≥ (L : Int)) = false := by simp only [len_eq]; simp; omega
    rw [c1, if_pos hl]; rfl
  · have c1 : decide (len data ≥ (L : Int)) = true := by simp only [len_eq]; simp; omega
    rw [c1, if_neg hl]
    simp only [↓reduceIte]
    have s23 : Dmr.Tms.slice data 2 3 = match data[2]? with | none => [] | some c => [c] := slice_one data 2
    cases h2 : data[2]? with
    | none =>
      have s : Dmr.Tms.slice data 2 3 = [] := by rw [s23, h2]
      rw [s]
      rfl
    | some c =>
      have s : Dmr.Tms.slice data 2 3 = [c] := by rw [s23, h2]
      have hc : isBytes [c] := by
        intro x hx
        have hx' : x = c := by simpa using hx
        rw [hx']
        exact hd c (List.mem_of_getElem? h2)
      rw [s, fh_from_bytes_eq [c] hc]
      simp only []
      cases Dmr.Tms.headerOfByte c with
      | error x => rfl
      | ok h =>
        rcases h with ⟨mo, ak, rs, t⟩
        simp only [ofE_ok, ok_bind, fhObj_ptype, fhObj_more, attr_some]
        have e1 : ((A + 4 : Nat) : Int) + 1 = ((A + 4 + 1 : Nat) : Int) := by push_cast; rfl
        cases t
        · -- SERVICE_AVAILABILITY
          rw [if_pos (by decide)]
          cases mo
          · rfl
          · simp only [↓reduceIte, e1, slice_nat]
            have s1 := slice_one data (A + 4)
            cases h4 : data[A + 4]? with
            | none =>
              rw [h4] at s1
              rw [s1]
              rfl
            | some b =>
              rw [h4] at s1
              have hb : isBytes [b] := by
                intro x hx
                have hx' : x = b := by simpa using hx
                rw [hx']
                exact hd b (List.mem_of_getElem? h4)
              rw [s1, cap_from_bytes_eq [b] hb]
              simp only []
              cases Dmr.Tms.capOfCode (b % 4) with
              | none => rfl
              | some cc => rfl
        · -- TMS_ACKNOWLEDGEMENT
          rw [if_neg (by decide), if_pos (by decide)]
          cases mo
          · rfl
          · simp only [↓reduceIte, decode_sn_eq data hd]
            cases Dmr.Tms.decodeSn data (A + 4) with
            | error x => rfl
            | ok p =>
              obtain ⟨i, sn, en⟩ := p
              rfl
        · -- SIMPLE_TEXT_MESSAGE
          rw [if_neg (by decide), if_neg (by decide), if_pos (by decide)]
          cases mo
          · simp only [Bool.false_eq_true, ↓reduceIte, slice_nat]
            rfl
          · simp only [↓reduceIte, decode_sn_eq data hd]
            cases Dmr.Tms.decodeSn data (A + 4) with
            | error x => rfl
            | ok p =>
              obtain ⟨i, sn, en⟩ := p
              simp only [ofE_ok, ok_bind, slice_nat]
              rfl

end Dmr.Transl.Tms
