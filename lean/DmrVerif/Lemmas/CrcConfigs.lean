import DmrVerif.Lemmas.CrcStream
import DmrVerif.Model.CrcConfigs

/-!
Theory of `Model/CrcConfigs.lean` (core Lean only): call sequences compose (`cfgRun_append`), the calls
of the documented workflow behave as in `Model/CrcStream.lean` when `reverse_input_bytes` is off, and
therefore the workflow / `calculate_checksum` after ANY earlier calls on the same object — `reverse()`,
assignments to `.register`, digests, updates — gives the one-shot check sum.
-/

namespace Dmr
namespace Crc

/-- a call sequence followed by another one: the second starts from the register the first left -/
theorem cfgRun_append (k : RegKind) (r : Bits) (a b : List CfgAct) :
    cfgRun k r (a ++ b) =
      match cfgRun k r a with
      | (outs, .ok r') => (outs ++ (cfgRun k r' b).1, (cfgRun k r' b).2)
      | (outs, .error e) => (outs, .error e) := by
  induction a generalizing r with
  | nil => simp [cfgRun]
  | cons x xs ih =>
    simp only [List.cons_append, cfgRun]
    cases hx : cfgStep k r x with
    | error e => simp
    | ok p =>
      obtain ⟨r', out⟩ := p
      simp only
      rw [ih r']
      cases hxs : cfgRun k r' xs with
      | mk outs fin =>
        cases fin with
        | error e => simp
        | ok r'' => simp [List.append_assoc]

theorem cfgUpdate_eq (k : RegKind) (h : k.c.revIn = false) (le : Bool) (r bits : Bits) :
    cfgUpdate k le r bits = regUpdate k le r bits := by
  unfold cfgUpdate
  rw [h]
  rfl

/-- with `reverse_input_bytes` off, `init` / `update` / `digest` are the calls of `Model/CrcStream.lean` -/
theorem cfgStep_toCfg (k : RegKind) (h : k.c.revIn = false) (r : Bits) (a : RegAct) :
    cfgStep k r a.toCfg = regStep k r a := by
  cases a with
  | init => rfl
  | update le bits => simp only [RegAct.toCfg, cfgStep, regStep, cfgUpdate_eq k h]
  | digest => rfl

theorem cfgRun_toCfg (k : RegKind) (h : k.c.revIn = false) (r : Bits) (acts : List RegAct) :
    (cfgRun k r (acts.map RegAct.toCfg)).1 = (regRun k r acts).1
    ∧ ((regRun k r acts).2 = none ↔ ∃ r', (cfgRun k r (acts.map RegAct.toCfg)).2 = .ok r') := by
  induction acts generalizing r with
  | nil => simp [cfgRun, regRun]
  | cons a rest ih =>
    simp only [List.map_cons, cfgRun, regRun, cfgStep_toCfg k h]
    cases hs : regStep k r a with
    | error e => simp
    | ok p =>
      obtain ⟨r', out⟩ := p
      obtain ⟨h1, h2⟩ := ih r'
      simp only
      generalize regRun k r' rest = res at h1 h2 ⊢
      obtain ⟨outs, err⟩ := res
      simp only at h1 h2 ⊢
      refine ⟨?_, h2⟩
      rw [h1]
      cases out <;> rfl

/-- `calculate_checksum` on a calculator whose register may hold anything -/
theorem cfgStep_sum (k : RegKind) (hk : RegOk k) (h : k.c.revIn = false) (r bits : Bits) :
    ∃ r', cfgStep k r (.sum false bits) = .ok (r', some (calcBitwise k.c bits)) := by
  simp only [cfgStep, cfgUpdate_eq k h, regUpdate_eq k hk _ bits (initReg_length k.c), Except.map]
  rw [calcBitwise_eq k.c hk.fw_pos]
  exact ⟨_, rfl⟩

/-- `verify_checksum` on a calculator whose register may hold anything -/
theorem cfgStep_verify (k : RegKind) (hk : RegOk k) (h : k.c.revIn = false) (r bits : Bits) (e : Int) :
    ∃ r', cfgStep k r (.verify false bits e)
      = .ok (r', some [decide ((bitsToNat (calcBitwise k.c bits) : Int) = e)]) := by
  simp only [cfgStep, cfgUpdate_eq k h, regUpdate_eq k hk _ bits (initReg_length k.c), Except.map]
  rw [calcBitwise_eq k.c hk.fw_pos]
  exact ⟨_, rfl⟩

/-- `bytereverse` keeps the length and is an involution (whole octets or not, as modelled) -/
theorem byteReverse_length (bits : Bits) : (byteReverse bits).length = bits.length := by
  generalize h : bits.length = n
  induction n using Nat.strongRecOn generalizing bits with
  | _ n ih =>
    unfold byteReverse
    split
    · exact h
    · rename_i hn
      have hlt : (bits.drop 8).length < n := by simp only [List.length_drop]; omega
      simp only [List.length_append, List.length_reverse, List.length_take]
      rw [ih _ hlt _ rfl]
      simp only [List.length_drop]
      omega

end Crc
end Dmr
