import DmrVerif.Lemmas.BurstData

/-!
Lemmas for C01 about payload content that is itself a valid object of another kind (hardening after
seeded changes C01-G and C01-H): a voice burst whose vocoder bits are the two halves of a burst the
library serialised for a data payload (`Burst.transplant`), embedded bits that are code words of some
other code.  The model never looks into vocoder or embedded bits; these lemmas say so explicitly:
a burst that is not parsed as data carries neither slot type nor payload, and the serialisation of a
voice burst with EMB is injective in (vocoder bits, embedded bits) — nothing is normalised or re-encoded.
-/

namespace Dmr
open Dmr.Gen Dmr.Gen.Burst

namespace Burst

/-- a burst the constructor does not classify as data / control has neither slot type nor payload -/
theorem parse_not_data (c : Crcs) (x : Bits) (bt : BurstType) (q : Burst) (h : parse c x bt = .ok q)
    (hq : q.isDataOrControl = false) : q.slotType = none ∧ q.data = none := by
  unfold parse at h
  simp only at h
  repeat' (split at h)
  all_goals (cases h; first | done | exact ⟨rfl, rfl⟩ | simp at hq)

theorem transplant_vocoder_length (x : Bits) (hx : x.length = 264) : (x.take 108 ++ x.drop 156).length = 216 := by
  simp [hx]

theorem transplant_length (x center : Bits) (hx : x.length = 264) (hc : center.length = 48) :
    (transplant x center).length = 264 :=
  voiceFrame_length _ _ (transplant_vocoder_length x hx) hc

/-- **any 264 bits transplanted around valid EMB**: not announced as data, the burst is a voice burst with
EMB — no slot type, no payload, whatever the bits at the slot type and payload positions are — and
serialises to the identical 264 bits -/
theorem transplant_emb (c : Crcs) (x : Bits) (hx : x.length = 264) (cc pi lcss : Nat)
    (hcc : cc < 16) (hpi : pi < 2) (hl : lcss < 4) (e32 : Bits) (he : e32.length = 32) (bt : BurstType)
    (hbt : bt ≠ .dataAndControl) :
    let emb : Emb := ⟨cc, pi, lcss, Emb.genParity cc pi lcss⟩
    let y := transplant x (embCenter emb.enc e32)
    ∃ q, parse c y bt = .ok q ∧ q.hasEmb = true ∧ q.emb = some emb ∧ q.embBits = e32
      ∧ q.voiceBits = x.take 108 ++ x.drop 156 ∧ q.isDataOrControl = false ∧ q.slotType = none ∧ q.data = none
      ∧ y.length = 264 ∧ serialise q = .ok y := by
  intro emb y
  obtain ⟨q, h1, h2, h3, h4, h5, h6, h7⟩ :=
    voice_emb_roundtrip c _ (transplant_vocoder_length x hx) cc pi lcss hcc hpi hl e32 he bt hbt
  have hn := parse_not_data c _ bt q h1 h6
  have hlen : y.length = 264 :=
    transplant_length x _ hx (by simp [embCenter, Emb.enc_length, he])
  exact ⟨q, h1, h2, h3, h4, h5, h6, hn.1, hn.2, hlen, h7⟩

/-- **any 264 bits transplanted around a voice SYNC**, whatever burst type is announced -/
theorem transplant_voice_sync (c : Crcs) (x : Bits) (hx : x.length = 264) (s : Nat) (hs : s ∈ voiceSyncs)
    (bt : BurstType) :
    let y := transplant x (natToBits 48 s)
    ∃ q, parse c y bt = .ok q ∧ q.isVocoder = true ∧ q.isDataOrControl = false ∧ q.slotType = none
      ∧ q.data = none ∧ y.length = 264 ∧ serialise q = .ok y := by
  intro y
  obtain ⟨q, h1, h2, h3, _, _, h6⟩ := voice_sync_roundtrip c _ (transplant_vocoder_length x hx) s hs bt
  have hn := parse_not_data c _ bt q h1 h3
  exact ⟨q, h1, h2, h3, hn.1, hn.2, transplant_length x _ hx (natToBits_length 48 s), h6⟩

/-- the serialisation of a voice burst with EMB determines its vocoder bits and its embedded bits:
two burst objects with different vocoder or embedded bits never serialise alike, so `as_bits` cannot
normalise either (re-encode embedded bits that happen to be a code word, drop or repair vocoder bits) -/
theorem serialise_voice_injective (a b : Burst) (ha : a.isDataOrControl = false) (hb : b.isDataOrControl = false)
    (hea : a.hasEmb = true) (heb : b.hasEmb = true) (hva : a.voiceBits.length = 216) (hvb : b.voiceBits.length = 216)
    (hla : a.embBits.length = 32) (hlb : b.embBits.length = 32) (x : Bits) (h1 : serialise a = .ok x)
    (h2 : serialise b = .ok x) : a.voiceBits = b.voiceBits ∧ a.embBits = b.embBits := by
  unfold serialise at h1 h2
  simp only [ha, hb, hea, heb, Bool.false_eq_true, if_false, if_true] at h1 h2
  cases hae : a.emb with
  | none => simp [hae] at h1
  | some ea =>
    cases hbe : b.emb with
    | none => simp [hbe] at h2
    | some eb =>
      simp only [hae, hbe] at h1 h2
      injection h1 with h1
      injection h2 with h2
      have h := h1.trans h2.symm
      have l1 : (a.voiceBits.take 108).length = (b.voiceBits.take 108).length := by simp [hva, hvb]
      obtain ⟨t1, r1⟩ := List.append_inj h l1
      have l2 : (ea.enc.take 8 ++ (a.embBits ++ ea.enc.drop 8)).length
          = (eb.enc.take 8 ++ (b.embBits ++ eb.enc.drop 8)).length := by
        simp [Emb.enc_length, hla, hlb]
      obtain ⟨c1, d1⟩ := List.append_inj r1 l2
      have l3 : (ea.enc.take 8).length = (eb.enc.take 8).length := by simp [Emb.enc_length]
      obtain ⟨_, m1⟩ := List.append_inj c1 l3
      obtain ⟨m2, _⟩ := List.append_inj m1 (by rw [hla, hlb])
      refine ⟨?_, m2⟩
      rw [← List.take_append_drop 108 a.voiceBits, ← List.take_append_drop 108 b.voiceBits, t1, d1]

end Burst
end Dmr
