import DmrVerif.Lemmas.StorageInv

/-!
# The storage seen through incoming addresses (used by C18)

Under the invariant `Inv` of C20 the storage is a partial map `recOf : address ↦ record`.  The
handshake handlers only use `match_incoming(addr, auto_create=True, patch)`,
`match_incoming(addr, patch=…)`, `save(match_incoming(addr), patch)` and `rpt.attr(key, value)` with
patches that never name `id` or `address_in`; this file gives their effect on `recOf`.
-/

namespace Dmr.Storage

/-- index of the record `match_incoming(a)` finds -/
def Store.holder (s : Store) (a : Val) : Option Nat := s.first (fun r => r.addressIn == a)

/-- the record `match_incoming(a)` finds -/
def Store.recOf (s : Store) (a : Val) : Option Rec := (s.holder a).bind (fun i => s.objs[i]?)

/-- a patch that names neither `id` nor `address_in` -/
def SafePatch (p : Patch) : Prop := ∀ e ∈ p, e.1 ≠ .field .id ∧ e.1 ≠ .field .addressIn

theorem okPatch_of_safe (s : Store) (t : Option Nat) (p : Patch) (hp : SafePatch p) : okPatch s t p = true := by
  simp only [okPatch, List.all_eq_true, Bool.and_eq_true, Bool.or_eq_true, bne_iff_ne, ne_eq]
  intro e he
  exact ⟨(hp e he).1, Or.inl (hp e he).2⟩

theorem applyPatch_safe_id (p : Patch) (r : Rec) (hp : SafePatch p) : (applyPatch p r).id = r.id := by
  have := applyPatch_get_unnamed p r .id (fun e he => (hp e he).1)
  simpa [Rec.get] using this

theorem applyPatch_safe_addr (p : Patch) (r : Rec) (hp : SafePatch p) :
    (applyPatch p r).addressIn = r.addressIn := by
  have := applyPatch_get_unnamed p r .addressIn (fun e he => (hp e he).2)
  simpa [Rec.get] using this

namespace Inv
variable {s : Store}

theorem holder_some_iff (h : Inv s) {a : Val} {i : Nat} :
    s.holder a = some i ↔ ∃ r : Rec, s.objs[i]? = some r ∧ r.addressIn = a := by
  constructor
  · intro hf
    obtain ⟨_, r, hr, hp⟩ := first_some hf
    exact ⟨r, hr, by simpa using hp⟩
  · rintro ⟨r, hr, ha⟩
    exact h.first_addr hr ha

theorem holder_none_iff (h : Inv s) {a : Val} :
    s.holder a = Option.none ↔ ∀ (i : Nat) (r : Rec), s.objs[i]? = some r → r.addressIn ≠ a := by
  constructor
  · intro hf i r hr ha
    have := h.first_addr hr ha
    rw [Store.holder] at hf
    rw [hf] at this; cases this
  · intro hall
    cases hf : s.holder a with
    | none => rfl
    | some i =>
      obtain ⟨r, hr, ha⟩ := h.holder_some_iff.mp hf
      exact absurd ha (hall i r hr)

theorem recOf_some_iff (h : Inv s) {a : Val} {r : Rec} :
    s.recOf a = some r ↔ ∃ i : Nat, s.objs[i]? = some r ∧ r.addressIn = a := by
  constructor
  · intro hr
    simp only [Store.recOf] at hr
    cases hf : s.holder a with
    | none => rw [hf] at hr; cases hr
    | some i =>
      rw [hf] at hr
      simp only [Option.bind_some] at hr
      obtain ⟨r', hr', ha⟩ := h.holder_some_iff.mp hf
      rw [hr'] at hr; cases hr
      exact ⟨i, hr', ha⟩
  · rintro ⟨i, hr, ha⟩
    simp only [Store.recOf, h.holder_some_iff.mpr ⟨r, hr, ha⟩, Option.bind_some, hr]

theorem recOf_none_iff (h : Inv s) {a : Val} :
    s.recOf a = Option.none ↔ ∀ (i : Nat) (r : Rec), s.objs[i]? = some r → r.addressIn ≠ a := by
  constructor
  · intro hn i r hr ha
    have := h.recOf_some_iff.mpr ⟨i, hr, ha⟩
    rw [hn] at this; cases this
  · intro hall
    cases hr : s.recOf a with
    | none => rfl
    | some r =>
      obtain ⟨i, hi, ha⟩ := h.recOf_some_iff.mp hr
      exact absurd ha (hall i r hi)

theorem recOf_none_of_holder (_h : Inv s) {a : Val} (hf : s.holder a = Option.none) : s.recOf a = Option.none := by
  simp [Store.recOf, hf]

theorem holder_none_of_recOf (h : Inv s) {a : Val} (hf : s.recOf a = Option.none) : s.holder a = Option.none :=
  h.holder_none_iff.mpr (h.recOf_none_iff.mp hf)

end Inv

/-- two partial maps given by "some index holds a record with this address" coincide if … -/
theorem recOf_ext {s s' : Store} (_h : Inv s) (h' : Inv s') (a : Val) (o : Option Rec)
    (hso : ∀ r : Rec, (∃ i : Nat, s'.objs[i]? = some r ∧ r.addressIn = a) ↔ o = some r) : s'.recOf a = o := by
  cases o with
  | none =>
    apply h'.recOf_none_iff.mpr
    intro i r hr ha
    have := (hso r).mp ⟨i, hr, ha⟩
    cases this
  | some r =>
    exact h'.recOf_some_iff.mpr ((hso r).mpr rfl)

/-- replacing the record of an address by one with the same id and address -/
theorem recOf_set {s : Store} (h : Inv s) {i : Nat} {r r' : Rec} (hr : s.objs[i]? = some r)
    (hid : r'.id = r.id) (ha : r'.addressIn = r.addressIn) :
    Inv { objs := s.objs.set i r', dict := s.dict } ∧
    ∀ a, Store.recOf { objs := s.objs.set i r', dict := s.dict } a =
      if a = r.addressIn then some r' else s.recOf a := by
  have h' := inv_set_same h hr hid ha
  refine ⟨h', ?_⟩
  have hi := getElem?_lt_of_some hr
  intro a
  apply recOf_ext h h'
  intro x
  simp only
  by_cases hax : a = r.addressIn
  · simp only [hax, if_true]
    constructor
    · rintro ⟨j, hj, hja⟩
      by_cases hji : i = j
      · subst hji
        rw [List.getElem?_set_self hi] at hj
        exact hj
      · rw [List.getElem?_set_ne hji] at hj
        exact absurd (h.addr_inj j i x r hj hr hja) (Ne.symm hji)
    · intro hx
      cases hx
      exact ⟨i, List.getElem?_set_self hi, ha⟩
  · simp only [hax, if_false]
    constructor
    · rintro ⟨j, hj, hja⟩
      by_cases hji : i = j
      · subst hji
        rw [List.getElem?_set_self hi] at hj
        cases hj
        exact absurd (hja.symm.trans ha) hax
      · rw [List.getElem?_set_ne hji] at hj
        exact h.recOf_some_iff.mpr ⟨j, hj, hja⟩
    · intro hx
      obtain ⟨j, hj, hja⟩ := h.recOf_some_iff.mp hx
      have hji : i ≠ j := by
        rintro rfl
        rw [hr] at hj; cases hj
        exact hax hja.symm
      exact ⟨j, by rw [List.getElem?_set_ne hji]; exact hj, hja⟩

/-- creating the record of an unseen address -/
theorem recOf_create {s : Store} (h : Inv s) {a : Val} (hf : s.holder a = Option.none) :
    Inv (s.create a).1 ∧ (s.create a).1.holder a = some s.objs.length ∧
    ∀ a', (s.create a).1.recOf a' = if a' = a then some (newRec s.objs.length a) else s.recOf a' := by
  have h' := inv_create h hf
  refine ⟨h', h'.holder_some_iff.mpr ⟨_, create_objs_new s a, rfl⟩, ?_⟩
  intro a'
  apply recOf_ext h h'
  intro x
  have hold := h.holder_none_iff.mp hf
  by_cases hax : a' = a
  · simp only [hax, if_true]
    constructor
    · rintro ⟨j, hj, hja⟩
      rcases Nat.lt_or_ge j s.objs.length with hlt | hge
      · rw [create_objs_old hlt] at hj
        exact absurd hja (hold j x hj)
      · have hjn : j = s.objs.length := by
          have := getElem?_lt_of_some hj
          simp only [Store.create, List.length_append, List.length_singleton] at this
          omega
        rw [hjn, create_objs_new] at hj
        exact hj
    · intro hx
      cases hx
      exact ⟨s.objs.length, create_objs_new s a, rfl⟩
  · simp only [hax, if_false]
    constructor
    · rintro ⟨j, hj, hja⟩
      rcases Nat.lt_or_ge j s.objs.length with hlt | hge
      · rw [create_objs_old hlt] at hj
        exact h.recOf_some_iff.mpr ⟨j, hj, hja⟩
      · have hjn : j = s.objs.length := by
          have := getElem?_lt_of_some hj
          simp only [Store.create, List.length_append, List.length_singleton] at this
          omega
        rw [hjn, create_objs_new] at hj
        cases hj
        exact absurd hja.symm hax
    · intro hx
      obtain ⟨j, hj, hja⟩ := h.recOf_some_iff.mp hx
      exact ⟨j, by rw [create_objs_old (getElem?_lt_of_some hj)]; exact hj, hja⟩

/-- under the invariant `save` of a stored object with a safe patch is a plain replacement -/
theorem save_eq_set {s : Store} (h : Inv s) {i : Nat} {r : Rec} (hr : s.objs[i]? = some r) (p : Patch) :
    s.save (some i) p = ({ objs := s.objs.set i (applyPatch p r), dict := s.dict }, .obj i) := by
  rcases save_cases s (some i) p with ⟨e, hp⟩ | ⟨_, h2, _⟩ | ⟨i', hi', hn, _⟩ | ⟨i', r', hi', hr', _, e⟩
  · rw [e, hp]
    have : s.objs.set i (applyPatch [] r) = s.objs := by
      apply List.ext_getElem?
      intro j
      by_cases hji : i = j
      · subst hji; rw [List.getElem?_set_self (getElem?_lt_of_some hr), hr]; rfl
      · rw [List.getElem?_set_ne hji]
    rw [this]; rfl
  · cases h2
  · cases hi'; rw [hr] at hn; cases hn
  · cases hi'
    rw [hr] at hr'; cases hr'
    rw [e]
    have hid := h.id_eq i r hr
    have hd : dictSet s.dict r.id i = s.dict := by
      rw [hid]
      apply dictSet_same
      · rw [h.dict_eq]; exact mem_idDict.mpr ⟨getElem?_lt_of_some hr, rfl⟩
      · rw [h.dict_eq]; exact idDict_keys_nodup _
    rw [hd]

/-- **`match_incoming(a, auto_create=True, patch)`** with a safe patch: the record of `a` (created with
the constructor defaults if there is none) is patched, every other address keeps its record -/
theorem matchIncoming_auto_spec {s : Store} (h : Inv s) (a : Val) (p : Patch) (hp : SafePatch p) :
    Inv (s.matchIncoming a true p).1 ∧
    (∃ i, (s.matchIncoming a true p).2 = .obj i ∧ (s.matchIncoming a true p).1.holder a = some i ∧
      (s.matchIncoming a true p).1.objs[i]? =
        some (applyPatch p ((s.recOf a).getD (newRec s.objs.length a)))) ∧
    (∀ a', (s.matchIncoming a true p).1.recOf a' =
      if a' = a then some (applyPatch p ((s.recOf a).getD (newRec s.objs.length a))) else s.recOf a') ∧
    (s.matchIncoming a true p).1.objs.length = s.objs.length + (if (s.holder a).isNone then 1 else 0) := by
  unfold Store.matchIncoming
  cases hf : s.first (fun r => r.addressIn == a) with
  | some i =>
    have hf' : s.holder a = some i := hf
    obtain ⟨r, hr, ha⟩ := h.holder_some_iff.mp hf'
    have hrec : s.recOf a = some r := h.recOf_some_iff.mpr ⟨i, hr, ha⟩
    simp only [save_eq_set h hr p, hrec, Option.getD_some, hf', Option.isNone_some, Bool.false_eq_true,
      if_false, Nat.add_zero, List.length_set, and_true]
    obtain ⟨h', hmap⟩ := recOf_set h hr (applyPatch_safe_id p r hp) (applyPatch_safe_addr p r hp)
    refine ⟨h', ⟨i, rfl, ?_, List.getElem?_set_self (getElem?_lt_of_some hr)⟩, ?_⟩
    · exact h'.holder_some_iff.mpr ⟨_, List.getElem?_set_self (getElem?_lt_of_some hr),
        (applyPatch_safe_addr p r hp).trans ha⟩
    · intro a'
      rw [hmap a', ha]
  | none =>
    have hf' : s.holder a = Option.none := hf
    obtain ⟨h1, hh1, hmap1⟩ := recOf_create h hf'
    have hrec : s.recOf a = Option.none := h.recOf_none_of_holder hf'
    have hx : (s.create a).2 = s.objs.length := rfl
    simp only [if_true, hx, save_eq_set h1 (create_objs_new s a) p, hrec, Option.getD_none, hf',
      Option.isNone_none, List.length_set]
    obtain ⟨h', hmap⟩ := recOf_set h1 (create_objs_new s a) (applyPatch_safe_id p _ hp)
      (applyPatch_safe_addr p _ hp)
    have hlt : s.objs.length < (s.create a).1.objs.length := by simp [Store.create]
    refine ⟨h', ⟨s.objs.length, rfl, ?_, List.getElem?_set_self hlt⟩, ?_, by simp [Store.create]⟩
    · exact h'.holder_some_iff.mpr ⟨_, List.getElem?_set_self hlt, applyPatch_safe_addr p _ hp⟩
    · intro a'
      rw [hmap a', hmap1 a']
      have : (newRec s.objs.length a).addressIn = a := rfl
      rw [this]
      by_cases hax : a' = a <;> simp [hax]

/-- **`match_incoming(a)`**: a pure lookup -/
theorem matchIncoming_lookup (s : Store) (a : Val) :
    s.matchIncoming a false [] = (s, Res.ofOption (s.holder a)) := by
  unfold Store.matchIncoming Store.holder
  cases s.first (fun r => r.addressIn == a) <;> simp [Store.save]

/-- **`match_incoming(a, patch=p)` / `save(match_incoming(a), p)`** on an address that has a record -/
theorem matchIncoming_patch_spec {s : Store} (h : Inv s) (a : Val) (p : Patch) (hp : SafePatch p)
    {r : Rec} (hr : s.recOf a = some r) :
    Inv (s.matchIncoming a false p).1 ∧
    (∀ a', (s.matchIncoming a false p).1.recOf a' = if a' = a then some (applyPatch p r) else s.recOf a') ∧
    (s.matchIncoming a false p).1.objs.length = s.objs.length ∧
    (∃ i, s.holder a = some i ∧ (s.matchIncoming a false p) = s.save (some i) p) := by
  obtain ⟨i, hi, ha⟩ := h.recOf_some_iff.mp hr
  have hf : s.first (fun r => r.addressIn == a) = some i := h.holder_some_iff.mpr ⟨r, hi, ha⟩
  unfold Store.matchIncoming
  simp only [hf, save_eq_set h hi p, List.length_set, true_and]
  obtain ⟨h', hmap⟩ := recOf_set h hi (applyPatch_safe_id p r hp) (applyPatch_safe_addr p r hp)
  refine ⟨h', ?_, ⟨i, hf, (save_eq_set h hi p).symm⟩⟩
  intro a'
  rw [hmap a', ha]

/-- **`rpt.attr(key, value)`** (write) on the record of an address -/
theorem attr_write_spec {s : Store} (h : Inv s) (a : Val) {i : Nat} {r : Rec} (hi : s.holder a = some i)
    (hr : s.objs[i]? = some r) (k : String) (v : Val) (hv : v ≠ .none) :
    Inv (step s (.attr i k v)).1 ∧
    (∀ a', (step s (.attr i k v)).1.recOf a' = if a' = a then some (r.setAttr k v) else s.recOf a') ∧
    (step s (.attr i k v)).1.objs.length = s.objs.length := by
  obtain ⟨r', hr', ha⟩ := h.holder_some_iff.mp hi
  rw [hr] at hr'; cases hr'
  simp only [step, hr, if_neg hv, List.length_set, and_true]
  obtain ⟨h', hmap⟩ := recOf_set (r' := r.setAttr k v) h hr rfl rfl
  refine ⟨h', ?_⟩
  intro a'
  rw [hmap a', ha]

end Dmr.Storage
