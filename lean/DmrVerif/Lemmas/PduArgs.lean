import DmrVerif.Model.PduArgs
import DmrVerif.Lemmas.PduOpaque

/-!
# Constructor arguments the opcode / format does not carry cannot reach the wire (C03 hardening, round 3)

`XArgs.enc` (as_bits read off the whole attribute record, `Model/PduArgs.lean`) equals the encoding of the
projection on the carried fields.  Hence two objects that agree on the carried attributes serialise to the
same bits whatever stands in the arguments of the other opcodes / formats, and the round-trip theorems of
`Lemmas/Pdu*.lean` apply to objects built with every constructor argument set.
-/

namespace Dmr
open Dmr.Gen

namespace DhArgs
open DataHeader

/-- `as_bits()` of the full attribute record = the model's encoding of the carried fields only -/
theorem enc_project (a : DhArgs) : enc a = (project a).map DataHeader.enc := by
  unfold enc body project payload
  repeat' split
  all_goals first
    | rfl
    | (simp only [Option.map_some, DataHeader.enc, DataHeader.body]; simp_all)

end DhArgs

namespace CsbkArgs
open Csbk

theorem enc_project (a : CsbkArgs) (p : Csbk) (h : project a = some p) : enc a = Csbk.enc p := by
  unfold project payload at h
  unfold enc payloadBits
  repeat' split at h
  all_goals first
    | (cases h; done)
    | (simp only [Option.map_some, Option.some.injEq] at h; subst h
       simp_all [Csbk.enc, Csbk.body, Csbk.payloadBits, Csbk.opcode])

end CsbkArgs

namespace FlcArgs
open FullLc

theorem enc_project (a : FlcArgs) : enc a = (project a).map FullLc.enc := by
  unfold enc payloadBits project payload
  repeat' split
  all_goals first
    | rfl
    | (simp only [Option.map_some, FullLc.enc, FullLc.payloadBits, FullLc.flco]; simp_all)

end FlcArgs

namespace SlcArgs
open ShortLc

theorem enc_project (a : SlcArgs) : enc a = (project a).map ShortLc.enc := by
  unfold enc project payload
  repeat' split
  all_goals first
    | rfl
    | (simp only [Option.map_some, ShortLc.enc, ShortLc.body]; simp_all)

end SlcArgs
end Dmr
