import DmrVerif.Lemmas.BptcRepair

/-!
Normal forms of the BPTC(196,96) model and the four main facts, for every 96-bit message, under
decidable checks of the generated tables (`TablesOk`; decided by the kernel in `Props/C02.lean`).

Every data-moving loop of the model is executed once on positions (`scatterSym`, closed terms over the
generated tables); what has to be known about the resulting position lists is collected in the Boolean
checks below.
-/

namespace Dmr.Bptc
open Dmr Dmr.Code Dmr.Gen Dmr.Gen.Bptc19696

/-- `DEINTERLEAVE_INFO_BITS_ONLY_MAP`, the mapping `fill_encoding_table` uses for 96 bits -/
abbrev infoMap : List (Nat × Nat) := deinterleaveInfoBitsOnlyMap

/-! ### the loops, executed on positions -/

/-- `deinterleave_all_bits` -/
def symDeint : List (Option Nat) :=
  scatterSym fullDeinterleavingMap (List.replicate fullDeinterleavingMap.length none)
/-- `fill_encoding_table`: table position ↦ position in its argument -/
def symFill (mapping : List (Nat × Nat)) : List (Option Nat) :=
  symComp (scatterSym fillPairs (List.replicate (13 * 15) none))
    (scatterSym (mapping.map (fun p => (p.2, p.1))) (List.replicate 196 none))
/-- table position ↦ on-air position, on the repair path -/
def symCell : List (Option Nat) := symComp (symFill fullDeinterleavingMap) symDeint
/-- output loop of `encode`: on-air position ↦ table position -/
def symEncOut : List (Option Nat) := scatterSym encodeOutPairs (List.replicate 196 none)
/-- output loop of `deinterleave_data_bits` -/
def symData : List (Option Nat) :=
  scatterSym deinterleaveInfoBitsOnlyMap (List.replicate deinterleaveInfoBitsOnlyMap.length none)
/-- write-back loop of `repair_if_necessary`, reading `received ++ table` -/
def symRepOut : List (Option Nat) :=
  scatterSym (repairOutPairs.map (fun p => (p.1, 196 + p.2))) symDeint
/-- info bit ↦ table position (through `encode`'s output loop) -/
def symDX : List (Option Nat) := symComp symData symEncOut

theorem scatter_length (pairs : List (Nat × Nat)) (src out : Bits) :
    (scatter pairs src out).length = out.length := by
  induction pairs generalizing out with
  | nil => rfl
  | cons p ps ih => simp only [scatter, List.foldl_cons] at ih ⊢; rw [ih]; simp

theorem deinterleaveAllCore_eq (w : Bits) : deinterleaveAllCore w = realize symDeint w := by
  rw [deinterleaveAllCore, zeros_eq_realize _ w, scatter_realize]; rfl

theorem fillCore_eq (mapping : List (Nat × Nat)) (b : Bits) :
    fillCore mapping b = realize (symFill mapping) b := by
  simp only [fillCore]
  rw [zeros_eq_realize 196 b, scatter_realize, zeros_eq_realize (13 * 15) (realize _ b),
    scatter_realize, realize_realize]
  rfl

theorem encodeCore_eq (mapping : List (Nat × Nat)) (m : Bits) :
    encodeCore mapping m = realize symEncOut (product (fillCore mapping m)) := by
  rw [encodeCore, zeros_eq_realize 196 (encodeTable mapping m), scatter_realize]; rfl

theorem dataCore_eq (x : Bits) : dataCore x = realize symData x := by
  rw [dataCore, zeros_eq_realize _ x, scatter_realize]; rfl

theorem encodeCore_length (mapping : List (Nat × Nat)) (m : Bits) :
    (encodeCore mapping m).length = 196 := by
  rw [encodeCore, scatter_length]; exact zeros_length 196

/-! ### decidable facts about the position lists -/

/-- positions inside the 9×11 data block of the table -/
def dataSym (sym : List (Option Nat)) : Bool :=
  sym.all (fun o => match o with
    | none => true
    | some i => decide (i / 15 < 9) && decide (i % 15 < 11))

def chkDeintBelow : Bool := symBelow 196 symDeint
def chkCellSome : Bool := symCell == (symCell.map (fun o => o.getD 0)).map some
def chkCellLen : Bool := symCell.length == 195
def chkCellNodup : Bool := decide (symCell.map (fun o => o.getD 0)).Nodup
def chkRoundTrip : Bool :=
  symComp symCell symEncOut == [none, none, none] ++ (List.range' 3 192).map some
def chkFillHead : Bool :=
  (symFill infoMap).getD 0 none == none && (symFill infoMap).getD 1 none == none
    && (symFill infoMap).getD 2 none == none
def chkDataCells : Bool := dataSym symDX
def chkDataFill : Bool := symComp symDX (symFill infoMap) == (List.range 96).map some
def chkRepData : Bool :=
  symFrom 196 (symComp symData symRepOut)
    && ((symComp symData symRepOut).map (fun o => o.getD 0 - 196)).map some == symDX
def chkRepClean : Bool :=
  symComp symRepOut ((List.range 196).map some ++ symCell) == (List.range 196).map some

/-- everything the proofs need to know about the extracted tables -/
structure TablesOk : Prop where
  h15 : h15113.WFProp
  h13 : h1393.WFProp
  c15 : h15113.colsOk = true
  c13 : h1393.colsOk = true
  idx : idxOk = true
  deintBelow : chkDeintBelow = true
  cellSome : chkCellSome = true
  cellLen : chkCellLen = true
  cellNodup : chkCellNodup = true
  roundTrip : chkRoundTrip = true
  fillHead : chkFillHead = true
  dataCells : chkDataCells = true
  dataFill : chkDataFill = true
  repData : chkRepData = true
  repClean : chkRepClean = true

/-! ### repair in normal form -/

theorem cell_eq (w : Bits) :
    fillCore fullDeinterleavingMap (deinterleaveAllCore w) = realize symCell w := by
  rw [fillCore_eq, deinterleaveAllCore_eq, realize_realize]; rfl

theorem repairCore_eq (ok : TablesOk) (w : Bits) (hw : w.length = 196) :
    repairCore w = realize symRepOut (w ++ repairTable (realize symCell w)) := by
  simp only [repairCore]
  rw [cell_eq, scatter_shift _ w, deinterleaveAllCore_eq,
    ← realize_append_left symDeint w (repairTable (realize symCell w))
      (by rw [hw]; exact ok.deintBelow),
    scatter_realize, hw]
  rfl

/-! ### the encoder's output, read back -/

theorem realize_congr_data (sym : List (Option Nat)) (X F : Bits) (hs : dataSym sym = true)
    (h : ∀ r c, r < 9 → c < 11 → getBit X (15 * r + c) = getBit F (15 * r + c)) :
    realize sym X = realize sym F := by
  unfold realize
  apply List.map_congr_left
  intro o ho
  simp only [dataSym, List.all_eq_true] at hs
  have := hs o ho
  cases o with
  | none => rfl
  | some i =>
    simp only [Bool.and_eq_true, decide_eq_true_eq] at this
    have e : i = 15 * (i / 15) + i % 15 := (Nat.div_add_mod i 15).symm
    simp only [look]
    rw [e]
    exact h _ _ this.1 this.2

/-- the table `repair_if_necessary` builds from an encoder output is the encoder's table -/
theorem cell_encode (ok : TablesOk) (m : Bits) :
    realize symCell (encodeCore infoMap m) = product (fillCore infoMap m) := by
  have hrt := ok.roundTrip
  simp only [chkRoundTrip, beq_iff_eq] at hrt
  have hX : (product (fillCore infoMap m)).length = 195 := product_length _
  have hzero : ∀ i, i < 3 → getBit (product (fillCore infoMap m)) i = false := by
    intro i hi
    have := product_data ok.h15 ok.h13 (fillCore infoMap m) 0 i (by omega) (by omega)
    simp only [Nat.mul_zero, Nat.zero_add] at this
    rw [this, fillCore_eq, getBit_realize]
    have hf := ok.fillHead
    simp only [chkFillHead, Bool.and_eq_true, beq_iff_eq] at hf
    have : (symFill infoMap).getD i none = none := by
      rcases (by omega : i = 0 ∨ i = 1 ∨ i = 2) with rfl | rfl | rfl
      · exact hf.1.1
      · exact hf.1.2
      · exact hf.2
    rw [this]; rfl
  rw [encodeCore_eq, realize_realize, hrt]
  conv => rhs; rw [← gather_range (product (fillCore infoMap m)), hX,
    show List.range 195 = [0, 1, 2] ++ List.range' 3 192 from by decide +kernel]
  rw [gather_append, ← realize_some (List.range' 3 192)]
  simp only [realize, List.map_append, List.map_cons, List.map_nil, look, gather]
  rw [hzero 0 (by omega), hzero 1 (by omega), hzero 2 (by omega)]

theorem isProduct_product (ok : TablesOk) (F : Bits) : IsProduct (product F) := by
  refine ⟨product_length F, ?_, ?_⟩
  · intro rv hrv
    have := (product_rows ok.h15 ok.h13 F rv hrv).2
    unfold Code.check at this
    rw [beq_iff_eq, ok.h15.s0] at this
    exact this
  · intro cv hcv
    have := (product_cols ok.h13 F cv hcv).2
    unfold Code.check at this
    rw [beq_iff_eq, ok.h13.s0] at this
    exact this

/-- reading the data block of the encoder's table gives the message back -/
theorem data_of_product (ok : TablesOk) (m : Bits) (hm : m.length = 96) :
    realize symDX (product (fillCore infoMap m)) = m := by
  rw [realize_congr_data symDX _ (fillCore infoMap m) ok.dataCells
    (fun r c hr hc => product_data ok.h15 ok.h13 _ r c hr hc),
    fillCore_eq, realize_realize]
  have := ok.dataFill
  simp only [chkDataFill, beq_iff_eq] at this
  rw [this, realize_some, ← hm, gather_range]

/-! ### the four facts -/

theorem data_encode (ok : TablesOk) (m : Bits) (hm : m.length = 96) :
    dataCore (encodeCore infoMap m) = m := by
  rw [dataCore_eq, encodeCore_eq, realize_realize]
  exact data_of_product ok m hm

theorem repairTable_product (ok : TablesOk) (F : Bits) : repairTable (product F) = product F := by
  have h := repairTable_xor ok.idx (product F) (zeros 195) (isProduct_product ok F) (zeros_length 195)
  rw [xorBits_zeros_right' _ _ (product_length F),
    repairTable_le2 ok.idx ok.h15 ok.h13 ok.c15 ok.c13 (zeros 195) (zeros_length 195)
      (by rw [weight_zeros]; omega),
    xorBits_zeros_right' _ _ (product_length F)] at h
  exact h

theorem repair_encode (ok : TablesOk) (m : Bits) :
    repairCore (encodeCore infoMap m) = encodeCore infoMap m := by
  have hc : (encodeCore infoMap m).length = 196 := encodeCore_length _ _
  rw [repairCore_eq ok _ hc, cell_encode ok, repairTable_product ok, ← cell_encode ok m]
  have hid : encodeCore infoMap m = realize ((List.range 196).map some) (encodeCore infoMap m) := by
    rw [realize_some, ← hc, gather_range]
  have happ : encodeCore infoMap m ++ realize symCell (encodeCore infoMap m)
      = realize ((List.range 196).map some ++ symCell) (encodeCore infoMap m) := by
    conv => lhs; lhs; rw [hid]
    simp [realize]
  rw [happ, realize_realize]
  have := ok.repClean
  simp only [chkRepClean, beq_iff_eq] at this
  rw [this]
  exact hid.symm

theorem weight_cell_le (ok : TablesOk) (e : Bits) : weight (realize symCell e) ≤ weight e := by
  have h1 := ok.cellSome
  have h2 := ok.cellNodup
  simp only [chkCellSome, beq_iff_eq] at h1
  simp only [chkCellNodup, decide_eq_true_eq] at h2
  rw [h1, realize_some]
  exact weight_gather_le _ e h2

/-- up to two inverted on-air bits are repaired: the decoder returns the message -/
theorem data_repair_le2 (ok : TablesOk) (m e : Bits) (hm : m.length = 96) (he : e.length = 196)
    (hw : weight e ≤ 2) :
    dataCore (repairCore (xorBits (encodeCore infoMap m) e)) = m := by
  have hc : (encodeCore infoMap m).length = 196 := encodeCore_length _ _
  have hce : (xorBits (encodeCore infoMap m) e).length = 196 := by
    rw [xorBits_length, hc, he]; exact Nat.min_self 196
  have hE : (realize symCell e).length = 195 := by
    have h1 := ok.cellLen
    simp only [chkCellLen, beq_iff_eq] at h1
    rw [realize_length]; exact h1
  rw [repairCore_eq ok _ hce, realize_xor _ _ _ (by rw [hc, he]), cell_encode ok,
    repairTable_xor ok.idx _ _ (isProduct_product ok _) hE,
    repairTable_le2 ok.idx ok.h15 ok.h13 ok.c15 ok.c13 _ hE
      (Nat.le_trans (weight_cell_le ok e) hw),
    xorBits_zeros_right' _ _ (product_length _), dataCore_eq, realize_realize]
  have h := ok.repData
  simp only [chkRepData, Bool.and_eq_true, beq_iff_eq] at h
  rw [realize_append_right _ _ _ (by rw [hce]; exact h.1), hce, ← realize_some, h.2]
  exact data_of_product ok m hm

end Dmr.Bptc
