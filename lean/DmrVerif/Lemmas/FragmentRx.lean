import DmrVerif.Lemmas.Fragment
import DmrVerif.Lemmas.TrackerSpec

/-!
# The tracker fed with a generated transmission (C07): symbolic execution of `process_packet`
-/

namespace Dmr.Fragment
open Dmr Dmr.Tracker

/-- one `Transmission` fed with a list of bursts (payload parts): final fields, oracle, everything emitted -/
def feed (tx : Tx) (o : Nat) : List Payload → Except Err (Tx × Nat × List Act)
  | [] => .ok (tx, o, [])
  | p :: ps =>
    match processPacket { tx := tx, oracle := o } p with
    | .error e => .error e
    | .ok (m, _) =>
      match feed m.tx m.oracle ps with
      | .error e => .error e
      | .ok (tx', o', acts) => .ok (tx', o', m.acts ++ acts)

theorem feed_append (a b : List Payload) : ∀ (tx : Tx) (o : Nat),
    feed tx o (a ++ b) =
      match feed tx o a with
      | .error e => .error e
      | .ok (tx1, o1, acts1) =>
        match feed tx1 o1 b with
        | .error e => .error e
        | .ok (tx2, o2, acts2) => .ok (tx2, o2, acts1 ++ acts2) := by
  induction a with
  | nil =>
    intro tx o
    simp only [List.nil_append, feed]
    cases feed tx o b with
    | error e => rfl
    | ok r => obtain ⟨a, b, c⟩ := r; simp
  | cons p ps ih =>
    intro tx o
    simp only [List.cons_append, feed]
    cases processPacket { tx := tx, oracle := o } p with
    | error e => rfl
    | ok r =>
      obtain ⟨m, l⟩ := r
      simp only [ih]
      cases feed m.tx m.oracle ps with
      | error e => rfl
      | ok r1 =>
        obtain ⟨tx1, o1, acts1⟩ := r1
        simp only
        cases feed tx1 o1 b with
        | error e => rfl
        | ok r2 => obtain ⟨tx2, o2, acts2⟩ := r2; simp [List.append_assoc]

/-- a data transmission in progress -/
def rxTx (sn E r : Nat) (conf : Bool) (hdr : Option Hdr) (blocks : List Block) : Tx :=
  { type := .data, expected := E, received := r, lastVoice := .unknown, confirmed := conf, finished := false,
    blocks := blocks, header := hdr, streamNo := sn }

/-- the state `new_transmission(Idle)` leaves (and a new `Transmission` has) -/
def idleTx (sn : Nat) : Tx := { streamNo := sn }

/-! ### single steps -/

theorem pp_preamble_idle (sn o btf : Nat) (raw : Bytes) (hb : btf ≠ 0) :
    processPacket { tx := idleTx sn, oracle := o } (.csbk true btf raw) =
      .ok ({ tx := rxTx o (btf + 1) 1 false none [.csbk raw], oracle := o + 1,
             acts := [.ev (.started .data), .append (.csbk raw)] }, .unknown) := by
  simp [processPacket, fixVoice, idleTx, rxTx, processCsbk, ensureTx, newTx, resetTx, M.emit, isLastBlock,
    Payload.isSync, hb]

theorem pp_preamble (sn o E r btf : Nat) (conf : Bool) (hdr : Option Hdr) (bl : List Block) (raw : Bytes)
    (hE : E ≠ 0) (hne : E ≠ r + 1) :
    processPacket { tx := rxTx sn E r conf hdr bl, oracle := o } (.csbk true btf raw) =
      .ok ({ tx := rxTx sn E (r + 1) conf hdr (bl ++ [.csbk raw]), oracle := o,
             acts := [.append (.csbk raw)] }, .unknown) := by
  simp [processPacket, fixVoice, rxTx, processCsbk, ensureTx, M.emit, isLastBlock, Payload.isSync, hE, hne]

theorem pp_header_idle (sn o nB : Nat) (h : DataHdr) (hb : h.btf = some nB) (hn : nB ≠ 0) :
    processPacket { tx := idleTx sn, oracle := o } (.dataHeader h) =
      .ok ({ tx := rxTx o (nB + 1) 1 h.a (some (.data h)) [.hdr h], oracle := o + 1,
             acts := [.ev (.started .data), .setHeader (.data h), .append (.hdr h)] }, .unknown) := by
  simp [processPacket, fixVoice, idleTx, rxTx, processDataHeader, ensureTx, newTx, resetTx, M.emit,
    isLastBlock, Payload.isSync, hb, hn]

theorem pp_header (sn o E r nB : Nat) (conf : Bool) (hdr : Option Hdr) (bl : List Block) (h : DataHdr)
    (hb : h.btf = some nB) (hE : E ≠ 0) (hne : E ≠ r + 1) :
    processPacket { tx := rxTx sn E r conf hdr bl, oracle := o } (.dataHeader h) =
      .ok ({ tx := rxTx sn E (r + 1) h.a (some (.data h)) (bl ++ [.hdr h]), oracle := o,
             acts := [.setHeader (.data h), .append (.hdr h)] }, .unknown) := by
  simp [processPacket, fixVoice, rxTx, processDataHeader, ensureTx, M.emit, isLastBlock, Payload.isSync, hb,
    hE, hne]

theorem pp_block (sn o E r : Nat) (conf : Bool) (hdr : Option Hdr) (bl : List Block) (rt : Rate) (bits : Bits)
    (hl : bits.length = rt.infoBits) (hE : E ≠ 0) (hne : E ≠ r + 1) :
    processPacket { tx := rxTx sn E r conf hdr bl, oracle := o } (.rate rt bits) =
      .ok ({ tx := rxTx sn E (r + 1) conf hdr (bl ++ [.rate rt (resolve conf false) bits]), oracle := o,
             acts := [.append (.rate rt (resolve conf false) bits)] }, .unknown) := by
  have hres : (resolve conf false).isLast = false := by cases conf <;> rfl
  have h1 : (E == r + 1) = false := by simpa using hne
  simp [processPacket, fixVoice, rxTx, processData, parseTyped, M.emit, isLastBlock, Payload.isSync, hl, hE,
    hne, h1, hres]

theorem pp_last_block (sn o r : Nat) (conf : Bool) (hd : Hdr) (bl : List Block) (rt : Rate) (bits : Bits)
    (hl : bits.length = rt.infoBits) :
    processPacket { tx := rxTx sn (r + 1) r conf (some hd) bl, oracle := o } (.rate rt bits) =
      .ok ({ tx := idleTx o, oracle := o + 1,
             acts := [.append (.rate rt (resolve conf true) bits),
                      .ev (.dataEnded hd (bl ++ [.rate rt (resolve conf true) bits]))] }, .unknown) := by
  have hres : (resolve conf true).isLast = true := by cases conf <;> rfl
  simp [processPacket, fixVoice, rxTx, idleTx, processData, parseTyped, endData, newIdle, resetTx, M.emit,
    isLastBlock, Payload.isSync, hl, hres]

end Dmr.Fragment

namespace Dmr.Fragment
open Dmr Dmr.Tracker

/-! ### runs -/

theorem feed_preambles (raw : CsbkRaw) : ∀ (btfs : List Nat) (sn o E r : Nat) (conf : Bool)
    (hdr : Option Hdr) (bl : List Block), E ≠ 0 → r + btfs.length < E →
    feed (rxTx sn E r conf hdr bl) o (btfs.map fun b => .csbk true b (raw b)) =
      .ok (rxTx sn E (r + btfs.length) conf hdr (bl ++ btfs.map (fun b => .csbk (raw b))), o,
           btfs.map (fun b => .append (.csbk (raw b)))) := by
  intro btfs
  induction btfs with
  | nil => intro sn o E r conf hdr bl _ _; simp [feed]
  | cons b rest ih =>
    intro sn o E r conf hdr bl hE hlt
    simp only [List.length_cons] at hlt
    simp only [List.map_cons, feed, pp_preamble sn o E r b conf hdr bl (raw b) hE (by omega)]
    rw [ih sn o E (r + 1) conf hdr _ hE (by omega)]
    simp only [List.length_cons, List.append_assoc, List.cons_append, List.nil_append]
    congr 3
    omega

/-- the block the receiver makes of a generated block: typed by its own counters, which agree with the
generator's typing (`WellTyped`) -/
def typed (g : GenBlock) : Block := .rate g.rate g.ptype g.asBits

/-- only the final block is typed "last" -/
def WellTyped (conf : Bool) : List GenBlock → Prop
  | [] => True
  | [g] => g.ptype = resolve conf true
  | g :: g' :: rest => g.ptype = resolve conf false ∧ WellTyped conf (g' :: rest)

theorem feed_blocks (rt : Rate) (conf : Bool) (hd : Hdr) : ∀ (gs : List GenBlock) (sn o r : Nat)
    (bl : List Block), gs ≠ [] → WellTyped conf gs → (∀ g ∈ gs, g.rate = rt ∧ g.asBits.length = rt.infoBits) →
    feed (rxTx sn (r + gs.length) r conf (some hd) bl) o (gs.map fun g => .rate rt g.asBits) =
      .ok (idleTx o, o + 1,
           gs.map (fun g => .append (typed g)) ++ [.ev (.dataEnded hd (bl ++ gs.map typed))]) := by
  intro gs
  induction gs with
  | nil => intro _ _ _ _ h; exact absurd rfl h
  | cons g rest ih =>
    intro sn o r bl _ hwt hall
    obtain ⟨hrate, hlen⟩ := hall g (by simp)
    cases rest with
    | nil =>
      have ht : g.ptype = resolve conf true := hwt
      simp only [List.length_cons, List.length_nil, Nat.zero_add, List.map_cons, List.map_nil, feed,
        pp_last_block sn o r conf hd bl rt g.asBits hlen]
      simp [typed, hrate, ht]
    | cons g' rest' =>
      obtain ⟨ht, hwt'⟩ := hwt
      have hne : r + (g :: g' :: rest').length ≠ r + 1 := by simp only [List.length_cons]; omega
      have hE : r + (g :: g' :: rest').length ≠ 0 := by simp only [List.length_cons]; omega
      simp only [List.map_cons, feed] at ih ⊢
      rw [pp_block sn o _ r conf (some hd) bl rt g.asBits hlen hE hne]
      simp only
      have hlen' : r + (g :: g' :: rest').length = (r + 1) + (g' :: rest').length := by
        simp only [List.length_cons]; omega
      rw [hlen']
      have := ih sn o (r + 1) (bl ++ [.rate rt (resolve conf false) g.asBits]) (by simp) hwt'
        (fun x hx => hall x (List.mem_cons_of_mem _ hx))
      rw [this]
      simp [typed, hrate, ht, List.append_assoc]

theorem wellTyped_range' (C : Crc) (r : Rate) (conf : Bool) (n per : Nat) (data : Bytes) (crc : Nat) :
    ∀ (len a : Nat), a + len = n → WellTyped conf ((List.range' a len).map (blockAt C r conf n per data crc)) := by
  intro len
  induction len with
  | zero => intro a _; simp [WellTyped]
  | succ len ih =>
    intro a ha
    cases len with
    | zero =>
      simp only [List.range', List.map_cons, List.map_nil, WellTyped, blockAt]
      have : (a == n - 1) = true := by simp; omega
      rw [this]
    | succ len' =>
      have h := ih (a + 1) (by omega)
      simp only [List.range', List.map_cons, WellTyped, blockAt] at h ⊢
      refine ⟨?_, h⟩
      have : (a == n - 1) = false := by simp; omega
      rw [this]

end Dmr.Fragment
