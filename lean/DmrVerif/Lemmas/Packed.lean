import DmrVerif.Lemmas.Gf2

/-!
Packed (`Nat`) form of bit vectors, used only to make kernel enumerations affordable: `Nat.xor` on
literals is evaluated by GMP, while structural recursion over `List Bool` costs the kernel several
hundred reductions per element.  `packLE` puts list index `i` at binary weight `2^i`; the bit order is
irrelevant for the uses (span enumeration, weights, zero tests).
-/

namespace Dmr

def packLE : Bits → Nat
  | [] => 0
  | b :: bs => b.toNat + 2 * packLE bs

/-- number of set bits among the low `w` bits -/
def popc : Nat → Nat → Nat
  | 0, _ => 0
  | w + 1, x => Nat.add (Nat.mod x 2) (popc w (Nat.div x 2))

theorem xor_two_mul_add (A B : Nat) (a b : Bool) :
    (a.toNat + 2 * A) ^^^ (b.toNat + 2 * B) = (Bool.xor a b).toNat + 2 * (A ^^^ B) := by
  apply Nat.eq_of_testBit_eq
  intro i
  cases i with
  | zero => cases a <;> cases b <;> simp [Nat.testBit_zero, Nat.add_mod]
  | succ i =>
    have h1 : (a.toNat + 2 * A) / 2 = A := by cases a <;> simp <;> omega
    have h2 : (b.toNat + 2 * B) / 2 = B := by cases b <;> simp <;> omega
    have h3 : ((Bool.xor a b).toNat + 2 * (A ^^^ B)) / 2 = A ^^^ B := by
      cases a <;> cases b <;> simp <;> omega
    rw [Nat.testBit_xor, Nat.testBit_succ, Nat.testBit_succ, Nat.testBit_succ, h1, h2, h3,
      Nat.testBit_xor]

theorem packLE_xorBits (a b : Bits) (h : a.length = b.length) :
    packLE (xorBits a b) = Nat.xor (packLE a) (packLE b) := by
  induction a generalizing b with
  | nil => cases b with
    | nil => simp [packLE]
    | cons _ _ => simp at h
  | cons x xs ih => cases b with
    | nil => simp at h
    | cons y ys =>
      simp only [List.length_cons, Nat.add_right_cancel_iff] at h
      simp only [xorBits_cons_cons, packLE, ih ys h]
      exact (xor_two_mul_add _ _ _ _).symm

theorem popc_packLE (a : Bits) : popc a.length (packLE a) = weight a := by
  induction a with
  | nil => simp [popc, weight]
  | cons x xs ih =>
    simp only [List.length_cons, popc, packLE, Nat.add_eq]
    have h1 : (x.toNat + 2 * packLE xs) / 2 = packLE xs := by cases x <;> simp <;> omega
    have h2 : (x.toNat + 2 * packLE xs) % 2 = x.toNat := by cases x <;> simp <;> omega
    have h1' : Nat.div (x.toNat + 2 * packLE xs) 2 = packLE xs := h1
    have h2' : Nat.mod (x.toNat + 2 * packLE xs) 2 = x.toNat := h2
    simp only [weight] at ih ⊢
    cases x <;> simp_all <;> omega

theorem packLE_eq_zero_iff (a : Bits) : packLE a = 0 ↔ a = zeros a.length := by
  induction a with
  | nil => simp [packLE]
  | cons x xs ih =>
    simp only [packLE, List.length_cons, zeros_succ, List.cons.injEq]
    cases x with
    | false => simp only [Bool.toNat_false, Nat.zero_add, true_and, ← ih]; omega
    | true => simp

@[simp] theorem packLE_zeros (n : Nat) : packLE (zeros n) = 0 := by
  rw [packLE_eq_zero_iff]; simp

end Dmr
