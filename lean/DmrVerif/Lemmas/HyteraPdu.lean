import DmrVerif.Lemmas.HyteraRrs
import DmrVerif.Lemmas.HyteraLp
import DmrVerif.Lemmas.HyteraTmp
import DmrVerif.Lemmas.HyteraRcp

/-! The four services behind `HDAP.from_bytes`: one statement for any application PDU (C12). -/

set_option linter.unusedSimpArgs false

namespace Dmr.Hytera
open Dmr Dmr.Gen.Hytera

/-- serialise-then-parse for any in-range PDU, with the frame facts the nestings need -/
theorem pdu_frame_roundtrip (p : Pdu) (h : p.WF) :
    ∃ f, p.frame = .ok f ∧ f.payload.length < 65536 ∧ f.opcode.length = 2
      ∧ Hdap.fromBytes f.asBytes = .ok (some p.norm) := by
  cases p with
  | rrs q =>
    obtain ⟨f, h1, h2, h3, h4, h5⟩ := rrs_parse_serialise q h
    refine ⟨f, h1, h2, by rw [h3]; rfl, ?_⟩
    rw [hdap_dispatch f h3 (by rw [h4]; decide), h4, h5]
    rfl
  | lp q =>
    obtain ⟨f, h1, h2, h3, h4, h5⟩ := lp_parse_serialise q h.1 h.2
    refine ⟨f, h1, h2, by rw [h3]; rfl, ?_⟩
    rw [hdap_dispatch f (o1 := q.opcode / 256 % 256) (o2 := q.opcode % 256) (by rw [h3]; rfl) (by rw [h4]; decide),
      h4, h5]
    rfl
  | tmp q =>
    obtain ⟨f, h1, h2, h3, h4, h5⟩ := tmp_parse_serialise q h
    refine ⟨f, h1, h2, by rw [h3]; rfl, ?_⟩
    rw [hdap_dispatch f (by rw [h3]; rfl) (by rw [h4]; decide), h4, h5]
    rfl
  | rcp q =>
    obtain ⟨f, h1, h2, h3, h4, _, _, h5⟩ := rcp_parse_serialise q h
    refine ⟨f, h1, h2, h3, ?_⟩
    match hf : f.opcode, h3 with
    | [o1, o2], _ =>
    rw [hdap_dispatch f hf (by rw [h4]; decide), h4, h5]
    rfl

/-! ### `norm` changes nothing that is serialised -/

theorem rrs_frame_norm (p : Rrs) : p.norm.frame = p.frame := by
  obtain ⟨rel, op, ip, res, renew, st⟩ := p
  simp only [Rrs.frame, Rrs.payload, Rrs.norm]
  by_cases h1 : Rrs.isRequest op = true
  · simp [h1]
  · by_cases h2 : op = rrsRadioRegistrationAnswer
    · simp [h1, h2]
    · by_cases h3 : op = rrsRegistrationStatusCheckAnswer
      · subst h3; simp [h1, h2]
      · simp [h1, h2, h3]

theorem lp_frame_norm (p : Lp) : p.norm.frame = p.frame := by
  obtain ⟨rel, op, rid, ip, res, gps⟩ := p
  simp only [Lp.norm]
  by_cases h : op = lpStandardReport
  · simp [h]
  · simp [h, Lp.frame, Lp.payload]

theorem tmp_frame_norm (p : Tmp) (h : p.opcode ∈ Tmp.implemented) : p.norm.frame = p.frame := by
  obtain ⟨rel, conf, ho, op, rid, dst, src, text, od, res, short⟩ := p
  simp only [Tmp.implemented, List.mem_cons, List.not_mem_nil, or_false] at h
  rcases h with rfl | rfl | rfl | rfl | rfl | rfl | rfl | rfl <;> cases ho <;>
    simp [Tmp.frame, Tmp.payload, Tmp.body, Tmp.norm, Tmp.opcodeBytes, Tmp.isTmp, Tmp.isMessage, Tmp.isShort,
      Tmp.isAck, Tmp.isGroupAck, tmpSendPrivateMessage, tmpSendGroupMessage,
      tmpPrivateShortData, tmpGroupShortData, tmpSendPrivateMessageAck, tmpSendGroupMessageAck, tmpPrivateShortDataAck,
      tmpGroupShortDataAck]

theorem pdu_frame_norm (p : Pdu) (h : p.WF) : p.norm.frame = p.frame := by
  cases p with
  | rrs q => exact rrs_frame_norm q
  | lp q => exact lp_frame_norm q
  | tmp q => exact tmp_frame_norm q h.1
  | rcp q => rfl

theorem pdu_asBytes_norm (p : Pdu) (h : p.WF) : p.norm.asBytes = p.asBytes := by
  simp only [Pdu.asBytes, pdu_frame_norm p h]

theorem pdu_len_norm (p : Pdu) (h : p.WF) : p.norm.len = p.len := by
  simp only [Pdu.len, pdu_frame_norm p h]

/-- `len(p)` is the number of bytes `as_bytes` produces -/
theorem pdu_len_bytes (p : Pdu) (f : Frame) (hf : p.frame = .ok f) (ho : f.opcode.length = 2) :
    p.asBytes = .ok f.asBytes ∧ p.len = .ok f.asBytes.length ∧ f.asBytes.length = 7 + f.payload.length := by
  have := frame_length f ho
  simp [Pdu.asBytes, Pdu.len, hf, Functor.map, Except.map, this, Frame.len]

end Dmr.Hytera
