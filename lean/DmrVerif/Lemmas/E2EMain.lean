import DmrVerif.Lemmas.E2EChannel

/-!
# End to end (C07a): the generated payload objects, their abstraction, and the CRC checks on what is received
-/

namespace Dmr.E2E
open Dmr Dmr.Tracker
open Dmr.Fragment (GenBlock gens nBlocks padOf dataOf preambleBtfs genBlocks typed)

/-! ## what the header's well-formedness gives -/

theorem dhBtf_lt (h : DataHeader) (hw : h.WF) (n : Nat) (hb : dhBtf h.payload = some n) : n < 128 := by
  obtain ⟨_, hp⟩ := hw
  cases hpl : h.payload <;> rw [hpl] at hp hb <;>
    simp only [dhBtf, Option.some.injEq, reduceCtorEq] at hb <;>
    simp only [DataHeader.DhPayload.WF] at hp <;> omega

theorem dh_addr_lt (h : DataHeader) (hw : h.WF) : dhDst h.payload < 2 ^ 24 ∧ dhSrc h.payload < 2 ^ 24 := by
  obtain ⟨_, hp⟩ := hw
  cases hpl : h.payload <;> rw [hpl] at hp <;>
    simp only [DataHeader.DhPayload.WF] at hp <;> simp only [dhDst, dhSrc] <;> omega

/-! ## the payload objects of a generated transmission -/

/-- the payload objects (with their slot-type colour codes) in order: preambles, header, data blocks -/
def genList (h : DataHeader) (r : Rate) (payload : Bytes) (k cc : Nat) : List (Dmr.Payload × Nat) :=
  (preambleBtfs k (nBlocks r (dhA h.payload) payload + 1)).map
      (fun btf => (Dmr.Payload.csbk (preCsbk btf (dhDst h.payload) (dhSrc h.payload)), cc))
    ++ [(.dataHeader h, 5)]
    ++ (gens crcC r (dhA h.payload) payload).map (fun b => (ratePayload r (toRateData b), cc))

theorem genPayloads_ok (h : DataHeader) (r : Rate) (payload : Bytes) (k cc : Nat)
    (hpoc : dhPoc h.payload = padOf r (dhA h.payload) payload) :
    genPayloads h r payload k cc = .ok (genList h r payload k cc) := by
  unfold genPayloads
  rw [Fragment.genBlocks_ok]
  simp only [hpoc, padOf, bne_self_eq_false, Bool.false_eq_true, ↓reduceIte, List.length_map,
    List.length_range, gens, nBlocks, dataOf, genList]

theorem genList_length (h : DataHeader) (r : Rate) (payload : Bytes) (k cc : Nat) :
    (genList h r payload k cc).length = k + 1 + nBlocks r (dhA h.payload) payload := by
  simp only [genList, List.length_append, List.length_map, Fragment.preambleBtfs_length, Fragment.gens_length,
    List.length_cons, List.length_nil]

theorem mem_preambleBtfs (k m b : Nat) (hb : b ∈ preambleBtfs k m) : b < k + m := by
  simp only [preambleBtfs, List.mem_reverse, List.mem_map, List.mem_range] at hb
  obtain ⟨i, hi, rfl⟩ := hb
  omega

/-- **the abstraction commutes with generation**: the abstractions of the generated payload objects are the
abstract bursts the generator of C07 produces (for the concrete CRCs, the octets of the generated preambles and
the abstraction of the caller's header) -/
theorem genList_abs (h : DataHeader) (r : Rate) (payload : Bytes) (k cc : Nat)
    (hbytes : ∀ b ∈ payload, b < 256) :
    (genList h r payload k cc).map absGen =
      (preambleBtfs k (nBlocks r (ghOf h).hdr.a payload + 1)).map
          (fun btf => (⟨.csbk true btf (rawOf h btf), some cc⟩ : AbsBurst))
        ++ [⟨.dataHeader (ghOf h).hdr, some 5⟩]
        ++ (gens crcC r (ghOf h).hdr.a payload).map (fun b => (⟨.rate r b.asBits, some cc⟩ : AbsBurst)) := by
  simp only [genList, List.map_append, List.map_map, List.map_cons, List.map_nil]
  refine congrArg₂ (· ++ ·) (congrArg₂ (· ++ ·) ?_ rfl) ?_
  · apply List.map_congr_left
    intro btf _
    simp only [Function.comp_def, absGen, preCsbk_abs, rawOf]
  · apply List.map_congr_left
    intro g hg
    obtain ⟨h1, _, h3, _⟩ := Fragment.gens_facts crcC r _ payload hbytes g hg
    simp only [Function.comp_def, absGen]
    rw [rate_abs r g (by rw [← h1]; exact h3)]

/-- every generated payload object is a constructor-made object of C01's `Built`, colour codes fit -/
theorem genList_built (h : DataHeader) (r : Rate) (payload : Bytes) (k cc : Nat)
    (hh : Burst.Built crcsC (.dataHeader h)) (hbytes : ∀ b ∈ payload, b < 256)
    (hn : nBlocks r (dhA h.payload) payload ≤ 127) (hk : k ≤ 16) (hcc : cc < 16) :
    ∀ pc ∈ genList h r payload k cc, Burst.Built crcsC pc.1 ∧ pc.2 < 16 := by
  intro pc hpc
  simp only [genList, List.mem_append, List.mem_map, List.mem_cons, List.not_mem_nil, or_false] at hpc
  rcases hpc with (⟨btf, hb, rfl⟩ | rfl) | ⟨g, hg, rfl⟩
  · have := mem_preambleBtfs _ _ _ hb
    obtain ⟨hd, hs⟩ := dh_addr_lt h hh.1
    exact ⟨preCsbk_built btf _ _ (by omega) hd hs, hcc⟩
  · exact ⟨hh, show (5 : Nat) < 16 by decide⟩
  · obtain ⟨h1, h2, h3, h4, h5, h6⟩ := Fragment.gens_facts crcC r _ payload hbytes g hg
    refine ⟨rate_built r g (by rw [← h1]; exact h3) h4 h2 h5 ?_ ?_, hcc⟩
    · intro hl; rw [h6]; simp [hl]
    · rw [h6]; split
      · exact crc32c_lt _
      · decide

/-! ## the receiver on the generated abstract bursts (lemma layer of C07, for identifying the blocks) -/

theorem run_generated (C : Fragment.Crc) (raw : Fragment.CsbkRaw) (r : Rate) (payload : Bytes) (hd : DataHdr)
    (k cc : Nat) (raises : List Bool) (two : Bool) (hbytes : ∀ b ∈ payload, b < 256)
    (hbtf : hd.btf = some (nBlocks r hd.a payload)) :
    ∃ t recs,
      run (Terminal.init raises)
          (((preambleBtfs k (nBlocks r hd.a payload + 1)).map
                (fun btf => (⟨.csbk true btf (raw btf), some cc⟩ : AbsBurst))
              ++ ([⟨.dataHeader hd, some 5⟩] : List AbsBurst)
              ++ (gens C r hd.a payload).map (fun (b : GenBlock) => (⟨.rate r b.asBits, some cc⟩ : AbsBurst))).map
            fun b => (two, b)) = .ok (t, recs)
      ∧ allEvents recs =
          [.started .data,
           .dataEnded (.data hd)
             ((preambleBtfs k (nBlocks r hd.a payload + 1)).map (fun b => Block.csbk (raw b))
               ++ [.hdr hd] ++ (gens C r hd.a payload).map typed)] := by
  have hfeed := fun sn o => Fragment.feed_generated C raw r payload hd k sn o hbtf hbytes
  have hinit : ((Terminal.init raises).slot two).tx = Fragment.idleTx (if two then 1 else 0) := by
    cases two <;> rfl
  obtain ⟨t, recs, hrun, _, _, hev, _, _⟩ :=
    Fragment.run_feed two
      ((preambleBtfs k (nBlocks r hd.a payload + 1)).map
          (fun btf => (⟨.csbk true btf (raw btf), some cc⟩ : AbsBurst))
        ++ [⟨.dataHeader hd, some 5⟩]
        ++ (gens C r hd.a payload).map (fun b => (⟨.rate r b.asBits, some cc⟩ : AbsBurst)))
      (Terminal.init raises) _ _ _
      (by
        rw [hinit]
        simp only [List.map_append, List.map_map, Function.comp_def, List.map_cons, List.map_nil]
        exact hfeed _ _)
  refine ⟨t, recs, hrun, ?_⟩
  rw [hev]
  simp only [Fragment.events_append', Fragment.events_map_append, List.append_nil]
  simp [events, Act.event?]

/-! ## the library's check functions on the fields the receiver reads -/

/-- what the receiver checks of one received block: if its type is confirmed, `CRC9.check` on the data, serial
number, CRC-9 field and (integer) CRC-32 it reads from the block's bits, with the mask of the rate -/
def RxCrc9 (r : Rate) (t : PType) (bits : Bits) : Prop :=
  t.isConfirmed = true →
    Crc.crc9Check (blockData r t bits) ((blockDbsn t bits : Nat) : Int) ((blockCrc9 t bits : Nat) : Int)
      (mask9 r) (.int ((blockCrc32 r t bits : Nat) : Int)) = .ok true

theorem rxCrc9_gens (r : Rate) (conf : Bool) (payload : Bytes) (hbytes : ∀ b ∈ payload, b < 256) :
    ∀ g ∈ gens crcC r conf payload, RxCrc9 g.rate g.ptype g.asBits := by
  intro g hg hc
  obtain ⟨h1, h2, h3, h4, h5, h6⟩ := Fragment.gens_facts crcC r conf payload hbytes g hg
  have hc32 : g.crc32 < 2 ^ 32 := by
    rw [h6]; split
    · exact crc32c_lt _
    · decide
  have hc9 : g.crc9 < 2 ^ 9 := by rw [h5]; exact crc9c_lt _ _ _ _
  have e2 : (if g.ptype.isLast = true then g.crc32 else 0) = g.crc32 := by
    split
    · rfl
    · rename_i hl; rw [h6]; simp [hl]
  rw [Fragment.view_data g h3 h4, Fragment.view_dbsn g (by rw [h2]; decide), Fragment.view_crc32 g h3 hc32,
    Fragment.view_crc9 g hc9, e2, h2, h1]
  simp only [hc, ↓reduceIte]
  rw [h5]
  exact crc9Check_ok r g.data 0 g.crc32 (by decide) hc32

theorem rxCrc9_transfer (gs gs' : List GenBlock) (h : gs.map typed = gs'.map typed)
    (h' : ∀ g ∈ gs', RxCrc9 g.rate g.ptype g.asBits) : ∀ g ∈ gs, RxCrc9 g.rate g.ptype g.asBits := by
  intro g hg
  have : typed g ∈ gs'.map typed := h ▸ List.mem_map_of_mem hg
  obtain ⟨g', hg', he⟩ := List.mem_map.mp this
  simp only [typed, Block.rate.injEq] at he
  obtain ⟨e1, e2, e3⟩ := he
  rw [← e1, ← e2, ← e3]
  exact h' g' hg'

end Dmr.E2E
