import DmrVerif.Lemmas.TrackerVoice

/-!
# C08, round 4: exact totals at wrap points

`rx_sequence` and `ended_payload` (Props/C08) hold for histories of any length.  Two realistic changes are
invisible to every history in which no transmission ends on a burst numbered 0 and none stays open for more
than 256 blocks: (1) "the restart of the numbering is skipped when the counter already is 0", (2) "the block
list is capped at 256 entries".  The facts that exclude them are stated here on their own.
-/

namespace Dmr.Tracker

/-- `Timeslot.process_burst` between two bursts (`reset` clear): the burst is numbered `(rxSeq + 1) mod 256`;
afterwards the counter is 0 if this burst delivered an end — whatever number the burst itself got, 0
included — and that number otherwise; the flag is clear again. -/
theorem Slot.process_restart {s : Slot} {o : Nat} {b : AbsBurst} {s' : Slot} {o' : Nat} {out : Out}
    (hr : s.reset = false) (h : s.process o b = .ok (s', o', out)) :
    out.seq = (s.rxSeq + 1) % 256 ∧ s'.reset = false
      ∧ s'.rxSeq = (if out.deliveredEnd then 0 else out.seq) := by
  cases hpp : processPacket { tx := s.tx, oracle := o } b.payload with
  | error e => simp [Slot.process, hpp] at h
  | ok r =>
    obtain ⟨m, l⟩ := r
    simp only [Slot.process, hpp, hr, Bool.false_or, Except.ok.injEq, Prod.mk.injEq] at h
    obtain ⟨hs, _, hout⟩ := h
    subst hs hout
    by_cases he : (events m.acts).any Event.isEnded = true
    · simp [Out.deliveredEnd, he]
    · simp [Out.deliveredEnd, he]

/-- the number of blocks a data transmission holds grows by one with every block-producing burst: there is
no bound (`process_csbk`, `process_data_header`, `process_data` append and never remove) -/
theorem processCsbk_blocks (m : M) (p : Bool) (btf : Nat) (raw : Bytes) (hd : m.tx.type = .data) :
    (processCsbk m p btf raw).tx.blocks = m.tx.blocks ++ [.csbk raw] := by
  simp [processCsbk, ensureTx, hd, M.emit]

theorem processDataHeader_blocks (m : M) (h : DataHdr) (hd : m.tx.type = .data) :
    (processDataHeader m h).tx.blocks = m.tx.blocks ++ [.hdr h] := by
  simp [processDataHeader, ensureTx, hd, M.emit]

theorem processData_blocks (m : M) (blk : Block) :
    (processData m blk false).tx.blocks = m.tx.blocks ++ [blk] := by
  simp [processData, M.emit]

/-- one step of a terminal that satisfies the invariant: the numbering of the slot the burst is for -/
theorem Terminal.step_restart {t : Terminal} {g1 g2 : SG} (h : TInv t g1 g2) (inp : Bool × AbsBurst)
    (hwf : inp.2.wf = true) :
    ∃ t' out, t.step inp = .ok (t', out)
      ∧ TInv t' (if inp.1 then g1 else g1.stepOut out) (if inp.1 then g2.stepOut out else g2)
      ∧ out.seq = ((t.slot inp.1).rxSeq + 1) % 256
      ∧ (t'.slot inp.1).reset = false
      ∧ (t'.slot inp.1).rxSeq = (if out.deliveredEnd then 0 else out.seq) := by
  obtain ⟨t', out, hs, hi⟩ := Terminal.step_inv h inp hwf
  obtain ⟨s', o', hp, ht'⟩ := Terminal.step_ok hs
  have hslot : t'.slot inp.1 = s' := by
    rw [ht']
    cases inp.1 <;> simp [Terminal.setSlot, Terminal.slot]
  obtain ⟨h1, h2, h3⟩ := Slot.process_restart (h.slot inp.1).reset hp
  exact ⟨t', out, hs, hi, h1, by rw [hslot]; exact h2, by rw [hslot]; exact h3⟩

end Dmr.Tracker
