import DmrVerif.Gen.TranslRs
import DmrVerif.Lemmas.RsArith

/-!
Equality of the definitions TRANSLATED from the source of `reed_solomon_12_9_4.py` (`Gen/TranslRs.lean`, regenerated on
every run by `tools/py2lean.py`) with the hand-written model `Model/Rs.lean` the C11 theorems are about.  Nothing here is
sampled: every statement is for all arguments.  A change of the Python source changes the generated definitions and these
proofs no longer close.
-/

namespace Dmr.Transl.Rs
open Dmr Dmr.Py Dmr.Rs Dmr.Gen

/-- an `Option` answer of the model as a `PyM` answer (`none` = the named exception) -/
def ofOpt {α β : Type} (e : PyErr) (f : α → β) : Option α → PyM β
  | some v => .ok (f v)
  | none => .error e

@[simp] theorem ofOpt_some {α β : Type} (e : PyErr) (f : α → β) (v : α) : ofOpt e f (some v) = .ok (f v) := rfl
@[simp] theorem ofOpt_none {α β : Type} (e : PyErr) (f : α → β) : ofOpt e f (none : Option α) = .error e := rfl

/-! ### the tables written in the source are the tables `tools/extract_rs.py` read from the live class -/

theorem exp_table_eq : EXPONENTIAL_TABLE = rsExp := by decide +kernel
theorem log_table_eq : LOG_TABLE = rsLog := by decide +kernel
theorem polynomial_eq : POLYNOMIAL = rsPoly := by decide +kernel

/-! ### `log_multiply` -/

/-- for all natural operands (in and out of the octet range) the translated `log_multiply` is the model's
`logMultiplyE`, `IndexError` included -/
theorem log_multiply_eq (a b : Nat) :
    log_multiply (a : Int) (b : Int) = ofOpt .index (fun v : Nat => (v : Int)) (logMultiplyE a b) := by
  unfold log_multiply logMultiplyE
  rw [exp_table_eq, log_table_eq]
  by_cases h : a = 0 ∨ b = 0
  · have h' : ((a : Int) == 0 || (b : Int) == 0) = true := by
      rcases h with h | h <;> simp [h]
    simp [h, h']
  · have h' : ((a : Int) == 0 || (b : Int) == 0) = false := by
      simp only [not_or] at h
      simp [h.1, h.2]
    simp only [h', h, if_false, Bool.false_eq_true]
    cases ha : rsLog[a]? with
    | none => simp [ha, bind, Except.bind]
    | some la =>
      cases hb : rsLog[b]? with
      | none => simp [ha, hb, bind, Except.bind]
      | some lb =>
        have hs : (la : Int) + (lb : Int) = ((la + lb : Nat) : Int) := by simp
        simp only [getB_ofNat, ha, hb, bind, Except.bind, hs, Option.bind]
        cases rsExp[la + lb]? <;> rfl

/-- octets: no `IndexError`, the value is the model's `logMultiply` -/
theorem log_multiply_octets (a b : Nat) (ha : a < 256) (hb : b < 256) :
    log_multiply (a : Int) (b : Int) = .ok ((logMultiply a b : Nat) : Int) := by
  rw [log_multiply_eq, logMultiplyE_eq a b ha hb]; rfl

/-! ### `xor_bytes` -/

theorem xor_bytes_eq (d m : Bytes) (hd : isBytes d = true) (hm : isBytes m = true) :
    xor_bytes d m = .ok (xorBytes d m) := by
  unfold xor_bytes xorBytes
  induction d generalizing m with
  | nil => simp [iterB]
  | cons x xs ih =>
    cases m with
    | nil => simp [iterB]
    | cons y ys =>
      simp only [isBytes, List.all_cons, Bool.and_eq_true, decide_eq_true_eq] at hd hm
      have hxy : x ^^^ y < 256 := xor_lt_256 hd.1 hm.1
      have ih' := ih ys (by simpa [isBytes] using hd.2) (by simpa [isBytes] using hm.2)
      simp only [iterB, List.map_cons, List.zip_cons_cons, bytesGen, List.zipWith_cons_cons] at ih' ⊢
      simp only [bind, Except.bind, pure, Except.pure] at ih' ⊢
      have e : bxor (Int.ofNat x) (Int.ofNat y) = ((x ^^^ y : Nat) : Int) := rfl
      rw [e, byteVal_ofNat, if_pos hxy]
      simp only []
      rw [ih']
      rfl


/-! ### `generate` -/

/-- the loop state of the translated `generate` (a Python list of three ints) against the model's register -/
def RegRel (s : List Int) (t : Nat × Nat × Nat) : Prop :=
  s = [(t.1 : Int), (t.2.1 : Int), (t.2.2 : Int)] ∧ t.1 < 256 ∧ t.2.1 < 256 ∧ t.2.2 < 256

theorem poly_get (k : Nat) (hk : k < 3) : POLYNOMIAL[k]? = some (polyAt k) ∧ polyAt k < 256 := by
  rw [polynomial_eq]
  have : k = 0 ∨ k = 1 ∨ k = 2 := by omega
  rcases this with rfl | rfl | rfl <;> decide

theorem isBytes_get (d : Bytes) (hd : isBytes d = true) (i : Nat) (h : i < d.length) : d[i] < 256 := by
  have := List.all_eq_true.mp hd d[i] (List.getElem_mem h)
  simpa using this

theorem generate_eq (d m : Bytes) (hd : isBytes d = true) (hm : isBytes m = true) :
    Transl.Rs.generate d m = ofOpt .assertion id (Dmr.Rs.generate d m) := by
  unfold Transl.Rs.generate Dmr.Rs.generate
  rw [assert_bind]
  by_cases hl : d.length = 9
  · have hc : (len d == 9) = true := by simp [hl]
    rw [if_pos hc, if_pos hl]
    have p0 := poly_get 0 (by omega)
    have p1 := poly_get 1 (by omega)
    have p2 := poly_get 2 (by omega)
    apply forEach_sim_bind RegRel Dmr.Rs.step d (0, 0, 0)
    · simp [hl, range1]
    · exact ⟨rfl, by decide, by decide, by decide⟩
    · intro i h₁ h₂ s t ⟨hs, b0, b1, b2⟩
      subst hs
      have hx : d[i] < 256 := isBytes_get d hd i h₂
      have hsingle : d[i] ^^^ t.2.2 < 256 := xor_lt_256 hx b2
      refine ⟨[((Dmr.Rs.step t d[i]).1 : Int), ((Dmr.Rs.step t d[i]).2.1 : Int), ((Dmr.Rs.step t d[i]).2.2 : Int)], ?_,
        rfl, logMultiply_lt _ _, xor_lt_256 b0 (logMultiply_lt _ _), xor_lt_256 b1 (logMultiply_lt _ _)⟩
      have hi : (range1 (len d))[i] = (i : Int) := by simp [range1]
      simp only [hi, getB_ofNat, List.getElem?_eq_getElem h₂, ok_bind]
      simp [p0.1, p1.1, p2.1, log_multiply_octets, p0.2, p1.2, p2.2, hsingle, Dmr.Rs.step]
    · intro s' ⟨hs, b0, b1, b2⟩
      subst hs
      simp only [rev, List.reverse_cons, List.reverse_nil, List.nil_append, List.cons_append, toBytes_cons_ofNat,
        toBytes_nil, b0, b1, b2, if_true, ok_bind, slice_none_lit, pure_eq_ok]
      rw [xor_bytes_eq _ m (by simp [isBytes, b0, b1, b2]) hm, ok_bind,
        List.take_of_length_le (by omega)]
      rfl
  · have hc : ¬ ((len d == 9) = true) := by
      simp only [len_eq, beq_iff_eq]; omega
    rw [if_neg hc, if_neg hl]
    rfl

/-! ### `check` -/

theorem isBytes_take (w : Bytes) (n : Nat) (hw : isBytes w = true) : isBytes (w.take n) = true := by
  unfold isBytes at *
  rw [List.all_eq_true] at *
  intro x hx
  exact hw x (List.mem_of_mem_take hx)

theorem check_eq (w m : Bytes) (hw : isBytes w = true) (hm : isBytes m = true) :
    Transl.Rs.check w m = ofOpt .assertion id (Dmr.Rs.check w m) := by
  unfold Transl.Rs.check Dmr.Rs.check
  rw [assert_bind]
  by_cases hl : w.length = 12
  · have hc : (len w == 12) = true := by simp [hl]
    rw [if_pos hc, if_pos hl]
    simp only [slice_none_lit]
    rw [generate_eq _ m (isBytes_take w 9 hw) hm]
    have h9 : (w.take 9).length = 9 := by simp [hl]
    simp only [Dmr.Rs.generate, h9, if_true, ofOpt_some, ok_bind, Option.map_some, id, pure_eq_ok]
    congr 1
    by_cases he : encode (List.take 9 w) m = w <;> simp [he]
  · have hc : ¬ ((len w == 12) = true) := by
      simp only [len_eq, beq_iff_eq]; omega
    rw [if_neg hc, if_neg hl]
    rfl

end Dmr.Transl.Rs
