import DmrVerif.Lemmas.BptcEncode

/-!
The repair passes of `BPTC19696.repair_if_necessary` on "product code word ⊕ error pattern".

* `repairTable_xor`: on a table whose rows and columns are code words, both passes commute with adding
  an arbitrary error table (syndrome linearity): `repairTable (T ⊕ E) = T ⊕ repairTable E`.
* `repairTable_le2`: an error table of weight ≤ 2 is removed completely.  No enumeration: either every
  row holds at most one error (the row pass alone clears the table), or all errors sit in one row — then
  whatever the row pass makes of that row (it may add a third error), every *column* holds at most one
  error afterwards and the column pass clears it.
-/

namespace Dmr
open Dmr.Code

/-! ### generic facts about `Code.correct` -/

theorem flipAt_xor_right (a b : Bits) (i : Nat) (h : a.length = b.length) :
    flipAt i (xorBits a b) = xorBits a (flipAt i b) := by
  induction a generalizing b i with
  | nil => cases b with
    | nil => simp [flipAt]
    | cons _ _ => simp at h
  | cons x xs ih => cases b with
    | nil => simp at h
    | cons y ys =>
      simp only [List.length_cons, Nat.add_right_cancel_iff] at h
      cases i with
      | zero => cases x <;> cases y <;> simp [flipAt]
      | succ i =>
        have := ih ys i h
        simp only [flipAt] at this
        simp [flipAt, this]

theorem correct_length (C : Code) (w : Bits) : (C.correct w).length = w.length := by
  unfold Code.correct Code.checkAndCorrect
  split
  · simp
  · split <;> simp

/-- adding a code word commutes with the single-error corrector -/
theorem correct_xor_codeword (C : Code) (c x : Bits) (hcx : c.length = x.length)
    (hc : C.syndrome c = zeros C.H.length) :
    C.correct (xorBits c x) = xorBits c (C.correct x) := by
  have hs : C.syndrome (xorBits c x) = C.syndrome x := by
    rw [syndrome_xor _ _ hcx, hc, xorBits_zeros_left _ _ (syndrome_length x)]
  unfold Code.correct Code.checkAndCorrect Code.check
  rw [hs]
  by_cases h1 : (C.syndrome x == C.S) = true
  · simp [h1]
  · simp only [h1, Bool.false_eq_true, if_false]
    cases C.hCols.idxOf? (C.syndrome x) with
    | none => simp
    | some i => simp [flipAt_xor_right c x i hcx]

theorem gen_zeros (C : Code) (k : Nat) : C.gen (zeros k) = zeros C.n := by
  unfold Code.gen
  simp only [dot_zeros_right]
  induction C.n with
  | zero => rfl
  | succ n ih => rw [List.range_succ, List.map_append, ih]; simp [zeros, ← List.replicate_succ']

theorem correct_zeros {C : Code} (h : C.WFProp) : C.correct (zeros C.n) = zeros C.n := by
  unfold Code.correct Code.checkAndCorrect Code.check
  rw [syndrome_zeros, hlen h, h.s0]
  simp

theorem correct_unit {C : Code} (h : C.WFProp) (hc : C.colsOk = true) (i : Nat) (hi : i < C.n) :
    C.correct (unit C.n i) = zeros C.n := by
  have := correct_single_of h hc (zeros C.k) (by simp) i hi
  rw [gen_zeros, flipAt_eq_xor_unit _ _ (by simpa using hi), zeros_length,
    xorBits_zeros_left _ _ (unit_length _ _)] at this
  unfold Code.correct
  rw [this]
  rfl

/-! ### weights -/

theorem weight_cons (b : Bool) (x : Bits) : weight (b :: x) = b.toNat + weight x := by
  cases b <;> simp [weight] <;> omega

theorem weight_append (a b : Bits) : weight (a ++ b) = weight a + weight b := by
  simp [weight]

theorem weight_flatten (Bs : List Bits) : weight Bs.flatten = (Bs.map weight).sum := by
  induction Bs with
  | nil => rfl
  | cons b bs ih => simp [weight_append, ih]

theorem eq_zeros_of_weight_zero (x : Bits) (h : weight x = 0) : x = zeros x.length := by
  induction x with
  | nil => rfl
  | cons b xs ih =>
    rw [weight_cons] at h
    cases b with
    | true => simp at h
    | false =>
      have := ih (by simpa using h)
      simp only [List.length_cons, zeros_succ]
      rw [← this]

/-- a word of weight ≤ 1 is zero or a unit vector -/
theorem weight_le_one (x : Bits) (h : weight x ≤ 1) :
    x = zeros x.length ∨ ∃ i, i < x.length ∧ x = unit x.length i := by
  induction x with
  | nil => left; rfl
  | cons b xs ih =>
    rw [weight_cons] at h
    cases b with
    | true =>
      right
      have h0 : weight xs = 0 := by simp at h; omega
      exact ⟨0, by simp, by simp only [List.length_cons, unit]; rw [← eq_zeros_of_weight_zero xs h0]⟩
    | false =>
      rcases ih (by simpa using h) with h0 | ⟨i, hi, hu⟩
      · left; simp only [List.length_cons, zeros_succ]; rw [← h0]
      · right
        exact ⟨i + 1, by simpa using hi, by simp only [List.length_cons, unit]; rw [← hu]⟩

/-- a word with all bits clear except possibly bit `r` is zero or the unit vector `r` -/
theorem single_support (x : Bits) (r : Nat) (h : ∀ i, i ≠ r → getBit x i = false) : weight x ≤ 1 := by
  induction x generalizing r with
  | nil => simp [weight]
  | cons b xs ih =>
    rw [weight_cons]
    cases r with
    | zero =>
      have : weight xs = 0 := by
        have := ih (xs.length) (fun i hi => by
          have := h (i + 1) (by omega)
          rwa [getBit_cons_succ] at this)
        -- all bits of xs are clear
        have hz : xs = zeros xs.length := by
          apply List.ext_getElem
          · simp
          · intro i h1 h2
            have := h (i + 1) (by omega)
            rw [getBit_cons_succ, getBit_eq_getElem _ _ h1] at this
            simp [this, zeros]
        rw [hz, weight_zeros]
      cases b <;> simp [this]
    | succ r =>
      have hb : b = false := by simpa using h 0 (by omega)
      have := ih r (fun i hi => by
        have := h (i + 1) (by omega)
        rwa [getBit_cons_succ] at this)
      subst hb
      simpa using this

theorem correct_of_weight_le_one {C : Code} (h : C.WFProp) (hc : C.colsOk = true) (x : Bits)
    (hx : x.length = C.n) (hw : weight x ≤ 1) : C.correct x = zeros C.n := by
  rcases weight_le_one x hw with h0 | ⟨i, hi, hu⟩
  · rw [h0, hx]; exact correct_zeros h
  · rw [hu, hx]; exact correct_unit h hc i (by rwa [hx] at hi)

theorem le_sum_of_mem {l : List Nat} {x : Nat} (h : x ∈ l) : x ≤ l.sum := by
  induction l with
  | nil => simp at h
  | cons y ys ih =>
    simp only [List.mem_cons] at h
    simp only [List.sum_cons]
    rcases h with rfl | h
    · omega
    · have := ih h; omega

/-- weights summing to at most 2: all are ≤ 1, or all but one are 0 -/
theorem sum_le_two_split (ws : List Nat) (h : ws.sum ≤ 2) :
    (∀ w ∈ ws, w ≤ 1) ∨ ∃ r, ∀ i, i ≠ r → ws.getD i 0 = 0 := by
  induction ws with
  | nil => left; simp
  | cons w ws ih =>
    simp only [List.sum_cons] at h
    by_cases h2 : 2 ≤ w
    · right
      refine ⟨0, fun i hi => ?_⟩
      cases i with
      | zero => omega
      | succ i =>
        rw [List.getD_cons_succ, List.getD_eq_getElem?_getD]
        cases hg : ws[i]? with
        | none => rfl
        | some v =>
          have := le_sum_of_mem (List.mem_of_getElem? hg)
          simp only [Option.getD_some]; omega
    · rcases ih (by omega) with hall | ⟨r, hr⟩
      · left
        intro x hx
        simp only [List.mem_cons] at hx
        rcases hx with rfl | hx
        · omega
        · exact hall x hx
      · by_cases h0 : w = 0
        · right
          refine ⟨r + 1, fun i hi => ?_⟩
          cases i with
          | zero => simpa using h0
          | succ i => simpa using hr i (by omega)
        · left
          -- w = 1, the rest sums to ≤ 1
          intro x hx
          simp only [List.mem_cons] at hx
          rcases hx with rfl | hx
          · omega
          · have := le_sum_of_mem hx; omega

/-- reading a word through pairwise distinct positions cannot increase its weight -/
theorem weight_gather_le (tbl : List Nat) (e : Bits) (hn : tbl.Nodup) :
    weight (gather tbl e) ≤ weight e := by
  have key : ∀ l : List Nat, weight (gather l e) = (l.filter (getBit e)).length := by
    intro l
    simp only [weight, gather, List.filter_map, List.length_map]
    congr 1
  rw [key]
  have hw : weight e = ((List.range e.length).filter (getBit e)).length := by
    rw [← key, Bptc.gather_range]
  rw [hw]
  apply List.Nodup.length_le_of_subset (List.Nodup.sublist List.filter_sublist hn)
  intro t ht
  simp only [List.mem_filter, List.mem_range] at ht ⊢
  refine ⟨?_, ht.2⟩
  by_cases hlt : t < e.length
  · exact hlt
  · rw [getBit_of_le e t (by omega)] at ht
    simp at ht

namespace Bptc
open Dmr.Gen

/-! ### the passes on code word ⊕ error -/

theorem blockMap_length (idxs : List (List Nat)) (f : Bits → Bits)
    (hf : ∀ b, (f b).length = b.length) (t : Bits) :
    (blockMap idxs f t).length = idxs.flatten.length := by
  induction idxs with
  | nil => rfl
  | cons ix rest ih =>
    simp only [blockMap, List.flatMap_cons, List.length_append, List.flatten_cons] at ih ⊢
    rw [ih, hf, gather_length]

theorem blockMap_correct_xor (C : Code) (idxs : List (List Nat)) (T E : Bits) (hTE : T.length = E.length)
    (hix : ∀ ix ∈ idxs, C.syndrome (gather ix T) = zeros C.H.length) :
    blockMap idxs C.correct (xorBits T E)
      = xorBits (gather idxs.flatten T) (blockMap idxs C.correct E) := by
  induction idxs with
  | nil => simp [blockMap, gather]
  | cons ix rest ih =>
    have ih' := ih (fun x hx => hix x (by simp [hx]))
    simp only [blockMap, List.flatMap_cons, List.flatten_cons] at ih' ⊢
    rw [ih', gather_append, gather_xor _ _ _ hTE,
      correct_xor_codeword C _ _ (by simp) (hix ix (by simp)),
      xorBits_append _ _ _ _ (by rw [correct_length]; simp)]

/-- decidable facts about the index lists of the model -/
def idxOk : Bool :=
  rowIdx.flatten == List.range 195
  && symComp (trIdx.map some) (colIdx.flatten.map some) == (List.range 195).map some

theorem rowIdx_flatten (h : idxOk = true) : rowIdx.flatten = List.range 195 := by
  simp only [idxOk, Bool.and_eq_true, beq_iff_eq] at h; exact h.1

theorem gather_tr_cols (h : idxOk = true) (T : Bits) (hT : T.length = 195) :
    gather trIdx (gather colIdx.flatten T) = T := by
  simp only [idxOk, Bool.and_eq_true, beq_iff_eq] at h
  rw [← realize_some colIdx.flatten, gather_realize, h.2, realize_some, ← hT, gather_range]

/-- rows and columns of `T` are code words -/
def IsProduct (T : Bits) : Prop :=
  T.length = 195
  ∧ (∀ rv ∈ rowsOf T, h15113.syndrome rv = zeros 4)
  ∧ (∀ cv ∈ colsOf T, h1393.syndrome cv = zeros 4)

theorem repairTable_xor (hi : idxOk = true) (T E : Bits) (hT : IsProduct T) (hE : E.length = 195) :
    repairTable (xorBits T E) = xorBits T (repairTable E) := by
  obtain ⟨hTl, hrows, hcols⟩ := hT
  unfold repairTable mapCols mapRows
  have h1 := blockMap_correct_xor h15113 rowIdx T E (by rw [hTl, hE]) (by
    intro ix hix
    exact hrows _ (by simp only [rowsOf, List.mem_map]; exact ⟨ix, hix, rfl⟩))
  rw [rowIdx_flatten hi, ← hTl, gather_range] at h1
  rw [h1]
  have hE1 : (blockMap rowIdx h15113.correct E).length = 195 := by
    rw [blockMap_length _ _ (correct_length _), rowIdx_flatten hi]; simp
  have h2 := blockMap_correct_xor h1393 colIdx T (blockMap rowIdx h15113.correct E)
    (by rw [hTl, hE1]) (by
    intro ix hix
    exact hcols _ (by simp only [colsOf, List.mem_map]; exact ⟨ix, hix, rfl⟩))
  rw [h2, gather_xor _ _ _ (by rw [gather_length, blockMap_length _ _ (correct_length _)]),
    gather_tr_cols hi T hTl]

/-! ### error tables of weight ≤ 2 are removed -/

theorem rowsOf_repairTable (E : Bits) :
    rowsOf (repairTable E)
      = tr 13 ((tr 15 ((rowsOf E).map h15113.correct)).map h1393.correct) := by
  unfold repairTable
  rw [rowsOf_mapCols _ (fun b hb => by rw [correct_length, hb]),
    rowsOf_mapRows _ (fun b hb => by rw [correct_length, hb])]

theorem repairTable_le2 (hi : idxOk = true) (h15 : h15113.WFProp) (h13 : h1393.WFProp)
    (c15 : h15113.colsOk = true) (c13 : h1393.colsOk = true)
    (E : Bits) (hE : E.length = 195) (hw : weight E ≤ 2) : repairTable E = zeros 195 := by
  have hRshape := rowsOf_shape E
  have hflat : (rowsOf E).flatten = E := flatten_rowsOf E hE (rowIdx_flatten hi)
  -- after the row pass all rows but (at most) one are zero
  have hsplit : ∃ r, ∀ i, i ≠ r → i < 13 →
      ((rowsOf E).map h15113.correct).getD i [] = zeros 15 := by
    have hsum : ((rowsOf E).map weight).sum ≤ 2 := by rw [← weight_flatten, hflat]; exact hw
    rcases sum_le_two_split _ hsum with hall | ⟨r, hr⟩
    · refine ⟨0, fun i _ hi13 => ?_⟩
      have hil : i < (rowsOf E).length := by rw [hRshape.1]; exact hi13
      rw [List.getD_eq_getElem?_getD, List.getElem?_map, List.getElem?_eq_getElem hil]
      simp only [Option.map_some, Option.getD_some]
      exact correct_of_weight_le_one h15 c15 _ (hRshape.2 _ (List.getElem_mem hil))
        (hall _ (List.mem_map_of_mem (List.getElem_mem hil)))
    · refine ⟨r, fun i hir hi13 => ?_⟩
      have hil : i < (rowsOf E).length := by rw [hRshape.1]; exact hi13
      have h0 := hr i hir
      rw [List.getD_eq_getElem?_getD, List.getElem?_map, List.getElem?_eq_getElem hil] at h0
      simp only [Option.map_some, Option.getD_some] at h0
      rw [List.getD_eq_getElem?_getD, List.getElem?_map, List.getElem?_eq_getElem hil]
      simp only [Option.map_some, Option.getD_some]
      exact correct_of_weight_le_one h15 c15 _ (hRshape.2 _ (List.getElem_mem hil)) (by omega)
  obtain ⟨r, hr⟩ := hsplit
  -- so every column holds at most one error and is cleared by the column pass
  have hcols : ∀ cv ∈ tr 15 ((rowsOf E).map h15113.correct), h1393.correct cv = zeros 13 := by
    intro cv hcv
    simp only [tr, List.mem_map, List.mem_range] at hcv
    obtain ⟨c, _, rfl⟩ := hcv
    apply correct_of_weight_le_one h13 c13 _ (by simp [col, hRshape.1]; rfl)
    apply single_support _ r
    intro i hir
    rw [getBit_col]
    by_cases hi13 : i < 13
    · rw [hr i hir hi13, getBit_zeros]
    · rw [List.getD_eq_getElem?_getD, List.getElem?_eq_none (by simp [hRshape.1]; omega)]
      simp
  have hmap : (tr 15 ((rowsOf E).map h15113.correct)).map h1393.correct
      = List.replicate 15 (zeros 13) := by
    rw [List.eq_replicate_iff]
    refine ⟨by simp [tr], ?_⟩
    intro b hb
    simp only [List.mem_map] at hb
    obtain ⟨cv, hcv, rfl⟩ := hb
    exact hcols cv hcv
  have hrows : rowsOf (repairTable E) = List.replicate 13 (zeros 15) := by
    rw [rowsOf_repairTable, hmap]; decide +kernel
  have hlen : (repairTable E).length = 195 := mapCols_length _ _
  rw [← flatten_rowsOf (repairTable E) hlen (rowIdx_flatten hi), hrows]
  decide +kernel

end Bptc
end Dmr
